/-
C04 — helper lemmas: the invariant of the REST two-thread system and its preservation by every step.
-/
import GoZero.C04.Spec
namespace GoZero.C04

/-- the property's quantified handler behaviours: status / headers / body chunks / return / panic — no `Flush` -/
def NoFlush (script : List Act) : Prop := ∀ a ∈ script, a ≠ Act.flush

/-- one action of the handler run on its own (context not ended): the real writer (only `Flush` touches it) and the
timeoutWriter -/
def seqStep (p : Rec × TW) (a : Act) : Rec × TW :=
  match a with
  | .flush => flushNow p.1 p.2
  | a => (p.1, (twStep p.2 a).1)

def runF (p : Rec × TW) (acts : List Act) : Rec × TW := acts.foldl seqStep p

/-- the handler's first actions run on a fresh request -/
def runI (acts : List Act) : Rec × TW := runF (Rec.init, TW.init) acts

/-- the real writer as a function of where ServeHTTP's goroutine is: what the work itself has flushed (`wH`), plus the
part of the timeout response written so far -/
def wOfPc (reason : List Nat) (s : St) : Prop :=
  match s.pc with
  | .select => s.w = (runI (s.script.take s.hpc)).1
  | .t1 _ => s.w = (runI (s.script.take s.hpc)).1
  | .panicked _ => s.w = (runI (s.script.take s.hpc)).1
  | .t2 k => s.w = (runI (s.script.take s.hpc)).1.writeHeader (statusOf k)
  | .t3 k => s.w = ((runI (s.script.take s.hpc)).1.writeHeader (statusOf k)).write reason
  | .retTimeout k => ∃ j, j ≤ s.hpc ∧ s.w = ((runI (s.script.take j)).1.writeHeader (statusOf k)).write reason
  | .retDone => s.w = doneBranch (runI s.script).1 (runI s.script).2

def muOfPc (s : St) : Prop :=
  match s.pc with
  | .t1 _ => s.mu = true
  | .t2 _ => s.mu = true
  | .t3 _ => s.mu = true
  | _ => s.mu = false

def timedOutOfPc (s : St) : Prop :=
  match s.pc with
  | .retTimeout _ => s.tw.timedOut = true
  | _ => s.tw.timedOut = false

structure Inv (reason : List Nat) (script : List Act) (s : St) : Prop where
  scr : s.script = script
  hpc_le : s.hpc ≤ s.script.length
  tw_run : s.tw.timedOut = false → s.tw = (runI (s.script.take s.hpc)).2
  done_fin : s.done = true ↔ s.hst = .finished
  fin_all : s.hst = .finished → s.hpc = s.script.length
  pan : ∀ v, s.panicChan = some v → s.hst = .panicked
  rd_fin : s.pc = .retDone → s.hst = .finished
  pp_pan : ∀ v, s.pc = .panicked v → s.hst = .panicked
  w_pc : wOfPc reason s
  mu_pc : muOfPc s
  to_pc : timedOutOfPc s

theorem twStep_timedOut (t : TW) (a : Act) : (twStep t a).1.timedOut = t.timedOut := by
  cases a <;> simp only [twStep, TW.writeHeaderLocked] <;> (repeat' split) <;> rfl

theorem runTW_snoc (t : TW) (l : List Act) (a : Act) : runTW t (l ++ [a]) = (twStep (runTW t l) a).1 := by
  simp [runTW, List.foldl_append]

theorem runI_snoc (l : List Act) (a : Act) : runI (l ++ [a]) = seqStep (runI l) a := by
  simp [runI, runF, List.foldl_append]

theorem seqStep_nonflush (p : Rec × TW) (a : Act) (ha : a ≠ .flush) : seqStep p a = (p.1, (twStep p.2 a).1) := by
  cases a <;> simp_all [seqStep]

theorem take_succ_of_get {l : List Act} {i : Nat} {a : Act} (h : l[i]? = some a) :
    l.take (i + 1) = l.take i ++ [a] := by
  rw [List.take_add_one, h]; rfl

theorem lt_of_get {l : List Act} {i : Nat} {a : Act} (h : l[i]? = some a) : i < l.length := by
  have := List.getElem?_eq_some_iff.mp h
  exact this.1

theorem mem_of_get {l : List Act} {i : Nat} {a : Act} (h : l[i]? = some a) : a ∈ l :=
  List.mem_of_getElem? h

theorem inv_init (reason : List Nat) (script : List Act) : Inv reason script (St.init script) := by
  refine ⟨rfl, Nat.zero_le _, ?_, ?_, ?_, ?_, ?_, ?_, ?_, ?_, ?_⟩ <;>
    simp [St.init, wOfPc, muOfPc, timedOutOfPc, runI, runF, TW.init, Rec.init]

/-- the handler moves on by one action that does not touch the real writer: `tw` becomes `tw'` -/
theorem inv_move {reason : List Nat} {script : List Act} {s : St} (hi : Inv reason script s)
    {a : Act} (hg : s.script[s.hpc]? = some a) (r : Res) (tw' : TW)
    (hto : tw'.timedOut = s.tw.timedOut)
    (hrun : s.tw.timedOut = false → runI (s.script.take (s.hpc + 1)) = ((runI (s.script.take s.hpc)).1, tw'))
    (hfr : s.tw.timedOut = true → True) :
    Inv reason script { s with tw := tw', hpc := s.hpc + 1, log := s.log ++ [r] } := by
  obtain ⟨h1, h2, h3, h4, h5, h6, hrd, hpp, h7, h8, h9⟩ := hi
  have hlt := lt_of_get hg
  refine ⟨h1, hlt, ?_, h4, ?_, h6, hrd, hpp, ?_, ?_, ?_⟩
  · intro ht
    simp only [] at ht ⊢
    rw [hto] at ht
    rw [hrun ht]
  · intro hf
    have := h5 hf
    simp only [] at this ⊢
    omega
  · -- the real writer: untouched by this action
    simp only [timedOutOfPc] at h9
    simp only [wOfPc] at h7 ⊢
    split at h7 <;> rename_i hpc <;> simp only [hpc] at h9 ⊢
    · rw [hrun h9]; exact h7
    · rw [hrun h9]; exact h7
    · rw [hrun h9]; exact h7
    · rw [hrun h9]; exact h7
    · rw [hrun h9]; exact h7
    · obtain ⟨j, hj, hw⟩ := h7
      exact ⟨j, by omega, hw⟩
    · exact h7
  · simpa [muOfPc] using h8
  · simp only [timedOutOfPc, hto] at h9 ⊢
    exact h9

/-- a handler step that only replaces `tw` by `twStep`'s result (same `timedOut`) and moves `hpc` on -/
theorem inv_advance {reason : List Nat} {script : List Act} {s : St} (hi : Inv reason script s)
    {a : Act} (hg : s.script[s.hpc]? = some a) (ha : a ≠ .flush) (r : Res) :
    Inv reason script { s with tw := (twStep s.tw a).1, hpc := s.hpc + 1, log := s.log ++ [r] } := by
  refine inv_move hi hg r _ (twStep_timedOut _ _) ?_ (fun _ => trivial)
  intro hto
  rw [take_succ_of_get hg, runI_snoc, seqStep_nonflush _ _ ha, ← hi.tw_run hto]

theorem inv_hpanic {reason : List Nat} {script : List Act} {s : St} (hi : Inv reason script s)
    (hr : s.hst = .running) (v : Nat) :
    Inv reason script { s with hst := .panicked, panicChan := some v, log := s.log ++ [.panicked v] } := by
  obtain ⟨h1, h2, h3, h4, h5, h6, hrd, hpp, h7, h8, h9⟩ := hi
  refine ⟨h1, h2, h3, ?_, ?_, ?_, ?_, ?_, ?_, ?_, ?_⟩
  · simp only []
    constructor
    · intro hd; rw [h4.mp hd] at hr; cases hr
    · intro hd; cases hd
  · intro hf; cases hf
  · intro _ _; rfl
  · intro hpc; have := hrd hpc; rw [hr] at this; cases this
  · intro _ _; rfl
  · simpa [wOfPc] using h7
  · simpa [muOfPc] using h8
  · simpa [timedOutOfPc] using h9

theorem inv_lockedAct {reason : List Nat} {script : List Act} {s : St} (hi : Inv reason script s)
    (hr : s.hst = .running) {a : Act} (hg : s.script[s.hpc]? = some a) (ha : a ≠ .flush) :
    Inv reason script (lockedAct s a) := by
  unfold lockedAct
  split
  · exact inv_hpanic hi hr _
  · exact inv_advance hi hg ha _

/-- while the handler is running and neither the lock is held nor the timeout has struck, ServeHTTP sits in its select -/
theorem pc_select_of_running {reason : List Nat} {script : List Act} {s : St} (hi : Inv reason script s)
    (hr : s.hst = .running) (hmu : s.mu = false) (hto : s.tw.timedOut = false) : s.pc = .select := by
  have h8 := hi.mu_pc
  have h9 := hi.to_pc
  have hrd := hi.rd_fin
  have hpp := hi.pp_pan
  unfold muOfPc at h8
  unfold timedOutOfPc at h9
  cases hpc : s.pc with
  | select => rfl
  | t1 k => rw [hpc] at h8; simp [hmu] at h8
  | t2 k => rw [hpc] at h8; simp [hmu] at h8
  | t3 k => rw [hpc] at h8; simp [hmu] at h8
  | retDone => have := hrd hpc; rw [hr] at this; cases this
  | retTimeout k => rw [hpc] at h9; simp [hto] at h9
  | panicked v => have := hpp v hpc; rw [hr] at this; cases this

theorem inv_hstep {reason : List Nat} {script : List Act} {s s' : St}
    (hi : Inv reason script s) (h : hstep s = some s') : Inv reason script s' := by
  unfold hstep at h
  split at h
  · cases h
  · cases h
  · rename_i hr
    split at h
    · -- the handler returns: close(done)
      rename_i hnone
      cases h
      obtain ⟨h1, h2, h3, h4, h5, h6, hrd, hpp, h7, h8, h9⟩ := hi
      have hlen : s.script.length ≤ s.hpc := by
        rcases Nat.lt_or_ge s.hpc s.script.length with hlt | hge
        · rw [List.getElem?_eq_getElem hlt] at hnone; cases hnone
        · exact hge
      refine ⟨h1, h2, h3, ?_, ?_, ?_, ?_, ?_, ?_, ?_, ?_⟩
      · simp
      · intro _; simp only []; omega
      · intro v hv; have := h6 v hv; rw [hr] at this; cases this
      · intro _; rfl
      · intro v hv; have := hpp v hv; rw [hr] at this; cases this
      · simpa [wOfPc] using h7
      · simpa [muOfPc] using h8
      · simpa [timedOutOfPc] using h9
    · -- Flush: waits for the lock; nothing once timed out; else the buffer goes to the real writer
      rename_i hg
      split at h
      · cases h
      · rename_i hmu
        have hmu' : s.mu = false := by simpa using hmu
        split at h
        · rename_i hto
          cases h
          refine inv_move hi hg .ok s.tw rfl ?_ (fun _ => trivial)
          intro hf; rw [hto] at hf; cases hf
        · rename_i hto
          have hto' : s.tw.timedOut = false := by simpa using hto
          cases h
          have hsel := pc_select_of_running hi hr hmu' hto'
          obtain ⟨h1, h2, h3, h4, h5, h6, hrd, hpp, h7, h8, h9⟩ := hi
          have hw : s.w = (runI (s.script.take s.hpc)).1 := by simpa [wOfPc, hsel] using h7
          have htw := h3 hto'
          have hrun : runI (s.script.take (s.hpc + 1)) = flushNow s.w s.tw := by
            rw [take_succ_of_get hg, runI_snoc]
            show flushNow _ _ = _
            rw [← hw, ← htw]
          refine ⟨h1, lt_of_get hg, ?_, h4, ?_, h6, hrd, hpp, ?_, ?_, ?_⟩
          · intro _; simp only []; rw [hrun]
          · intro hf; simp only [] at hf; rw [hr] at hf; cases hf
          · simp only [wOfPc, hsel]; rw [hrun]
          · simpa [muOfPc] using h8
          · simp only [timedOutOfPc, hsel] at h9 ⊢
            show (flushNow s.w s.tw).2.timedOut = false
            simpa [flushNow] using h9
    · rename_i k v hg
      cases h
      exact inv_advance hi hg (by simp) _
    · rename_i v hg
      cases h
      exact inv_hpanic hi hr v
    · rename_i c hg
      split at h
      · cases h
      · cases h; exact inv_lockedAct hi hr hg (by simp)
    · rename_i b hg
      split at h
      · cases h
      · cases h; exact inv_lockedAct hi hr hg (by simp)

theorem inv_step {reason : List Nat} {script : List Act} {s s' : St} (l : Label)
    (hi : Inv reason script s) (h : step reason s l = some s') : Inv reason script s' := by
  cases l with
  | h => exact inv_hstep hi h
  | env k =>
    simp only [step] at h
    split at h
    · cases h
      obtain ⟨h1, h2, h3, h4, h5, h6, hrd, hpp, h7, h8, h9⟩ := hi
      exact ⟨h1, h2, h3, h4, h5, h6, hrd, hpp, by simpa [wOfPc] using h7, by simpa [muOfPc] using h8,
        by simpa [timedOutOfPc] using h9⟩
    · cases h
  | mPanic =>
    simp only [step] at h
    split at h
    · rename_i v hpc hpan
      cases h
      obtain ⟨h1, h2, h3, h4, h5, h6, hrd, hpp, h7, h8, h9⟩ := hi
      refine ⟨h1, h2, h3, h4, h5, ?_, ?_, ?_, ?_, ?_, ?_⟩
      · intro v hv; cases hv
      · intro hc; cases hc
      · intro v' _; exact h6 v hpan
      · simp only [wOfPc, hpc] at h7 ⊢; exact h7
      · simp only [muOfPc, hpc] at h8 ⊢; exact h8
      · simp only [timedOutOfPc, hpc] at h9 ⊢; exact h9
    · cases h
  | mDone =>
    simp only [step] at h
    split at h
    · rename_i hpc
      split at h
      · rename_i hd
        cases h
        obtain ⟨h1, h2, h3, h4, h5, h6, hrd, hpp, h7, h8, h9⟩ := hi
        have hfin := h4.mp hd
        have hall := h5 hfin
        have hto : s.tw.timedOut = false := by simpa [timedOutOfPc, hpc] using h9
        have htw := h3 hto
        rw [hall, List.take_length] at htw
        refine ⟨h1, h2, h3, h4, h5, h6, ?_, ?_, ?_, ?_, ?_⟩
        · intro _; exact hfin
        · intro v hc; cases hc
        · simp only [wOfPc, hpc] at h7 ⊢
          rw [hall, List.take_length] at h7
          rw [h7, htw]
        · simp only [muOfPc, hpc] at h8 ⊢; exact h8
        · simp only [timedOutOfPc, hpc] at h9 ⊢; exact h9
      · cases h
    · cases h
  | mTimeout =>
    simp only [step] at h
    split at h
    · rename_i k hpc hctx
      cases h
      obtain ⟨h1, h2, h3, h4, h5, h6, hrd, hpp, h7, h8, h9⟩ := hi
      refine ⟨h1, h2, h3, h4, h5, h6, ?_, ?_, ?_, ?_, ?_⟩
      · intro hc; cases hc
      · intro v hc; cases hc
      · simp only [wOfPc, hpc] at h7 ⊢; exact h7
      · simp only [muOfPc]
      · simp only [timedOutOfPc, hpc] at h9 ⊢; exact h9
    · cases h
  | mAdv =>
    simp only [step] at h
    split at h
    · rename_i k hpc
      cases h
      obtain ⟨h1, h2, h3, h4, h5, h6, hrd, hpp, h7, h8, h9⟩ := hi
      refine ⟨h1, h2, h3, h4, h5, h6, ?_, ?_, ?_, ?_, ?_⟩
      · intro hc; cases hc
      · intro v hc; cases hc
      · simp only [wOfPc, hpc] at h7 ⊢; rw [h7]
      · simp only [muOfPc, hpc] at h8 ⊢; exact h8
      · simp only [timedOutOfPc, hpc] at h9 ⊢; exact h9
    · rename_i k hpc
      cases h
      obtain ⟨h1, h2, h3, h4, h5, h6, hrd, hpp, h7, h8, h9⟩ := hi
      refine ⟨h1, h2, h3, h4, h5, h6, ?_, ?_, ?_, ?_, ?_⟩
      · intro hc; cases hc
      · intro v hc; cases hc
      · simp only [wOfPc, hpc] at h7 ⊢; rw [h7]
      · simp only [muOfPc, hpc] at h8 ⊢; exact h8
      · simp only [timedOutOfPc, hpc] at h9 ⊢; exact h9
    · rename_i k hpc
      cases h
      obtain ⟨h1, h2, h3, h4, h5, h6, hrd, hpp, h7, h8, h9⟩ := hi
      refine ⟨h1, h2, ?_, h4, h5, h6, ?_, ?_, ?_, ?_, ?_⟩
      · intro hto; cases hto
      · intro hc; cases hc
      · intro v hc; cases hc
      · simp only [wOfPc, hpc] at h7 ⊢; exact ⟨s.hpc, Nat.le_refl _, h7⟩
      · simp only [muOfPc]
      · simp only [timedOutOfPc]
    · cases h

theorem inv_reachable {reason : List Nat} {script : List Act} {s : St}
    (hr : Reachable reason script s) : Inv reason script s := by
  induction hr with
  | init => exact inv_init reason script
  | step l _ hs ih => exact inv_step l ih hs

/-- without `Flush` the handler never touches the real writer: the sequential run is `runTW` on the timeoutWriter -/
theorem runF_noFlush (p : Rec × TW) (l : List Act) (hnf : ∀ a ∈ l, a ≠ Act.flush) :
    runF p l = (p.1, runTW p.2 l) := by
  induction l generalizing p with
  | nil => rfl
  | cons a rest ih =>
    have ha : a ≠ Act.flush := hnf a (by simp)
    have hrest : ∀ b ∈ rest, b ≠ Act.flush := fun b hb => hnf b (List.mem_cons_of_mem _ hb)
    have e : runF p (a :: rest) = runF (seqStep p a) rest := rfl
    rw [e, ih _ hrest, seqStep_nonflush _ _ ha]
    rfl

theorem runI_noFlush (l : List Act) (hnf : ∀ a ∈ l, a ≠ Act.flush) : runI l = (Rec.init, runTW TW.init l) :=
  runF_noFlush _ l hnf

theorem noFlush_take {script : List Act} (hnf : NoFlush script) (j : Nat) : ∀ a ∈ script.take j, a ≠ Act.flush :=
  fun a ha => hnf a (List.mem_of_mem_take ha)

end GoZero.C04

namespace GoZero.C04

/-! ### the sequential run of a script is the abstract complete result -/

def keysNodup (h : Hdrs) : Prop := (h.map (·.1)).Nodup

theorem hget_nil (k : Nat) : hget [] k = none := rfl

theorem hget_cons (p : Nat × Nat) (ps : Hdrs) (k : Nat) :
    hget (p :: ps) k = if p.1 = k then some p.2 else hget ps k := by
  unfold hget
  by_cases h : p.1 = k
  · simp [List.find?, h]
  · have : (p.1 == k) = false := by simp [h]
    simp [List.find?, this, h]

theorem hget_append (a b : Hdrs) (k : Nat) :
    hget (a ++ b) k = match hget a k with | some v => some v | none => hget b k := by
  induction a with
  | nil => simp [hget_nil]
  | cons p ps ih =>
    simp only [List.cons_append, hget_cons]
    by_cases h : p.1 = k
    · simp [h]
    · simp [h, ih]

theorem hget_filter_ne (h : Hdrs) (k k' : Nat) :
    hget (h.filter (fun p => p.1 != k)) k' = if k' = k then none else hget h k' := by
  induction h with
  | nil => simp [hget_nil]
  | cons p ps ih =>
    by_cases hp : p.1 = k
    · have : (p.1 != k) = false := by simp [hp]
      simp only [List.filter, this, ih, hget_cons]
      by_cases hk : k' = k
      · simp [hk]
      · have : ¬ p.1 = k' := by omega
        simp [hk, this]
    · have : (p.1 != k) = true := by simp [hp]
      simp only [List.filter, this, hget_cons, ih]
      by_cases hk : k' = k
      · subst hk
        simp [hp]
      · simp [hk]

theorem hget_hset (h : Hdrs) (k v k' : Nat) :
    hget (hset h k v) k' = if k' = k then some v else hget h k' := by
  unfold hset
  rw [hget_append, hget_filter_ne]
  by_cases hk : k' = k
  · simp [hk, hget_cons]
  · have : ¬ k = k' := by omega
    simp only [hk, if_false, hget_cons, this, hget_nil]
    cases hget h k' <;> rfl

theorem hget_none_of_not_mem (h : Hdrs) (k : Nat) (hk : k ∉ h.map (·.1)) : hget h k = none := by
  induction h with
  | nil => rfl
  | cons p ps ih =>
    simp only [List.map_cons, List.mem_cons, not_or] at hk
    rw [hget_cons]
    have : ¬ p.1 = k := fun e => hk.1 e.symm
    simp [this, ih hk.2]

/-- copying a duplicate-free header map onto another one: keys of the source win -/
theorem hget_hmerge (d s : Hdrs) (hs : keysNodup s) (k : Nat) :
    hget (hmerge d s) k = match hget s k with | some v => some v | none => hget d k := by
  induction s generalizing d with
  | nil => simp [hmerge, hget_nil]
  | cons p ps ih =>
    have hnd : keysNodup ps := by
      unfold keysNodup at hs ⊢; simp only [List.map_cons, List.nodup_cons] at hs; exact hs.2
    have hnot : p.1 ∉ ps.map (·.1) := by
      unfold keysNodup at hs; simp only [List.map_cons, List.nodup_cons] at hs; exact hs.1
    have e : hmerge d (p :: ps) = hmerge (hset d p.1 p.2) ps := rfl
    rw [e, ih _ hnd, hget_cons, hget_hset]
    by_cases hk : p.1 = k
    · subst hk
      simp [hget_none_of_not_mem ps _ hnot]
    · have : ¬ k = p.1 := fun e => hk e.symm
      simp [hk, this]

theorem keysNodup_hset (h : Hdrs) (k v : Nat) (hh : keysNodup h) : keysNodup (hset h k v) := by
  unfold keysNodup hset at *
  rw [List.map_append, List.nodup_append]
  refine ⟨?_, by simp, ?_⟩
  · exact (List.Nodup.sublist (List.Sublist.map _ List.filter_sublist) hh)
  · intro a ha b hb
    simp only [List.map_cons, List.map_nil, List.mem_singleton] at hb
    subst hb
    simp only [List.mem_map, List.mem_filter] at ha
    obtain ⟨p, ⟨_, hp⟩, rfl⟩ := ha
    simpa using hp

/-- the header map of the timeoutWriter after a script: duplicate free, and `hget` is "last Set wins" -/
theorem runTW_keysNodup (t : TW) (s : List Act) (ht : keysNodup t.h) : keysNodup (runTW t s).h := by
  induction s generalizing t with
  | nil => exact ht
  | cons a rest ih =>
    have e : runTW t (a :: rest) = runTW (twStep t a).1 rest := rfl
    rw [e]
    apply ih
    cases a <;> simp only [twStep, TW.writeHeaderLocked] <;> (repeat' split) <;> first | exact ht | exact keysNodup_hset _ _ _ ht

def headerFrom (init : Option Nat) (script : List Act) (k : Nat) : Option Nat :=
  script.foldl (fun acc a => match a with
    | .setHeader k' v => if k' = k then some v else acc
    | _ => acc) init

theorem runTW_hget (t : TW) (s : List Act) (k : Nat) :
    hget (runTW t s).h k = headerFrom (hget t.h k) s k := by
  induction s generalizing t with
  | nil => rfl
  | cons a rest ih =>
    have e : runTW t (a :: rest) = runTW (twStep t a).1 rest := rfl
    rw [e, ih]
    unfold headerFrom
    simp only [List.foldl_cons]
    congr 1
    cases a <;> simp only [twStep, TW.writeHeaderLocked] <;> (repeat' split) <;> simp_all [hget_hset] <;> grind

theorem runTW_wbuf (t : TW) (s : List Act) (hto : t.timedOut = false) :
    (runTW t s).wbuf = t.wbuf ++ Spec.body s := by
  induction s generalizing t with
  | nil => simp [runTW, Spec.body]
  | cons a rest ih =>
    have e : runTW t (a :: rest) = runTW (twStep t a).1 rest := rfl
    rw [e, ih _ (by rw [twStep_timedOut]; exact hto)]
    cases a <;> simp only [twStep, TW.writeHeaderLocked, Spec.body, hto] <;> (repeat' split) <;> simp_all

theorem runTW_code_wrote (t : TW) (s : List Act) (hw : t.wroteHeader = true) (hto : t.timedOut = false) :
    (runTW t s).code = t.code := by
  induction s generalizing t with
  | nil => rfl
  | cons a rest ih =>
    have e : runTW t (a :: rest) = runTW (twStep t a).1 rest := rfl
    rw [e]
    cases a <;> simp only [twStep, TW.writeHeaderLocked, hw, hto] <;> (try simp) <;>
      first | exact ih _ hw hto | exact ih _ (by simp) (by simp)

theorem runTW_code (t : TW) (s : List Act) (hw : t.wroteHeader = false) (hto : t.timedOut = false)
    (hc : t.code = 200) (hcomp : Spec.completes s false = true) :
    (runTW t s).code = Spec.status s := by
  induction s generalizing t with
  | nil => simpa [runTW, Spec.status] using hc
  | cons a rest ih =>
    have e : runTW t (a :: rest) = runTW (twStep t a).1 rest := rfl
    rw [e]
    cases a with
    | setHeader k v =>
      simp only [Spec.completes, Spec.status] at hcomp ⊢
      exact ih _ (by simp [twStep, hw]) (by simp [twStep, hto]) (by simp [twStep, hc]) hcomp
    | writeHeader c =>
      simp only [Spec.completes, Spec.status, Bool.false_or, Bool.and_eq_true] at hcomp ⊢
      simp only [twStep, hw, hcomp.1, TW.writeHeaderLocked, hto]
      simp
      rw [runTW_code_wrote _ _ (by simp) (by simp)]
    | write b =>
      simp only [Spec.completes, Spec.status] at hcomp ⊢
      simp only [twStep, hw, TW.writeHeaderLocked, hto]
      simp
      rw [runTW_code_wrote _ _ (by simp) (by simp)]
    | flush =>
      simp only [Spec.completes, Spec.status] at hcomp ⊢
      exact ih _ (by simp [twStep, hw]) (by simp [twStep, hto]) (by simp [twStep, hc]) hcomp
    | panic v => simp [Spec.completes] at hcomp

theorem twStep_flushed (t : TW) (a : Act) : (twStep t a).1.flushed = t.flushed := by
  cases a <;> simp only [twStep, TW.writeHeaderLocked] <;> (repeat' split) <;> rfl

theorem runTW_flushed (t : TW) (s : List Act) : (runTW t s).flushed = t.flushed := by
  induction s generalizing t with
  | nil => rfl
  | cons a rest ih =>
    have e : runTW t (a :: rest) = runTW (twStep t a).1 rest := rfl
    rw [e, ih, twStep_flushed]

theorem doneBranch_init (t : TW) (hf : t.flushed = false) :
    (doneBranch Rec.init t).code = t.code ∧ (doneBranch Rec.init t).body = t.wbuf ∧
    (doneBranch Rec.init t).snap = some (hmerge [] t.h) := by
  unfold doneBranch Rec.write Rec.writeHeader Rec.init
  by_cases h : t.code = 200
  · simp [h, hf]
  · simp [h, hf]

end GoZero.C04

namespace GoZero.C04

theorem twStep_writeHeader_timedOut (t : TW) (c : Nat) (h : t.timedOut = true) :
    (twStep t (.writeHeader c)).1 = t := by
  simp only [twStep, TW.writeHeaderLocked, h]
  (repeat' split) <;> simp_all

theorem twStep_write_timedOut (t : TW) (b : List Nat) (h : t.timedOut = true) :
    twStep t (.write b) = (t, .errTimeout) := by
  simp [twStep, h]

theorem lockedAct_w_pc (s : St) (a : Act) : (lockedAct s a).w = s.w ∧ (lockedAct s a).pc = s.pc := by
  unfold lockedAct; split <;> exact ⟨rfl, rfl⟩

theorem lockedAct_tw (s : St) (a : Act) : (lockedAct s a).tw = s.tw ∨ (lockedAct s a).tw = (twStep s.tw a).1 := by
  unfold lockedAct; split
  · left; rfl
  · right; rfl

theorem lockedAct_write_timedOut (s : St) (b : List Nat) (h : s.tw.timedOut = true) :
    lockedAct s (.write b) = { s with hpc := s.hpc + 1, log := s.log ++ [.errTimeout] } := by
  unfold lockedAct
  rw [twStep_write_timedOut _ _ h]

end GoZero.C04
