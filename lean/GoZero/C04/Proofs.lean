/-
C04 — helper lemmas.
-/
import GoZero.C04.Spec
namespace GoZero.C04
end GoZero.C04
