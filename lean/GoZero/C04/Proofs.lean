/-
C04 — helper lemmas: the invariant of the REST two-thread system and its preservation by every step.
-/
import GoZero.C04.Spec
namespace GoZero.C04

/-- the property's quantified handler behaviours: status / headers / body chunks / return / panic — no `Flush` -/
def NoFlush (script : List Act) : Prop := ∀ a ∈ script, a ≠ Act.flush

/-- the real writer as a function of where ServeHTTP's goroutine is -/
def wOfPc (reason : List Nat) (s : St) : Prop :=
  match s.pc with
  | .select => s.w = Rec.init
  | .t1 _ => s.w = Rec.init
  | .panicked _ => s.w = Rec.init
  | .t2 k => s.w = Rec.init.writeHeader (statusOf k)
  | .t3 k => s.w = timeoutResp reason k
  | .retTimeout k => s.w = timeoutResp reason k
  | .retDone => s.w = doneBranch Rec.init (runTW TW.init s.script)

def muOfPc (s : St) : Prop :=
  match s.pc with
  | .t1 _ => s.mu = true
  | .t2 _ => s.mu = true
  | .t3 _ => s.mu = true
  | _ => s.mu = false

def timedOutOfPc (s : St) : Prop :=
  match s.pc with
  | .retTimeout _ => s.tw.timedOut = true
  | _ => s.tw.timedOut = false

structure Inv (reason : List Nat) (script : List Act) (s : St) : Prop where
  scr : s.script = script
  hpc_le : s.hpc ≤ s.script.length
  tw_run : s.tw.timedOut = false → s.tw = runTW TW.init (s.script.take s.hpc)
  done_fin : s.done = true ↔ s.hst = .finished
  fin_all : s.hst = .finished → s.hpc = s.script.length
  pan : ∀ v, s.panicChan = some v → s.hst = .panicked
  w_pc : wOfPc reason s
  mu_pc : muOfPc s
  to_pc : timedOutOfPc s

theorem twStep_timedOut (t : TW) (a : Act) : (twStep t a).1.timedOut = t.timedOut := by
  cases a <;> simp only [twStep, TW.writeHeaderLocked] <;> (repeat' split) <;> rfl

theorem runTW_snoc (t : TW) (l : List Act) (a : Act) : runTW t (l ++ [a]) = (twStep (runTW t l) a).1 := by
  simp [runTW, List.foldl_append]

theorem take_succ_of_get {l : List Act} {i : Nat} {a : Act} (h : l[i]? = some a) :
    l.take (i + 1) = l.take i ++ [a] := by
  rw [List.take_add_one, h]; rfl

theorem lt_of_get {l : List Act} {i : Nat} {a : Act} (h : l[i]? = some a) : i < l.length := by
  have := List.getElem?_eq_some_iff.mp h
  exact this.1

theorem mem_of_get {l : List Act} {i : Nat} {a : Act} (h : l[i]? = some a) : a ∈ l :=
  List.mem_of_getElem? h

theorem inv_init (reason : List Nat) (script : List Act) : Inv reason script (St.init script) := by
  refine ⟨rfl, Nat.zero_le _, ?_, ?_, ?_, ?_, ?_, ?_, ?_⟩ <;> simp [St.init, wOfPc, muOfPc, timedOutOfPc, runTW, TW.init, Rec.init]

/-- a handler step that only replaces `tw` by `twStep`'s result (same `timedOut`) and moves `hpc` on -/
theorem inv_advance {reason : List Nat} {script : List Act} {s : St} (hi : Inv reason script s)
    {a : Act} (hg : s.script[s.hpc]? = some a) (r : Res) :
    Inv reason script { s with tw := (twStep s.tw a).1, hpc := s.hpc + 1, log := s.log ++ [r] } := by
  obtain ⟨h1, h2, h3, h4, h5, h6, h7, h8, h9⟩ := hi
  have hlt := lt_of_get hg
  refine ⟨h1, hlt, ?_, h4, ?_, h6, ?_, ?_, ?_⟩
  · intro hto
    simp only [twStep_timedOut] at hto
    simp only []
    rw [take_succ_of_get hg, runTW_snoc, ← h3 hto]
  · intro hf
    have := h5 hf
    simp only [] at this ⊢
    omega
  · simpa [wOfPc] using h7
  · simpa [muOfPc] using h8
  · simp only [timedOutOfPc, twStep_timedOut] at h9 ⊢
    exact h9

theorem inv_hpanic {reason : List Nat} {script : List Act} {s : St} (hi : Inv reason script s)
    (hr : s.hst = .running) (v : Nat) :
    Inv reason script { s with hst := .panicked, panicChan := some v, log := s.log ++ [.panicked v] } := by
  obtain ⟨h1, h2, h3, h4, h5, h6, h7, h8, h9⟩ := hi
  refine ⟨h1, h2, h3, ?_, ?_, ?_, ?_, ?_, ?_⟩
  · simp only []
    constructor
    · intro hd; rw [h4.mp hd] at hr; cases hr
    · intro hd; cases hd
  · intro hf; cases hf
  · intro _ _; rfl
  · simpa [wOfPc] using h7
  · simpa [muOfPc] using h8
  · simpa [timedOutOfPc] using h9

theorem inv_lockedAct {reason : List Nat} {script : List Act} {s : St} (hi : Inv reason script s)
    (hr : s.hst = .running) {a : Act} (hg : s.script[s.hpc]? = some a) :
    Inv reason script (lockedAct s a) := by
  unfold lockedAct
  split
  · exact inv_hpanic hi hr _
  · exact inv_advance hi hg _

theorem inv_hstep {reason : List Nat} {script : List Act} (hnf : NoFlush script) {s s' : St}
    (hi : Inv reason script s) (h : hstep s = some s') : Inv reason script s' := by
  unfold hstep at h
  split at h
  · cases h
  · cases h
  · rename_i hr
    split at h
    · -- the handler returns: close(done)
      rename_i hnone
      cases h
      obtain ⟨h1, h2, h3, h4, h5, h6, h7, h8, h9⟩ := hi
      have hlen : s.script.length ≤ s.hpc := by
        rcases Nat.lt_or_ge s.hpc s.script.length with hlt | hge
        · rw [List.getElem?_eq_getElem hlt] at hnone; cases hnone
        · exact hge
      refine ⟨h1, h2, h3, ?_, ?_, ?_, ?_, ?_, ?_⟩
      · simp
      · intro _; simp only []; omega
      · intro v hv; have := h6 v hv; rw [hr] at this; cases this
      · simpa [wOfPc] using h7
      · simpa [muOfPc] using h8
      · simpa [timedOutOfPc] using h9
    · -- flush: excluded
      rename_i hg
      exact absurd rfl (hnf _ (hi.scr ▸ mem_of_get hg))
    · rename_i k v hg
      cases h
      exact inv_advance hi hg _
    · rename_i v hg
      cases h
      exact inv_hpanic hi hr v
    · rename_i c hg
      split at h
      · cases h
      · cases h; exact inv_lockedAct hi hr hg
    · rename_i b hg
      split at h
      · cases h
      · cases h; exact inv_lockedAct hi hr hg

theorem inv_step {reason : List Nat} {script : List Act} (hnf : NoFlush script) {s s' : St} (l : Label)
    (hi : Inv reason script s) (h : step reason s l = some s') : Inv reason script s' := by
  cases l with
  | h => exact inv_hstep hnf hi h
  | env k =>
    simp only [step] at h
    split at h
    · cases h
      obtain ⟨h1, h2, h3, h4, h5, h6, h7, h8, h9⟩ := hi
      exact ⟨h1, h2, h3, h4, h5, h6, by simpa [wOfPc] using h7, by simpa [muOfPc] using h8,
        by simpa [timedOutOfPc] using h9⟩
    · cases h
  | mPanic =>
    simp only [step] at h
    split at h
    · rename_i v hpc hpan
      cases h
      obtain ⟨h1, h2, h3, h4, h5, h6, h7, h8, h9⟩ := hi
      refine ⟨h1, h2, h3, h4, h5, ?_, ?_, ?_, ?_⟩
      · intro v hv; cases hv
      · simp only [wOfPc, hpc] at h7 ⊢; exact h7
      · simp only [muOfPc, hpc] at h8 ⊢; exact h8
      · simp only [timedOutOfPc, hpc] at h9 ⊢; exact h9
    · cases h
  | mDone =>
    simp only [step] at h
    split at h
    · rename_i hpc
      split at h
      · rename_i hd
        cases h
        obtain ⟨h1, h2, h3, h4, h5, h6, h7, h8, h9⟩ := hi
        have hfin := h4.mp hd
        have hall := h5 hfin
        have hto : s.tw.timedOut = false := by simpa [timedOutOfPc, hpc] using h9
        have htw := h3 hto
        rw [hall, List.take_length] at htw
        refine ⟨h1, h2, h3, h4, h5, h6, ?_, ?_, ?_⟩
        · simp only [wOfPc, hpc] at h7 ⊢
          rw [h7, htw]
        · simp only [muOfPc, hpc] at h8 ⊢; exact h8
        · simp only [timedOutOfPc, hpc] at h9 ⊢; exact h9
      · cases h
    · cases h
  | mTimeout =>
    simp only [step] at h
    split at h
    · rename_i k hpc hctx
      cases h
      obtain ⟨h1, h2, h3, h4, h5, h6, h7, h8, h9⟩ := hi
      refine ⟨h1, h2, h3, h4, h5, h6, ?_, ?_, ?_⟩
      · simp only [wOfPc, hpc] at h7 ⊢; exact h7
      · simp only [muOfPc]
      · simp only [timedOutOfPc, hpc] at h9 ⊢; exact h9
    · cases h
  | mAdv =>
    simp only [step] at h
    split at h
    · rename_i k hpc
      cases h
      obtain ⟨h1, h2, h3, h4, h5, h6, h7, h8, h9⟩ := hi
      refine ⟨h1, h2, h3, h4, h5, h6, ?_, ?_, ?_⟩
      · simp only [wOfPc, hpc] at h7 ⊢; rw [h7]
      · simp only [muOfPc, hpc] at h8 ⊢; exact h8
      · simp only [timedOutOfPc, hpc] at h9 ⊢; exact h9
    · rename_i k hpc
      cases h
      obtain ⟨h1, h2, h3, h4, h5, h6, h7, h8, h9⟩ := hi
      refine ⟨h1, h2, h3, h4, h5, h6, ?_, ?_, ?_⟩
      · simp only [wOfPc, hpc] at h7 ⊢; rw [h7]; rfl
      · simp only [muOfPc, hpc] at h8 ⊢; exact h8
      · simp only [timedOutOfPc, hpc] at h9 ⊢; exact h9
    · rename_i k hpc
      cases h
      obtain ⟨h1, h2, h3, h4, h5, h6, h7, h8, h9⟩ := hi
      refine ⟨h1, h2, ?_, h4, h5, h6, ?_, ?_, ?_⟩
      · intro hto; cases hto
      · simp only [wOfPc, hpc] at h7 ⊢; exact h7
      · simp only [muOfPc]
      · simp only [timedOutOfPc]
    · cases h

theorem inv_reachable {reason : List Nat} {script : List Act} (hnf : NoFlush script) {s : St}
    (hr : Reachable reason script s) : Inv reason script s := by
  induction hr with
  | init => exact inv_init reason script
  | step l _ hs ih => exact inv_step hnf l ih hs

end GoZero.C04

namespace GoZero.C04

/-! ### the sequential run of a script is the abstract complete result -/

def keysNodup (h : Hdrs) : Prop := (h.map (·.1)).Nodup

theorem hget_nil (k : Nat) : hget [] k = none := rfl

theorem hget_cons (p : Nat × Nat) (ps : Hdrs) (k : Nat) :
    hget (p :: ps) k = if p.1 = k then some p.2 else hget ps k := by
  unfold hget
  by_cases h : p.1 = k
  · simp [List.find?, h]
  · have : (p.1 == k) = false := by simp [h]
    simp [List.find?, this, h]

theorem hget_append (a b : Hdrs) (k : Nat) :
    hget (a ++ b) k = match hget a k with | some v => some v | none => hget b k := by
  induction a with
  | nil => simp [hget_nil]
  | cons p ps ih =>
    simp only [List.cons_append, hget_cons]
    by_cases h : p.1 = k
    · simp [h]
    · simp [h, ih]

theorem hget_filter_ne (h : Hdrs) (k k' : Nat) :
    hget (h.filter (fun p => p.1 != k)) k' = if k' = k then none else hget h k' := by
  induction h with
  | nil => simp [hget_nil]
  | cons p ps ih =>
    by_cases hp : p.1 = k
    · have : (p.1 != k) = false := by simp [hp]
      simp only [List.filter, this, ih, hget_cons]
      by_cases hk : k' = k
      · simp [hk]
      · have : ¬ p.1 = k' := by omega
        simp [hk, this]
    · have : (p.1 != k) = true := by simp [hp]
      simp only [List.filter, this, hget_cons, ih]
      by_cases hk : k' = k
      · subst hk
        simp [hp]
      · simp [hk]

theorem hget_hset (h : Hdrs) (k v k' : Nat) :
    hget (hset h k v) k' = if k' = k then some v else hget h k' := by
  unfold hset
  rw [hget_append, hget_filter_ne]
  by_cases hk : k' = k
  · simp [hk, hget_cons]
  · have : ¬ k = k' := by omega
    simp only [hk, if_false, hget_cons, this, hget_nil]
    cases hget h k' <;> rfl

theorem hget_none_of_not_mem (h : Hdrs) (k : Nat) (hk : k ∉ h.map (·.1)) : hget h k = none := by
  induction h with
  | nil => rfl
  | cons p ps ih =>
    simp only [List.map_cons, List.mem_cons, not_or] at hk
    rw [hget_cons]
    have : ¬ p.1 = k := fun e => hk.1 e.symm
    simp [this, ih hk.2]

/-- copying a duplicate-free header map onto another one: keys of the source win -/
theorem hget_hmerge (d s : Hdrs) (hs : keysNodup s) (k : Nat) :
    hget (hmerge d s) k = match hget s k with | some v => some v | none => hget d k := by
  induction s generalizing d with
  | nil => simp [hmerge, hget_nil]
  | cons p ps ih =>
    have hnd : keysNodup ps := by
      unfold keysNodup at hs ⊢; simp only [List.map_cons, List.nodup_cons] at hs; exact hs.2
    have hnot : p.1 ∉ ps.map (·.1) := by
      unfold keysNodup at hs; simp only [List.map_cons, List.nodup_cons] at hs; exact hs.1
    have e : hmerge d (p :: ps) = hmerge (hset d p.1 p.2) ps := rfl
    rw [e, ih _ hnd, hget_cons, hget_hset]
    by_cases hk : p.1 = k
    · subst hk
      simp [hget_none_of_not_mem ps _ hnot]
    · have : ¬ k = p.1 := fun e => hk e.symm
      simp [hk, this]

theorem keysNodup_hset (h : Hdrs) (k v : Nat) (hh : keysNodup h) : keysNodup (hset h k v) := by
  unfold keysNodup hset at *
  rw [List.map_append, List.nodup_append]
  refine ⟨?_, by simp, ?_⟩
  · exact (List.Nodup.sublist (List.Sublist.map _ List.filter_sublist) hh)
  · intro a ha b hb
    simp only [List.map_cons, List.map_nil, List.mem_singleton] at hb
    subst hb
    simp only [List.mem_map, List.mem_filter] at ha
    obtain ⟨p, ⟨_, hp⟩, rfl⟩ := ha
    simpa using hp

/-- the header map of the timeoutWriter after a script: duplicate free, and `hget` is "last Set wins" -/
theorem runTW_keysNodup (t : TW) (s : List Act) (ht : keysNodup t.h) : keysNodup (runTW t s).h := by
  induction s generalizing t with
  | nil => exact ht
  | cons a rest ih =>
    have e : runTW t (a :: rest) = runTW (twStep t a).1 rest := rfl
    rw [e]
    apply ih
    cases a <;> simp only [twStep, TW.writeHeaderLocked] <;> (repeat' split) <;> first | exact ht | exact keysNodup_hset _ _ _ ht

def headerFrom (init : Option Nat) (script : List Act) (k : Nat) : Option Nat :=
  script.foldl (fun acc a => match a with
    | .setHeader k' v => if k' = k then some v else acc
    | _ => acc) init

theorem runTW_hget (t : TW) (s : List Act) (k : Nat) :
    hget (runTW t s).h k = headerFrom (hget t.h k) s k := by
  induction s generalizing t with
  | nil => rfl
  | cons a rest ih =>
    have e : runTW t (a :: rest) = runTW (twStep t a).1 rest := rfl
    rw [e, ih]
    unfold headerFrom
    simp only [List.foldl_cons]
    congr 1
    cases a <;> simp only [twStep, TW.writeHeaderLocked] <;> (repeat' split) <;> simp_all [hget_hset] <;> grind

theorem runTW_wbuf (t : TW) (s : List Act) (hto : t.timedOut = false) :
    (runTW t s).wbuf = t.wbuf ++ Spec.body s := by
  induction s generalizing t with
  | nil => simp [runTW, Spec.body]
  | cons a rest ih =>
    have e : runTW t (a :: rest) = runTW (twStep t a).1 rest := rfl
    rw [e, ih _ (by rw [twStep_timedOut]; exact hto)]
    cases a <;> simp only [twStep, TW.writeHeaderLocked, Spec.body, hto] <;> (repeat' split) <;> simp_all

theorem runTW_code_wrote (t : TW) (s : List Act) (hw : t.wroteHeader = true) (hto : t.timedOut = false) :
    (runTW t s).code = t.code := by
  induction s generalizing t with
  | nil => rfl
  | cons a rest ih =>
    have e : runTW t (a :: rest) = runTW (twStep t a).1 rest := rfl
    rw [e]
    cases a <;> simp only [twStep, TW.writeHeaderLocked, hw, hto] <;> (try simp) <;>
      first | exact ih _ hw hto | exact ih _ (by simp) (by simp)

theorem runTW_code (t : TW) (s : List Act) (hw : t.wroteHeader = false) (hto : t.timedOut = false)
    (hc : t.code = 200) (hcomp : Spec.completes s false = true) :
    (runTW t s).code = Spec.status s := by
  induction s generalizing t with
  | nil => simpa [runTW, Spec.status] using hc
  | cons a rest ih =>
    have e : runTW t (a :: rest) = runTW (twStep t a).1 rest := rfl
    rw [e]
    cases a with
    | setHeader k v =>
      simp only [Spec.completes, Spec.status] at hcomp ⊢
      exact ih _ (by simp [twStep, hw]) (by simp [twStep, hto]) (by simp [twStep, hc]) hcomp
    | writeHeader c =>
      simp only [Spec.completes, Spec.status, Bool.false_or, Bool.and_eq_true] at hcomp ⊢
      simp only [twStep, hw, hcomp.1, TW.writeHeaderLocked, hto]
      simp
      rw [runTW_code_wrote _ _ (by simp) (by simp)]
    | write b =>
      simp only [Spec.completes, Spec.status] at hcomp ⊢
      simp only [twStep, hw, TW.writeHeaderLocked, hto]
      simp
      rw [runTW_code_wrote _ _ (by simp) (by simp)]
    | flush =>
      simp only [Spec.completes, Spec.status] at hcomp ⊢
      exact ih _ (by simp [twStep, hw]) (by simp [twStep, hto]) (by simp [twStep, hc]) hcomp
    | panic v => simp [Spec.completes] at hcomp

theorem twStep_flushed (t : TW) (a : Act) : (twStep t a).1.flushed = t.flushed := by
  cases a <;> simp only [twStep, TW.writeHeaderLocked] <;> (repeat' split) <;> rfl

theorem runTW_flushed (t : TW) (s : List Act) : (runTW t s).flushed = t.flushed := by
  induction s generalizing t with
  | nil => rfl
  | cons a rest ih =>
    have e : runTW t (a :: rest) = runTW (twStep t a).1 rest := rfl
    rw [e, ih, twStep_flushed]

theorem doneBranch_init (t : TW) (hf : t.flushed = false) :
    (doneBranch Rec.init t).code = t.code ∧ (doneBranch Rec.init t).body = t.wbuf ∧
    (doneBranch Rec.init t).snap = some (hmerge [] t.h) := by
  unfold doneBranch Rec.write Rec.writeHeader Rec.init
  by_cases h : t.code = 200
  · simp [h, hf]
  · simp [h, hf]

end GoZero.C04

namespace GoZero.C04

theorem twStep_writeHeader_timedOut (t : TW) (c : Nat) (h : t.timedOut = true) :
    (twStep t (.writeHeader c)).1 = t := by
  simp only [twStep, TW.writeHeaderLocked, h]
  (repeat' split) <;> simp_all

theorem twStep_write_timedOut (t : TW) (b : List Nat) (h : t.timedOut = true) :
    twStep t (.write b) = (t, .errTimeout) := by
  simp [twStep, h]

theorem lockedAct_w_pc (s : St) (a : Act) : (lockedAct s a).w = s.w ∧ (lockedAct s a).pc = s.pc := by
  unfold lockedAct; split <;> exact ⟨rfl, rfl⟩

theorem lockedAct_tw (s : St) (a : Act) : (lockedAct s a).tw = s.tw ∨ (lockedAct s a).tw = (twStep s.tw a).1 := by
  unfold lockedAct; split
  · left; rfl
  · right; rfl

theorem lockedAct_write_timedOut (s : St) (b : List Nat) (h : s.tw.timedOut = true) :
    lockedAct s (.write b) = { s with hpc := s.hpc + 1, log := s.log ++ [.errTimeout] } := by
  unfold lockedAct
  rw [twStep_write_timedOut _ _ h]

end GoZero.C04
