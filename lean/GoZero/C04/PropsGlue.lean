/-
C04 — the zrpc CONFIGURATION → deadline theorems over the translated glue (round 5c).

`Model.cliConfigDeadline` / `srvConfigDeadline` compose the decision functions that `TieSem` proves equal to the translation of
zrpc/server.go `setupUnaryInterceptors`, zrpc/client.go `NewClient`, zrpc/internal/client.go `WithTimeout` / `buildDialOptions`
/ `buildUnaryInterceptors` with the interceptor closures.

  * `cliGlue_dialTimeout`                  what reaches `TimeoutInterceptor(·)`: the last `WithTimeout` option, else the config (if > 0), else 0
  * `cliGlue_effective_timeout`            … and per call: `Spec.clientTimeout` (first WithCallTimeout, else that default)
  * `zrpc_client_config_deadline_clause`   EVERY client configuration (middleware on/off, any RpcClientConf.Timeout incl. 0 and < 0,
                                           any ClientOptions, any environment) and every call (any call options, caller deadline):
                                           the invoker's deadline is ≤ now + effective timeout and ≤ the caller's iff that timeout is
                                           positive and the middleware is on; else the caller's context unchanged
  * `zrpc_client_call_timeout_always_honoured`  ANY configuration (Timeout 0 / no WithTimeout included) + `WithCallTimeout(t)`, t > 0: deadline ≤ now + t
  * `zrpc_server_config_deadline_clause`   EVERY RpcServerConf (Timeout, MethodTimeouts) and every call
  * `cli_config_is_wired`, `srv_config_is_wired`  the translated-glue composition equals round 3's `cliWiredDeadline` / `srvWiredDeadline`
-/
import GoZero.C04.PropsInst
namespace GoZero.C04.Props
open GoZero.C04

theorem foldl_applyClientOpt (l : List (Option Int)) (a : Int) :
    l.foldl applyClientOpt a = (l.filterMap id).foldl (fun _ t => t) a := by
  induction l generalizing a with
  | nil => rfl
  | cons o os ih => cases o <;> simp [applyClientOpt, ih]

theorem foldl_last (l : List Int) (a : Int) : l.foldl (fun _ t => t) a = l.getLast?.getD a := by
  induction l generalizing a with
  | nil => rfl
  | cons x xs ih =>
    simp only [List.foldl_cons, ih]
    cases xs with
    | nil => simp
    | cons y ys =>
      rw [List.getLast?_cons_cons]
      cases h : (y :: ys).getLast? with
      | none => exact absurd (List.getLast?_eq_none_iff.mp h) (by simp)
      | some v => rfl

/-- what `buildDialOptions` hands to `TimeoutInterceptor(·)`, for every configuration and environment -/
theorem cliGlue_dialTimeout (confMs : Int) (options : List (Option Int)) (other : Nat → Bool) :
    cliGlueDialTimeout (none :: cliGlueConfOpts confMs options other) = cliConfTimeout confMs (options.filterMap id) := by
  unfold cliGlueDialTimeout cliGlueConfOpts cliConfTimeout
  rw [foldl_applyClientOpt]
  congr 1
  cases other 0 <;> cases other 1 <;> cases other 2 <;> by_cases h : confMs > 0 <;> simp [h]

/-- … which is the last `WithTimeout` option, else the configured timeout if positive, else 0 -/
theorem cliGlue_dialTimeout_is_last (confMs : Int) (options : List (Option Int)) (other : Nat → Bool) :
    cliGlueDialTimeout (none :: cliGlueConfOpts confMs options other) =
      (match (options.filterMap id).getLast? with
        | some u => u
        | none => if confMs > 0 then confMs * 1000000 else 0) := by
  rw [cliGlue_dialTimeout]
  unfold cliConfTimeout
  rw [foldl_last]
  cases hu : (options.filterMap id).getLast? with
  | none =>
    have : options.filterMap id = [] := List.getLast?_eq_none_iff.mp hu
    rw [this]; by_cases h : confMs > 0 <;> simp [h]
  | some u =>
    have : ((if confMs > 0 then [confMs * 1000000] else []) ++ options.filterMap id).getLast? = some u := by
      rw [List.getLast?_append, hu]; simp
    rw [this]; rfl

/-- the per-call effective timeout of the translated path is the property's `Spec.clientTimeout` -/
theorem cliGlue_effective_timeout (confMs : Int) (options : List (Option Int)) (other : Nat → Bool) (callOpts : List (Option Int)) :
    getTimeoutFromCallOptions callOpts (cliGlueDialTimeout (none :: cliGlueConfOpts confMs options other)) =
      Spec.clientTimeout confMs (options.filterMap id) callOpts := by
  rw [cliGlue_dialTimeout_is_last, (cli_selection_is_first_option _ _).1, (cli_selection_is_first_option _ _).2]
  rfl

/-- the translated-glue composition is round 3's wiring model -/
theorem cli_config_is_wired (mw : Bool) (confMs : Int) (options : List (Option Int)) (other : Nat → Bool)
    (callOpts : List (Option Int)) (parent : Deadline) (now : Int) :
    cliConfigDeadline mw confMs options other callOpts parent now =
      cliWiredDeadline mw confMs (options.filterMap id) callOpts parent now := by
  unfold cliConfigDeadline cliWiredDeadline cliGlueIcpt
  rw [cliGlue_dialTimeout]
  cases mw
  · simp
  · simp only [if_true]; exact cli_call_deadline _ _ _ _

/-- **zRPC client, from the configuration, for every configuration.**  Middleware on/off, any `RpcClientConf.Timeout` (0 and
negative included), any list of client options, any environment, any call options, any caller deadline: with `t` the
property's effective timeout (`Spec.clientTimeout`: first `WithCallTimeout`, else last `WithTimeout`, else the configured one
if positive), the invoker's context has a deadline ≤ now + t and ≤ the caller's when the middleware is on and t > 0, and is the
caller's context unchanged otherwise. -/
theorem zrpc_client_config_deadline_clause (mw : Bool) (confMs : Int) (options : List (Option Int)) (other : Nat → Bool)
    (callOpts : List (Option Int)) (parent : Deadline) (now : Int) :
    (mw = true ∧ 0 < Spec.clientTimeout confMs (options.filterMap id) callOpts →
      ∃ d, cliConfigDeadline mw confMs options other callOpts parent now = some d ∧
        d ≤ now + Spec.clientTimeout confMs (options.filterMap id) callOpts ∧ NoLaterThan (some d) parent) ∧
    (mw = false ∨ Spec.clientTimeout confMs (options.filterMap id) callOpts ≤ 0 →
      cliConfigDeadline mw confMs options other callOpts parent now = parent) := by
  have ht := cliGlue_effective_timeout confMs options other callOpts
  have hc := deadline_clause_all_wrappers parent now
  obtain ⟨_, _, _, h4, h5, _⟩ := hc
  rw [← ht]
  rw [(cli_selection_is_first_option _ _).1]
  unfold cliConfigDeadline cliGlueIcpt
  constructor
  · rintro ⟨hmw, hpos⟩
    subst hmw
    simp only [if_true]
    exact h4 _ _ hpos
  · intro h
    cases mw
    · simp
    · simp only [if_true]
      rcases h with h | h
      · cases h
      · exact h5 _ _ h

/-- a per-call `WithCallTimeout(t)`, t > 0, as the first timeout option of the call is honoured under EVERY client configuration
— in particular without any default timeout (`RpcClientConf.Timeout` 0 or negative, no `WithTimeout` option: the case seeded
C04-9 broke): the work's deadline is ≤ now + t and ≤ the caller's -/
theorem zrpc_client_call_timeout_always_honoured (confMs : Int) (options : List (Option Int)) (other : Nat → Bool) (pre rest : List (Option Int)) (hpre : ∀ o ∈ pre, o = none)
    (t : Int) (ht : 0 < t) (parent : Deadline) (now : Int) :
    ∃ d, cliConfigDeadline true confMs options other (pre ++ some t :: rest) parent now = some d ∧ d ≤ now + t ∧
      NoLaterThan (some d) parent := by
  have hT : Spec.clientTimeout confMs (options.filterMap id) (pre ++ some t :: rest) = t := by
    unfold Spec.clientTimeout
    generalize (match (options.filterMap id).getLast? with | some u => u | none => if confMs > 0 then confMs * 1000000 else 0) = dflt
    induction pre with
    | nil => rfl
    | cons o os ih =>
      have : o = none := hpre o (by simp)
      subst this
      simp only [List.cons_append, Spec.callTimeout]
      exact ih (fun o ho => hpre o (by simp [ho]))
  have h := (zrpc_client_config_deadline_clause true confMs options other (pre ++ some t :: rest) parent now).1
  rw [hT] at h
  exact h ⟨rfl, ht⟩

theorem srv_config_is_wired (confMs : Int) (mts : List (Nat × Int)) (method : Nat) (parent : Deadline) (now : Int) :
    srvConfigDeadline confMs mts method parent now = srvWiredDeadline confMs mts method parent now := by
  unfold srvConfigDeadline srvWiredDeadline srvGlueIcpt
  by_cases h : confMs > 0
  · simp only [h, if_true]; exact srv_call_deadline _ _ _ _ _
  · simp [h]

/-- **zRPC server, from the configuration, for every configuration**: `RpcServerConf.Timeout > 0`: the handler's deadline is
≤ now + (the method's own `MethodTimeouts` entry — last non-empty-named one — else `Timeout` ms) and ≤ the caller's;
`Timeout ≤ 0`: the caller's context unchanged (no interceptor). -/
theorem zrpc_server_config_deadline_clause (confMs : Int) (mts : List (Nat × Int)) (method : Nat) (parent : Deadline) (now : Int) :
    (0 < confMs → ∃ d, srvConfigDeadline confMs mts method parent now = some d ∧
      d ≤ now + srvTimeout (confMs * 1000000) mts method ∧ NoLaterThan (some d) parent) ∧
    (confMs ≤ 0 → srvConfigDeadline confMs mts method parent now = parent) := by
  rw [srv_config_is_wired]
  unfold srvWiredDeadline
  constructor
  · intro h
    have : confMs > 0 := h
    simp only [this, if_true]
    exact deadline_only_shrinks_srv _ _ _ _ _
  · intro h
    have : ¬ confMs > 0 := by omega
    simp [this]

/-! ### non-vacuity -/
example : cliConfigDeadline true 0 [none] (fun _ => true) [none, some 300] none 100 = some 400 := by decide
example : cliConfigDeadline true 2000 [some 7000, none] (fun _ => false) [] (some 5000) 100 = some 5000 := by decide
example : cliConfigDeadline true 2000 [] (fun _ => false) [] none 100 = some 2000000100 := by decide
example : cliConfigDeadline false 2000 [] (fun _ => false) [some 5] none 100 = none := by decide
example : srvConfigDeadline 2000 [(7, 500)] 7 (some 5000000000) 100 = some 600 := by decide
example : srvConfigDeadline 0 [(7, 500)] 7 none 100 = none := by decide

end GoZero.C04.Props
