/-
C04 — property theorems about SEVERAL REQUESTS IN FLIGHT TOGETHER (round 5).

`Model.mstep`: a server with any number of requests (through one `timeoutHandler` or several) is the free product of
single-request systems, because `ServeHTTP` allocates its `timeoutWriter`, channels and context per request and nothing
in the file outlives a request (Tie: `tie_serveHTTPFlow`, `tie_sem_no_state_between_calls`, `tie_sem_no_package_state`).

  * `multi_request_independent`      every request's state in a reachable multi-request state is a reachable state of ITS
                                     OWN single-request system — for every number of requests and every interleaving
  * `multi_step_leaves_others`       a step of request i changes no other request
  * `multi_response_with_flush`      response_with_flush for every request of every interleaving
  * `multi_no_write_after_timeout`   once request i has timed out, no step of ANY request (its own late handler or
                                     another request's) changes what its client got, and its own late Write fails
  * `multi_late_step_harmless_to_others`  a late action of a timed-out request i changes nothing of request j's writer
-/
import GoZero.C04.Props
namespace GoZero.C04.Props
open GoZero.C04

/-- a step of request `i` changes no other request -/
theorem multi_step_leaves_others (reason : List Nat) (m m' : MSt) (i : Nat) (l : Label)
    (h : mstep reason m i l = some m') (j : Nat) (hj : j ≠ i) : m' j = m j := by
  unfold mstep at h
  split at h
  · cases h; simp [hj]
  · cases h

/-- … and moves request `i` by a step of the single-request system -/
theorem multi_step_is_single_step (reason : List Nat) (m m' : MSt) (i : Nat) (l : Label)
    (h : mstep reason m i l = some m') : step reason (m i) l = some (m' i) := by
  unfold mstep at h
  split at h
  · rename_i s' hs; cases h; simp [hs]
  · cases h

/-- **Requests are independent.**  For every number of requests, every assignment of handler scripts and every
interleaving of their steps: the state of each request is a reachable state of its own single-request system. -/
theorem multi_request_independent (reason : List Nat) (scripts : Nat → List Act) (m : MSt)
    (hr : MReachable reason scripts m) (i : Nat) : Reachable reason (scripts i) (m i) := by
  induction hr with
  | init => exact Reachable.init
  | step k l _ hs ih =>
    by_cases hik : i = k
    · subst hik
      exact Reachable.step l ih (multi_step_is_single_step reason _ _ _ l hs)
    · rw [multi_step_leaves_others reason _ _ k l hs i hik]; exact ih

/-- `response_with_flush` for every request of every interleaving of any number of requests -/
theorem multi_response_with_flush (reason : List Nat) (scripts : Nat → List Act) (m : MSt)
    (hr : MReachable reason scripts m) (i : Nat) :
    match (m i).pc with
    | .retDone => (m i).w = doneBranch (runI (scripts i)).1 (runI (scripts i)).2 ∧ (m i).hst = .finished
    | .retTimeout k => ∃ j, j ≤ (scripts i).length ∧ (m i).tw.timedOut = true ∧
        (m i).w = ((runI ((scripts i).take j)).1.writeHeader (statusOf k)).write reason
    | .panicked _ => ∃ j, j ≤ (scripts i).length ∧ (m i).w = (runI ((scripts i).take j)).1
    | _ => True :=
  response_with_flush reason (scripts i) (m i) (multi_request_independent reason scripts m hr i)

/-- **No write after the timeout, with other requests in flight.**  Once request `i` has timed out, no step of any
request — its own late handler or any other request `k` — changes what its client got or its buffered state, and a late
`Write` of its own handler returns ErrHandlerTimeout. -/
theorem multi_no_write_after_timeout (reason : List Nat) (scripts : Nat → List Act) (m m' : MSt)
    (hr : MReachable reason scripts m) (i : Nat) (hto : (m i).tw.timedOut = true) (k : Nat) (l : Label)
    (hs : mstep reason m k l = some m') :
    (m' i).w = (m i).w ∧ (m' i).tw.wbuf = (m i).tw.wbuf ∧ (m' i).tw.code = (m i).tw.code ∧ (m' i).tw.timedOut = true ∧
    (∀ b, k = i → l = .h → (m i).script[(m i).hpc]? = some (.write b) → (m' i).log = (m i).log ++ [.errTimeout]) := by
  by_cases hik : i = k
  · subst hik
    have h1 := multi_step_is_single_step reason m m' i l hs
    have h2 := no_write_after_timeout reason (scripts i) (m i) (m' i) (multi_request_independent reason scripts m hr i) hto l h1
    exact ⟨h2.1, h2.2.1, h2.2.2.1, h2.2.2.2.1, fun b _ hl hb => h2.2.2.2.2 b hl hb⟩
  · rw [multi_step_leaves_others reason m m' k l hs i hik]
    exact ⟨rfl, rfl, rfl, hto, fun _ hki => absurd hki.symm hik⟩

/-- a (late) step of request `i` leaves the real writer and the timeoutWriter of every other request `j` untouched -/
theorem multi_late_step_harmless_to_others (reason : List Nat) (m m' : MSt) (i j : Nat) (hij : j ≠ i) (l : Label)
    (hs : mstep reason m i l = some m') : (m' j).w = (m j).w ∧ (m' j).tw = (m j).tw ∧ (m' j).log = (m j).log := by
  rw [multi_step_leaves_others reason m m' i l hs j hij]; exact ⟨rfl, rfl, rfl⟩

/-- `response_stable_after_return` for every request: after request `i`'s ServeHTTP has returned, whatever ALL requests do
later leaves its response as it was -/
theorem multi_response_stable_after_return (reason : List Nat) (scripts : Nat → List Act) (m : MSt)
    (hr : MReachable reason scripts m) (i : Nat) (hret : Returned (m i)) (ls : List (Nat × Label)) (m' : MSt)
    (hrun : runMulti reason m ls = some m') : (m' i).w = (m i).w ∧ (m' i).pc = (m i).pc := by
  induction ls generalizing m with
  | nil => simp [runMulti] at hrun; subst hrun; exact ⟨rfl, rfl⟩
  | cons p ls ih =>
    obtain ⟨k, l⟩ := p
    simp only [runMulti] at hrun
    split at hrun
    · rename_i m1 hs
      have hr1 : MReachable reason scripts m1 := MReachable.step k l hr hs
      have h1 : (m1 i).w = (m i).w ∧ (m1 i).pc = (m i).pc := by
        by_cases hik : i = k
        · subst hik
          have hs1 := multi_step_is_single_step reason m m1 i l hs
          exact response_stable_after_return reason (scripts i) (m i) (multi_request_independent reason scripts m hr i) hret [l] (m1 i)
            (by simp [runLabels, hs1])
        · rw [multi_step_leaves_others reason m m1 k l hs i hik]; exact ⟨rfl, rfl⟩
      have hret1 : Returned (m1 i) := by unfold Returned at hret ⊢; rw [h1.2]; exact hret
      have h2 := ih m1 hr1 hret1 hrun
      exact ⟨h2.1.trans h1.1, h2.2.trans h1.2⟩
    · cases hrun

/-- non-vacuity: request 0 (`Write a`, then a late `Write b`) times out while its handler is still running; request 1
(`WriteHeader 201; Write c`) then runs to completion while request 0's handler performs its late Write: request 1's client
gets exactly 201/"c", request 0's client exactly the 503, and the late Write failed. -/
def exScripts : Nat → List Act
  | 0 => [.write [97], .write [98]]
  | 1 => [.writeHeader 201, .write [99]]
  | _ => []

def exSchedule : List (Nat × Label) :=
  [(0, .h), (0, .env .deadline), (0, .mTimeout), (0, .mAdv), (0, .mAdv), (0, .mAdv),
   (1, .h), (0, .h), (1, .h), (1, .h), (1, .mDone)]

example : (runMulti [82] (MSt.init exScripts) exSchedule).map (fun m => ((m 0).w.view, (m 0).log)) =
    some ((503, [], [82]), [.ok, .errTimeout]) := by decide

example : (runMulti [82] (MSt.init exScripts) exSchedule).map (fun m => ((m 1).w.view, (m 1).pc)) =
    some ((201, [], [99]), .retDone) := by decide

example : MReachable [82] exScripts (MSt.init exScripts) := MReachable.init

/-! ### several calls through one zRPC server interceptor / several fx.DoWithTimeout calls -/

/-- **Calls are independent.**  For every number of calls in flight, every work and every interleaving: the state of
each call is a reachable state of its own single-call system (`stepf` = `srvStep` or `fxStep`). -/
theorem multi_call_independent (stepf : SelSt → SelLabel → Option SelSt) (works : Nat → Work) (m : MSel)
    (hr : MSelReach stepf works m) (i : Nat) : SelReach stepf (works i) (m i) := by
  induction hr with
  | init => exact SelReach.init
  | @step m m' k l _ hs ih =>
    unfold mselStep at hs
    split at hs
    · rename_i s' hs'
      cases hs
      by_cases hik : i = k
      · subst hik; simp only [if_true]; exact SelReach.step l ih hs'
      · simp only [hik, if_false]; exact ih
    · cases hs

/-- the outcome law for every call of every interleaving of calls through one server interceptor: what call `i` returns
is ITS OWN work's (resp, err), or the timeout result of ITS OWN context's end, or its own work's panic -/
theorem multi_rpc_result_or_timeout (works : Nat → Work) (m : MSel) (hr : MSelReach srvStep works m) (i : Nat) (o : Outcome)
    (ho : (m i).out = some o) : OutcomeOK (works i) (m i).ctxErr o :=
  rpc_result_or_timeout (works i) (m i) (multi_call_independent srvStep works m hr i) o ho

theorem multi_fx_result_or_timeout (works : Nat → Work) (m : MSel) (hr : MSelReach fxStep works m) (i : Nat) (o : Outcome)
    (ho : (m i).out = some o) : FxOutcomeOK (works i) (m i).ctxErr o :=
  fx_result_or_timeout (works i) (m i) (multi_call_independent fxStep works m hr i) o ho

/-- non-vacuity: call 0 (work panics late) has timed out; call 1 (work returns 5) completes: a reachable two-call state -/
def exWorks : Nat → Work
  | 0 => .panic 7
  | 1 => .ret 5 0
  | _ => .never

example : ∃ m, MSelReach srvStep exWorks m ∧ (m 0).out = some (.timeout .deadline) ∧ (m 1).out = none := by
  refine ⟨_, MSelReach.step 0 .mTimeout (MSelReach.step 0 (.env .deadline) MSelReach.init rfl) rfl, ?_, ?_⟩ <;> rfl

end GoZero.C04.Props
