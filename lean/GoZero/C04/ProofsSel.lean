/-
C04 — invariants of the select skeletons (zRPC server interceptor, fx.DoWithTimeout).
-/
import GoZero.C04.Model
namespace GoZero.C04

/-- what is known in every reachable state of UnaryTimeoutInterceptor -/
def SrvInv (work : Work) (s : SelSt) : Prop :=
  s.work = work ∧
  (match work with
   | .ret r e =>
     ((s.wpc = .gotResp ∨ s.wpc = .gotErr ∨ s.wpc = .closed ∨ s.wpc = .ended) → s.resp = r) ∧
     ((s.wpc = .gotErr ∨ s.wpc = .closed ∨ s.wpc = .ended) → s.err = e) ∧
     (s.done = true → (s.wpc = .closed ∨ s.wpc = .ended)) ∧ s.panicChan = none
   | .panic v => s.done = false ∧ (∀ v', s.panicChan = some v' → v' = v)
   | .never => s.done = false ∧ s.panicChan = none) ∧
  (s.mwait = true → s.done = true) ∧
  (∀ o, s.out = some o →
    match o with
    | .result r e => work = .ret r e
    | .timeout k => s.ctxErr = some k
    | .panic v => work = .panic v)

theorem srvInv_init (work : Work) : SrvInv work { work := work } := by
  unfold SrvInv
  cases work <;> simp

theorem srvInv_step {work : Work} {s s' : SelSt} (l : SelLabel) (hi : SrvInv work s)
    (h : srvStep s l = some s') : SrvInv work s' := by
  obtain ⟨hw, hwork, hmw, hout⟩ := hi
  cases l with
  | w =>
    unfold srvStep at h
    simp only at h
    split at h <;> (try split at h) <;> simp at h <;> subst h <;> cases work <;>
      simp_all [SrvInv] <;> grind
  | env k =>
    unfold srvStep at h
    simp only at h
    split at h <;> simp at h
    subst h
    refine ⟨hw, ?_, hmw, ?_⟩
    · cases work <;> simpa using hwork
    · intro o ho
      have := hout o ho
      cases o <;> simp_all
  | mPanic =>
    unfold srvStep at h
    simp only at h
    split at h <;> simp at h
    subst h
    cases work <;> simp_all [SrvInv] <;> grind
  | mDone =>
    unfold srvStep at h
    simp only at h
    split at h <;> (try split at h) <;> simp at h
    subst h
    cases work <;> simp_all [SrvInv]
  | mDoneLocked =>
    unfold srvStep at h
    simp only at h
    split at h <;> (try split at h) <;> simp at h
    subst h
    cases work <;> simp_all [SrvInv] <;> grind
  | mTimeout =>
    unfold srvStep at h
    simp only at h
    split at h <;> simp at h
    subst h
    cases work <;> simp_all [SrvInv]

theorem srvInv_reach {work : Work} {s : SelSt} (hr : SelReach srvStep work s) : SrvInv work s := by
  induction hr with
  | init => exact srvInv_init work
  | step l _ hs ih => exact srvInv_step l ih hs

/-- fx.DoWithTimeout -/
def FxInv (work : Work) (s : SelSt) : Prop :=
  s.work = work ∧
  (match work with
   | .ret _ e => (s.done = true → s.err = e) ∧ s.panicChan = none
   | .panic v => s.done = false ∧ (∀ v', s.panicChan = some v' → v' = v)
   | .never => s.done = false ∧ s.panicChan = none) ∧
  (∀ o, s.out = some o →
    match o with
    | .result r e => r = 0 ∧ ∃ r', work = .ret r' e
    | .timeout k => s.ctxErr = some k
    | .panic v => work = .panic v)

theorem fxInv_init (work : Work) : FxInv work { work := work } := by
  unfold FxInv
  cases work <;> simp

theorem fxInv_step {work : Work} {s s' : SelSt} (l : SelLabel) (hi : FxInv work s)
    (h : fxStep s l = some s') : FxInv work s' := by
  obtain ⟨hw, hwork, hout⟩ := hi
  cases l with
  | w =>
    unfold fxStep at h
    simp only at h
    split at h <;> simp at h <;> subst h <;> cases work <;> simp_all [FxInv] <;> grind
  | env k =>
    unfold fxStep at h
    simp only at h
    split at h <;> simp at h
    subst h
    refine ⟨hw, ?_, ?_⟩
    · cases work <;> simpa using hwork
    · intro o ho
      have := hout o ho
      cases o <;> simp_all
  | mPanic =>
    unfold fxStep at h
    simp only at h
    split at h <;> simp at h
    subst h
    cases work <;> simp_all [FxInv] <;> grind
  | mDone =>
    unfold fxStep at h
    simp only at h
    split at h <;> (try split at h) <;> simp at h
    subst h
    cases work <;> simp_all [FxInv]
  | mDoneLocked => simp [fxStep] at h
  | mTimeout =>
    unfold fxStep at h
    simp only at h
    split at h <;> simp at h
    subst h
    cases work <;> simp_all [FxInv]

theorem fxInv_reach {work : Work} {s : SelSt} (hr : SelReach fxStep work s) : FxInv work s := by
  induction hr with
  | init => exact fxInv_init work
  | step l _ hs ih => exact fxInv_step l ih hs

end GoZero.C04
