/-
C04 — helper lemmas for the closure-level models (method table, option scan, sequences of calls).
-/
import GoZero.C04.Model
namespace GoZero.C04

theorem tableGet_set_same (m : MTable) (k : Nat) (v : Int) : tableGet (tableSet m k v) k = some v := by
  unfold tableGet tableSet
  rw [List.find?_append]
  have : (m.filter (fun p => p.1 != k)).find? (fun p => p.1 == k) = none := by
    rw [List.find?_eq_none]
    intro p hp
    have := (List.mem_filter.mp hp).2
    simp at this
    simp [this]
  rw [this]
  simp [List.find?]

theorem tableGet_set_other (m : MTable) (k k' : Nat) (v : Int) (h : k' ≠ k) :
    tableGet (tableSet m k' v) k = tableGet m k := by
  unfold tableGet tableSet
  rw [List.find?_append]
  have h1 : (m.filter (fun p => p.1 != k')).find? (fun p => p.1 == k) = m.find? (fun p => p.1 == k) := by
    induction m with
    | nil => rfl
    | cons x xs ih =>
      by_cases hx : x.1 = k'
      · have hk : x.1 ≠ k := by omega
        have e1 : (x.1 != k') = false := by simp [hx]
        have e2 : (x.1 == k) = false := by simp [hk]
        rw [List.filter_cons, List.find?_cons]
        simp only [e1, e2]
        exact ih
      · have e1 : (x.1 != k') = true := by simp [hx]
        rw [List.filter_cons]
        simp only [e1, if_true]
        rw [List.find?_cons, List.find?_cons, ih]
  rw [h1]
  have h2 : [(k', v)].find? (fun p => p.1 == k) = none := by
    have e : (k' == k) = false := by simp [h]
    simp [List.find?_cons, e]
  rw [h2]
  simp

/-- the table built from the configuration, looked up: the last entry with that (non-empty) name -/
theorem tableGet_build_aux (l : List (Nat × Int)) (acc : MTable) (m : Nat) :
    tableGet (l.foldl (fun mt st => if st.1 != 0 then tableSet mt st.1 st.2 else mt) acc) m =
      match l.reverse.find? (fun p => p.1 != 0 && p.1 == m) with
      | some p => some p.2
      | none => tableGet acc m := by
  induction l generalizing acc with
  | nil => simp
  | cons x xs ih =>
    rw [List.foldl_cons, ih, List.reverse_cons, List.find?_append]
    cases hf : xs.reverse.find? (fun p => p.1 != 0 && p.1 == m) with
    | some p => simp
    | none =>
      simp only [Option.none_or]
      have hsing : ∀ (b : Bool), (fun p : Nat × Int => p.1 != 0 && p.1 == m) x = b →
          [x].find? (fun p => p.1 != 0 && p.1 == m) = if b then some x else none := by
        intro b hb
        rw [List.find?_cons]
        simp only [hb]
        cases b <;> simp
      by_cases h0 : x.1 = 0
      · have e : (fun p : Nat × Int => p.1 != 0 && p.1 == m) x = false := by simp [h0]
        rw [hsing false e]
        simp [h0]
      · by_cases hm : x.1 = m
        · have hm0 : ¬ m = 0 := by omega
          have e : (fun p : Nat × Int => p.1 != 0 && p.1 == m) x = true := by simp [hm, hm0]
          rw [hsing true e]
          simp [hm, hm0, tableGet_set_same]
        · have e : (fun p : Nat × Int => p.1 != 0 && p.1 == m) x = false := by simp [hm]
          rw [hsing false e]
          simp [h0, tableGet_set_other _ _ _ _ hm]

theorem getTimeout_build (dflt : Int) (mts : List (Nat × Int)) (method : Nat) :
    getTimeoutByUnaryServerInfo method (buildMethodTimeouts mts) dflt = srvTimeout dflt mts method := by
  unfold getTimeoutByUnaryServerInfo buildMethodTimeouts srvTimeout
  rw [tableGet_build_aux]
  cases mts.reverse.find? (fun p => p.1 != 0 && p.1 == method) with
  | some p => rfl
  | none => simp [tableGet]

theorem getTimeoutFromCallOptions_eq (opts : List (Option Int)) (dflt : Int) :
    getTimeoutFromCallOptions opts dflt = cliTimeout dflt opts := by
  unfold getTimeoutFromCallOptions cliTimeout
  induction opts with
  | nil => rfl
  | cons o os ih =>
    cases o with
    | none => simpa [List.findSome?, List.find?] using ih
    | some t => simp [List.findSome?, List.find?]

theorem fxParentLoop_eq (opts : List Deadline) : fxParentLoop opts = fxParent opts := by
  unfold fxParentLoop fxParent
  have : ∀ (l : List Deadline) (a : Deadline), l.foldl (fun _ opt => opt) a = (l.getLast?).getD a := by
    intro l
    induction l with
    | nil => intro a; rfl
    | cons x xs ih =>
      intro a
      rw [List.foldl_cons, ih]
      cases xs with
      | nil => rfl
      | cons y ys =>
        rw [List.getLast?_cons_cons]
        cases h : (y :: ys).getLast? with
        | none => simp [List.getLast?_eq_none_iff] at h
        | some z => rfl
  rw [this]
  cases opts.getLast? <;> rfl

theorem SrvInst.run_eq (i : SrvInst) (calls : List Call) :
    i.run calls = calls.map (fun c => (i.call c.method c.parent c.now).1) := by
  induction calls with
  | nil => rfl
  | cons c cs ih => simp [SrvInst.run, SrvInst.call] at *; exact ih

theorem CliInst.run_eq (i : CliInst) (calls : List Call) :
    i.run calls = calls.map (fun c => (i.call c.opts c.parent c.now).1) := by
  induction calls with
  | nil => rfl
  | cons c cs ih => simp [CliInst.run, CliInst.call] at *; exact ih

end GoZero.C04
