/-
C02 — property theorems (statements, short proofs from the lemmas, non-vacuity examples).
Helper lemmas: Proofs.lean (decision logic), History.lean (conservation, cool-off bookkeeping = history).

"capacity estimate" = `Shedder.maxFlight` = max(1, peak per-bucket pass count × min rounded per-bucket average
latency × windowScale) over the sliding window with the current bucket ignored.
-/
import GoZero.C02.History
namespace GoZero.C02

/-- **Sheds only when hot and busy.**  For every shedder state, time, checker verdict and CPU reading:
if `Allow` returns ErrServiceOverloaded then the CPU verdict at that call was "over threshold", or shedding
was in progress (`droppedRecently`) and an Allow saw the CPU over the threshold less than one second ago
(`overloadTime`); and both the in-flight count and its moving average exceed 10 % of the capacity estimate. -/
theorem shed_only_if_hot_and_busy (s : Shedder) (now : Nat) (cpuOver : Bool) (cpu : Int)
    (h : (s.allow now cpuOver cpu).2 = .overloaded) :
    (cpuOver = true ∨
      (s.droppedRecently = true ∧ s.overloadTime ≠ 0 ∧ now - s.overloadTime < 1000000000))
    ∧ 10 * (s.flying : Rat) > s.maxFlight now
    ∧ 10 * s.avgFlying > s.maxFlight now
    ∧ 1 ≤ s.flying := by
  have hd := (shouldDrop_iff s now cpuOver cpu).mp ((allow_verdict s now cpuOver cpu).mp h)
  have hb := limit_bounds s now cpu
  have hp := limit_pos s now cpu
  refine ⟨?_, ?_, ?_, ?_⟩
  · rcases hd.1 with h1 | h1
    · exact Or.inl h1
    · exact Or.inr ((stillHot_iff s now).mp h1)
  · grind
  · grind
  · have : (0 : Rat) < (s.flying : Rat) := by grind
    have := Rat.intCast_pos.mp this
    omega

/-- **Does shed when over capacity.**  CPU verdict "over threshold" and both the in-flight count and its moving
average above the full capacity estimate ⇒ `Allow` returns ErrServiceOverloaded, whatever the CPU reading
used for the factor. -/
theorem sheds_when_over_capacity (s : Shedder) (now : Nat) (cpu : Int)
    (hf : (s.flying : Rat) > s.maxFlight now) (ha : s.avgFlying > s.maxFlight now) :
    (s.allow now true cpu).2 = .overloaded := by
  apply (allow_verdict s now true cpu).mpr
  apply (shouldDrop_iff s now true cpu).mpr
  have hb := limit_bounds s now cpu
  refine ⟨Or.inl rfl, ?_, ?_⟩ <;> grind

/-- the same while the cool-off is running (shedding in progress, hot Allow less than a second ago). -/
theorem sheds_when_over_capacity_still_hot (s : Shedder) (now : Nat) (cpu : Int)
    (hd : s.droppedRecently = true) (ho : s.overloadTime ≠ 0) (hc : now - s.overloadTime < 1000000000)
    (hf : (s.flying : Rat) > s.maxFlight now) (ha : s.avgFlying > s.maxFlight now) :
    (s.allow now false cpu).2 = .overloaded := by
  apply (allow_verdict s now false cpu).mpr
  apply (shouldDrop_iff s now false cpu).mpr
  have hb := limit_bounds s now cpu
  refine ⟨Or.inr ((stillHot_iff s now).mpr ⟨hd, ho, hc⟩), ?_, ?_⟩ <;> grind

/-- **With nothing in flight nothing is shed** (state form): `flying ≤ 0` ⇒ admitted, for every CPU input. -/
theorem nothing_in_flight_never_sheds (s : Shedder) (now : Nat) (cpuOver : Bool) (cpu : Int)
    (h0 : s.flying ≤ 0) : (s.allow now cpuOver cpu).2 = .admitted := by
  cases hv : (s.allow now cpuOver cpu).2 with
  | admitted => rfl
  | overloaded =>
    have := (shed_only_if_hot_and_busy s now cpuOver cpu hv).2.2.2
    omega

/-- **In-flight conservation.**  Over every well-formed history (any Allow / Pass / Fail / time-gap sequence in
which each promise is resolved at most once, by Pass or by Fail), starting from a fresh shedder, the `flying`
counter equals the number of promises admitted and not yet resolved. -/
theorem flying_conservation (st : St) (h0 : st.sh.flying = 0) (ops : List HOp) (h : HSt)
    (hr : hrun (HSt.init st) ops = some h) :
    h.st.sh.flying = (h.outstanding.length : Int) :=
  hrun_conserves ops (HSt.init st) h (by simp [HSt.init, h0]) hr

/-- hence: once every admitted request has been resolved, the next Allow is admitted, whatever the CPU does. -/
theorem all_resolved_then_admitted (st : St) (h0 : st.sh.flying = 0) (ops : List HOp) (h : HSt)
    (hr : hrun (HSt.init st) ops = some h) (hnone : h.outstanding = []) (cpuOver : Bool) (cpu : Int) :
    (h.st.sh.allow h.st.now cpuOver cpu).2 = .admitted := by
  apply nothing_in_flight_never_sheds
  rw [flying_conservation st h0 ops h hr, hnone]
  simp

/-- a shed therefore means at least one admitted request is unfinished — more than 10 % of the capacity
estimate of them. -/
theorem shed_implies_unfinished_requests (st : St) (h0 : st.sh.flying = 0) (ops : List HOp) (h : HSt)
    (hr : hrun (HSt.init st) ops = some h) (cpuOver : Bool) (cpu : Int)
    (hv : (h.st.sh.allow h.st.now cpuOver cpu).2 = .overloaded) :
    10 * ((h.outstanding.length : Int) : Rat) > h.st.sh.maxFlight h.st.now ∧ 1 ≤ h.outstanding.length := by
  have hc := flying_conservation st h0 ops h hr
  have hs := shed_only_if_hot_and_busy h.st.sh h.st.now cpuOver cpu hv
  rw [hc] at hs
  exact ⟨hs.2.1, by omega⟩

/-- **The cool-off bookkeeping is the history.**  Along every run (times positive), the model state and the
history summary stay related: `overloadTime` is the time of the latest Allow that saw the CPU over the
threshold (`lastOver`), `droppedRecently` is "a request has been shed and no later Allow has seen the cool-off
lapse" (`inProgress`), `flying` = admitted − resolved and `avgFlying` is the β = 0.9 average of the history. -/
theorem bookkeeping_is_history (st : St) (h : Spec.Hist) (r : Ref st h) (ops : List Op) :
    ∃ h', Ref (run st ops) h' := by
  induction ops generalizing st h with
  | nil => exact ⟨h, r⟩
  | cons op ops ih => exact ih (step st op).1 _ (ref_step st h r op)

/-- the first clause on the history alone: a shed at a calm CPU happens only while `Hist.hot`. -/
theorem shed_only_if_history_hot (st : St) (h : Spec.Hist) (r : Ref st h) (cpuOver : Bool) (cpu : Int)
    (hv : (st.sh.allow st.now cpuOver cpu).2 = .overloaded) :
    (cpuOver = true ∨ h.hot = true) ∧ 10 * (h.inFlight : Rat) > st.sh.maxFlight st.now := by
  have hd := (shouldDrop_iff st.sh st.now cpuOver cpu).mp ((allow_verdict st.sh st.now cpuOver cpu).mp hv)
  have hs := shed_only_if_hot_and_busy st.sh st.now cpuOver cpu hv
  rw [ref_hot st h r] at hd
  rw [r.fly]
  exact ⟨hd.1, hs.2.1⟩

/-- **A disabled shedder never sheds** (`NewAdaptiveShedder` returns the nop shedder when disabled). -/
theorem disabled_never_sheds : nopAllow = Verdict.admitted := rfl

/-! ### non-vacuity: concrete states meeting the hypotheses -/

/-- 100 ms buckets (scale 1/100), default latency 1000 ms, no passes: capacity 10. -/
def exShedder (flying : Int) (avg : Rat) (ot : Nat) (dr : Bool) : Shedder :=
  { (Shedder.new 1000000000 10 900 1) with flying := flying, avgFlying := avg, overloadTime := ot, droppedRecently := dr }

example : (exShedder 11 (21 / 2) 0 false).maxFlight 5 = 10 := by decide +kernel
-- over capacity with an overloaded CPU: shed (even with factor 1, cpu = 0)
example : ((exShedder 11 (21 / 2) 0 false).allow 5 true 0).2 = .overloaded := by decide +kernel
-- 2 in flight = 20 % of capacity, CPU at 1000: factor floor 1/10 → limit 1 → shed
example : ((exShedder 2 (3 / 2) 0 false).allow 5 true 1000).2 = .overloaded := by decide +kernel
-- exactly 10 % of capacity in flight: not shed
example : ((exShedder 1 1 0 false).allow 5 true 1000).2 = .admitted := by decide +kernel
-- calm CPU, hot Allow 999999999 ns ago, shedding in progress: shed; one nanosecond later: admitted
example : ((exShedder 11 11 7 true).allow (7 + 999999999) false 0).2 = .overloaded := by decide +kernel
example : ((exShedder 11 11 7 true).allow (7 + 1000000000) false 0).2 = .admitted := by decide +kernel
-- a well-formed history: two admitted, one passed → one in flight
example : (hrun (HSt.init ⟨1, Shedder.new 1000000000 10 900 1⟩)
    [.allow false 0, .allow true 950, .advance 3000000, .pass 0]).map (fun h => (h.st.sh.flying, h.outstanding))
    = some (1, [(1, 1)]) := by decide +kernel
-- resolving a promise twice is not a well-formed history
example : (hrun (HSt.init ⟨1, Shedder.new 1000000000 10 900 1⟩) [.allow false 0, .pass 0, .fail 0]).isNone := by
  decide +kernel

end GoZero.C02
