/-
C02 — property theorems (statements, short proofs from the lemmas, non-vacuity examples).
Helper lemmas: Proofs.lean (decision logic), History.lean (conservation, cool-off bookkeeping = history),
RWRefine.lean (ring of buckets = event log), Capacity.lean (model capacity = history capacity).

"capacity estimate" = `Shedder.maxFlight` = max(1, peak per-bucket pass count × min rounded per-bucket average
latency × windowScale) over the sliding window with the current bucket ignored.
-/
import GoZero.C02.Capacity
import GoZero.C02.Interleave
namespace GoZero.C02
open Conc

/-- **Sheds only when hot and busy.**  For every shedder state, time, checker verdict and CPU reading:
if `Allow` returns ErrServiceOverloaded then the CPU verdict at that call was "over threshold", or shedding
was in progress (`droppedRecently`) and an Allow saw the CPU over the threshold less than one second ago
(`overloadTime`); and both the in-flight count and its moving average exceed 10 % of the capacity estimate. -/
theorem shed_only_if_hot_and_busy (s : Shedder) (now : Nat) (cpuOver : Bool) (cpu : Int)
    (h : (s.allow now cpuOver cpu).2 = .overloaded) :
    (cpuOver = true ∨
      (s.droppedRecently = true ∧ s.overloadTime ≠ 0 ∧ now - s.overloadTime < 1000000000))
    ∧ 10 * (s.flying : Rat) > s.maxFlight now
    ∧ 10 * s.avgFlying > s.maxFlight now
    ∧ 1 ≤ s.flying := by
  have hd := (shouldDrop_iff s now cpuOver cpu).mp ((allow_verdict s now cpuOver cpu).mp h)
  have hb := limit_bounds s now cpu
  have hp := limit_pos s now cpu
  refine ⟨?_, ?_, ?_, ?_⟩
  · rcases hd.1 with h1 | h1
    · exact Or.inl h1
    · exact Or.inr ((stillHot_iff s now).mp h1)
  · grind
  · grind
  · have : (0 : Rat) < (s.flying : Rat) := by grind
    have := Rat.intCast_pos.mp this
    omega

/-- **Does shed when over capacity.**  CPU verdict "over threshold" and both the in-flight count and its moving
average above the full capacity estimate ⇒ `Allow` returns ErrServiceOverloaded, whatever the CPU reading
used for the factor. -/
theorem sheds_when_over_capacity (s : Shedder) (now : Nat) (cpu : Int)
    (hf : (s.flying : Rat) > s.maxFlight now) (ha : s.avgFlying > s.maxFlight now) :
    (s.allow now true cpu).2 = .overloaded := by
  apply (allow_verdict s now true cpu).mpr
  apply (shouldDrop_iff s now true cpu).mpr
  have hb := limit_bounds s now cpu
  refine ⟨Or.inl rfl, ?_, ?_⟩ <;> grind

/-- the same while the cool-off is running (shedding in progress, hot Allow less than a second ago). -/
theorem sheds_when_over_capacity_still_hot (s : Shedder) (now : Nat) (cpu : Int)
    (hd : s.droppedRecently = true) (ho : s.overloadTime ≠ 0) (hc : now - s.overloadTime < 1000000000)
    (hf : (s.flying : Rat) > s.maxFlight now) (ha : s.avgFlying > s.maxFlight now) :
    (s.allow now false cpu).2 = .overloaded := by
  apply (allow_verdict s now false cpu).mpr
  apply (shouldDrop_iff s now false cpu).mpr
  have hb := limit_bounds s now cpu
  refine ⟨Or.inr ((stillHot_iff s now).mpr ⟨hd, ho, hc⟩), ?_, ?_⟩ <;> grind

/-- **With nothing in flight nothing is shed** (state form): `flying ≤ 0` ⇒ admitted, for every CPU input. -/
theorem nothing_in_flight_never_sheds (s : Shedder) (now : Nat) (cpuOver : Bool) (cpu : Int)
    (h0 : s.flying ≤ 0) : (s.allow now cpuOver cpu).2 = .admitted := by
  cases hv : (s.allow now cpuOver cpu).2 with
  | admitted => rfl
  | overloaded =>
    have := (shed_only_if_hot_and_busy s now cpuOver cpu hv).2.2.2
    omega

/-- **In-flight conservation.**  Over every well-formed history (any Allow / Pass / Fail / time-gap sequence in
which each promise is resolved at most once, by Pass or by Fail), starting from a fresh shedder, the `flying`
counter equals the number of promises admitted and not yet resolved. -/
theorem flying_conservation (st : St) (h0 : st.sh.flying = 0) (ops : List HOp) (h : HSt)
    (hr : hrun (HSt.init st) ops = some h) :
    h.st.sh.flying = (h.outstanding.length : Int) :=
  hrun_conserves ops (HSt.init st) h (by simp [HSt.init, h0]) hr

/-- hence: once every admitted request has been resolved, the next Allow is admitted, whatever the CPU does. -/
theorem all_resolved_then_admitted (st : St) (h0 : st.sh.flying = 0) (ops : List HOp) (h : HSt)
    (hr : hrun (HSt.init st) ops = some h) (hnone : h.outstanding = []) (cpuOver : Bool) (cpu : Int) :
    (h.st.sh.allow h.st.now cpuOver cpu).2 = .admitted := by
  apply nothing_in_flight_never_sheds
  rw [flying_conservation st h0 ops h hr, hnone]
  simp

/-- a shed therefore means at least one admitted request is unfinished — more than 10 % of the capacity
estimate of them. -/
theorem shed_implies_unfinished_requests (st : St) (h0 : st.sh.flying = 0) (ops : List HOp) (h : HSt)
    (hr : hrun (HSt.init st) ops = some h) (cpuOver : Bool) (cpu : Int)
    (hv : (h.st.sh.allow h.st.now cpuOver cpu).2 = .overloaded) :
    10 * ((h.outstanding.length : Int) : Rat) > h.st.sh.maxFlight h.st.now ∧ 1 ≤ h.outstanding.length := by
  have hc := flying_conservation st h0 ops h hr
  have hs := shed_only_if_hot_and_busy h.st.sh h.st.now cpuOver cpu hv
  rw [hc] at hs
  exact ⟨hs.2.1, by omega⟩

/-- **The cool-off bookkeeping is the history.**  Along every run (times positive), the model state and the
history summary stay related: `overloadTime` is the time of the latest Allow that saw the CPU over the
threshold (`lastOver`), `droppedRecently` is "a request has been shed and no later Allow has seen the cool-off
lapse" (`inProgress`), `flying` = admitted − resolved and `avgFlying` is the β = 0.9 average of the history. -/
theorem bookkeeping_is_history (st : St) (h : Spec.Hist) (r : Ref st h) (ops : List Op) :
    ∃ h', Ref (run st ops) h' := by
  induction ops generalizing st h with
  | nil => exact ⟨h, r⟩
  | cons op ops ih => exact ih (step st op).1 _ (ref_step st h r op)

/-- the first clause on the history alone: a shed at a calm CPU happens only while `Hist.hot`. -/
theorem shed_only_if_history_hot (st : St) (h : Spec.Hist) (r : Ref st h) (cpuOver : Bool) (cpu : Int)
    (hv : (st.sh.allow st.now cpuOver cpu).2 = .overloaded) :
    (cpuOver = true ∨ h.hot = true) ∧ 10 * (h.inFlight : Rat) > st.sh.maxFlight st.now := by
  have hd := (shouldDrop_iff st.sh st.now cpuOver cpu).mp ((allow_verdict st.sh st.now cpuOver cpu).mp hv)
  have hs := shed_only_if_hot_and_busy st.sh st.now cpuOver cpu hv
  rw [ref_hot st h r] at hd
  rw [r.fly]
  exact ⟨hd.1, hs.2.1⟩

/-! ### the property on the externally visible history

`Spec.Hist` summarises a history by what an outside observer sees: how many promises were handed out and
resolved, the log of Pass events (time, latency), the time of the latest Allow that saw the CPU over the
threshold, whether shedding is in progress.  `Spec.capacity` computes the capacity estimate from the Pass log
alone: over the `buckets − 1` buckets of `window / buckets` ns before the current one (aligned at the
creation time), max(1, peak per-bucket pass count × minimum rounded per-bucket average latency × scale). -/

/-- a run of the model with the history summary kept alongside. -/
def runH (st : St) (h : Spec.Hist) : List Op → St × Spec.Hist
  | [] => (st, h)
  | op :: ops => runH (step st op).1 (h.observe (evOf st op)) ops

theorem runH_inv (wc : Spec.WinCfg) (ops : List Op) (st : St) (h : Spec.Hist) (r : Ref st h) (w : WRef wc st h) :
    Ref (runH st h ops).1 (runH st h ops).2 ∧ WRef wc (runH st h ops).1 (runH st h ops).2 := by
  induction ops generalizing st h with
  | nil => exact ⟨r, w⟩
  | cons op ops ih => exact ih _ _ (ref_step st h r op) (wref_step wc st h w op)

/-- **The rolling windows are the sliding window over the Pass log**: after every history (any time gaps:
inside a bucket, across bucket boundaries, beyond the whole window), the model's capacity estimate equals the
one computed from the log of Pass events. -/
theorem capacity_is_sliding_window_estimate (window buckets : Nat) (threshold : Int) (t0 : Nat)
    (hb : 1 ≤ buckets) (hw : 1 ≤ window / buckets) (ht : 0 < t0) (ops : List Op) :
    let sh0 := Shedder.new window buckets threshold t0
    let wc : Spec.WinCfg := ⟨buckets, window / buckets, t0, sh0.windowScale⟩
    let r := runH ⟨t0, sh0⟩ { now := t0 } ops
    r.1.sh.maxFlight r.1.now = Spec.capacity wc r.2.passes r.2.now := by
  intro sh0 wc r
  have r0 : Ref ⟨t0, sh0⟩ { now := t0 } := ref_init window buckets threshold t0 ht
  have := runH_inv wc ops _ _ r0 (wref_init window buckets threshold t0 hb hw)
  exact capacity_eq wc _ _ this.2

/-- both directions for a model state that represents a history (`Ref`, `WRef`). -/
theorem allow_meets_spec_of_ref (wc : Spec.WinCfg) (st : St) (h : Spec.Hist) (r : Ref st h) (w : WRef wc st h)
    (cpuOver : Bool) (cpu : Int) :
    ((st.sh.allow st.now cpuOver cpu).2 = .overloaded → Spec.ShedJustified wc h cpuOver)
    ∧ (Spec.MustShed wc h cpuOver → (st.sh.allow st.now cpuOver cpu).2 = .overloaded) := by
  have hcap := capacity_eq wc st h w
  constructor
  · intro hv
    have := shed_only_if_history_hot st h r cpuOver cpu hv
    unfold Spec.ShedJustified
    rw [← hcap]
    exact this
  · intro hm
    unfold Spec.MustShed at hm
    obtain ⟨ho, hf, ha⟩ := hm
    subst ho
    rw [← hcap, r.fly] at hf
    rw [← hcap, r.avg] at ha
    exact sheds_when_over_capacity st.sh st.now cpu hf ha

theorem monitor_sound_of_ref (wc : Spec.WinCfg) (st : St) (h : Spec.Hist) (r : Ref st h) (w : WRef wc st h)
    (cpuOver : Bool) (cpu : Int) :
    Spec.checkAllow wc h cpuOver (st.sh.allow st.now cpuOver cpu).2 = none := by
  have hs := allow_meets_spec_of_ref wc st h r w cpuOver cpu
  unfold Spec.checkAllow
  cases hv : (st.sh.allow st.now cpuOver cpu).2 with
  | overloaded =>
    have hj := hs.1 hv
    unfold Spec.ShedJustified at hj
    have h1 : (cpuOver || h.hot) = true := by
      rcases hj.1 with h' | h' <;> simp [h']
    have hfl : 1 ≤ h.inFlight := by
      have := (shed_only_if_hot_and_busy st.sh st.now cpuOver cpu hv).2.2.2
      rw [r.fly]; exact this
    have h2 : ¬ h.inFlight ≤ 0 := by omega
    have h3 : decide (10 * (h.inFlight : Rat) > Spec.capacity wc h.passes h.now) = true := by
      simpa using hj.2
    simp [h1, h2, h3]
  | admitted =>
    simp only []
    split
    · rename_i hc
      simp only [Bool.and_eq_true, decide_eq_true_eq, Bool.not_eq_true'] at hc
      have := hs.2 ⟨hc.1.1.1.1, hc.1.1.1.2, hc.1.1.2⟩
      rw [hv] at this
      cases this
    · rfl

/-- **C02 on histories (both directions).**  For every configuration (window, buckets ≥ 1, bucket duration ≥ 1 ns,
threshold), every history of Allow / Pass / Fail events with arbitrary time gaps and latencies and every CPU
trace, the next `Allow`:
* returns ErrServiceOverloaded only if `Spec.ShedJustified`: the CPU verdict is "over" now — or an Allow less
  than a second ago saw it over while shedding was in progress — and the number of admitted-but-unresolved
  requests exceeds 10 % of the capacity estimate of the sliding window over the Pass log;
* does return it if `Spec.MustShed`: CPU over, and in-flight count and its moving average above the estimate. -/
theorem allow_meets_spec (window buckets : Nat) (threshold : Int) (t0 : Nat)
    (hb : 1 ≤ buckets) (hw : 1 ≤ window / buckets) (ht : 0 < t0) (ops : List Op) (cpuOver : Bool) (cpu : Int) :
    let sh0 := Shedder.new window buckets threshold t0
    let wc : Spec.WinCfg := ⟨buckets, window / buckets, t0, sh0.windowScale⟩
    let r := runH ⟨t0, sh0⟩ { now := t0 } ops
    ((r.1.sh.allow r.1.now cpuOver cpu).2 = .overloaded → Spec.ShedJustified wc r.2 cpuOver)
    ∧ (Spec.MustShed wc r.2 cpuOver → (r.1.sh.allow r.1.now cpuOver cpu).2 = .overloaded) := by
  intro sh0 wc r
  have inv := runH_inv wc ops _ _ (ref_init window buckets threshold t0 ht)
    (wref_init window buckets threshold t0 hb hw)
  exact allow_meets_spec_of_ref wc _ _ inv.1 inv.2 cpuOver cpu

/-- the exact clauses imply the tolerant executable monitor: on a history produced by the model the monitor
`Spec.checkAllow` (what the driver evaluates on the implementation's trace) never fires. -/
theorem monitor_sound (window buckets : Nat) (threshold : Int) (t0 : Nat)
    (hb : 1 ≤ buckets) (hw : 1 ≤ window / buckets) (ht : 0 < t0) (ops : List Op) (cpuOver : Bool) (cpu : Int) :
    let sh0 := Shedder.new window buckets threshold t0
    let wc : Spec.WinCfg := ⟨buckets, window / buckets, t0, sh0.windowScale⟩
    let r := runH ⟨t0, sh0⟩ { now := t0 } ops
    Spec.checkAllow wc r.2 cpuOver (r.1.sh.allow r.1.now cpuOver cpu).2 = none := by
  intro sh0 wc r
  have inv := runH_inv wc ops _ _ (ref_init window buckets threshold t0 ht)
    (wref_init window buckets threshold t0 hb hw)
  exact monitor_sound_of_ref wc _ _ inv.1 inv.2 cpuOver cpu

/-! ### every interleaving, any number of goroutines (model: Interleave.lean)

Every access of Allow / Pass / Fail to shared memory is a step of its own; goroutines and the clock interleave
arbitrarily.  Each register a goroutine loads is tied by a ghost to the shared state at the step of the load. -/

/-- the interleaving model computes the same capacity estimate and limit as the sequential model. -/
theorem conc_limit_is_model_limit (s : Shedder) (now : Nat) (cpu : Int) :
    s.maxFlight now = Conc.capOf ⟨s.cpuThreshold, s.windowScale⟩ (s.maxPass now) (s.minRt now)
    ∧ s.limit now cpu = Conc.limC ⟨s.cpuThreshold, s.windowScale⟩ (s.maxPass now) (s.minRt now) cpu := ⟨rfl, rfl⟩

/-- **The step machine refines to the sequential model.**  One goroutine running alone (no other goroutine, no
clock tick) through the steps of `Allow` — every shared access at its own step — ends with exactly the verdict and
the shared state of the sequential model's `Shedder.allow` (the model tied to the source and compared with the
implementation on every operation), for every shedder state, time, checker verdict and CPU reading. -/
theorem solo_allow_is_model_allow (s : Shedder) (now : Nat) (over : Bool) (cpu : Int) :
    let r := Conc.solo (Conc.cfgOf s) { over := over, cpu := cpu, clear := false } 14
      (Conc.ofShedder s now, Th.fresh (Conc.ofShedder s now))
    r.1 = Conc.ofShedder (s.allow now over cpu).1 now
    ∧ (r.2.pc = (if (s.allow now over cpu).2 = .overloaded then PC.shed else PC.stamp)) := by
  intro r
  have hl : limC (Conc.cfgOf s) (maxPassOf (s.passCounter.visible now)) (minRtOf (s.rtCounter.visible now)) cpu
      = s.limit now cpu := rfl
  have hlo : ∀ o : Bool, (s.afterGate now o).limit now cpu = s.limit now cpu := fun o => afterGate_limit s now o now cpu
  have hl2 : ({ s with overloadTime := now } : Shedder).limit now cpu = s.limit now cpu := rfl
  cases over
  · by_cases hd : s.droppedRecently = true
    · by_cases h0 : s.overloadTime = 0
      · simp [r, Conc.solo, thStep, Th.fresh, Conc.ofShedder, hd, h0, Shedder.allow, Shedder.shouldDrop, Shedder.gate,
          Shedder.stillHot, Shedder.allowWith, Shedder.afterGate, Shedder.afterStillHot]
      · by_cases hw : now - s.overloadTime < coolOffNs
        · by_cases ha : s.avgFlying > s.limit now cpu
          · by_cases hf : (s.flying : Rat) > s.limit now cpu
            · simp [r, Conc.solo, thStep, Th.fresh, Conc.ofShedder, hd, h0, hw, ha, hf, hl, limOf, Shedder.allow, Shedder.shouldDrop, Shedder.gate,
                Shedder.stillHot, Shedder.allowWith, Shedder.afterGate, Shedder.afterStillHot, Shedder.highThru]
            · simp [r, Conc.solo, thStep, Th.fresh, Conc.ofShedder, hd, h0, hw, ha, hf, hl, limOf, Shedder.allow, Shedder.shouldDrop, Shedder.gate,
                Shedder.stillHot, Shedder.allowWith, Shedder.afterGate, Shedder.afterStillHot, Shedder.highThru]
          · simp [r, Conc.solo, thStep, Th.fresh, Conc.ofShedder, hd, h0, hw, ha, hl, Shedder.allow, Shedder.shouldDrop, Shedder.gate,
              Shedder.stillHot, Shedder.allowWith, Shedder.afterGate, Shedder.afterStillHot, Shedder.highThru]
        · simp [r, Conc.solo, thStep, Th.fresh, Conc.ofShedder, hd, h0, hw, Shedder.allow, Shedder.shouldDrop, Shedder.gate,
            Shedder.stillHot, Shedder.allowWith, Shedder.afterGate, Shedder.afterStillHot]
    · have hd' : s.droppedRecently = false := by simpa using hd
      simp [r, Conc.solo, thStep, Th.fresh, Conc.ofShedder, hd', Shedder.allow, Shedder.shouldDrop, Shedder.gate,
        Shedder.stillHot, Shedder.allowWith, Shedder.afterGate, Shedder.afterStillHot]
  · by_cases ha : s.avgFlying > s.limit now cpu
    · by_cases hf : (s.flying : Rat) > s.limit now cpu
      · simp [r, Conc.solo, thStep, Th.fresh, Conc.ofShedder, ha, hf, hl, hl2, limOf, Shedder.allow, Shedder.shouldDrop, Shedder.gate,
          Shedder.allowWith, Shedder.afterGate, Shedder.systemOverloaded, Shedder.highThru]
      · simp [r, Conc.solo, thStep, Th.fresh, Conc.ofShedder, ha, hf, hl, hl2, limOf, Shedder.allow, Shedder.shouldDrop, Shedder.gate,
          Shedder.allowWith, Shedder.afterGate, Shedder.systemOverloaded, Shedder.highThru]
    · simp [r, Conc.solo, thStep, Th.fresh, Conc.ofShedder, ha, hl, hl2, Shedder.allow, Shedder.shouldDrop, Shedder.gate,
        Shedder.allowWith, Shedder.afterGate, Shedder.systemOverloaded, Shedder.highThru]


/-- the same for `Pass` / `Fail`: alone, the steps of a resolution compute `Shedder.pass` / `Shedder.fail`. -/
theorem solo_resolve_is_model_resolve (s : Shedder) (now start : Nat) (pass : Bool) :
    (Conc.soloResolve (Conc.cfgOf s) { pass := pass } 6
      (Conc.ofShedder s now, { Th.fresh (Conc.ofShedder s now) with pc := .inflight, start := start })).1
      = Conc.ofShedder (if pass then s.pass now start else s.fail) now := by
  cases pass <;>
    simp [Conc.soloResolve, thStep, Th.fresh, Conc.ofShedder, Shedder.pass, Shedder.fail, Shedder.release]


/-- **In-flight conservation under every schedule.**  With any number `n` of request goroutines running
Allow / Pass / Fail concurrently (each shared access one atomic step, any interleaving with each other and with
the clock), in every reachable state the `flying` counter equals the number of goroutines that have been
admitted and have not yet resolved their promise. -/
theorem flying_conservation_all_schedules (cfg : Cfg) (sh0 : Shared) (n : Nat) (s : Sys)
    (h : Reach cfg sh0 n s) : s.sh.flying = (Conc.inFlight s : Int) :=
  (reach_inv s h).conserve

/-- **Sheds only when hot and busy, under every schedule — each conjunct at its own read instant.**
If a goroutine's Allow has decided to return ErrServiceOverloaded (it is past the last comparison of
`highThru`), then there are reachable states `sAvg`, `sMp`, `sRt`, `sFly` — the instants at which it read the moving
average, the pass window, the latency window and the `flying` counter, in this order, all before now — such that
* the checker's verdict for this call was "over threshold", or there are three earlier instants, in order, at
  which `droppedRecently` was set, `overloadTime` was non-zero, and the clock was less than one second past
  that `overloadTime`;
* the number of goroutines in flight at `sFly` exceeds 10 % of the capacity estimate formed from the peak pass
  count of the window as it stood at `sMp` and the minimum latency of the window as it stood at `sRt`;
* the moving average at `sAvg` exceeds 10 % of that estimate;
* at least one request was in flight at `sFly`: with nothing in flight at the read no goroutine is shed. -/
theorem shed_only_if_hot_and_busy_all_schedules (cfg : Cfg) (sh0 : Shared) (n : Nat) (s : Sys)
    (h : Reach cfg sh0 n s) (t : Th) (ht : t ∈ s.ths) (hd : t.pc = .logHot ∨ t.pc = .setDr ∨ t.pc = .shed) :
    ∃ sAvg sMp sRt sFly : Sys,
      Reach cfg sh0 n sAvg ∧ Reach cfg sh0 n sMp ∧ Reach cfg sh0 n sRt ∧ Reach cfg sh0 n sFly
      ∧ sAvg.steps ≤ sMp.steps ∧ sMp.steps ≤ sRt.steps ∧ sRt.steps ≤ sFly.steps ∧ sFly.steps ≤ s.steps
      ∧ (t.over = true ∨
          ∃ sDr sOt sNow : Sys, Reach cfg sh0 n sDr ∧ Reach cfg sh0 n sOt ∧ Reach cfg sh0 n sNow
            ∧ sDr.steps ≤ sOt.steps ∧ sOt.steps ≤ sNow.steps ∧ sNow.steps ≤ sAvg.steps
            ∧ sDr.sh.dropped = true ∧ sOt.sh.overloadTime ≠ 0
            ∧ sNow.sh.now - sOt.sh.overloadTime < 1000000000)
      ∧ 10 * ((Conc.inFlight sFly : Int) : Rat) >
          capOf cfg (maxPassOf (sMp.sh.passC.visible sMp.sh.now)) (minRtOf (sRt.sh.rtC.visible sRt.sh.now))
      ∧ 10 * sAvg.sh.avg >
          capOf cfg (maxPassOf (sMp.sh.passC.visible sMp.sh.now)) (minRtOf (sRt.sh.rtC.visible sRt.sh.now))
      ∧ 1 ≤ Conc.inFlight sFly := by
  have inv := reach_inv s h
  have hl := inv.loc t ht
  have hst : t.pc.stage = 6 := by rcases hd with h | h | h <;> simp [h, PC.stage]
  have hgate := hl.gate (by omega)
  obtain ⟨⟨sA, rA, eA⟩, hravg, _, hoA⟩ := hl.avg (by omega)
  obtain ⟨⟨sM, rM, eM⟩, hrmp, hAM, _⟩ := hl.mp (by omega)
  obtain ⟨⟨sR, rR, eR⟩, hrrt, hMR, _⟩ := hl.rt (by omega)
  have hcmp := hl.cmp (by omega)
  obtain ⟨⟨sF, rF, eF⟩, hrf, hflim, hRF, hFl⟩ := hl.fly (by omega)
  have hlast := inv.last t ht
  have sA_sh : sA.sh = t.gAvg.sh := by rw [← eA]; rfl
  have sM_sh : sM.sh = t.gMp.sh := by rw [← eM]; rfl
  have sR_sh : sR.sh = t.gRt.sh := by rw [← eR]; rfl
  have sF_sh : sF.sh = t.gFly.sh := by rw [← eF]; rfl
  have sA_seq : sA.steps = t.gAvg.seq := by rw [← eA]; rfl
  have sM_seq : sM.steps = t.gMp.seq := by rw [← eM]; rfl
  have sR_seq : sR.steps = t.gRt.seq := by rw [← eR]; rfl
  have sF_seq : sF.steps = t.gFly.seq := by rw [← eF]; rfl
  -- the value read from the counter is the number of goroutines in flight at that instant
  have hFc : t.rf = (Conc.inFlight sF : Int) := by rw [hrf, ← sF_sh]; exact (reach_inv sF rF).conserve
  have hb := Conc.limC_bounds cfg t.rmp t.rrt t.rcpu
  have hc1 := Conc.capOf_ge_one cfg t.rmp t.rrt
  have hlim : limOf cfg t = limC cfg t.rmp t.rrt t.rcpu := rfl
  rw [hlim] at hcmp hflim
  refine ⟨sA, sM, sR, sF, rA, rM, rR, rF, by omega, by omega, by omega, by omega, ?_, ?_, ?_, ?_⟩
  · rcases hgate with ho | ⟨⟨sD, rD, eD⟩, hdr, ⟨sO, rO, eO⟩, hot, ⟨sN, rN, eN⟩, hw, h1, h2, _⟩
    · exact Or.inl ho
    · have hov : t.over = false ∨ t.over = true := by cases t.over <;> simp
      rcases hov with hov | hov
      · refine Or.inr ⟨sD, sO, sN, rD, rO, rN, ?_, ?_, ?_, ?_, ?_, ?_⟩
        · have a : sD.steps = t.gDr.seq := by rw [← eD]; rfl
          have b : sO.steps = t.gOt.seq := by rw [← eO]; rfl
          omega
        · have a : sN.steps = t.gNow.seq := by rw [← eN]; rfl
          have b : sO.steps = t.gOt.seq := by rw [← eO]; rfl
          omega
        · have a : sN.steps = t.gNow.seq := by rw [← eN]; rfl
          have := hoA hov
          omega
        · have a : sD.sh = t.gDr.sh := by rw [← eD]; rfl
          rw [a]; exact hdr
        · have a : sO.sh = t.gOt.sh := by rw [← eO]; rfl
          rw [a]; exact hot
        · have a : sO.sh = t.gOt.sh := by rw [← eO]; rfl
          have b : sN.sh = t.gNow.sh := by rw [← eN]; rfl
          rw [a, b]; exact hw
      · exact Or.inl hov
  · rw [sM_sh, sR_sh, ← hrmp, ← hrrt, ← hFc]; grind
  · rw [sM_sh, sR_sh, ← hrmp, ← hrrt, sA_sh, ← hravg]; grind
  · have : (0 : Rat) < ((Conc.inFlight sF : Int) : Rat) := by rw [← hFc]; grind
    have := Rat.intCast_pos.mp this
    omega


/-- the older formulation: the value of `flying` a shed was decided on was at least 1 (and was the number of
requests in flight at its read instant). -/
theorem shed_read_at_least_one_in_flight (cfg : Cfg) (sh0 : Shared) (n : Nat) (s : Sys) (h : Reach cfg sh0 n s)
    (t : Th) (ht : t ∈ s.ths) (hd : t.pc = .shed) :
    1 ≤ t.rf ∧ ∃ sFly, Reach cfg sh0 n sFly ∧ t.rf = (Conc.inFlight sFly : Int) := by
  have hl := (reach_inv s h).loc t ht
  obtain ⟨⟨sF, rF, eF⟩, hrf, hflim, _, _⟩ := hl.fly (by simp [hd, PC.stage])
  have sF_sh : sF.sh = t.gFly.sh := by rw [← eF]; rfl
  have hFc : t.rf = (Conc.inFlight sF : Int) := by rw [hrf, ← sF_sh]; exact (reach_inv sF rF).conserve
  have hb := Conc.limC_bounds cfg t.rmp t.rrt t.rcpu
  have hc1 := Conc.capOf_ge_one cfg t.rmp t.rrt
  have hlim : limOf cfg t = limC cfg t.rmp t.rrt t.rcpu := rfl
  rw [hlim] at hflim
  have : (0 : Rat) < (t.rf : Rat) := by grind
  have := Rat.intCast_pos.mp this
  exact ⟨by omega, sF, rF, hFc⟩

-- non-vacuity: three goroutines on a shedder whose average is 3 (capacity 10, CPU at 1000 → limit 1);
-- 0 and 1 are admitted, the clock ticks, 2 sees the checker say "over", stamps overloadTime = 12, reads
-- flying = 2 > 1 and is shed; the hypotheses of the theorems above hold for it
def exCfg : Cfg := ⟨900, 1 / 100⟩
def exShared : Shared :=
  { now := 5, flying := 0, avg := 3, overloadTime := 0, dropped := false,
    passC := RW.new 10 100000000 1 true, rtC := RW.new 10 100000000 1 true }
def exSchedule : List Act :=
  [.run 0 {}, .run 1 {}, .run 0 {}, .run 0 {}, .run 2 { over := true }, .run 1 {}, .run 1 {}, .tick 7,
   .run 2 {}, .run 2 {}, .run 2 {}, .run 2 {}, .run 2 {}, .run 2 { cpu := 1000 }, .run 2 {}, .run 2 {}, .run 2 {}, .run 0 {}]

/-- what the example looks at: flying, goroutines in flight, droppedRecently, overloadTime, then every
goroutine's value read from `flying`; and every goroutine's position. -/
def Conc.summary (s : Sys) : List Int × List PC :=
  ([s.sh.flying, (Conc.inFlight s : Int), if s.sh.dropped then 1 else 0, (s.sh.overloadTime : Int)] ++ s.ths.map (·.rf),
   s.ths.map (·.pc))

example : (Conc.runActs exCfg (Conc.init exShared 3) exSchedule).map Conc.summary =
    some ([2, 2, 1, 12, 0, 0, 2], [.inflight, .stamp, .shed]) := by decide +kernel


example : ∃ s, Reach exCfg exShared 3 s ∧ ∃ t ∈ s.ths, t.pc = .shed := by
  cases h : Conc.runActs exCfg (Conc.init exShared 3) exSchedule with
  | none => exact absurd h (by decide +kernel)
  | some s =>
    refine ⟨s, Conc.reach_runActs exCfg exShared 3 exSchedule _ s Reach.init h, ?_⟩
    have h2 : (Conc.runActs exCfg (Conc.init exShared 3) exSchedule).map (fun s => s.ths.map (·.pc))
        = some [.inflight, .stamp, .shed] := by decide +kernel
    rw [h] at h2
    simp only [Option.map_some, Option.some.injEq] at h2
    have : PC.shed ∈ s.ths.map (·.pc) := by rw [h2]; simp
    obtain ⟨t, ht, hp⟩ := List.mem_map.mp this
    exact ⟨t, ht, hp⟩

/-! ### finding C02-threshold-at-cpumax-nan: the pinned (unguarded) `overloadFactor`

`WithCpuThreshold(1000)` makes `overloadFactor` compute `(1000 − cpu) / 0`.  For `cpu = 1000` — the only reading at
which the checker `cpu ≥ threshold` says "over" without overshoot — this is `0/0 = NaN`; `mathx.Between` returns NaN
(both of its comparisons are false), the limit `maxFlight·NaN` is NaN and `avgFlying > NaN` is false: nothing is
ever shed, however many requests are in flight.  `Pinned` is the model with that behaviour; it differs from the
model of the fixed code only at threshold = cpuMax = cpu. -/

namespace Pinned

/-- the unguarded factor: `none` = NaN. -/
def factor (threshold cpu : Int) : Option Rat :=
  if threshold = cpuMax ∧ cpu = cpuMax then none else some (overloadFactor threshold cpu)

/-- `highThru` with a NaN-aware comparison (`x > NaN` is false). -/
def highThru (s : Shedder) (now : Nat) (cpu : Int) : Bool :=
  match factor s.cpuThreshold cpu with
  | none => false
  | some f => decide (s.avgFlying > s.maxFlight now * f) && decide ((s.flying : Rat) > s.maxFlight now * f)

def shouldDrop (s : Shedder) (now : Nat) (cpuOver : Bool) (cpu : Int) : Bool :=
  s.gate now cpuOver && highThru (s.afterGate now cpuOver) now cpu

def verdict (s : Shedder) (now : Nat) (cpuOver : Bool) (cpu : Int) : Verdict :=
  if shouldDrop s now cpuOver cpu then .overloaded else .admitted

/-- away from threshold = cpuMax = cpu the pinned code and the model of the fixed code agree. -/
theorem agrees (s : Shedder) (now : Nat) (cpuOver : Bool) (cpu : Int) (h : ¬ (s.cpuThreshold = cpuMax ∧ cpu = cpuMax)) :
    verdict s now cpuOver cpu = (s.allow now cpuOver cpu).2 := by
  have ht : (s.afterGate now cpuOver).cpuThreshold = s.cpuThreshold := afterGate_threshold s now cpuOver
  have hh : highThru (s.afterGate now cpuOver) now cpu = (s.afterGate now cpuOver).highThru now cpu := by
    unfold highThru factor
    rw [ht, if_neg h]
    simp only [Shedder.highThru, Shedder.limit, ht]
  unfold verdict shouldDrop Shedder.allow Shedder.shouldDrop
  rw [hh]

/-- 100 ms buckets, no passes (capacity 10), threshold = cpuMax; 50 in flight, average 40. -/
def exState : Shedder :=
  { (Shedder.new 1000000000 10 1000 1) with flying := 50, avgFlying := 40 }

/-- **Witness.**  CPU at the threshold (the checker says "over"), in-flight count 50 and its average 40 both above the
full capacity estimate 10: the property demands a shed (`sheds_when_over_capacity` — the fixed code does shed), the
pinned code admits the request. -/
theorem witness :
    exState.maxFlight 5 = 10
    ∧ (exState.flying : Rat) > exState.maxFlight 5 ∧ exState.avgFlying > exState.maxFlight 5
    ∧ verdict exState 5 true 1000 = .admitted
    ∧ (exState.allow 5 true 1000).2 = .overloaded := by decide +kernel

end Pinned

/-- **A disabled shedder never sheds** (`NewAdaptiveShedder` returns the nop shedder when disabled). -/
theorem disabled_never_sheds : nopAllow = Verdict.admitted := rfl

/-! ### non-vacuity: concrete states meeting the hypotheses -/

/-- 100 ms buckets (scale 1/100), default latency 1000 ms, no passes: capacity 10. -/
def exShedder (flying : Int) (avg : Rat) (ot : Nat) (dr : Bool) : Shedder :=
  { (Shedder.new 1000000000 10 900 1) with flying := flying, avgFlying := avg, overloadTime := ot, droppedRecently := dr }

example : (exShedder 11 (21 / 2) 0 false).maxFlight 5 = 10 := by decide +kernel
-- over capacity with an overloaded CPU: shed (even with factor 1, cpu = 0)
example : ((exShedder 11 (21 / 2) 0 false).allow 5 true 0).2 = .overloaded := by decide +kernel
-- 2 in flight = 20 % of capacity, CPU at 1000: factor floor 1/10 → limit 1 → shed
example : ((exShedder 2 (3 / 2) 0 false).allow 5 true 1000).2 = .overloaded := by decide +kernel
-- exactly 10 % of capacity in flight: not shed
example : ((exShedder 1 1 0 false).allow 5 true 1000).2 = .admitted := by decide +kernel
-- calm CPU, hot Allow 999999999 ns ago, shedding in progress: shed; one nanosecond later: admitted
example : ((exShedder 11 11 7 true).allow (7 + 999999999) false 0).2 = .overloaded := by decide +kernel
example : ((exShedder 11 11 7 true).allow (7 + 1000000000) false 0).2 = .admitted := by decide +kernel
-- a well-formed history: two admitted, one passed → one in flight
example : (hrun (HSt.init ⟨1, Shedder.new 1000000000 10 900 1⟩)
    [.allow false 0, .allow true 950, .advance 3000000, .pass 0]).map (fun h => (h.st.sh.flying, h.outstanding))
    = some (1, [(1, 1)]) := by decide +kernel
-- a history across a bucket boundary: 30 requests of 20 ms pass inside the first 100 ms bucket; in the next
-- bucket the capacity estimate is 30 × 20 ms × (1/100) = 6, in the model and from the Pass log alike;
-- eleven buckets later the window has slid past them and the estimate is back to 10 (1 × 1000 ms × 1/100)
def exOps : List Op :=
  List.replicate 30 (.allow false 0) ++ [.advance 20000000] ++ List.replicate 30 (.pass 1) ++ [.advance 100000000]
example :
    let r := runH ⟨1, Shedder.new 1000000000 10 900 1⟩ { now := 1 } exOps
    (r.1.sh.maxFlight r.1.now, Spec.capacity ⟨10, 100000000, 1, 1 / 100⟩ r.2.passes r.2.now, r.2.inFlight) = (6, 6, 0) := by
  decide +kernel
example :
    let r := runH ⟨1, Shedder.new 1000000000 10 900 1⟩ { now := 1 } (exOps ++ [.advance 1000000000])
    (r.1.sh.maxFlight r.1.now, Spec.capacity ⟨10, 100000000, 1, 1 / 100⟩ r.2.passes r.2.now) = (10, 10) := by
  decide +kernel
-- resolving a promise twice is not a well-formed history
example : (hrun (HSt.init ⟨1, Shedder.new 1000000000 10 900 1⟩) [.allow false 0, .pass 0, .fail 0]).isNone := by
  decide +kernel

end GoZero.C02
