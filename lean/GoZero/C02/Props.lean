/-
C02 — property theorems.
-/
import GoZero.C02.Spec
namespace GoZero.C02

/-- a disabled shedder (nopShedder) never sheds. -/
theorem disabled_never_sheds : nopAllow = Verdict.admitted := rfl

end GoZero.C02
