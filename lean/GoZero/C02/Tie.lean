/-
C02 — Tie: what the extractor read from the go-zero working tree *now* equals what the model was written
against.  Formulas are translated from the Go source on every run (float64 arithmetic read as exact
rational arithmetic, integer arithmetic with Go's truncating `/` and `%`); each theorem proves the translated
expression equal to the model's definition for all arguments.  Skeleton theorems pin the order of the
semantically relevant statements (a swapped Pass/Fail, a release moved out of the defer, a dropped
`droppedRecently.Set`, a changed comparison all break an obligation here).
-/
import GoZero.Extracted.C02
import GoZero.C02.Proofs
namespace GoZero.C02.Tie
open GoZero.C02
open GoZero.Extracted.C02

theorem extraction_clean : extractionErrors = [] := by decide

/-! ### constants, with the property's literal numbers -/

theorem tie_coolOff : coolOffDuration = 1000000000 ∧ (coolOffNs : Int) = coolOffDuration := by decide
theorem tie_cpuMax : Extracted.C02.cpuMax = 1000 ∧ C02.cpuMax = Extracted.C02.cpuMax := by decide
theorem tie_defaultMinRt : Extracted.C02.defaultMinRt = 1000 ∧ C02.defaultMinRt = (Extracted.C02.defaultMinRt : Rat) := by
  constructor
  · decide
  · unfold C02.defaultMinRt Extracted.C02.defaultMinRt; rfl
theorem tie_flyingBeta : Extracted.C02.flyingBeta = C02.flyingBeta := by
  unfold Extracted.C02.flyingBeta C02.flyingBeta; rfl
theorem tie_factorLowerBound : overloadFactorLowerBound = factorLowerBound := by
  unfold overloadFactorLowerBound factorLowerBound; rfl
theorem tie_msPerSecond : millisecondsPerSecond = 1000 ∧ (msPerSecond : Int) = millisecondsPerSecond := by decide
theorem tie_defaults : defaultBuckets = 50 ∧ defaultWindow = 5000000000 ∧ defaultCpuThreshold = 900 := by decide

/-! ### helper facts: Go's truncating integer operators on non-negative operands -/

theorem tdiv_nat (a b : Nat) : Int.tdiv (a : Int) (b : Int) = ((a / b : Nat) : Int) := by
  rw [Int.tdiv_eq_ediv_of_nonneg (by omega)]; norm_cast

theorem tmod_nat (a b : Nat) : Int.tmod (a : Int) (b : Int) = ((a % b : Nat) : Int) := by
  rw [Int.tmod_eq_emod_of_nonneg (by omega)]; norm_cast

/-! ### adaptiveshedder.go -/

/-- `NewAdaptiveShedder`: `bucketDuration = window / buckets`, `windowScale = 1e9 / bucketDuration / 1000`;
both windows get `buckets` buckets of `bucketDuration` and ignore the current bucket. -/
theorem tie_new (window buckets : Nat) (threshold : Int) (now : Nat) :
    let s := Shedder.new window buckets threshold now
    s.windowScale = windowScaleExpr (bucketDurationExpr window buckets)
    ∧ (s.passCounter.interval : Int) = bucketDurationExpr window buckets
    ∧ (s.rtCounter.interval : Int) = bucketDurationExpr window buckets
    ∧ s.passCounter.size = buckets ∧ s.rtCounter.size = buckets
    ∧ s.passCounter.ignoreCurrent = true ∧ s.rtCounter.ignoreCurrent = true
    ∧ s.passCounter.lastTime = now ∧ s.rtCounter.lastTime = now
    ∧ s.cpuThreshold = threshold := by
  simp only [Shedder.new, RW.new, windowScaleExpr, bucketDurationExpr, tdiv_nat, nsPerSecond, msPerSecond]
  refine ⟨?_, trivial, trivial, trivial, trivial, trivial, trivial, trivial, trivial, trivial⟩
  rfl

theorem tie_newText :
    newWhenDisabled = "newNopShedder()"
    ∧ newPassCounter = "collection.NewRollingWindow[int64, *collection.Bucket[int64]](newBucket, options.buckets, bucketDuration, collection.IgnoreCurrentBucket[int64, *collection.Bucket[int64]]())"
    ∧ newRtCounter = newPassCounter
    ∧ newCpuThreshold = "defaultCpuThreshold" := ⟨rfl, rfl, rfl, rfl⟩

/-- `Allow` adds +1 to flying on admission and stamps the promise with `timex.Now()`. -/
theorem tie_allowAdmit (s : Shedder) (now : Nat) (o : Bool) :
    (s.allowWith now o false).flying = (s.afterGate now o).flying + allowFlyingDelta
    ∧ allowPromiseStart = "timex.Now()" := by
  constructor
  · simp [Shedder.allowWith, allowFlyingDelta]
  · decide

/-- `Pass` / `Fail` add −1; `addFlying` updates the average only for a negative delta, by the extracted formula. -/
theorem tie_release (s : Shedder) :
    s.release.flying = s.flying + passFlyingDelta
    ∧ s.release.flying = s.flying + failFlyingDelta
    ∧ s.release.avgFlying = avgUpdateExpr s.avgFlying (s.flying + passFlyingDelta)
    ∧ addFlyingUpdatesAvgIf passFlyingDelta = true ∧ addFlyingUpdatesAvgIf allowFlyingDelta = false := by
  refine ⟨?_, ?_, ?_, by decide, by decide⟩
  · simp [Shedder.release, passFlyingDelta]; omega
  · simp [Shedder.release, failFlyingDelta]; omega
  · simp only [Shedder.release, avgUpdateExpr, passFlyingDelta, C02.flyingBeta]
    have : s.flying + -1 = s.flying - 1 := by omega
    rw [this]

/-- `highThru`: limit = maxFlight() · overloadFactor(); both the average and the counter must exceed it. -/
theorem tie_highThru (s : Shedder) (now : Nat) (cpu : Int) :
    s.limit now cpu = limitExpr (s.maxFlight now) (overloadFactor s.cpuThreshold cpu)
    ∧ s.highThru now cpu = highThruExpr s.avgFlying (s.limit now cpu) s.flying := by
  constructor
  · rfl
  · simp only [Shedder.highThru, highThruExpr]

/-- `maxFlight` = AtLeast(float64(maxPass) · minRt · windowScale, 1). -/
theorem tie_maxFlight (s : Shedder) (now : Nat) :
    s.maxFlight now = maxFlightExpr (maxFlightRawExpr (s.maxPass now) (s.minRt now) s.windowScale) := by
  simp only [Shedder.maxFlight, maxFlightExpr, maxFlightRawExpr, atLeast]
  rfl

/-- `maxPass`: start at 1, take every larger bucket sum. -/
theorem tie_maxPass (bs : List Bucket) :
    maxPassOf bs = bs.foldl (fun r b => if maxPassTakes b.sum r then b.sum else r) maxPassInit
    ∧ maxPassAssign = "b.Sum" := by
  constructor
  · simp only [maxPassOf, maxPassTakes, maxPassInit, decide_eq_true_eq]
  · decide

theorem goRound_eq (x : Rat) : goRound x = roundHalfAway x := rfl

/-- `minRt`: start at defaultMinRt, skip empty buckets, take every smaller rounded average. -/
theorem tie_minRt (bs : List Bucket) :
    minRtOf bs = bs.foldl (fun r b =>
      if minRtSkips b.count then r
      else if minRtTakes (minRtAvgExpr b.sum b.count) r then minRtAvgExpr b.sum b.count else r) minRtInit
    ∧ minRtAssign = "avg" := by
  constructor
  · unfold minRtOf
    have hi : C02.defaultMinRt = minRtInit := by unfold C02.defaultMinRt minRtInit; rfl
    rw [hi]
    congr 1
    funext r b
    have e : minRtAvgExpr b.sum b.count = ((roundHalfAway ((b.sum : Rat) / (b.count : Rat)) : Int) : Rat) := rfl
    by_cases hc : b.count ≤ 0
    · have : minRtSkips b.count = true := by simp [minRtSkips, hc]
      rw [if_pos hc, if_pos this]
    · have : ¬ (minRtSkips b.count = true) := by simp [minRtSkips, hc]
      rw [if_neg hc, if_neg this]
      by_cases ht : minRtAvgExpr b.sum b.count < r
      · have h2 : minRtTakes (minRtAvgExpr b.sum b.count) r = true := by simp [minRtTakes, ht]
        rw [if_pos h2]
        rw [e] at ht ⊢
        exact if_pos ht
      · have h2 : ¬ (minRtTakes (minRtAvgExpr b.sum b.count) r = true) := by simp [minRtTakes, ht]
        rw [if_neg h2]
        rw [e] at ht
        exact if_neg ht
  · decide

/-- `overloadFactor` = Between((cpuMax − cpu) / (cpuMax − threshold), 0.1, 1) whenever the division is an ordinary
one (threshold ≠ cpuMax; thresholds above cpuMax included). -/
theorem tie_factor (threshold cpu : Int) (h : threshold ≠ 1000) :
    overloadFactor threshold cpu = factorExpr (factorRawExpr cpu threshold) := by
  unfold overloadFactor
  rw [if_neg (show ¬ threshold = C02.cpuMax from h)]
  simp only [factorExpr, factorRawExpr, C02.between, Extracted.C02.between, C02.cpuMax, factorLowerBound]
  rfl

/-- threshold = cpuMax: the float64 division is by zero.  The model takes `+Inf` (cpu < cpuMax) to the upper clamp
1, `−Inf` (cpu > cpuMax) to the lower clamp, and 0/0 (cpu = cpuMax) to the lower bound — the last by the guard
`if math.IsNaN(factor) { factor = overloadFactorLowerBound }` of fixes/C02-threshold-at-cpumax-nan.patch.
Until that patch is applied the unguarded form is accepted too (the harness then reports `nan=1` on such calls and the
driver follows the implementation: finding C02-threshold-at-cpumax-nan, witness `Pinned.witness` in Props.lean). -/
theorem tie_factorAtCpuMax :
    ((factorNanGuard = "math.IsNaN(factor)" ∧ factorNanValue = "overloadFactorLowerBound"
        ∧ overloadFactorShape = ["call stat.CpuUsage", "if math.IsNaN(factor) {", "}", "call mathx.Between", "return"])
      ∨ (factorNanGuard = "" ∧ factorNanValue = ""
        ∧ overloadFactorShape = ["call stat.CpuUsage", "call mathx.Between", "return"]))
    ∧ overloadFactor 1000 1000 = overloadFactorLowerBound
    ∧ (∀ cpu : Int, cpu < 1000 → overloadFactor 1000 cpu = 1)
    ∧ (∀ cpu : Int, 1000 ≤ cpu → overloadFactor 1000 cpu = overloadFactorLowerBound) := by
  refine ⟨by decide, by decide +kernel, ?_, ?_⟩
  · intro cpu h
    simp [overloadFactor, C02.cpuMax, h]
  · intro cpu h
    have : ¬ cpu < 1000 := by omega
    simp only [overloadFactor, C02.cpuMax, this, if_true, if_false]
    unfold overloadFactorLowerBound factorLowerBound; rfl

/-- `stillHot`'s two tests: overloadTime == 0, and timex.Since(overloadTime) < coolOffDuration. -/
theorem tie_stillHot (s : Shedder) (now : Nat) :
    s.stillHot now =
      (s.droppedRecently && !stillHotUnset (s.overloadTime : Int) && stillHotWithin (now : Int) (s.overloadTime : Int)) := by
  simp only [Shedder.stillHot, stillHotUnset, stillHotWithin, coolOffNs]
  congr 1
  · congr 1
    cases h : s.overloadTime <;> simp <;> omega
  · apply decide_eq_decide.mpr
    omega

theorem tie_defaultChecker : defaultCheckerExpr = "stat.CpuUsage() >= cpuThreshold" := by decide

/-- `Pass` records `int64(math.Ceil(float64(timex.Since(start)) / float64(time.Millisecond)))` and counts one pass. -/
theorem tie_pass (now start : Nat) (h : start ≤ now) :
    rtMs now start = passRtRecorded (passRtExpr (now : Int) (start : Int)) ∧ passCounted = 1 := by
  constructor
  · simp only [rtMs, passRtRecorded, passRtExpr, goCeil, nsPerMs]
    have e : ((now : Int) - (start : Int)) = ((now - start : Nat) : Int) := by omega
    rw [e]
    generalize now - start = k
    -- ⌈k / 10⁶⌉ = (k + 999999) / 10⁶
    have hk : (k + (1000000 - 1)) / 1000000 * 1000000 ≥ k ∧ (k + (1000000 - 1)) / 1000000 * 1000000 < k + 1000000 := by omega
    generalize (k + (1000000 - 1)) / 1000000 = q at *
    have hc : (0 : Rat) < ((1000000 : Int) : Rat) := Rat.intCast_pos.mpr (by decide)
    symm
    apply Int.le_antisymm
    · rw [Rat.ceil_le_iff, ← Rat.not_lt, Rat.lt_div_iff hc, Rat.not_lt, ← Rat.intCast_mul, Rat.intCast_le_intCast]
      omega
    · have : ((q : Int) - 1) < (((k : Int) : Rat) / ((1000000 : Int) : Rat)).ceil := by
        rw [Rat.lt_ceil_iff, Rat.lt_div_iff hc, ← Rat.intCast_mul, Rat.intCast_lt_intCast]
        omega
      omega
  · decide

/-! ### rollingwindow.go -/

/-- `span()`: offset = Since(lastTime) / interval; in [0, size) → offset, else size (clock monotone: lastTime ≤ now). -/
theorem tie_span (rw : RW) (now : Nat) (h : rw.lastTime ≤ now) :
    (rw.span now : Int) =
      (if spanInRange (spanOffsetExpr (now : Int) (rw.lastTime : Int) (rw.interval : Int)) (rw.size : Int)
       then spanOffsetExpr (now : Int) (rw.lastTime : Int) (rw.interval : Int) else (rw.size : Int)) := by
  have e : ((now : Int) - (rw.lastTime : Int)) = ((now - rw.lastTime : Nat) : Int) := by omega
  simp only [RW.span, spanInRange, spanOffsetExpr, e, tdiv_nat]
  generalize (now - rw.lastTime) / rw.interval = k
  by_cases hlt : k < rw.size <;> simp [hlt] <;> omega

/-- `updateOffset`: skip when span ≤ 0; reset indices (offset+i+1) % size; offset' = (offset+span) % size;
lastTime' = now − (now − lastTime) % interval. -/
theorem tie_updateOffset (rw : RW) (now : Nat) (h : rw.lastTime ≤ now) :
    (updateSkips (rw.span now : Int) = decide (rw.span now = 0))
    ∧ (∀ i : Nat, resetIndexExpr (rw.offset : Int) (i : Int) (rw.size : Int) = (((rw.offset + i + 1) % rw.size : Nat) : Int))
    ∧ (rw.span now ≠ 0 →
        ((rw.updateOffset now).offset : Int) = newOffsetExpr (rw.offset : Int) (rw.span now : Int) (rw.size : Int)
        ∧ ((rw.updateOffset now).lastTime : Int) = newLastTimeExpr (now : Int) (rw.lastTime : Int) (rw.interval : Int)) := by
  refine ⟨?_, ?_, ?_⟩
  · simp only [updateSkips]
    apply decide_eq_decide.mpr
    omega
  · intro i
    simp only [resetIndexExpr]
    have : ((rw.offset : Int) + (i : Int) + 1) = ((rw.offset + i + 1 : Nat) : Int) := by omega
    rw [this, tmod_nat]
  · intro hs
    have e : ((now : Int) - (rw.lastTime : Int)) = ((now - rw.lastTime : Nat) : Int) := by omega
    simp only [RW.updateOffset, hs, if_false, newOffsetExpr, newLastTimeExpr, e, tmod_nat]
    constructor
    · have : ((rw.offset : Int) + (rw.span now : Int)) = ((rw.offset + rw.span now : Nat) : Int) := by omega
      rw [this, tmod_nat]
    · have := Nat.mod_le (now - rw.lastTime) rw.interval
      omega

/-- the reset loop resets exactly the indices the extracted expression names. -/
theorem tie_resetLoop (bs : List Bucket) (size offset span : Nat) :
    resetLoop bs size offset (span + 1)
      = (resetLoop bs size offset span).set (resetIndexExpr (offset : Int) (span : Int) (size : Int)).toNat Bucket.empty := by
  simp only [resetLoop, resetIndexExpr]
  have : ((offset : Int) + (span : Int) + 1) = ((offset + span + 1 : Nat) : Int) := by omega
  rw [this, tmod_nat]
  rfl

/-- `Add` writes into bucket `offset % size`; `Bucket.Add` adds to the sum and counts one; `Reset` zeroes both. -/
theorem tie_bucket (b : Bucket) (v : Int) (offset size : Nat) :
    bucketAdd b.sum v b.count = [("Sum", (b.add v).sum), ("Count", (b.add v).count)]
    ∧ bucketReset = [("Sum", Bucket.empty.sum), ("Count", Bucket.empty.count)]
    ∧ winAddIndex (offset : Int) (size : Int) = ((offset % size : Nat) : Int)
    ∧ winResetIndex (offset : Int) (size : Int) = ((offset % size : Nat) : Int) := by
  refine ⟨rfl, rfl, ?_, ?_⟩ <;> simp only [winAddIndex, winResetIndex, tmod_nat]

/-- `Reduce`: span == 0 with ignoreCurrent → size − 1 buckets, else size − span; runs when diff > 0, starting at
(offset + span + 1) % size and walking (start + i) % size (size ≥ 1: NewRollingWindow panics otherwise). -/
theorem tie_reduce (rw : RW) (now : Nat) (hs : 1 ≤ rw.size) :
    rw.visible now =
      if reduceRuns (if reduceIgnoresCurrent (rw.span now : Int) rw.ignoreCurrent then reduceDiffIgnoring (rw.size : Int)
                     else reduceDiff (rw.size : Int) (rw.span now : Int)) then
        (List.range (if reduceIgnoresCurrent (rw.span now : Int) rw.ignoreCurrent then reduceDiffIgnoring (rw.size : Int)
                     else reduceDiff (rw.size : Int) (rw.span now : Int)).toNat).map fun (i : Nat) =>
          rw.buckets.getD (winReduceIndex (reduceStartExpr (rw.offset : Int) (rw.span now : Int) (rw.size : Int))
            ((i : Nat) : Int) (rw.size : Int)).toNat Bucket.empty
      else [] := by
  have hspan : rw.span now ≤ rw.size := by
    unfold RW.span
    generalize (now - rw.lastTime) / rw.interval = k
    by_cases h : k < rw.size <;> simp [h]
    omega
  simp only [RW.visible]
  generalize rw.span now = span at *
  have hd : (if reduceIgnoresCurrent (span : Int) rw.ignoreCurrent then reduceDiffIgnoring (rw.size : Int)
                     else reduceDiff (rw.size : Int) (span : Int))
      = (((if span = 0 && rw.ignoreCurrent then rw.size - 1 else rw.size - span) : Nat) : Int) := by
    simp only [reduceIgnoresCurrent, reduceDiffIgnoring, reduceDiff]
    by_cases h0 : span = 0 <;> cases hi : rw.ignoreCurrent <;> simp [h0] <;> omega
  rw [hd]
  simp only [reduceRuns, winReduceIndex, reduceStartExpr]
  have e1 : ((rw.offset : Int) + (span : Int) + 1) = ((rw.offset + span + 1 : Nat) : Int) := by omega
  rw [e1, tmod_nat]
  have e2 : ∀ i : Nat, Int.tmod ((((rw.offset + span + 1) % rw.size : Nat) : Int) + (i : Int)) (rw.size : Int)
      = ((((rw.offset + span + 1) % rw.size + i) % rw.size : Nat) : Int) := by
    intro i
    have : ((((rw.offset + span + 1) % rw.size : Nat) : Int) + (i : Int)) = ((((rw.offset + span + 1) % rw.size + i : Nat)) : Int) := by omega
    rw [this, tmod_nat]
  simp only [e2, Int.toNat_natCast]
  generalize (if (span = 0 && rw.ignoreCurrent) = true then rw.size - 1 else rw.size - span) = d
  by_cases hpos : d > 0
  · have : decide (((d : Nat) : Int) > 0) = true := by simp only [decide_eq_true_eq]; omega
    simp only [hpos, this, if_true]
  · have : decide (((d : Nat) : Int) > 0) = false := by simp only [decide_eq_false_iff_not]; omega
    simp only [hpos, this, if_false]
    rfl

/-- the nop shedder hands out a nop promise and no error; the disabled path of `NewAdaptiveShedder` returns it. -/
theorem tie_nopAllow : nopAllowReturns = "nopPromise{}" ∧ nopAllowError = "nil" ∧ newWhenDisabled = "newNopShedder()" :=
  ⟨rfl, rfl, rfl⟩

/-! ### statement skeletons -/

/-- `NewAdaptiveShedder`: disabled → nop shedder; otherwise options, then the struct with two rolling windows. -/
theorem tie_newShape : newShape =
    ["if !enabled.True() {", "return", "}", "range opts {", "call opt", "}", "func{", "return", "}",
    "call syncx.NewAtomicDuration", "call syncx.NewAtomicBool", "call ?", "call ?", "call ?", "call ?",
    "return"] := by decide

/-- `Allow`: shouldDrop → mark droppedRecently and refuse; else addFlying and a promise stamped with timex.Now(). -/
theorem tie_allowShape : allowShape =
    ["if as.shouldDrop() {", "call as.droppedRecently.Set", "return", "}", "call as.addFlying",
    "call timex.Now", "return"] := by decide

/-- `addFlying`: one atomic add; the average is updated (under its spin lock) only on a decrement. -/
theorem tie_addFlyingShape : addFlyingShape =
    ["call atomic.AddInt64", "if delta < 0 {", "call as.avgFlyingLock.Lock", "store as.avgFlying",
    "call as.avgFlyingLock.Unlock", "}"] := by decide

/-- `highThru`: average read under its lock, limit = maxFlight·factor, atomic read of flying. -/
theorem tie_highThruShape : highThruShape =
    ["call as.avgFlyingLock.Lock", "call as.avgFlyingLock.Unlock", "call as.maxFlight",
    "call as.overloadFactor", "call atomic.LoadInt64", "return"] := by decide

/-- `shouldDrop`: (systemOverloaded ‖ stillHot) then highThru; the drop branch only logs (and re-evaluates stillHot for the log line). -/
theorem tie_shouldDropShape : shouldDropShape =
    ["if as.systemOverloaded() || as.stillHot() {", "if as.highThru() {", "call as.stillHot", "return", "}", "}", "return"] := by decide

/-- `stillHot`: not dropped recently → false; overloadTime unset → false; within cool-off → true; else clear droppedRecently. -/
theorem tie_stillHotShape : stillHotShape =
    ["if !as.droppedRecently.True() {", "return", "}", "call as.overloadTime.Load",
    "if overloadTime == 0 {", "return", "}", "if timex.Since(overloadTime) < coolOffDuration {", "return",
    "}", "call as.droppedRecently.Set", "return"] := by decide

/-- `systemOverloaded`: checker says no → false; else stamp overloadTime with timex.Now(). -/
theorem tie_systemOverloadedShape : systemOverloadedShape =
    ["if !systemOverloadChecker(as.cpuThreshold) {", "return", "}", "call timex.Now",
    "call as.overloadTime.Set", "return"] := by decide

/-- `maxPass`: fold over passCounter.Reduce. -/
theorem tie_maxPassShape : maxPassShape =
    ["func{", "if b.Sum > result {", "}", "}", "call as.passCounter.Reduce", "return"] := by decide

/-- `minRt`: fold over rtCounter.Reduce skipping empty buckets. -/
theorem tie_minRtShape : minRtShape =
    ["func{", "if b.Count <= 0 {", "return", "}", "call math.Round", "if avg < result {", "}", "}",
    "call as.rtCounter.Reduce", "return"] := by decide

/-- `promise.Pass`: latency from timex.Since(start), release, record latency, count the pass. -/
theorem tie_passShape : passShape =
    ["call timex.Since", "call p.shedder.addFlying", "call math.Ceil", "call p.shedder.rtCounter.Add",
    "call p.shedder.passCounter.Add"] := by decide

/-- `promise.Fail`: release only. -/
theorem tie_failShape : failShape =
    ["call p.shedder.addFlying"] := by decide

/-- `span`. -/
theorem tie_spanShape : spanShape =
    ["call timex.Since", "if 0 <= offset && offset < rw.size {", "return", "}", "return"] := by decide

/-- `updateOffset`: nothing if span ≤ 0; reset loop; new offset; aligned lastTime. -/
theorem tie_updateOffsetShape : updateOffsetShape =
    ["call rw.span", "if span <= 0 {", "return", "}", "for i < span {", "call rw.win.resetBucket", "}",
    "store rw.offset", "call timex.Now", "store rw.lastTime"] := by decide

/-- `RollingWindow.Add`: under the write lock, updateOffset then add into the current bucket. -/
theorem tie_rwAddShape : rwAddShape =
    ["call rw.lock.Lock", "defer{", "call rw.lock.Unlock", "}", "call rw.updateOffset", "call rw.win.add"] := by decide

/-- `RollingWindow.Reduce`: under the read lock; diff by the ignore-current rule; reduce if diff > 0. -/
theorem tie_reduceShape : reduceShape =
    ["call rw.lock.RLock", "defer{", "call rw.lock.RUnlock", "}", "call rw.span",
    "if span == 0 && rw.ignoreCurrent {", "}", "else{", "}", "if diff > 0 {", "call rw.win.reduce", "}"] := by decide

/-- `window.reduce`. -/
theorem tie_winReduceShape : winReduceShape =
    ["for i < count {", "call fn", "}"] := by decide

/-- `NewRollingWindow`: size ≥ 1 or panic; lastTime = timex.Now(); options applied. -/
theorem tie_newRollingWindowShape : newRollingWindowShape =
    ["if size < 1 {", "panic", "}", "call ?", "call timex.Now", "range opts {", "call opt", "}", "return"] := by decide

/-- `IgnoreCurrentBucket` sets the flag. -/
theorem tie_ignoreCurrentShape : ignoreCurrentShape =
    ["func{", "store w.ignoreCurrent", "}", "return"] := by decide

/-- `nopShedder.Allow` just returns. -/
theorem tie_nopAllowShape : nopAllowShape =
    ["return"] := by decide

/-- `nopPromise.Pass` does nothing. -/
theorem tie_nopPassShape : nopPassShape =
    [] := by decide

/-- `nopPromise.Fail` does nothing. -/
theorem tie_nopFailShape : nopFailShape =
    [] := by decide

/-- `ShedderGroup.GetShedder`: one NewAdaptiveShedder per key through the resource manager. -/
theorem tie_getShedderShape : getShedderShape =
    ["func{", "call NewAdaptiveShedder", "return", "}", "call g.manager.GetResource", "return"] := by decide

/-- `stat.CpuUsage` is one atomic load. -/
theorem tie_cpuUsageShape : cpuUsageShape =
    ["call atomic.LoadInt64", "return"] := by decide

/-- `mathx.AtLeast`. -/
theorem tie_atLeastShape : atLeastShape =
    ["if x < lower {", "return", "}", "return"] := by decide

/-- `mathx.Between`. -/
theorem tie_betweenShape : betweenShape =
    ["if x < lower {", "return", "}", "if x > upper {", "return", "}", "return"] := by decide

/-- `SheddingHandler`: Allow; refused → 503 and return; admitted → exactly one of Fail / Pass, in a defer, around next.ServeHTTP. -/
theorem tie_sheddingHandlerShape : sheddingHandlerShape =
    ["if shedder == nil {", "func{", "return", "}", "return", "}", "func{", "func{", "call shedder.Allow",
    "if err != nil {", "call w.WriteHeader", "return", "}", "defer{", "func{",
    "if cw.Code == http.StatusServiceUnavailable {", "call promise.Fail", "}", "else{",
    "call promise.Pass", "}", "}", "call func", "}", "call next.ServeHTTP", "}", "return", "}", "return"] := by decide

/-- `UnarySheddingInterceptor`: Allow; refused → ResourceExhausted; admitted → exactly one of Fail / Pass, in a defer, around the handler. -/
theorem tie_sheddingInterceptorShape : sheddingInterceptorShape =
    ["func{", "call shedder.Allow", "if err != nil {", "call status.Error", "return", "}", "defer{",
    "func{", "if errors.Is(err, context.DeadlineExceeded) {", "call promise.Fail", "}", "else{",
    "call promise.Pass", "}", "}", "call func", "}", "call handler", "return", "}", "return"] := by decide

end GoZero.C02.Tie
