/-
C02 — Tie: what the extractor read from the source *now* equals what the model was written against.
-/
import GoZero.Extracted.C02
import GoZero.C02.Model
namespace GoZero.C02.Tie
open GoZero.C02

theorem extraction_clean : Extracted.C02.extractionErrors = [] := by decide

end GoZero.C02.Tie
