/-
C02 — the life of `droppedRecently` ("shedding is in progress") over a history: ghost bookkeeping (core Lean only).

`Life` keeps, next to the history summary of Spec.lean, the time of the latest shed (`lastDrop`) and the time at which a
calm Allow last saw a cool-off expire (`lastLapse`).  Nothing here looks at the shedder.
-/
import GoZero.C02.History
namespace GoZero.C02

structure Life where
  h         : Spec.Hist
  lastDrop  : Option Nat := none     -- time of the latest Allow that returned ErrServiceOverloaded
  lastLapse : Option Nat := none     -- time of the latest calm Allow that found an episode's cool-off expired
  deriving Repr

/-- a calm Allow finds the episode over: in progress, but no overloaded Allow within the last second. -/
def Life.lapsesAt (l : Life) (e : Spec.Ev) : Bool :=
  match e with
  | .allow false _ => l.h.inProgress && !l.h.hot
  | _ => false

def Life.observe (l : Life) (e : Spec.Ev) : Life :=
  { h := l.h.observe e
    lastDrop := (match e with | .allow _ .overloaded => some l.h.now | _ => l.lastDrop)
    lastLapse := if l.lapsesAt e then some l.h.now else l.lastLapse }

/-- a run of the model with the life of the flag kept alongside (same steps as `runH`). -/
def runL (st : St) (l : Life) : List Op → St × Life
  | [] => (st, l)
  | op :: ops => runL (step st op).1 (l.observe (evOf st op)) ops

end GoZero.C02
