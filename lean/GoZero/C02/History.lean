/-
C02 — histories: (1) promise identities and in-flight conservation, (2) the model's cool-off bookkeeping
(`overloadTime`, `droppedRecently`, `flying`, `avgFlying`) is exactly the history summary `Spec.Hist`.
-/
import GoZero.C02.Proofs
namespace GoZero.C02

/-! ### (1) histories with promise identities -/

/-- an operation of a history: promises are named by the number of the `Allow` call that created them. -/
inductive HOp where
  | advance (d : Nat)
  | allow (cpuOver : Bool) (cpu : Int)
  | pass (id : Nat)
  | fail (id : Nat)
  deriving Repr

structure HSt where
  st          : St
  outstanding : List (Nat × Nat)     -- (promise id, start): admitted and not yet resolved
  nextId      : Nat
  deriving Repr

def HSt.init (st : St) : HSt := { st := st, outstanding := [], nextId := 0 }

/-- one step of a well-formed history; `none` = the operation resolves a promise that was never
handed out or was resolved before (outside the property's hypothesis "resolved once"). -/
def hstep (h : HSt) : HOp → Option (HSt × Option Verdict)
  | .advance d => some ({ h with st := (step h.st (.advance d)).1 }, none)
  | .allow o c =>
    match (h.st.sh.allow h.st.now o c).2 with
    | .admitted =>
      some ({ st := (step h.st (.allow o c)).1, outstanding := (h.nextId, h.st.now) :: h.outstanding,
              nextId := h.nextId + 1 }, some .admitted)
    | .overloaded =>
      some ({ h with st := (step h.st (.allow o c)).1, nextId := h.nextId + 1 }, some .overloaded)
  | .pass id =>
    match h.outstanding.find? (fun p => p.1 = id) with
    | some p => some ({ h with st := (step h.st (.pass p.2)).1, outstanding := h.outstanding.erase p }, none)
    | none => none
  | .fail id =>
    match h.outstanding.find? (fun p => p.1 = id) with
    | some p => some ({ h with st := (step h.st .fail).1, outstanding := h.outstanding.erase p }, none)
    | none => none

def hrun (h : HSt) : List HOp → Option HSt
  | [] => some h
  | op :: ops =>
    match hstep h op with
    | some (h', _) => hrun h' ops
    | none => none

theorem hstep_conserves (h : HSt) (op : HOp) (h' : HSt) (v : Option Verdict)
    (hinv : h.st.sh.flying = (h.outstanding.length : Int)) (hs : hstep h op = some (h', v)) :
    h'.st.sh.flying = (h'.outstanding.length : Int) := by
  cases op with
  | advance d =>
    simp only [hstep, Option.some.injEq, Prod.mk.injEq] at hs
    obtain ⟨rfl, _⟩ := hs
    simpa [step] using hinv
  | allow o c =>
    simp only [hstep] at hs
    have hf := allow_flying h.st.sh h.st.now o c
    split at hs
    · rename_i hv
      simp only [Option.some.injEq, Prod.mk.injEq] at hs
      obtain ⟨rfl, _⟩ := hs
      simp only [step, List.length_cons]
      rw [hf, hv, hinv]
      simp
    · rename_i hv
      simp only [Option.some.injEq, Prod.mk.injEq] at hs
      obtain ⟨rfl, _⟩ := hs
      simp only [step]
      rw [hf, hv, hinv]
      simp
  | pass id =>
    simp only [hstep] at hs
    split at hs
    · rename_i p hp
      simp only [Option.some.injEq, Prod.mk.injEq] at hs
      obtain ⟨rfl, _⟩ := hs
      have hm : p ∈ h.outstanding := List.mem_of_find?_eq_some hp
      have hl := List.length_erase_of_mem hm
      have hpos : 0 < h.outstanding.length := List.length_pos_of_mem hm
      simp only [step, pass_flying, hl, hinv]
      omega
    · cases hs
  | fail id =>
    simp only [hstep] at hs
    split at hs
    · rename_i p hp
      simp only [Option.some.injEq, Prod.mk.injEq] at hs
      obtain ⟨rfl, _⟩ := hs
      have hm : p ∈ h.outstanding := List.mem_of_find?_eq_some hp
      have hl := List.length_erase_of_mem hm
      have hpos : 0 < h.outstanding.length := List.length_pos_of_mem hm
      simp only [step, fail_flying, hl, hinv]
      omega
    · cases hs

theorem hrun_conserves (ops : List HOp) (h h' : HSt)
    (hinv : h.st.sh.flying = (h.outstanding.length : Int)) (hr : hrun h ops = some h') :
    h'.st.sh.flying = (h'.outstanding.length : Int) := by
  induction ops generalizing h with
  | nil => simp only [hrun, Option.some.injEq] at hr; subst hr; exact hinv
  | cons op ops ih =>
    simp only [hrun] at hr
    split at hr
    · rename_i h1 v hs
      exact ih h1 (hstep_conserves h op h1 v hinv hs) hr
    · cases hr

/-! ### (2) the cool-off bookkeeping is the history summary -/

/-- the observable event a model step produces. -/
def evOf (st : St) : Op → Spec.Ev
  | .advance d => .advance d
  | .allow o c => .allow o (st.sh.allow st.now o c).2
  | .pass start => .pass start
  | .fail => .fail

/-- model state ↔ history summary. -/
structure Ref (st : St) (h : Spec.Hist) : Prop where
  now  : h.now = st.now
  pos  : 0 < st.now
  fly  : h.inFlight = st.sh.flying
  avg  : h.avg = st.sh.avgFlying
  ot   : st.sh.overloadTime = h.lastOver.getD 0
  otp  : ∀ t, h.lastOver = some t → 0 < t
  dr   : st.sh.droppedRecently = h.inProgress
  prog : h.inProgress = true → h.lastOver ≠ none

theorem ref_hot (st : St) (h : Spec.Hist) (r : Ref st h) : st.sh.stillHot st.now = h.hot := by
  unfold Shedder.stillHot Spec.Hist.hot coolOffNs
  rw [r.dr, r.ot, r.now]
  cases hl : h.lastOver with
  | none =>
    cases hp : h.inProgress
    · simp
    · exact absurd hl (r.prog hp)
  | some t =>
    have := r.otp t hl
    have : (t != 0) = true := by simp; omega
    simp [this]

theorem release_avg (s : Shedder) :
    s.release.avgFlying = s.avgFlying * (9 / 10) + ((s.flying - 1 : Int) : Rat) * (1 / 10) := by
  unfold Shedder.release flyingBeta
  simp only []
  grind

theorem ref_resolve (st : St) (h : Spec.Hist) (r : Ref st h) :
    h.resolve.inFlight = st.sh.release.flying ∧ h.resolve.avg = st.sh.release.avgFlying := by
  have hf := r.fly
  unfold Spec.Hist.inFlight at hf
  constructor
  · simp only [Spec.Hist.resolve, Spec.Hist.inFlight, release_flying]
    omega
  · rw [release_avg]
    simp only [Spec.Hist.resolve, r.avg]
    have : ((h.admitted : Int) - ((h.resolved + 1 : Nat) : Int)) = st.sh.flying - 1 := by omega
    rw [this]

theorem ref_step (st : St) (h : Spec.Hist) (r : Ref st h) (op : Op) :
    Ref (step st op).1 (h.observe (evOf st op)) := by
  cases op with
  | advance d =>
    simp only [step, evOf, Spec.Hist.observe]
    exact { now := by simp [r.now], pos := by have := r.pos; simp; omega, fly := r.fly, avg := r.avg,
            ot := r.ot, otp := r.otp, dr := r.dr, prog := r.prog }
  | pass start =>
    have hr := ref_resolve st h r
    simp only [step, evOf, Spec.Hist.observe]
    exact { now := r.now, pos := r.pos, fly := hr.1, avg := hr.2, ot := r.ot, otp := r.otp, dr := r.dr,
            prog := r.prog }
  | fail =>
    have hr := ref_resolve st h r
    simp only [step, evOf, Spec.Hist.observe]
    exact { now := r.now, pos := r.pos, fly := hr.1, avg := hr.2, ot := r.ot, otp := r.otp, dr := r.dr,
            prog := r.prog }
  | allow o c =>
    have hhot := ref_hot st h r
    have hpos := r.pos
    have hnow := r.now
    have hfly := r.fly
    have havg := r.avg
    have hot := r.ot
    have hotp := r.otp
    have hdr := r.dr
    have hprog := r.prog
    -- the state after the gate against the history after the CPU verdict was noted
    cases o with
    | true =>
      cases hv : (st.sh.allow st.now true c).2 with
      | admitted =>
        simp only [step, evOf, hv, Spec.Hist.observe, if_true]
        unfold Shedder.allow at hv ⊢
        simp only [] at hv ⊢
        have hd : st.sh.shouldDrop st.now true c = false := by
          cases hd : st.sh.shouldDrop st.now true c <;> simp_all
        simp only [hd, Shedder.allowWith, Shedder.afterGate, Shedder.systemOverloaded, if_true]
        constructor <;> simp_all [Spec.Hist.inFlight] <;> omega
      | overloaded =>
        simp only [step, evOf, hv, Spec.Hist.observe, if_true]
        unfold Shedder.allow at hv ⊢
        simp only [] at hv ⊢
        have hd : st.sh.shouldDrop st.now true c = true := by
          cases hd : st.sh.shouldDrop st.now true c <;> simp_all
        simp only [hd, Shedder.allowWith, Shedder.afterGate, Shedder.systemOverloaded, if_true]
        constructor <;> simp_all [Spec.Hist.inFlight] <;> omega
    | false =>
      have hgate : (st.sh.droppedRecently && st.sh.overloadTime != 0 &&
            !decide (st.now - st.sh.overloadTime < coolOffNs)) = (h.inProgress && !h.hot) := by
        rw [← hhot]
        unfold Shedder.stillHot
        rw [← hdr]
        cases hd : st.sh.droppedRecently <;> cases hz : (st.sh.overloadTime != 0) <;> simp
        -- droppedRecently with overloadTime = 0 cannot happen
        have hp := hprog (by rw [← hdr]; exact hd)
        cases hl : h.lastOver with
        | none => exact absurd hl hp
        | some t =>
          have := hotp t hl
          rw [hl] at hot
          simp at hot hz
          omega
      cases hv : (st.sh.allow st.now false c).2 with
      | admitted =>
        simp only [step, evOf, hv, Spec.Hist.observe]
        unfold Shedder.allow at hv ⊢
        simp only [] at hv ⊢
        have hd : st.sh.shouldDrop st.now false c = false := by
          cases hd : st.sh.shouldDrop st.now false c <;> simp_all
        simp only [hd, Shedder.allowWith, Shedder.afterGate, Shedder.afterStillHot, hgate]
        cases hg : (h.inProgress && !h.hot)
        · simp only [Bool.false_eq_true, if_false]
          constructor <;> simp_all [Spec.Hist.inFlight] <;> omega
        · simp only [if_true]
          constructor <;> simp_all [Spec.Hist.inFlight] <;> omega
      | overloaded =>
        simp only [step, evOf, hv, Spec.Hist.observe]
        unfold Shedder.allow at hv ⊢
        simp only [] at hv ⊢
        have hd : st.sh.shouldDrop st.now false c = true := by
          cases hd : st.sh.shouldDrop st.now false c <;> simp_all
        -- a shed with a calm CPU needs stillHot, hence a recorded hot Allow
        have hsh : st.sh.stillHot st.now = true := by
          have := (shouldDrop_iff st.sh st.now false c).mp hd
          simpa using this.1
        have hhot' : h.hot = true := by rw [← hhot]; exact hsh
        have hne : h.lastOver ≠ none := by
          intro hl
          unfold Spec.Hist.hot at hhot'
          simp [hl] at hhot'
        simp only [hd, Shedder.allowWith, Shedder.afterGate, Shedder.afterStillHot, hgate]
        cases hg : (h.inProgress && !h.hot)
        · simp only [Bool.false_eq_true, if_false]
          constructor <;> simp_all [Spec.Hist.inFlight]
        · simp only [if_true]
          constructor <;> simp_all [Spec.Hist.inFlight]

end GoZero.C02
