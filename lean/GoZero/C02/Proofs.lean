/-
C02 — helper lemmas about the decision logic of the shedder model (core Lean only).
-/
import GoZero.C02.Spec
namespace GoZero.C02

/-! ### clamp, factor, capacity floor -/

theorem between_bounds (x lo hi : Rat) (h : lo ≤ hi) : lo ≤ between x lo hi ∧ between x lo hi ≤ hi := by
  unfold between
  split
  · exact ⟨Rat.le_refl, h⟩
  · split
    · exact ⟨h, Rat.le_refl⟩
    · constructor <;> grind

theorem factor_bounds (threshold cpu : Int) :
    1 / 10 ≤ overloadFactor threshold cpu ∧ overloadFactor threshold cpu ≤ 1 := by
  unfold overloadFactor factorLowerBound
  split
  · split <;> constructor <;> grind
  · exact between_bounds _ _ _ (by grind)

theorem maxFlight_ge_one (s : Shedder) (now : Nat) : 1 ≤ s.maxFlight now := by
  unfold Shedder.maxFlight
  simp only []
  split
  · exact Rat.le_refl
  · grind

/-- the comparison threshold of `highThru` lies between 10 % and 100 % of the capacity estimate. -/
theorem limit_bounds (s : Shedder) (now : Nat) (cpu : Int) :
    s.maxFlight now ≤ 10 * s.limit now cpu ∧ s.limit now cpu ≤ s.maxFlight now := by
  have hm := maxFlight_ge_one s now
  have hf := factor_bounds s.cpuThreshold cpu
  unfold Shedder.limit
  generalize s.maxFlight now = m at *
  generalize overloadFactor s.cpuThreshold cpu = f at *
  have hm0 : (0 : Rat) ≤ m := by grind
  have h1 : m * (1 / 10) ≤ m * f := Rat.mul_le_mul_of_nonneg_left hf.1 hm0
  have h2 : m * f ≤ m * 1 := Rat.mul_le_mul_of_nonneg_left hf.2 hm0
  constructor <;> grind

theorem limit_pos (s : Shedder) (now : Nat) (cpu : Int) : 1 / 10 ≤ s.limit now cpu := by
  have := limit_bounds s now cpu
  have := maxFlight_ge_one s now
  grind

/-! ### the gate leaves load figures untouched -/

theorem afterGate_flying (s : Shedder) (now : Nat) (o : Bool) : (s.afterGate now o).flying = s.flying := by
  unfold Shedder.afterGate Shedder.systemOverloaded Shedder.afterStillHot
  split <;> (try split) <;> rfl

theorem afterGate_avg (s : Shedder) (now : Nat) (o : Bool) : (s.afterGate now o).avgFlying = s.avgFlying := by
  unfold Shedder.afterGate Shedder.systemOverloaded Shedder.afterStillHot
  split <;> (try split) <;> rfl

theorem afterGate_maxFlight (s : Shedder) (now : Nat) (o : Bool) (t : Nat) :
    (s.afterGate now o).maxFlight t = s.maxFlight t := by
  unfold Shedder.afterGate Shedder.systemOverloaded Shedder.afterStillHot
  split <;> (try split) <;> rfl

theorem afterGate_threshold (s : Shedder) (now : Nat) (o : Bool) :
    (s.afterGate now o).cpuThreshold = s.cpuThreshold := by
  unfold Shedder.afterGate Shedder.systemOverloaded Shedder.afterStillHot
  split <;> (try split) <;> rfl

theorem afterGate_limit (s : Shedder) (now : Nat) (o : Bool) (t : Nat) (cpu : Int) :
    (s.afterGate now o).limit t cpu = s.limit t cpu := by
  unfold Shedder.limit
  rw [afterGate_maxFlight, afterGate_threshold]

theorem highThru_afterGate (s : Shedder) (now : Nat) (o : Bool) (cpu : Int) :
    (s.afterGate now o).highThru now cpu = s.highThru now cpu := by
  unfold Shedder.highThru
  rw [afterGate_limit, afterGate_avg, afterGate_flying]

/-- `shouldDrop` in one line: (checker ∨ stillHot) ∧ avg > limit ∧ flying > limit. -/
theorem shouldDrop_iff (s : Shedder) (now : Nat) (o : Bool) (cpu : Int) :
    s.shouldDrop now o cpu = true ↔
      (o = true ∨ s.stillHot now = true) ∧ s.avgFlying > s.limit now cpu ∧ (s.flying : Rat) > s.limit now cpu := by
  unfold Shedder.shouldDrop
  rw [highThru_afterGate]
  unfold Shedder.gate Shedder.highThru
  simp only [Bool.and_eq_true, Bool.or_eq_true, decide_eq_true_eq]

theorem stillHot_iff (s : Shedder) (now : Nat) :
    s.stillHot now = true ↔
      s.droppedRecently = true ∧ s.overloadTime ≠ 0 ∧ now - s.overloadTime < 1000000000 := by
  unfold Shedder.stillHot coolOffNs
  simp only [Bool.and_eq_true, decide_eq_true_eq, bne_iff_ne, ne_eq, and_assoc]

theorem allow_verdict (s : Shedder) (now : Nat) (o : Bool) (cpu : Int) :
    (s.allow now o cpu).2 = .overloaded ↔ s.shouldDrop now o cpu = true := by
  unfold Shedder.allow
  simp only []
  split <;> simp_all

theorem allow_verdict_admitted (s : Shedder) (now : Nat) (o : Bool) (cpu : Int) :
    (s.allow now o cpu).2 = .admitted ↔ s.shouldDrop now o cpu = false := by
  unfold Shedder.allow
  simp only []
  split <;> simp_all

/-! ### in-flight accounting of single operations -/

theorem allow_flying (s : Shedder) (now : Nat) (o : Bool) (cpu : Int) :
    (s.allow now o cpu).1.flying = s.flying + (if (s.allow now o cpu).2 = .admitted then 1 else 0) := by
  unfold Shedder.allow Shedder.allowWith
  simp only []
  split <;> simp [afterGate_flying]

theorem release_flying (s : Shedder) : s.release.flying = s.flying - 1 := rfl

theorem pass_flying (s : Shedder) (now start : Nat) : (s.pass now start).flying = s.flying - 1 := rfl

theorem fail_flying (s : Shedder) : s.fail.flying = s.flying - 1 := rfl

end GoZero.C02
