/-
C02 — Tie (round 5): WHOLE FUNCTION BODIES regenerated from the go-zero working tree.

`extract/c02.go: c02BodyFn` translates the body of a Go function — if statements with or without else, early returns,
the order of the effect statements — into a Lean function whose atoms (conditions `c_i : σ → Bool`, effects
`e_j : σ → σ`) are parameters; the atoms' source texts are emitted next to it.  Each theorem here
  (1) pins the atom texts (position ↦ Go statement), and
  (2) instantiates the atoms with their meaning in the model and proves the generated function EQUAL to the model's
      definition for ALL states and arguments.
A swapped pair of statements, an early return added or removed, a negated condition, a statement moved into or out of a
branch changes the generated function and breaks (2); a changed statement breaks (1).
-/
import GoZero.Extracted.C02
import GoZero.C02.Site
namespace GoZero.C02.TieBody
open GoZero.C02
open GoZero.Extracted.C02

/-! ### adaptiveshedder.go -/

/-- `stillHot`: state = (shedder, the local `overloadTime`). -/
theorem tie_stillHotBody (s : Shedder) (now : Nat) :
    stillHotFnConds = ["!as.droppedRecently.True()", "overloadTime == 0", "timex.Since(overloadTime) < coolOffDuration"]
    ∧ stillHotFnEffects = ["overloadTime := as.overloadTime.Load()", "as.droppedRecently.Set(false)"]
    ∧ (let r := stillHotFn (σ := Shedder × Nat)
          (fun x => !x.1.droppedRecently) (fun x => x.2 == 0) (fun x => decide (now - x.2 < coolOffNs))
          (fun x => (x.1, x.1.overloadTime)) (fun x => ({ x.1 with droppedRecently := false }, x.2)) (s, 0)
       r.1.1 = s.afterStillHot now ∧ r.2 = (if s.stillHot now then "true" else "false")) := by
  refine ⟨rfl, rfl, ?_⟩
  obtain ⟨thr, ws, fl, avg, ot, dr, pc, rc⟩ := s
  simp only [stillHotFn, Shedder.afterStillHot, Shedder.stillHot]
  cases dr
  · simp
  · by_cases h0 : ot = 0
    · simp [h0]
    · by_cases hc : now - ot < coolOffNs <;> simp [h0, hc]

/-- `systemOverloaded`: the checker's verdict `cpuOver`; a positive verdict stamps overloadTime with timex.Now(). -/
theorem tie_systemOverloadedBody (s : Shedder) (now : Nat) (cpuOver : Bool) :
    systemOverloadedFnConds = ["!systemOverloadChecker(as.cpuThreshold)"]
    ∧ systemOverloadedFnEffects = ["as.overloadTime.Set(timex.Now())"]
    ∧ (let r := systemOverloadedFn (σ := Shedder) (fun _ => !cpuOver) (fun x => { x with overloadTime := now }) s
       r.1 = s.systemOverloaded now cpuOver ∧ r.2 = (if cpuOver then "true" else "false")) := by
  refine ⟨rfl, rfl, ?_⟩
  cases cpuOver <;> simp [systemOverloadedFn, Shedder.systemOverloaded]

/-- `shouldDrop` = gate && highThru (the log statements of the drop branch are left out by the extractor). -/
theorem tie_shouldDropBody (s : Shedder) (now : Nat) (cpuOver : Bool) (cpu : Int) :
    shouldDropFnConds = ["as.systemOverloaded() || as.stillHot()", "as.highThru()"]
    ∧ shouldDropFnEffects = []
    ∧ (shouldDropFn (σ := Unit) (fun _ => s.gate now cpuOver) (fun _ => (s.afterGate now cpuOver).highThru now cpu) ()).2
        = (if s.shouldDrop now cpuOver cpu then "true" else "false") := by
  refine ⟨rfl, rfl, ?_⟩
  simp only [shouldDropFn, Shedder.shouldDrop]
  by_cases hg : s.gate now cpuOver = true <;> by_cases hh : (s.afterGate now cpuOver).highThru now cpu = true <;> simp [hg, hh]

/-- `Allow`: drop → droppedRecently.Set(true), return (nil, ErrServiceOverloaded); else addFlying(1), return a promise. -/
theorem tie_allowBody (s : Shedder) (now : Nat) (cpuOver drop : Bool) :
    allowFnConds = ["as.shouldDrop()"]
    ∧ allowFnEffects = ["as.droppedRecently.Set(true)", "as.addFlying(1)"]
    ∧ (let r := allowFn (σ := Shedder) (fun _ => drop) (fun x => { x with droppedRecently := true })
          (fun x => { x with flying := x.flying + 1 }) (s.afterGate now cpuOver)
       r.1 = s.allowWith now cpuOver drop
       ∧ r.2 = (if drop then "nil, ErrServiceOverloaded" else "&promise{ start: timex.Now(), shedder: as, }, nil")) := by
  refine ⟨rfl, rfl, ?_⟩
  cases drop <;> simp [allowFn, Shedder.allowWith]

/-- `addFlying(delta)`: state = (shedder, the local `flying`); delta = −1 is `release`, delta = +1 only counts. -/
theorem tie_addFlyingBody (s : Shedder) (delta : Int) :
    addFlyingFnConds = ["delta < 0"]
    ∧ addFlyingFnEffects = ["flying := atomic.AddInt64(&as.flying, delta)", "as.avgFlyingLock.Lock()",
        "as.avgFlying = as.avgFlying*flyingBeta + float64(flying)*(1-flyingBeta)", "as.avgFlyingLock.Unlock()"]
    ∧ (let run := fun (d : Int) => (addFlyingFn (σ := Shedder × Int) (fun _ => decide (d < 0))
          (fun x => ({ x.1 with flying := x.1.flying + d }, x.1.flying + d)) id
          (fun x => ({ x.1 with avgFlying := x.1.avgFlying * flyingBeta + (x.2 : Rat) * (1 - flyingBeta) }, x.2)) id (s, 0)).1.1
       run (-1) = s.release ∧ run 1 = { s with flying := s.flying + 1 }) := by
  refine ⟨rfl, rfl, ?_⟩
  simp only [addFlyingFn, Shedder.release]
  constructor
  · have e : s.flying + -1 = s.flying - 1 := by omega
    simp only [Int.reduceNeg, Int.reduceLT, decide_true, if_true, id, e]
  · simp

/-- `promise.Pass`: latency, release, rtCounter.Add(latency), passCounter.Add(1), in this order. -/
theorem tie_passBody (s : Shedder) (now start : Nat) :
    passFnConds = []
    ∧ passFnEffects = ["rt := float64(timex.Since(p.start)) / float64(time.Millisecond)", "p.shedder.addFlying(-1)",
        "p.shedder.rtCounter.Add(int64(math.Ceil(rt)))", "p.shedder.passCounter.Add(1)"]
    ∧ (passFn (σ := Shedder) id Shedder.release (fun x => { x with rtCounter := x.rtCounter.add now (rtMs now start) })
          (fun x => { x with passCounter := x.passCounter.add now 1 }) s).1 = s.pass now start := by
  refine ⟨rfl, rfl, ?_⟩
  simp [passFn, Shedder.pass]

/-- `promise.Fail`: release only. -/
theorem tie_failBody (s : Shedder) :
    failFnConds = [] ∧ failFnEffects = ["p.shedder.addFlying(-1)"]
    ∧ (failFn (σ := Shedder) Shedder.release s).1 = s.fail := ⟨rfl, rfl, rfl⟩

/-- `Disable()` clears the package flag that `newShedder` reads. -/
theorem tie_disableBody (enabled : Bool) (opts : List Opt) (now : Nat) :
    disableFnConds = [] ∧ disableFnEffects = ["enabled.Set(false)"]
    ∧ newShedder (disableFn (σ := Bool) (fun _ => false) enabled).1 opts now = .nop := ⟨rfl, rfl, rfl⟩

/-! ### nopshedder.go, sheddergroup.go (nopCloser), usage.go (CpuUsage) -/

/-- the nop shedder: `Allow` returns (nopPromise{}, nil) without touching anything; Pass / Fail are empty;
`newNopShedder` returns the stateless value; `nopCloser.Close` returns nil and does nothing to the shedder it wraps. -/
theorem tie_nopBodies (a : AnyShedder) :
    nopAllowFnConds = [] ∧ nopAllowFnEffects = [] ∧ nopAllowFn a = (a, "nopPromise{}, nil")
    ∧ nopPassFnConds = [] ∧ nopPassFnEffects = [] ∧ nopPassFn a = (a, "")
    ∧ nopFailFnConds = [] ∧ nopFailFnEffects = [] ∧ nopFailFn a = (a, "")
    ∧ newNopShedderFnEffects = [] ∧ newNopShedderFn a = (a, "nopShedder{}")
    ∧ nopCloserCloseFnConds = [] ∧ nopCloserCloseFnEffects = [] ∧ nopCloserCloseFn a = (a, "nil") :=
  ⟨rfl, rfl, rfl, rfl, rfl, rfl, rfl, rfl, rfl, rfl, rfl, rfl, rfl, rfl⟩

/-- `stat.CpuUsage()` is the atomic load of the variable the sampler stores into, nothing else. -/
theorem tie_cpuUsageBody (x : Int) :
    cpuUsageFnConds = [] ∧ cpuUsageFnEffects = [] ∧ cpuUsageFn x = (x, "atomic.LoadInt64(&cpuUsage)") := ⟨rfl, rfl, rfl⟩

/-! ### mathx.AtLeast / mathx.Between -/

def pickRat (x lower upper : Rat) (name : String) : Rat :=
  if name = "lower" then lower else if name = "upper" then upper else x

theorem tie_atLeastBody (x lower : Rat) :
    atLeastFnConds = ["x < lower"] ∧ atLeastFnEffects = []
    ∧ pickRat x lower 0 (atLeastFn (σ := Unit) (fun _ => decide (x < lower)) ()).2 = (if x < lower then lower else x) := by
  refine ⟨rfl, rfl, ?_⟩
  by_cases h : x < lower <;> simp [atLeastFn, pickRat, h]

theorem tie_betweenBody (x lower upper : Rat) :
    betweenFnConds = ["x < lower", "x > upper"] ∧ betweenFnEffects = []
    ∧ pickRat x lower upper (betweenFn (σ := Unit) (fun _ => decide (x < lower)) (fun _ => decide (x > upper)) ()).2
        = between x lower upper := by
  refine ⟨rfl, rfl, ?_⟩
  by_cases h : x < lower <;> by_cases h2 : x > upper <;> simp [betweenFn, pickRat, between, h, h2]

/-! ### the two rolling windows of NewAdaptiveShedder, as typed argument lists -/

/-- meaning of the argument texts of `collection.NewRollingWindow(newBucket, size, interval, opts…)`. -/
def windowOfArgs (o : Options) (now : Nat) : List String → Option RW
  | _newBucket :: size :: interval :: opts =>
    if size = "options.buckets" ∧ interval = "bucketDuration"
        ∧ opts.all (· = "collection.IgnoreCurrentBucket[int64, *collection.Bucket[int64]]()") then
      some (RW.new o.buckets (o.window / o.buckets) now (opts.length ≥ 1))
    else none
  | _ => none

/-- both windows are built by `collection.NewRollingWindow` from (options.buckets, bucketDuration, IgnoreCurrentBucket) —
for EVERY option list this is the pair of windows of the model's `Shedder.new`. -/
theorem tie_newWindows (opts : List Opt) (now : Nat) :
    newPassCounterCall.1 = "collection.NewRollingWindow[int64, *collection.Bucket[int64]]"
    ∧ newRtCounterCall.1 = newPassCounterCall.1
    ∧ (let o := applyOpts opts
       let sh := Shedder.new o.window o.buckets o.threshold now
       windowOfArgs o now newPassCounterCall.2 = some sh.passCounter
       ∧ windowOfArgs o now newRtCounterCall.2 = some sh.rtCounter) := by
  refine ⟨rfl, rfl, ?_⟩
  simp [windowOfArgs, newPassCounterCall, newRtCounterCall, Shedder.new]

/-! ### rest/engine.go, zrpc/server.go: from the service configuration to the shedder -/

/-- `newEngine`: shedders iff `c.CpuThreshold > 0`; thresholds `c.CpuThreshold` and `(c.CpuThreshold + topCpuUsage) >> 1`
(translated, equal to the model's for ALL configurations), each passed through `load.WithCpuThreshold` to
`load.NewAdaptiveShedder`. -/
theorem tie_newEngine (enabled : Bool) (t : Int) (now : Nat) :
    Extracted.C02.topCpuUsage = C02.topCpuUsage
    ∧ engineShedderBuilt = "load.NewAdaptiveShedder(load.WithCpuThreshold(c.CpuThreshold))"
    ∧ enginePriorityBuilt = "load.NewAdaptiveShedder(load.WithCpuThreshold( (c.CpuThreshold + topCpuUsage) >> 1))"
    ∧ newEngine enabled t now =
        (if engineSheddingIf t then
          { shedder := some (newShedder enabled [.threshold (engineThreshold t)] now)
            priority := some (newShedder enabled [.threshold (enginePriorityThreshold t)] now) }
         else { shedder := none, priority := none }) := by
  refine ⟨rfl, rfl, rfl, ?_⟩
  have hp : enginePriorityThreshold t = priorityThreshold t := by
    simp only [enginePriorityThreshold, priorityThreshold, C02.topCpuUsage]
    show (t + 1000) >>> 1 = (t + 1000) / 2
    rw [Int.shiftRight_eq_div_pow]
    rfl
  simp only [newEngine, engineSheddingIf, engineThreshold, hp, decide_eq_true_eq]

/-- `engine.getShedder` (whole body) and the route's middleware: guarded by `Middlewares.Shedding`, handed
`ng.getShedder(fr.priority)`. -/
theorem tie_routeShedder (e : Engine) (priority : Bool) :
    engineGetShedderFnConds = ["priority && ng.priorityShedder != nil"] ∧ engineGetShedderFnEffects = []
    ∧ routeSheddingGuard = "ng.conf.Middlewares.Shedding" ∧ routeShedderArg = "ng.getShedder(fr.priority)"
    ∧ (let pick := fun (name : String) => if name = "ng.priorityShedder" then e.priority else e.shedder
       pick (engineGetShedderFn (σ := Unit) (fun _ => priority && e.priority.isSome) ()).2 = e.getShedder priority) := by
  refine ⟨rfl, rfl, rfl, rfl, ?_⟩
  simp only [engineGetShedderFn, Engine.getShedder]
  cases priority <;> cases e.priority <;> simp

/-- zrpc/server.go: the interceptor is installed iff `c.CpuThreshold > 0`, around
`NewAdaptiveShedder(WithCpuThreshold(c.CpuThreshold))` (same guard and threshold expressions as the REST engine's main
shedder, which are translated above). -/
theorem tie_rpcServerShedder (enabled : Bool) (t : Int) (now : Nat) :
    rpcServerShedderBuilt = ["c.CpuThreshold > 0", engineShedderBuilt, "shedder"]
    ∧ rpcServerShedder enabled t now =
        (if engineSheddingIf t then some (newShedder enabled [.threshold (engineThreshold t)] now) else none) := by
  refine ⟨rfl, ?_⟩
  simp only [rpcServerShedder, engineSheddingIf, engineThreshold, decide_eq_true_eq]

end GoZero.C02.TieBody
