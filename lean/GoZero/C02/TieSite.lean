/-
C02 — Tie, part 2: the code around the shedder (model: Site.lean) against what the extractor reads from the working
tree now.  Decision-making conditions are TRANSLATED (Go expression → Lean function) and proven equal to the model's
functions for all arguments: the default checker `stat.CpuUsage() >= cpuThreshold`, the HTTP Fail condition
`cw.Code == http.StatusServiceUnavailable` (the constant read from the toolchain's net/http), the gRPC Fail condition
`errors.Is(err, context.DeadlineExceeded)` (subject and target bound BY NAME), the sampler's moving average, the
refusal status, the defaults of `NewAdaptiveShedder`.  What each branch then does (which of Pass / Fail / Increment*,
in which order, inside the defer) is pinned as the list of its top-level statements.
-/
import GoZero.Extracted.C02
import GoZero.C02.Site
namespace GoZero.C02.TieSite
open GoZero.C02 GoZero.C02.Site
open GoZero.Extracted.C02

/-! ### construction -/

/-- the defaults the option loop starts from are the model's `defaultOptions` (5 s, 50 buckets, 900 millicpu). -/
theorem tie_newDefaults :
    (defaultOptions.window : Int) = newDefaultWindow ∧ (defaultOptions.buckets : Int) = newDefaultBuckets
    ∧ defaultOptions.threshold = newDefaultThreshold
    ∧ newDefaultWindow = defaultWindow ∧ newDefaultBuckets = defaultBuckets ∧ newDefaultThreshold = defaultCpuThreshold := by
  decide

/-- every option is applied to the one options struct; window / buckets / threshold of that struct are what the
shedder is built from (`bucketDurationExpr` in Tie.lean reads options.window / options.buckets). -/
theorem tie_newForwards :
    newOptionApplied = "&options" ∧ newThresholdForwarded = "options.cpuThreshold"
    ∧ newPassCounterSize = "options.buckets" ∧ newPassCounterInterval = "bucketDuration"
    ∧ newEnabledGuard = "!enabled.True()" := by decide

/-- each `With…` option stores its own argument into its own field; `Disable` clears the flag. -/
theorem tie_options :
    withWindowSets = "window" ∧ withBucketsSets = "buckets" ∧ withThresholdSets = "threshold"
    ∧ disableSets = "false" ∧ disableShape = ["call enabled.Set"] := by decide

/-- the bucket duration the model's `newShedder` uses is the extracted `options.window / options.buckets`. -/
theorem tie_newShedder (opts : List Opt) (now : Nat) :
    newShedder true opts now =
      .adaptive (Shedder.new (applyOpts opts).window (applyOpts opts).buckets (applyOpts opts).threshold now)
    ∧ newShedder false opts now = .nop := ⟨rfl, rfl⟩

/-! ### ShedderGroup -/

/-- `NewShedderGroup` keeps the options; `GetShedder` asks the resource manager for `key` and creates with exactly
the group's options; the shedder found is returned. -/
theorem tie_group :
    groupStoresOptions = "opts" ∧ groupKeyForwarded = "key" ∧ groupOptionsForwarded = "g.options"
    ∧ groupReturns = "shedder.(Shedder)" := by decide

/-! ### the default checker (translated) -/

/-- `systemOverloadChecker`'s default is the model's `defaultChecker`, for every reading and threshold; it is handed
the shedder's own threshold. -/
theorem tie_defaultChecker (cpu threshold : Int) :
    defaultCheckerCond cpu threshold = defaultChecker cpu threshold ∧ checkerArgument = "as.cpuThreshold" :=
  ⟨rfl, by decide⟩

/-! ### core/stat/usage.go (translated) -/

/-- the sampler's update is the model's `cpuEma` for all readings; previous value = an atomic load of `cpuUsage`, new
sample = `internal.RefreshCpu()`, the result is stored into the variable `CpuUsage()` loads. -/
theorem tie_cpuEma (prev cur : Int) :
    cpuEmaExpr prev cur = cpuEma prev cur
    ∧ cpuBeta = 19 / 20
    ∧ cpuEmaPrev = "atomic.LoadInt64(&cpuUsage)" ∧ cpuEmaCur = "internal.RefreshCpu()"
    ∧ cpuEmaStored = "usage" ∧ cpuEmaStoredTo = "&cpuUsage" ∧ cpuUsageLoads = "&cpuUsage" := by
  refine ⟨rfl, ?_, by decide, by decide, by decide, by decide, by decide⟩
  unfold cpuBeta; rfl

/-! ### SheddingStat -/

theorem tie_stat :
    statIncrementTotalField = "&s.total" ∧ statIncrementPassField = "&s.pass" ∧ statIncrementDropField = "&s.drop"
    ∧ statIncrementTotalDelta = 1 ∧ statIncrementPassDelta = 1 ∧ statIncrementDropDelta = 1 := by decide

/-! ### SheddingHandler (translated conditions + branch contents) -/

/-- the Fail condition, for every status code: `cw.Code == 503`; the writer starts at 200 and remembers every
WriteHeader; a refusal answers with the same 503. -/
theorem tie_httpFails (code : Int) :
    httpFailCond code = httpFails code
    ∧ httpRefusedStatus = statusServiceUnavailable ∧ cwInitialCode = statusOK ∧ cwWriteHeaderStores = "code" :=
  ⟨rfl, by decide, by decide, by decide⟩

/-- the request function: count, ask Allow once, refuse or (wrap the writer, DEFER the resolution, run the next
handler); in the defer: Fail on the condition, else count the pass and Pass. -/
theorem tie_httpSteps :
    httpRequestSteps = ["call sheddingStat.IncrementTotal", "promise,err := shedder.Allow", "if err != nil",
      "cw := response.NewWithCodeResponseWriter", "defer", "call next.ServeHTTP"]
    ∧ httpRefusedThen = ["call metrics.AddDrop", "call sheddingStat.IncrementDrop", "call w.WriteHeader", "return"]
    ∧ httpRefusedElse = []
    ∧ httpDeferThen = ["call promise.Fail"]
    ∧ httpDeferElse = ["call sheddingStat.IncrementPass", "call promise.Pass"]
    ∧ httpNilGuard = "shedder == nil" := by decide

/-- the model's per-request function follows these branches: the resolution list and the counter increments of
`httpServe` are those of the branch the translated condition selects. -/
theorem tie_httpServe (o : HttpOutcome) :
    (httpServe false true o).res = (if httpFailCond o.lastCode then [Res.fail] else [Res.pass])
    ∧ (httpServe false true o).stat = (if httpFailCond o.lastCode then ⟨1, 0, 0⟩ else ⟨1, 1, 0⟩)
    ∧ (httpServe false false o).status = httpRefusedStatus := by
  have : httpFailCond o.lastCode = httpFails o.lastCode := rfl
  rw [this]
  cases h : httpFails o.lastCode <;> simp [httpServe, h] <;> decide

/-! ### UnarySheddingInterceptor -/

/-- the Fail condition is `errors.Is(err, context.DeadlineExceeded)` on the named result `err` — bound by name: a
different subject or target renames the extracted parameter and this theorem no longer elaborates. -/
theorem tie_rpcFails (isDeadline : Bool) :
    rpcFailCond (errorsIs_err_context_DeadlineExceeded := isDeadline) = rpcFails isDeadline false := by
  cases isDeadline <;> rfl

theorem tie_rpcSteps :
    rpcRequestSteps = ["call sheddingStat.IncrementTotal", "promise,err = shedder.Allow", "if err != nil", "defer", "return"]
    ∧ rpcRefusedThen = ["call metrics.AddDrop", "call sheddingStat.IncrementDrop", "err = status.Error", "return"]
    ∧ rpcRefusedElse = []
    ∧ rpcDeferThen = ["call promise.Fail"]
    ∧ rpcDeferElse = ["call sheddingStat.IncrementPass", "call promise.Pass"]
    ∧ rpcRefusedCode = "codes.ResourceExhausted" ∧ rpcRefusedMessage = "err.Error()"
    ∧ rpcHandlerCall = "handler(ctx, req)" := by decide

theorem tie_rpcServe (dl : Bool) :
    (rpcServe true dl false).res = (if rpcFailCond dl then [Res.fail] else [Res.pass])
    ∧ (rpcServe true dl false).stat = (if rpcFailCond dl then ⟨1, 0, 0⟩ else ⟨1, 1, 0⟩) := by
  cases dl <;> decide

end GoZero.C02.TieSite
