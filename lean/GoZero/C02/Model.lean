/-
C02 — executable model of the adaptive load shedder (core Lean only).

Modelled code (as it exists):
  core/collection/rollingwindow.go   RollingWindow{size, win.buckets, interval, offset, ignoreCurrent, lastTime},
                                     span / updateOffset / Add / Reduce, Bucket{Sum, Count}
  core/load/adaptiveshedder.go       adaptiveShedder{cpuThreshold, windowScale, flying, avgFlying, overloadTime,
                                     droppedRecently, passCounter, rtCounter}, Allow / shouldDrop / systemOverloaded /
                                     stillHot / highThru / maxFlight / maxPass / minRt / overloadFactor / addFlying,
                                     promise.Pass / promise.Fail
  core/load/nopshedder.go            nopShedder (what NewAdaptiveShedder returns when load shedding is disabled)

Conventions
  * time is the value of `timex.Now()` in nanoseconds, a `Nat`; the clock is monotone (virtual clock in the
    harness; `timex.Now()` is a monotonic reading in production), so `timex.Since(d) = now - d` never goes negative
    for a `d` read earlier.
  * `float64` quantities (avgFlying, windowScale, maxFlight, overloadFactor, minRt) are exact rationals here.
    The driver treats comparisons whose two sides agree within 1e-9 (relative) as boundary decisions.
  * the two environment readings of one `Allow` are inputs: `cpuOver` = what `systemOverloadChecker(threshold)`
    returned, `cpu` = what `stat.CpuUsage()` returned inside `overloadFactor`.
-/
namespace GoZero.C02

/-! ### constants of adaptiveshedder.go (tied to the source in Tie.lean) -/

def coolOffNs : Nat := 1000000000          -- coolOffDuration = time.Second
def cpuMax : Int := 1000
def defaultMinRt : Rat := 1000             -- float64(time.Second / time.Millisecond)
def flyingBeta : Rat := 9 / 10
def factorLowerBound : Rat := 1 / 10       -- overloadFactorLowerBound
def nsPerMs : Nat := 1000000               -- time.Millisecond
def nsPerSecond : Nat := 1000000000        -- time.Second
def msPerSecond : Nat := 1000              -- millisecondsPerSecond

/-! ### collection.RollingWindow[int64, *Bucket[int64]] -/

structure Bucket where
  sum   : Int
  count : Int
  deriving Repr, DecidableEq, Inhabited

def Bucket.empty : Bucket := ⟨0, 0⟩

def Bucket.add (b : Bucket) (v : Int) : Bucket := ⟨b.sum + v, b.count + 1⟩

structure RW where
  size          : Nat
  interval      : Nat
  buckets       : List Bucket      -- win.buckets, length = size
  offset        : Nat
  lastTime      : Nat              -- start time of the last bucket
  ignoreCurrent : Bool
  deriving Repr

/-- `NewRollingWindow(newBucket, size, interval, IgnoreCurrentBucket())` at time `now`. -/
def RW.new (size interval now : Nat) (ignoreCurrent : Bool) : RW :=
  { size := size, interval := interval, buckets := List.replicate size Bucket.empty, offset := 0,
    lastTime := now, ignoreCurrent := ignoreCurrent }

/-- `span()`: `offset := int(timex.Since(rw.lastTime) / rw.interval)`; in range → offset, else size. -/
def RW.span (rw : RW) (now : Nat) : Nat :=
  let off := (now - rw.lastTime) / rw.interval
  if off < rw.size then off else rw.size

/-- the reset loop of `updateOffset`: `for i := 0; i < span; i++ { resetBucket((offset+i+1) % size) }`. -/
def resetLoop (bs : List Bucket) (size offset : Nat) : Nat → List Bucket
  | 0 => bs
  | span + 1 => (resetLoop bs size offset span).set ((offset + span + 1) % size) Bucket.empty

def RW.updateOffset (rw : RW) (now : Nat) : RW :=
  let span := rw.span now
  if span = 0 then rw
  else
    { rw with
      buckets := resetLoop rw.buckets rw.size rw.offset span
      offset := (rw.offset + span) % rw.size
      lastTime := now - (now - rw.lastTime) % rw.interval }

/-- `Add(v)`: updateOffset, then `win.add(offset, v)` = `buckets[offset % size].Add(v)`. -/
def RW.add (rw : RW) (now : Nat) (v : Int) : RW :=
  let rw' := rw.updateOffset now
  { rw' with buckets := rw'.buckets.modify (rw'.offset % rw'.size) (fun b => b.add v) }

/-- the buckets `Reduce(fn)` hands to `fn`, in order. -/
def RW.visible (rw : RW) (now : Nat) : List Bucket :=
  let span := rw.span now
  let diff := if span = 0 && rw.ignoreCurrent then rw.size - 1 else rw.size - span
  if diff > 0 then
    let off := (rw.offset + span + 1) % rw.size
    (List.range diff).map fun i => rw.buckets.getD ((off + i) % rw.size) Bucket.empty
  else []

/-! ### load.adaptiveShedder -/

structure Shedder where
  cpuThreshold    : Int
  windowScale     : Rat
  flying          : Int
  avgFlying       : Rat
  overloadTime    : Nat
  droppedRecently : Bool
  passCounter     : RW
  rtCounter       : RW
  deriving Repr

/-- `NewAdaptiveShedder(WithWindow(window), WithBuckets(buckets), WithCpuThreshold(threshold))` at `now`:
`bucketDuration = window / buckets` (integer division of durations),
`windowScale = float64(time.Second) / float64(bucketDuration) / millisecondsPerSecond`. -/
def Shedder.new (windowNs buckets : Nat) (threshold : Int) (now : Nat) : Shedder :=
  let bucketDuration := windowNs / buckets
  { cpuThreshold := threshold
    windowScale := (nsPerSecond : Rat) / (bucketDuration : Rat) / (msPerSecond : Rat)
    flying := 0, avgFlying := 0, overloadTime := 0, droppedRecently := false
    passCounter := RW.new buckets bucketDuration now true
    rtCounter := RW.new buckets bucketDuration now true }

/-- `maxPass()`: largest per-bucket pass count over the window, at least 1. -/
def maxPassOf (bs : List Bucket) : Int :=
  bs.foldl (fun r b => if b.sum > r then b.sum else r) 1

/-- Go's `math.Round` (half away from zero) on a rational. -/
def roundHalfAway (x : Rat) : Int :=
  if 0 ≤ x then (x + 1 / 2).floor else -((-x + 1 / 2).floor)

/-- `minRt()`: smallest rounded per-bucket average latency (ms) over the non-empty buckets, default 1000. -/
def minRtOf (bs : List Bucket) : Rat :=
  bs.foldl (fun r b =>
    if b.count ≤ 0 then r
    else
      let avg : Rat := (roundHalfAway ((b.sum : Rat) / (b.count : Rat)) : Int)
      if avg < r then avg else r) defaultMinRt

def Shedder.maxPass (s : Shedder) (now : Nat) : Int := maxPassOf (s.passCounter.visible now)

def Shedder.minRt (s : Shedder) (now : Nat) : Rat := minRtOf (s.rtCounter.visible now)

/-- `maxFlight()`: `mathx.AtLeast(float64(maxPass) * minRt * windowScale, 1)` — the capacity estimate. -/
def Shedder.maxFlight (s : Shedder) (now : Nat) : Rat :=
  let m : Rat := (s.maxPass now : Rat) * s.minRt now * s.windowScale
  if m < 1 then 1 else m

/-- `mathx.Between(x, lo, hi)`. -/
def between (x lo hi : Rat) : Rat := if x < lo then lo else if x > hi then hi else x

/-- `overloadFactor()` for the CPU reading `cpu`.
`threshold = cpuMax` makes the float64 division a division by zero: `+Inf` for `cpu < cpuMax` (clamped to 1 by
`Between`), `-Inf` for `cpu > cpuMax` (clamped to the lower bound), and `0/0 = NaN` for `cpu = cpuMax`, which
the guard `if math.IsNaN(factor) { factor = overloadFactorLowerBound }` (fixes/C02-threshold-at-cpumax-nan.patch)
replaces by the lower bound; without the guard see `Pinned` in Props.lean. -/
def overloadFactor (threshold cpu : Int) : Rat :=
  if threshold = cpuMax then (if cpu < cpuMax then 1 else factorLowerBound)
  else between (((cpuMax : Rat) - (cpu : Rat)) / ((cpuMax : Rat) - (threshold : Rat))) factorLowerBound 1

/-- the threshold `highThru` compares against: `maxFlight() * overloadFactor()`. -/
def Shedder.limit (s : Shedder) (now : Nat) (cpu : Int) : Rat :=
  s.maxFlight now * overloadFactor s.cpuThreshold cpu

/-- `highThru()`. -/
def Shedder.highThru (s : Shedder) (now : Nat) (cpu : Int) : Bool :=
  decide (s.avgFlying > s.limit now cpu) && decide ((s.flying : Rat) > s.limit now cpu)

/-- `systemOverloaded()`: the checker's verdict; a positive verdict stamps `overloadTime`. -/
def Shedder.systemOverloaded (s : Shedder) (now : Nat) (cpuOver : Bool) : Shedder :=
  if cpuOver then { s with overloadTime := now } else s

/-- `stillHot()` — value. -/
def Shedder.stillHot (s : Shedder) (now : Nat) : Bool :=
  s.droppedRecently && s.overloadTime != 0 && decide (now - s.overloadTime < coolOffNs)

/-- `stillHot()` — state change: a lapsed cool-off clears `droppedRecently`. -/
def Shedder.afterStillHot (s : Shedder) (now : Nat) : Shedder :=
  if s.droppedRecently && s.overloadTime != 0 && !decide (now - s.overloadTime < coolOffNs) then
    { s with droppedRecently := false }
  else s

/-- the state after the `if as.systemOverloaded() || as.stillHot()` condition has been evaluated
(`||` short-circuits: `stillHot` runs only when the checker said no). -/
def Shedder.afterGate (s : Shedder) (now : Nat) (cpuOver : Bool) : Shedder :=
  if cpuOver then s.systemOverloaded now true else s.afterStillHot now

/-- the value of `as.systemOverloaded() || as.stillHot()`. -/
def Shedder.gate (s : Shedder) (now : Nat) (cpuOver : Bool) : Bool :=
  cpuOver || s.stillHot now

/-- `shouldDrop()`. -/
def Shedder.shouldDrop (s : Shedder) (now : Nat) (cpuOver : Bool) (cpu : Int) : Bool :=
  s.gate now cpuOver && (s.afterGate now cpuOver).highThru now cpu

inductive Verdict where
  | admitted
  | overloaded
  deriving Repr, DecidableEq

/-- `Allow()` once `shouldDrop` has decided `drop` (the driver uses this form at float boundaries). -/
def Shedder.allowWith (s : Shedder) (now : Nat) (cpuOver : Bool) (drop : Bool) : Shedder :=
  let s1 := s.afterGate now cpuOver
  if drop then { s1 with droppedRecently := true } else { s1 with flying := s1.flying + 1 }

/-- `Allow()`: verdict and next state; an admitted request's promise remembers `start = now`. -/
def Shedder.allow (s : Shedder) (now : Nat) (cpuOver : Bool) (cpu : Int) : Shedder × Verdict :=
  let drop := s.shouldDrop now cpuOver cpu
  (s.allowWith now cpuOver drop, if drop then .overloaded else .admitted)

/-- `addFlying(-1)`: decrement, then `avgFlying = avgFlying*flyingBeta + float64(flying)*(1-flyingBeta)`. -/
def Shedder.release (s : Shedder) : Shedder :=
  let f := s.flying - 1
  { s with flying := f, avgFlying := s.avgFlying * flyingBeta + (f : Rat) * (1 - flyingBeta) }

/-- latency recorded by `Pass`: `int64(math.Ceil(float64(timex.Since(start)) / float64(time.Millisecond)))`. -/
def rtMs (now start : Nat) : Int := ((now - start + (nsPerMs - 1)) / nsPerMs : Nat)

/-- `promise.Pass()`. -/
def Shedder.pass (s : Shedder) (now start : Nat) : Shedder :=
  let s1 := s.release
  { s1 with rtCounter := s1.rtCounter.add now (rtMs now start), passCounter := s1.passCounter.add now 1 }

/-- `promise.Fail()`. -/
def Shedder.fail (s : Shedder) : Shedder := s.release

/-! ### operations (one per trace line) -/

inductive Op where
  | advance (d : Nat)                       -- virtual time passes
  | allow (cpuOver : Bool) (cpu : Int)      -- Allow(); promise ids are assigned in order of admission
  | pass (start : Nat)                      -- Pass() of a promise created at `start`
  | fail                                    -- Fail() of a promise
  deriving Repr

structure St where
  now : Nat
  sh  : Shedder
  deriving Repr

def step (st : St) : Op → St × Option Verdict
  | .advance d => ({ st with now := st.now + d }, none)
  | .allow o c =>
    let r := st.sh.allow st.now o c
    ({ st with sh := r.1 }, some r.2)
  | .pass start => ({ st with sh := st.sh.pass st.now start }, none)
  | .fail => ({ st with sh := st.sh.fail }, none)

def run (st : St) (ops : List Op) : St := ops.foldl (fun s o => (step s o).1) st

/-! ### nopShedder -/

/-- `nopShedder.Allow()` always admits; its promise does nothing. -/
def nopAllow : Verdict := .admitted

end GoZero.C02
