/-
C02 — interleavings.  Any number of request goroutines run `Allow` and then `Pass`/`Fail` concurrently; every
shared access of the Go code is one atomic step here:

  pc 0 → 1   highThru reads `flying` (atomic.LoadInt64) into the goroutine's register `rf`
             (gate verdict, average and limit are read at their own instants and are arbitrary here)
  pc 1 → 2   shouldDrop = true: allowed only if the value read exceeds a limit ≥ 1/10 (= maxFlight·factor ≥ 0.1);
             Allow returns ErrServiceOverloaded (terminal)
  pc 1 → 3   admitted: atomic.AddInt64(&flying, +1); the request is in flight
  pc 3 → 4   Pass/Fail: atomic.AddInt64(&flying, −1), the result kept in the goroutine's local `flying`
  pc 4 → 5   under avgFlyingLock: avgFlying = avgFlying·β + local·(1−β)

`Reach` closes the initial state (n goroutines at pc 0, n arbitrary) under any goroutine taking its next step,
i.e. under every schedule.
-/
import GoZero.C02.Model
namespace GoZero.C02.Conc

structure Th where
  pc  : Nat
  rf  : Int := 0
  reg : Int := 0
  deriving DecidableEq, Repr

structure Sys where
  flying : Int
  avg    : Rat
  ths    : List Th
  deriving Repr

def inFlight (s : Sys) : Nat := s.ths.countP (fun t => t.pc == 3)

/-- goroutine `i` takes its next step; `lim`/`drop` are the environment's choices for the decision step. -/
def step (s : Sys) (i : Nat) (lim : Rat) (drop : Bool) : Option Sys :=
  match s.ths[i]? with
  | none => none
  | some t =>
    if t.pc = 0 then some { s with ths := s.ths.set i { t with pc := 1, rf := s.flying } }
    else if t.pc = 1 then
      if drop then
        if 1 / 10 ≤ lim ∧ (t.rf : Rat) > lim then some { s with ths := s.ths.set i { t with pc := 2 } } else none
      else some { s with flying := s.flying + 1, ths := s.ths.set i { t with pc := 3 } }
    else if t.pc = 3 then
      some { s with flying := s.flying - 1, ths := s.ths.set i { t with pc := 4, reg := s.flying - 1 } }
    else if t.pc = 4 then
      some { s with avg := s.avg * flyingBeta + (t.reg : Rat) * (1 - flyingBeta), ths := s.ths.set i { t with pc := 5 } }
    else none

def init (n : Nat) : Sys := { flying := 0, avg := 0, ths := List.replicate n { pc := 0 } }

inductive Reach (n : Nat) : Sys → Prop where
  | init : Reach n (init n)
  | step (s s' : Sys) (i : Nat) (lim : Rat) (drop : Bool) : Reach n s → step s i lim drop = some s' → Reach n s'

structure Inv (s : Sys) : Prop where
  conserve : s.flying = (inFlight s : Int)
  dropped  : ∀ t ∈ s.ths, t.pc = 2 → 1 ≤ t.rf
  readOk   : ∀ t ∈ s.ths, 0 ≤ t.rf

theorem init_inv (n : Nat) : Inv (init n) where
  conserve := by
    simp only [init, inFlight]
    rw [List.countP_replicate]
    simp
  dropped := by
    intro t ht h
    simp only [init] at ht
    have := List.eq_of_mem_replicate ht
    subst this
    cases h
  readOk := by
    intro t ht
    simp only [init] at ht
    have := List.eq_of_mem_replicate ht
    subst this
    decide

theorem step_inv (s s' : Sys) (i : Nat) (lim : Rat) (drop : Bool) (inv : Inv s)
    (hs : step s i lim drop = some s') : Inv s' := by
  unfold step at hs
  split at hs
  · cases hs
  · rename_i t ht
    have hi : i < s.ths.length := (List.getElem?_eq_some_iff.mp ht).1
    have hti : s.ths[i] = t := (List.getElem?_eq_some_iff.mp ht).2
    have htm : t ∈ s.ths := List.mem_of_getElem? ht
    have hc := inv.conserve
    have hfl0 : 0 ≤ s.flying := by rw [hc]; omega
    unfold inFlight at hc
    split at hs
    · -- read flying
      rename_i hpc
      simp only [Option.some.injEq] at hs; subst hs
      refine ⟨?_, ?_, ?_⟩
      · simp only [inFlight, List.countP_set hi, hti, hpc]; simpa using hc
      · intro u hu h2
        rcases List.mem_or_eq_of_mem_set hu with h | h
        · exact inv.dropped u h h2
        · subst h; cases h2
      · intro u hu
        rcases List.mem_or_eq_of_mem_set hu with h | h
        · exact inv.readOk u h
        · subst h; exact hfl0
    · split at hs
      · rename_i hpc0 hpc
        split at hs
        · split at hs
          · -- drop: the value read exceeded a limit ≥ 1/10, hence ≥ 1
            rename_i hd hlim
            simp only [Option.some.injEq] at hs; subst hs
            refine ⟨?_, ?_, ?_⟩
            · simp only [inFlight, List.countP_set hi, hti, hpc]; simpa using hc
            · intro u hu h2
              rcases List.mem_or_eq_of_mem_set hu with h | h
              · exact inv.dropped u h h2
              · subst h
                have : (0 : Rat) < (t.rf : Rat) := by grind
                have := Rat.intCast_pos.mp this
                simp only []; omega
            · intro u hu
              rcases List.mem_or_eq_of_mem_set hu with h | h
              · exact inv.readOk u h
              · subst h; exact inv.readOk t htm
          · cases hs
        · -- admit: flying + 1, one more goroutine at pc 3
          simp only [Option.some.injEq] at hs; subst hs
          refine ⟨?_, ?_, ?_⟩
          · simp only [inFlight, List.countP_set hi, hti, hpc]
            simp only [beq_iff_eq, Nat.reduceEqDiff, if_false, if_true, Nat.sub_zero] at hc ⊢
            omega
          · intro u hu h2
            rcases List.mem_or_eq_of_mem_set hu with h | h
            · exact inv.dropped u h h2
            · subst h; cases h2
          · intro u hu
            rcases List.mem_or_eq_of_mem_set hu with h | h
            · exact inv.readOk u h
            · subst h; exact inv.readOk t htm
      · split at hs
        · -- resolve: flying − 1, one goroutine leaves pc 3
          rename_i hpc0 hpc1 hpc
          simp only [Option.some.injEq] at hs; subst hs
          have hpos : 0 < s.ths.countP (fun t => t.pc == 3) :=
            List.countP_pos_iff.mpr ⟨t, htm, by simp [hpc]⟩
          refine ⟨?_, ?_, ?_⟩
          · simp only [inFlight, List.countP_set hi, hti, hpc]
            simp only [beq_self_eq_true, if_true, beq_iff_eq, Nat.reduceEqDiff, if_false, Nat.add_zero] at hc ⊢
            omega
          · intro u hu h2
            rcases List.mem_or_eq_of_mem_set hu with h | h
            · exact inv.dropped u h h2
            · subst h; cases h2
          · intro u hu
            rcases List.mem_or_eq_of_mem_set hu with h | h
            · exact inv.readOk u h
            · subst h; exact inv.readOk t htm
        · split at hs
          · -- average update: flying untouched
            rename_i hpc0 hpc1 hpc3 hpc
            simp only [Option.some.injEq] at hs; subst hs
            refine ⟨?_, ?_, ?_⟩
            · simp only [inFlight, List.countP_set hi, hti, hpc]; simpa using hc
            · intro u hu h2
              rcases List.mem_or_eq_of_mem_set hu with h | h
              · exact inv.dropped u h h2
              · subst h; cases h2
            · intro u hu
              rcases List.mem_or_eq_of_mem_set hu with h | h
              · exact inv.readOk u h
              · subst h; exact inv.readOk t htm
          · cases hs

theorem reach_inv (n : Nat) (s : Sys) (h : Reach n s) : Inv s := by
  induction h with
  | init => exact init_inv n
  | step s s' i lim drop _ hs ih => exact step_inv s s' i lim drop ih hs

end GoZero.C02.Conc
