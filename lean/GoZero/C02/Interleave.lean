/-
C02 — interleavings.  Any number of request goroutines run `Allow` and then `Pass`/`Fail` concurrently while the
clock advances; every access of the Go code to shared memory is one atomic step of its own here (atomics,
spin-locked sections and RWMutex-protected window operations at their documented meaning):

  Allow → shouldDrop
    start    systemOverloaded: the checker's verdict `over` (an input)            over → soNow, else shDr
    soNow    timex.Now()                                                          → soSet
    soSet    overloadTime.Set(that time)                                          → htAvg   (gate open)
    shDr     stillHot: droppedRecently.True()                                     false → enter, else shOt
    shOt     overloadTime.Load()                                                  0 → enter, else shNow
    shNow    timex.Since(overloadTime) < coolOffDuration                          yes → htAvg, else shClear
    shClear  droppedRecently.Set(false)                                           → enter
    htAvg    highThru: avgFlying read under its lock                              → htMp
    htMp     maxPass(): passCounter.Reduce (one read-locked section)              → htRt
    htRt     minRt(): rtCounter.Reduce (one read-locked section)                  → htCpu
    htCpu    overloadFactor(): stat.CpuUsage() (an input); avg > limit ?          no → enter, yes → htFly
    htFly    atomic.LoadInt64(&flying); flying > limit ?                          no → enter, yes → logHot
    logHot   the log line re-evaluates stillHot(), which may clear droppedRecently (over-approximated: it may
             or may not clear, the environment chooses)                           → setDr
    setDr    droppedRecently.Set(true)                                            → shed  (ErrServiceOverloaded)
    enter    atomic.AddInt64(&flying, +1)                                         → stamp
    stamp    promise.start = timex.Now()                                          → inflight
  Pass / Fail
    inflight Pass: timex.Since(start) → pAdd;  Fail: atomic.AddInt64(&flying, −1) → fAvg
    pAdd     atomic.AddInt64(&flying, −1), result kept in the local `flying`      → pAvg
    pAvg     under avgFlyingLock: avgFlying = avgFlying·β + local·(1−β)           → pRt
    pRt      rtCounter.Add(latency)                                               → pCnt
    pCnt     passCounter.Add(1)                                                   → done
    fAvg     as pAvg                                                              → done

Registers (`r…`) are what the goroutine holds in locals; the decisions of `step` read only registers.
Ghosts (`g…`) are copies of the whole shared state, of the number of goroutines in flight and of the global step
number, taken at the very step at which the corresponding register is loaded; `step` never reads them.
`Reach` closes the initial state under any goroutine taking its next step and under clock ticks, i.e. under every
schedule.  The invariant ties every register to its ghost, every ghost to a reachable state, and the ghosts of
one goroutine to program order.
-/
import GoZero.C02.Proofs
namespace GoZero.C02.Conc

inductive PC where
  | start | soNow | soSet | shDr | shOt | shNow | shClear
  | htAvg | htMp | htRt | htCpu | htFly | logHot | setDr | shed
  | enter | stamp | inflight | pAdd | pAvg | pRt | pCnt | fAvg | done
  deriving DecidableEq, Repr

/-- the goroutine holds an admitted, unresolved promise: between the +1 and the −1 on `flying`. -/
def PC.inFlight : PC → Bool
  | .stamp | .inflight | .pAdd => true
  | _ => false

/-- how far the goroutine is into `highThru` (0: not there; 6: decided to shed). -/
def PC.stage : PC → Nat
  | .htAvg => 1 | .htMp => 2 | .htRt => 3 | .htCpu => 4 | .htFly => 5
  | .logHot | .setDr | .shed => 6
  | _ => 0

/-- the shedder's shared memory and the clock. -/
structure Shared where
  now          : Nat
  flying       : Int
  avg          : Rat
  overloadTime : Nat
  dropped      : Bool
  passC        : RW
  rtC          : RW
  deriving Repr

/-- ghost snapshot: the shared state, the number of goroutines in flight and the step number at one instant. -/
structure Snap where
  sh   : Shared
  infl : Nat
  seq  : Nat
  deriving Repr

structure Cfg where
  thr   : Int      -- cpuThreshold
  scale : Rat      -- windowScale
  deriving Repr

structure Th where
  pc    : PC
  -- registers
  over  : Bool
  rnow  : Nat
  rdr   : Bool
  rot   : Nat
  ravg  : Rat
  rmp   : Int
  rrt   : Rat
  rcpu  : Int
  rf    : Int
  start : Nat
  rt    : Int
  reg   : Int
  -- ghosts
  gDr   : Snap
  gOt   : Snap
  gNow  : Snap
  gAvg  : Snap
  gMp   : Snap
  gRt   : Snap
  gFly  : Snap
  gLast : Nat      -- step number of this goroutine's latest step
  deriving Repr

/-- the capacity estimate from a peak pass count and a minimum latency: `maxFlight()`. -/
def capOf (cfg : Cfg) (mp : Int) (rt : Rat) : Rat :=
  let m : Rat := (mp : Rat) * rt * cfg.scale
  if m < 1 then 1 else m

/-- the limit `highThru` compares against: `maxFlight() * overloadFactor()`. -/
def limC (cfg : Cfg) (mp : Int) (rt : Rat) (cpu : Int) : Rat := capOf cfg mp rt * overloadFactor cfg.thr cpu

/-- … from the goroutine's registers. -/
def limOf (cfg : Cfg) (t : Th) : Rat := limC cfg t.rmp t.rrt t.rcpu

/-- environment inputs of one step. -/
structure Inp where
  over  : Bool := false    -- systemOverloadChecker's verdict (used at `start`)
  cpu   : Int := 0         -- stat.CpuUsage() (used at `htCpu`)
  clear : Bool := false    -- the log line's stillHot() found the cool-off lapsed (used at `logHot`)
  pass  : Bool := true     -- the caller resolves with Pass rather than Fail (used at `inflight`)
  deriving Repr

/-- one step of a goroutine against the shared state `sh`; `g` is the ghost snapshot of this instant. -/
def thStep (cfg : Cfg) (sh : Shared) (g : Snap) (t : Th) (inp : Inp) : Option (Shared × Th) :=
  match t.pc with
  | .start => some (sh, { t with over := inp.over, pc := if inp.over then .soNow else .shDr })
  | .soNow => some (sh, { t with rnow := sh.now, pc := .soSet })
  | .soSet => some ({ sh with overloadTime := t.rnow }, { t with pc := .htAvg })
  | .shDr => some (sh, { t with rdr := sh.dropped, gDr := g, pc := if sh.dropped then .shOt else .enter })
  | .shOt => some (sh, { t with rot := sh.overloadTime, gOt := g, pc := if sh.overloadTime = 0 then .enter else .shNow })
  | .shNow => some (sh, { t with rnow := sh.now, gNow := g, pc := if sh.now - t.rot < coolOffNs then .htAvg else .shClear })
  | .shClear => some ({ sh with dropped := false }, { t with pc := .enter })
  | .htAvg => some (sh, { t with ravg := sh.avg, gAvg := g, pc := .htMp })
  | .htMp => some (sh, { t with rmp := maxPassOf (sh.passC.visible sh.now), gMp := g, pc := .htRt })
  | .htRt => some (sh, { t with rrt := minRtOf (sh.rtC.visible sh.now), gRt := g, pc := .htCpu })
  | .htCpu => some (sh, { t with rcpu := inp.cpu, pc := if t.ravg > limC cfg t.rmp t.rrt inp.cpu then .htFly else .enter })
  | .htFly => some (sh, { t with rf := sh.flying, gFly := g, pc := if (sh.flying : Rat) > limOf cfg t then .logHot else .enter })
  | .logHot => some (if inp.clear then { sh with dropped := false } else sh, { t with pc := .setDr })
  | .setDr => some ({ sh with dropped := true }, { t with pc := .shed })
  | .shed => none
  | .enter => some ({ sh with flying := sh.flying + 1 }, { t with pc := .stamp })
  | .stamp => some (sh, { t with start := sh.now, pc := .inflight })
  | .inflight =>
    if inp.pass then some (sh, { t with rt := rtMs sh.now t.start, pc := .pAdd })
    else some ({ sh with flying := sh.flying - 1 }, { t with reg := sh.flying - 1, pc := .fAvg })
  | .pAdd => some ({ sh with flying := sh.flying - 1 }, { t with reg := sh.flying - 1, pc := .pAvg })
  | .pAvg => some ({ sh with avg := sh.avg * flyingBeta + (t.reg : Rat) * (1 - flyingBeta) }, { t with pc := .pRt })
  | .pRt => some ({ sh with rtC := sh.rtC.add sh.now t.rt }, { t with pc := .pCnt })
  | .pCnt => some ({ sh with passC := sh.passC.add sh.now 1 }, { t with pc := .done })
  | .fAvg => some ({ sh with avg := sh.avg * flyingBeta + (t.reg : Rat) * (1 - flyingBeta) }, { t with pc := .done })
  | .done => none

structure Sys where
  sh    : Shared
  ths   : List Th
  steps : Nat          -- ghost: number of steps taken so far
  deriving Repr

def inFlight (s : Sys) : Nat := s.ths.countP (fun t => t.pc.inFlight)

/-- the ghost snapshot of a state. -/
def Sys.snap (s : Sys) : Snap := ⟨s.sh, inFlight s, s.steps⟩

inductive Act where
  | tick (d : Nat)               -- the clock advances
  | run (i : Nat) (inp : Inp)    -- goroutine `i` takes its next step

def step (cfg : Cfg) (s : Sys) : Act → Option Sys
  | .tick d => some { s with sh := { s.sh with now := s.sh.now + d }, steps := s.steps + 1 }
  | .run i inp =>
    match s.ths[i]? with
    | none => none
    | some t =>
      match thStep cfg s.sh s.snap t inp with
      | none => none
      | some r => some { sh := r.1, ths := s.ths.set i { r.2 with gLast := s.steps }, steps := s.steps + 1 }

def Snap.zero (sh : Shared) : Snap := ⟨sh, 0, 0⟩

def Th.fresh (sh : Shared) : Th :=
  { pc := .start, over := false, rnow := 0, rdr := false, rot := 0, ravg := 0, rmp := 0, rrt := 0, rcpu := 0, rf := 0,
    start := 0, rt := 0, reg := 0, gDr := .zero sh, gOt := .zero sh, gNow := .zero sh, gAvg := .zero sh,
    gMp := .zero sh, gRt := .zero sh, gFly := .zero sh, gLast := 0 }

/-- `n` goroutines about to call Allow on a shedder whose shared memory is `sh0` with nothing in flight. -/
def init (sh0 : Shared) (n : Nat) : Sys :=
  { sh := { sh0 with flying := 0 }, ths := List.replicate n (Th.fresh sh0), steps := 0 }

inductive Reach (cfg : Cfg) (sh0 : Shared) (n : Nat) : Sys → Prop where
  | init : Reach cfg sh0 n (init sh0 n)
  | step (s s' : Sys) (a : Act) : Reach cfg sh0 n s → step cfg s a = some s' → Reach cfg sh0 n s'

/-- the ghost `g` is the snapshot of a reachable state. -/
def SnapOk (cfg : Cfg) (sh0 : Shared) (n : Nat) (g : Snap) : Prop := ∃ s, Reach cfg sh0 n s ∧ s.snap = g

section
variable (cfg : Cfg) (sh0 : Shared) (n : Nat)

/-! the facts a goroutine has collected, as predicates over the registers / ghosts involved; `last` is the step
number of the goroutine's latest step (every ghost was taken at or before it) -/

/-- `droppedRecently` was true at the instant `gDr`. -/
def DrP (gDr : Snap) (last : Nat) : Prop :=
  SnapOk cfg sh0 n gDr ∧ gDr.sh.dropped = true ∧ gDr.seq ≤ last

/-- `overloadTime` was `rot ≠ 0` at the instant `gOt`, after `gDr`. -/
def OtP (gDr gOt : Snap) (rot last : Nat) : Prop :=
  SnapOk cfg sh0 n gOt ∧ rot = gOt.sh.overloadTime ∧ rot ≠ 0 ∧ gDr.seq ≤ gOt.seq ∧ gOt.seq ≤ last

/-- the gate `systemOverloaded() || stillHot()` was open: the checker said so, or droppedRecently was set at `gDr`,
overloadTime was non-zero at `gOt` and less than a second before the clock reading at `gNow`. -/
def GateP (over : Bool) (gDr gOt gNow : Snap) (last : Nat) : Prop :=
  over = true ∨
    (SnapOk cfg sh0 n gDr ∧ gDr.sh.dropped = true ∧ SnapOk cfg sh0 n gOt ∧ gOt.sh.overloadTime ≠ 0
      ∧ SnapOk cfg sh0 n gNow ∧ gNow.sh.now - gOt.sh.overloadTime < coolOffNs
      ∧ gDr.seq ≤ gOt.seq ∧ gOt.seq ≤ gNow.seq ∧ gNow.seq ≤ last)

/-- `ravg` is the shared average at the instant `gAvg` (after the gate's reads). -/
def AvgP (over : Bool) (gNow gAvg : Snap) (ravg : Rat) (last : Nat) : Prop :=
  SnapOk cfg sh0 n gAvg ∧ ravg = gAvg.sh.avg ∧ gAvg.seq ≤ last ∧ (over = false → gNow.seq ≤ gAvg.seq)

/-- `rmp` is the peak pass count of the window as it stood at the instant `gMp`. -/
def MpP (gAvg gMp : Snap) (rmp : Int) (last : Nat) : Prop :=
  SnapOk cfg sh0 n gMp ∧ rmp = maxPassOf (gMp.sh.passC.visible gMp.sh.now) ∧ gAvg.seq ≤ gMp.seq ∧ gMp.seq ≤ last

/-- `rrt` is the minimum latency of the window as it stood at the instant `gRt`. -/
def RtP (gMp gRt : Snap) (rrt : Rat) (last : Nat) : Prop :=
  SnapOk cfg sh0 n gRt ∧ rrt = minRtOf (gRt.sh.rtC.visible gRt.sh.now) ∧ gMp.seq ≤ gRt.seq ∧ gRt.seq ≤ last

/-- `rf` is the shared counter at the instant `gFly`, and exceeded the limit. -/
def FlyP (gRt gFly : Snap) (rf : Int) (lim : Rat) (last : Nat) : Prop :=
  SnapOk cfg sh0 n gFly ∧ rf = gFly.sh.flying ∧ (rf : Rat) > lim ∧ gRt.seq ≤ gFly.seq ∧ gFly.seq ≤ last

/-- what a goroutine's registers and ghosts satisfy, by program position. -/
structure Local (t : Th) : Prop where
  ov   : t.pc = .soNow ∨ t.pc = .soSet → t.over = true
  dr   : t.pc = .shOt ∨ t.pc = .shNow → DrP cfg sh0 n t.gDr t.gLast
  ot   : t.pc = .shNow → OtP cfg sh0 n t.gDr t.gOt t.rot t.gLast
  gate : 1 ≤ t.pc.stage → GateP cfg sh0 n t.over t.gDr t.gOt t.gNow t.gLast
  avg  : 2 ≤ t.pc.stage → AvgP cfg sh0 n t.over t.gNow t.gAvg t.ravg t.gLast
  mp   : 3 ≤ t.pc.stage → MpP cfg sh0 n t.gAvg t.gMp t.rmp t.gLast
  rt   : 4 ≤ t.pc.stage → RtP cfg sh0 n t.gMp t.gRt t.rrt t.gLast
  cmp  : 5 ≤ t.pc.stage → t.ravg > limOf cfg t
  fly  : 6 ≤ t.pc.stage → FlyP cfg sh0 n t.gRt t.gFly t.rf (limOf cfg t) t.gLast

structure Inv (cfg : Cfg) (sh0 : Shared) (n : Nat) (s : Sys) : Prop where
  conserve : s.sh.flying = (inFlight s : Int)
  loc      : ∀ t ∈ s.ths, Local cfg sh0 n t
  last     : ∀ t ∈ s.ths, t.gLast ≤ s.steps

end

/-! ### the invariant holds in every reachable state -/

variable {cfg : Cfg} {sh0 : Shared} {n : Nat}

theorem DrP.mono {g : Snap} {l l' : Nat} (h : DrP cfg sh0 n g l) (hl : l ≤ l') : DrP cfg sh0 n g l' :=
  ⟨h.1, h.2.1, Nat.le_trans h.2.2 hl⟩
theorem GateP.mono {o : Bool} {a b c : Snap} {l l' : Nat} (h : GateP cfg sh0 n o a b c l) (hl : l ≤ l') :
    GateP cfg sh0 n o a b c l' := by
  rcases h with h | h
  · exact Or.inl h
  · exact Or.inr ⟨h.1, h.2.1, h.2.2.1, h.2.2.2.1, h.2.2.2.2.1, h.2.2.2.2.2.1, h.2.2.2.2.2.2.1, h.2.2.2.2.2.2.2.1,
      Nat.le_trans h.2.2.2.2.2.2.2.2 hl⟩
theorem AvgP.mono {o : Bool} {a b : Snap} {r : Rat} {l l' : Nat} (h : AvgP cfg sh0 n o a b r l) (hl : l ≤ l') :
    AvgP cfg sh0 n o a b r l' := ⟨h.1, h.2.1, Nat.le_trans h.2.2.1 hl, h.2.2.2⟩
theorem MpP.mono {a b : Snap} {r : Int} {l l' : Nat} (h : MpP cfg sh0 n a b r l) (hl : l ≤ l') :
    MpP cfg sh0 n a b r l' := ⟨h.1, h.2.1, h.2.2.1, Nat.le_trans h.2.2.2 hl⟩
theorem RtP.mono {a b : Snap} {r : Rat} {l l' : Nat} (h : RtP cfg sh0 n a b r l) (hl : l ≤ l') :
    RtP cfg sh0 n a b r l' := ⟨h.1, h.2.1, h.2.2.1, Nat.le_trans h.2.2.2 hl⟩
theorem FlyP.mono {a b : Snap} {r : Int} {m : Rat} {l l' : Nat} (h : FlyP cfg sh0 n a b r m l) (hl : l ≤ l') :
    FlyP cfg sh0 n a b r m l' := ⟨h.1, h.2.1, h.2.2.1, h.2.2.2.1, Nat.le_trans h.2.2.2.2 hl⟩

/-- outside `systemOverloaded`'s / `stillHot`'s later steps and `highThru` nothing is claimed. -/
theorem Local.idle (t : Th) (h0 : t.pc.stage = 0) (h1 : t.pc ≠ .shOt) (h2 : t.pc ≠ .shNow) (h3 : t.pc ≠ .soNow)
    (h4 : t.pc ≠ .soSet) : Local cfg sh0 n t := by
  constructor <;> intro hp <;> first | omega | simp_all

/-- one step of a goroutine keeps (and extends) what it knows. -/
theorem thStep_local (sh sh' : Shared) (g : Snap) (t t' : Th) (inp : Inp)
    (h : thStep cfg sh g t inp = some (sh', t')) (hl : Local cfg sh0 n t) (hg : SnapOk cfg sh0 n g) (hgs : g.sh = sh)
    (hlast : t.gLast ≤ g.seq) : Local cfg sh0 n { t' with gLast := g.seq } := by
  unfold thStep at h
  cases hpc : t.pc <;> simp only [hpc, Option.some.injEq, Prod.mk.injEq, reduceCtorEq] at h
  case start =>
    obtain ⟨rfl, rfl⟩ := h
    cases ho : inp.over
    · exact Local.idle _ (by simp [PC.stage]) (by simp) (by simp) (by simp) (by simp)
    · constructor <;> intro hp <;> simp [PC.stage] at hp ⊢
  case soNow =>
    obtain ⟨rfl, rfl⟩ := h
    constructor <;> intro hp <;> simp [PC.stage] at hp ⊢
    exact hl.ov (Or.inl hpc)
  case soSet =>
    obtain ⟨rfl, rfl⟩ := h
    constructor <;> intro hp <;> simp [PC.stage] at hp ⊢
    exact Or.inl (hl.ov (Or.inr hpc))
  case shDr =>
    obtain ⟨rfl, rfl⟩ := h
    cases hd : sh.dropped
    · exact Local.idle _ (by simp [PC.stage]) (by simp) (by simp) (by simp) (by simp)
    · constructor <;> intro hp <;> simp [PC.stage] at hp ⊢
      exact ⟨hg, by rw [hgs]; exact hd, Nat.le_refl _⟩
  case shOt =>
    obtain ⟨rfl, rfl⟩ := h
    have hdr := hl.dr (Or.inl hpc)
    by_cases h0 : sh.overloadTime = 0
    · exact Local.idle _ (by simp [h0, PC.stage]) (by simp [h0]) (by simp [h0]) (by simp [h0]) (by simp [h0])
    · constructor <;> intro hp <;> simp [h0, PC.stage] at hp ⊢
      · exact hdr.mono hlast
      · exact ⟨hg, by rw [hgs], h0, Nat.le_trans hdr.2.2 hlast, Nat.le_refl _⟩
  case shNow =>
    obtain ⟨rfl, rfl⟩ := h
    have hdr := hl.dr (Or.inr hpc)
    have hot := hl.ot hpc
    by_cases hw : sh.now - t.rot < coolOffNs
    · constructor <;> intro hp <;> simp [hw, PC.stage] at hp ⊢
      refine Or.inr ⟨hdr.1, hdr.2.1, hot.1, ?_, hg, ?_, hot.2.2.2.1, Nat.le_trans hot.2.2.2.2 hlast, Nat.le_refl _⟩
      · rw [← hot.2.1]; exact hot.2.2.1
      · rw [← hot.2.1, hgs]; exact hw
    · exact Local.idle _ (by simp [hw, PC.stage]) (by simp [hw]) (by simp [hw]) (by simp [hw]) (by simp [hw])
  case shClear =>
    obtain ⟨rfl, rfl⟩ := h
    exact Local.idle _ (by simp [PC.stage]) (by simp) (by simp) (by simp) (by simp)
  case htAvg =>
    obtain ⟨rfl, rfl⟩ := h
    have hgate := hl.gate (by simp [hpc, PC.stage])
    constructor <;> intro hp <;> simp [PC.stage] at hp ⊢
    · exact hgate.mono hlast
    · refine ⟨hg, by rw [hgs], Nat.le_refl _, fun ho => ?_⟩
      rcases hgate with h | h
      · rw [ho] at h; cases h
      · exact Nat.le_trans h.2.2.2.2.2.2.2.2 hlast
  case htMp =>
    obtain ⟨rfl, rfl⟩ := h
    have hgate := hl.gate (by simp [hpc, PC.stage])
    have havg := hl.avg (by simp [hpc, PC.stage])
    constructor <;> intro hp <;> simp [PC.stage] at hp ⊢
    · exact hgate.mono hlast
    · exact havg.mono hlast
    · exact ⟨hg, by rw [hgs], Nat.le_trans havg.2.2.1 hlast, Nat.le_refl _⟩
  case htRt =>
    obtain ⟨rfl, rfl⟩ := h
    have hgate := hl.gate (by simp [hpc, PC.stage])
    have havg := hl.avg (by simp [hpc, PC.stage])
    have hmp := hl.mp (by simp [hpc, PC.stage])
    constructor <;> intro hp <;> simp [PC.stage] at hp ⊢
    · exact hgate.mono hlast
    · exact havg.mono hlast
    · exact hmp.mono hlast
    · exact ⟨hg, by rw [hgs], Nat.le_trans hmp.2.2.2 hlast, Nat.le_refl _⟩
  case htCpu =>
    obtain ⟨rfl, rfl⟩ := h
    have hgate := hl.gate (by simp [hpc, PC.stage])
    have havg := hl.avg (by simp [hpc, PC.stage])
    have hmp := hl.mp (by simp [hpc, PC.stage])
    have hrt := hl.rt (by simp [hpc, PC.stage])
    by_cases hc : t.ravg > limC cfg t.rmp t.rrt inp.cpu
    · constructor <;> intro hp <;> simp [hc, PC.stage] at hp ⊢
      · exact hgate.mono hlast
      · exact havg.mono hlast
      · exact hmp.mono hlast
      · exact hrt.mono hlast
      · exact hc
    · exact Local.idle _ (by simp [hc, PC.stage]) (by simp [hc]) (by simp [hc]) (by simp [hc]) (by simp [hc])
  case htFly =>
    obtain ⟨rfl, rfl⟩ := h
    have hgate := hl.gate (by simp [hpc, PC.stage])
    have havg := hl.avg (by simp [hpc, PC.stage])
    have hmp := hl.mp (by simp [hpc, PC.stage])
    have hrt := hl.rt (by simp [hpc, PC.stage])
    have hcmp := hl.cmp (by simp [hpc, PC.stage])
    by_cases hc : (sh.flying : Rat) > limOf cfg t
    · constructor <;> intro hp <;> simp [hc, PC.stage] at hp ⊢
      · exact hgate.mono hlast
      · exact havg.mono hlast
      · exact hmp.mono hlast
      · exact hrt.mono hlast
      · exact hcmp
      · exact ⟨hg, by rw [hgs], hc, Nat.le_trans hrt.2.2.2 hlast, Nat.le_refl _⟩
    · exact Local.idle _ (by simp [hc, PC.stage]) (by simp [hc]) (by simp [hc]) (by simp [hc]) (by simp [hc])
  case logHot =>
    obtain ⟨rfl, rfl⟩ := h
    have hgate := hl.gate (by simp [hpc, PC.stage])
    have havg := hl.avg (by simp [hpc, PC.stage])
    have hmp := hl.mp (by simp [hpc, PC.stage])
    have hrt := hl.rt (by simp [hpc, PC.stage])
    have hcmp := hl.cmp (by simp [hpc, PC.stage])
    have hfly := hl.fly (by simp [hpc, PC.stage])
    constructor <;> intro hp <;> simp [PC.stage] at hp ⊢
    · exact hgate.mono hlast
    · exact havg.mono hlast
    · exact hmp.mono hlast
    · exact hrt.mono hlast
    · exact hcmp
    · exact hfly.mono hlast
  case setDr =>
    obtain ⟨rfl, rfl⟩ := h
    have hgate := hl.gate (by simp [hpc, PC.stage])
    have havg := hl.avg (by simp [hpc, PC.stage])
    have hmp := hl.mp (by simp [hpc, PC.stage])
    have hrt := hl.rt (by simp [hpc, PC.stage])
    have hcmp := hl.cmp (by simp [hpc, PC.stage])
    have hfly := hl.fly (by simp [hpc, PC.stage])
    constructor <;> intro hp <;> simp [PC.stage] at hp ⊢
    · exact hgate.mono hlast
    · exact havg.mono hlast
    · exact hmp.mono hlast
    · exact hrt.mono hlast
    · exact hcmp
    · exact hfly.mono hlast
  case inflight =>
    split at h <;> simp only [Option.some.injEq, Prod.mk.injEq] at h <;> obtain ⟨rfl, rfl⟩ := h <;>
      exact Local.idle _ (by simp [PC.stage]) (by simp) (by simp) (by simp) (by simp)
  all_goals
    obtain ⟨rfl, rfl⟩ := h
    exact Local.idle _ (by simp [PC.stage]) (by simp) (by simp) (by simp) (by simp)

/-- the counter moves exactly when the goroutine enters or leaves the in-flight positions. -/
theorem thStep_flying (sh sh' : Shared) (g : Snap) (t t' : Th) (inp : Inp)
    (h : thStep cfg sh g t inp = some (sh', t')) :
    sh'.flying + (if t.pc.inFlight then 1 else 0) = sh.flying + (if t'.pc.inFlight then 1 else 0) := by
  unfold thStep at h
  cases hpc : t.pc <;> simp only [hpc, Option.some.injEq, Prod.mk.injEq, reduceCtorEq] at h
  case inflight =>
    split at h <;> simp only [Option.some.injEq, Prod.mk.injEq] at h <;> obtain ⟨rfl, rfl⟩ := h <;>
      simp [PC.inFlight]
  all_goals
    obtain ⟨rfl, rfl⟩ := h
    (try simp only [apply_ite PC.inFlight, apply_ite Shared.flying])
    first
      | (simp [PC.inFlight]; done)
      | (simp [PC.inFlight]; omega)

theorem init_inv (sh0 : Shared) (n : Nat) : Inv cfg sh0 n (init sh0 n) where
  conserve := by
    simp only [init, inFlight]
    rw [List.countP_replicate]
    simp [Th.fresh, PC.inFlight]
  loc := by
    intro t ht
    simp only [init] at ht
    have := List.eq_of_mem_replicate ht
    subst this
    exact Local.idle _ (by simp [Th.fresh, PC.stage]) (by simp [Th.fresh]) (by simp [Th.fresh]) (by simp [Th.fresh])
      (by simp [Th.fresh])
  last := by
    intro t ht
    simp only [init] at ht
    have := List.eq_of_mem_replicate ht
    subst this
    simp [Th.fresh]

theorem step_inv (s s' : Sys) (a : Act) (hr : Reach cfg sh0 n s) (inv : Inv cfg sh0 n s)
    (hs : step cfg s a = some s') : Inv cfg sh0 n s' := by
  cases a with
  | tick d =>
    simp only [step, Option.some.injEq] at hs
    subst hs
    exact ⟨inv.conserve, inv.loc, fun t ht => Nat.le_succ_of_le (inv.last t ht)⟩
  | run i inp =>
    simp only [step] at hs
    split at hs
    · cases hs
    · rename_i t ht
      have hi : i < s.ths.length := (List.getElem?_eq_some_iff.mp ht).1
      have hti : s.ths[i] = t := (List.getElem?_eq_some_iff.mp ht).2
      have htm : t ∈ s.ths := List.mem_of_getElem? ht
      split at hs
      · cases hs
      · rename_i r hstep
        simp only [Option.some.injEq] at hs
        subst hs
        have hfl := thStep_flying s.sh r.1 s.snap t r.2 inp hstep
        have hloc := thStep_local s.sh r.1 s.snap t r.2 inp hstep (inv.loc t htm) ⟨s, hr, rfl⟩ rfl (inv.last t htm)
        refine ⟨?_, ?_, ?_⟩
        · have hc := inv.conserve
          simp only [inFlight] at hc ⊢
          rw [List.countP_set hi, hti]
          have hpos : t.pc.inFlight = true → 0 < s.ths.countP (fun t => t.pc.inFlight) := fun hp =>
            List.countP_pos_iff.mpr ⟨t, htm, hp⟩
          cases h1 : t.pc.inFlight <;> cases h2 : r.2.pc.inFlight <;> simp [h1, h2] at hfl ⊢ <;>
            (try have hp := hpos h1) <;> omega
        · intro u hu
          rcases List.mem_or_eq_of_mem_set hu with h | h
          · exact inv.loc u h
          · subst h; exact hloc
        · intro u hu
          rcases List.mem_or_eq_of_mem_set hu with h | h
          · exact Nat.le_succ_of_le (inv.last u h)
          · subst h; exact Nat.le_succ _

theorem reach_inv (s : Sys) (h : Reach cfg sh0 n s) : Inv cfg sh0 n s := by
  induction h with
  | init => exact init_inv sh0 n
  | step s s' a hr hs ih => exact step_inv s s' a hr ih hs

/-! ### bounds of the limit; schedules -/

theorem capOf_ge_one (cfg : Cfg) (mp : Int) (rt : Rat) : 1 ≤ capOf cfg mp rt := by
  unfold capOf
  simp only []
  split
  · exact Rat.le_refl
  · grind

/-- the limit lies between 10 % and 100 % of the capacity estimate it was computed from. -/
theorem limC_bounds (cfg : Cfg) (mp : Int) (rt : Rat) (cpu : Int) :
    capOf cfg mp rt ≤ 10 * limC cfg mp rt cpu ∧ limC cfg mp rt cpu ≤ capOf cfg mp rt := by
  have hm := capOf_ge_one cfg mp rt
  have hf := factor_bounds cfg.thr cpu
  unfold limC
  generalize capOf cfg mp rt = m at *
  generalize overloadFactor cfg.thr cpu = f at *
  have hm0 : (0 : Rat) ≤ m := by grind
  have h1 : m * (1 / 10) ≤ m * f := Rat.mul_le_mul_of_nonneg_left hf.1 hm0
  have h2 : m * f ≤ m * 1 := Rat.mul_le_mul_of_nonneg_left hf.2 hm0
  constructor <;> grind

/-- a schedule: actions taken one after the other. -/
def runActs (cfg : Cfg) (s : Sys) : List Act → Option Sys
  | [] => some s
  | a :: as => (step cfg s a).bind (runActs cfg · as)

theorem reach_runActs (cfg : Cfg) (sh0 : Shared) (n : Nat) (as : List Act) (s s' : Sys)
    (h : Reach cfg sh0 n s) (hr : runActs cfg s as = some s') : Reach cfg sh0 n s' := by
  induction as generalizing s with
  | nil => simp only [runActs, Option.some.injEq] at hr; subst hr; exact h
  | cons a as ih =>
    simp only [runActs] at hr
    cases hs : step cfg s a with
    | none => rw [hs] at hr; cases hr
    | some s1 => rw [hs] at hr; exact ih s1 (Reach.step s s1 a h hs) hr

/-! ### a goroutine running alone -/

/-- the shared memory of a sequential-model shedder at clock reading `now`. -/
def ofShedder (s : Shedder) (now : Nat) : Shared :=
  { now := now, flying := s.flying, avg := s.avgFlying, overloadTime := s.overloadTime, dropped := s.droppedRecently,
    passC := s.passCounter, rtC := s.rtCounter }

def cfgOf (s : Shedder) : Cfg := ⟨s.cpuThreshold, s.windowScale⟩

/-- one goroutine runs alone (no other goroutine, no clock tick) until its Allow has returned. -/
def solo (cfg : Cfg) (inp : Inp) : Nat → Shared × Th → Shared × Th
  | 0, r => r
  | fuel + 1, r =>
    if r.2.pc = .shed ∨ r.2.pc = .stamp then r
    else match thStep cfg r.1 ⟨r.1, 0, 0⟩ r.2 inp with
      | none => r
      | some r' => solo cfg inp fuel r'

/-- … until its Pass / Fail has returned. -/
def soloResolve (cfg : Cfg) (inp : Inp) : Nat → Shared × Th → Shared × Th
  | 0, r => r
  | fuel + 1, r =>
    if r.2.pc = .done then r
    else match thStep cfg r.1 ⟨r.1, 0, 0⟩ r.2 inp with
      | none => r
      | some r' => soloResolve cfg inp fuel r'

end GoZero.C02.Conc
