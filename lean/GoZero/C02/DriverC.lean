/-
C02 (concurrent histories) — driver for TestVerifC02C: N goroutines call Allow / Pass / Fail on one real shedder
at the same time (built with -race); the trace of a round is the totally ordered list of begin/end events.

cfg:  window=<ns> buckets=<n> threshold=<n> t0=<ns>
ops:  t+ <ns>                                                      => now=<ns>
      round n= k= hot=<mode> hn= cpu= seed= drain=                 => fl= mp= rt= mf= ot= ev=<n> <events…>
events (in stamp order):  Ab<w>.<j>  Ae<w>.<j>+|-  Rb<w>.<j>p|f  Re<w>.<j>  Pb<w>  Pe<w>=<v>  C+  C-

What is checked, justified by the interleaving theorems (Props: flying_conservation_all_schedules,
shed_only_if_hot_and_busy_all_schedules — every read of a goroutine happens between the two stamps of its call):
* quiescent conservation: when all goroutines of a round are joined, flying = admitted − resolved        (monitor)
* a value of `flying` read between two stamps lies between the number of requests certainly in flight during the
  whole interval and the number possibly in flight at some instant of it                                  (monitor)
* a refused Allow overlaps at least one admitted, unresolved request (never shed with nothing in flight)  (monitor)
* a refused Allow is preceded (before its end stamp) by a checker verdict "over" less than a second ago   (monitor)
* at quiescent points maxPass / minRt / maxFlight / overloadTime equal the sequential model fed with the
  round's admissions and resolutions (time stands still inside a round, so their order does not matter)   (mismatch)
-/
import GoZero.Base.Trace
import GoZero.C02.Driver
namespace GoZero.C02C
open GoZero GoZero.C02

structure Req where
  w : Nat
  j : Nat
  ab : Nat
  ae : Nat := 0
  rb : Option Nat := none
  re : Option Nat := none
  start : Nat            -- clock reading of the round that admitted it
  fail : Bool := false   -- resolved by Fail (known from the Rb event)
  deriving Repr

structure CSt where
  now : Nat
  sh : Shedder
  pos : Nat := 0                 -- global event position
  live : List Req := []          -- admitted, resolution not finished
  admitted : Nat := 0
  resolved : Nat := 0
  lastHot : Option Nat := none   -- clock reading of the latest round in which the checker said "over"

/-- the string without its first `n` characters. -/
def dropS (s : String) (n : Nat) : String := String.ofList (s.toList.drop n)

/-- `3.7x` → (3, 7, "x"). -/
def parseWJ (s : String) : Option (Nat × Nat × String) :=
  match s.splitOn "." with
  | [a, b] =>
    let digits := b.toList.takeWhile Char.isDigit
    let rest := String.ofList (b.toList.drop digits.length)
    match a.toNat?, (String.ofList digits).toNat? with
    | some w, some j => some (w, j, rest)
    | _, _ => none
  | _ => none

structure Round where
  pending : List (Nat × Nat × Nat) := []        -- Allow in progress: (w, j, ab)
  sheds : List (Nat × Nat) := []                -- refused Allows: (ab, ae)
  probes : List (Nat × Nat × Int) := []         -- (pb, pe, value)
  pprobe : List (Nat × Nat) := []               -- probe in progress: (w, pb)
  hots : List Nat := []                         -- positions of C+
  bad : Option String := none

def possibly (live : List Req) (b e : Nat) : Nat :=
  live.countP fun q => decide (q.ab < e) && (match q.re with | none => true | some r => decide (r > b))

def certainly (live : List Req) (b e : Nat) : Nat :=
  live.countP fun q => decide (q.ae ≠ 0 ∧ q.ae < b) && (match q.rb with | none => true | some r => decide (r > e))

def runSection (r : Report) (s : Section) : Report := Id.run do
  let window := kvNat s.cfg "window" 0
  let buckets := kvNat s.cfg "buckets" 0
  let threshold := kvInt s.cfg "threshold" 900
  let t0 := kvNat s.cfg "t0" 1
  let mut r := r
  if buckets = 0 ∨ window / buckets = 0 then
    return r.mismatch s.idx 0 "bad-cfg" (joinSp s.cfg)
  let mut st : CSt := { now := t0, sh := Shedder.new window buckets threshold t0 }
  r := r.addCover "csection"
  -- after a line that cannot be interpreted the bookkeeping of the section is lost: report it once, judge nothing further
  let mut dead := false
  for l in s.lines do
    r := { r with ops := r.ops + 1 }
    if dead then continue
    if l.obs.head? = some "PANIC" then
      r := r.mismatch s.idx l.idx "an observation" (joinSp (l.obs.take 12))
      dead := true
      continue
    match l.op with
    | ["t+", d] =>
      match d.toNat? with
      | none => r := r.mismatch s.idx l.idx "bad-op" (joinSp l.op)
      | some d =>
        st := { st with now := st.now + d }
        r := r.addCover "c-advance"
        if kvNat l.obs "now" 0 ≠ st.now then r := r.mismatch s.idx l.idx s!"now={st.now}" (joinSp l.obs)
    | "round" :: args =>
      let evs := l.obs.drop 6
      if kvNat l.obs "ev" 0 ≠ evs.length ∨ (l.obs.take 6).length ≠ 6 then
        r := r.mismatch s.idx l.idx s!"ev={evs.length}" (joinSp (l.obs.take 8))
        dead := true
        continue
      r := r.addCover "round"
      r := r.addCover s!"round-hot-mode-{kvNat args "hot" 9}"
      if !st.live.isEmpty then r := r.addCover "round-with-carried-over-promises"
      let prevHot := st.lastHot
      let mut rd : Round := {}
      let mut done : List Req := []       -- resolved in this round (still needed for the overlap bounds)
      for tok in evs do
        st := { st with pos := st.pos + 1 }
        let p := st.pos
        if tok = "C+" then rd := { rd with hots := p :: rd.hots }
        else if tok = "C-" then pure ()
        else if tok.startsWith "Ab" then
          match parseWJ (dropS tok 2) with
          | some (w, j, "") => rd := { rd with pending := (w, j, p) :: rd.pending }
          | _ => rd := { rd with bad := some tok }
        else if tok.startsWith "Ae" then
          match parseWJ (dropS tok 2) with
          | some (w, j, res) =>
            match rd.pending.find? (fun x => x.1 = w ∧ x.2.1 = j) with
            | none => rd := { rd with bad := some tok }
            | some (_, _, ab) =>
              rd := { rd with pending := rd.pending.filter fun x => !(x.1 = w ∧ x.2.1 = j) }
              -- how many other events fell between the two stamps of this call
              if p - ab > 1 then r := r.addCover "allow-overlapped-by-other-events"
              if res = "+" then
                st := { st with live := { w := w, j := j, ab := ab, ae := p, start := st.now } :: st.live,
                                admitted := st.admitted + 1,
                                sh := { st.sh with flying := st.sh.flying + 1 } }
              else if res = "-" then rd := { rd with sheds := (ab, p) :: rd.sheds }
              else rd := { rd with bad := some tok }
          | none => rd := { rd with bad := some tok }
        else if tok.startsWith "Rb" then
          match parseWJ (dropS tok 2) with
          | some (w, j, kind) =>
            if (kind = "p" ∨ kind = "f") ∧ st.live.any (fun q => q.w = w ∧ q.j = j ∧ q.rb.isNone) then
              st := { st with live := st.live.map fun q =>
                        if q.w = w ∧ q.j = j then { q with rb := some p, fail := decide (kind = "f") } else q }
            else rd := { rd with bad := some tok }
          | none => rd := { rd with bad := some tok }
        else if tok.startsWith "Re" then
          match parseWJ (dropS tok 2) with
          | some (w, j, "") =>
            match st.live.find? (fun q => q.w = w ∧ q.j = j ∧ q.rb.isSome) with
            | none => rd := { rd with bad := some tok }
            | some q =>
              let isFail := q.fail
              let sh' := if isFail then st.sh.fail else st.sh.pass st.now q.start
              r := r.addCover (if isFail then "c-fail" else "c-pass")
              if q.start ≠ st.now then r := r.addCover "resolved-in-a-later-round"
              done := { q with re := some p } :: done
              st := { st with live := st.live.filter (fun x => !(x.w = w ∧ x.j = j)), resolved := st.resolved + 1, sh := sh' }
          | _ => rd := { rd with bad := some tok }
        else if tok.startsWith "Pb" then
          match (dropS tok 2).toNat? with
          | some w => rd := { rd with pprobe := (w, p) :: rd.pprobe }
          | none => rd := { rd with bad := some tok }
        else if tok.startsWith "Pe" then
          match (dropS tok 2).splitOn "=" with
          | [ws, vs] =>
            match ws.toNat?, vs.toInt?, ws.toNat?.bind (fun w => rd.pprobe.find? (·.1 = w)) with
            | some w, some v, some (_, pb) =>
              rd := { rd with probes := (pb, p, v) :: rd.probes, pprobe := rd.pprobe.filter (·.1 ≠ w) }
            | _, _, _ => rd := { rd with bad := some tok }
          | _ => rd := { rd with bad := some tok }
        else rd := { rd with bad := some tok }
      if rd.bad.isSome ∨ !rd.pending.isEmpty ∨ !rd.pprobe.isEmpty ∨ st.live.any (fun q => q.rb.isSome) then
        r := r.mismatch s.idx l.idx "a well-formed history" s!"bad event {rd.bad} pending={rd.pending.length}"
        dead := true
        continue
      if !rd.hots.isEmpty then
        st := { st with lastHot := some st.now, sh := { st.sh with overloadTime := st.now } }
      -- everything that was in flight at some point of this round
      let alive := st.live ++ done
      -- monitors on the refused calls
      for (sb, se) in rd.sheds do
        let own := rd.hots.any fun h => sb < h ∧ h < se
        r := r.addCover (if own then "c-shed-own-verdict-over" else "c-shed-while-still-hot")
        let u := possibly alive sb se
        if u = 0 then
          r := r.violation s.idx l.idx "shed with nothing in flight (no admitted, unresolved request overlaps the refused Allow in the concurrent history)"
        else if u ≤ 2 then r := r.addCover "c-shed-with-at-most-2-possibly-in-flight"
        let hotNow := rd.hots.any fun h => h < se
        let hotBefore := match prevHot with
          | some t => decide (st.now - t < 1000000000)
          | none => false
        if !(hotNow || hotBefore) then
          r := r.violation s.idx l.idx s!"shed while no Allow had seen the CPU over the threshold within the last second (concurrent history, now={st.now} last over at {prevHot})"
      -- monitors on the probes of the counter
      for (pb, pe, v) in rd.probes do
        let lo := certainly alive pb pe
        let hi := possibly alive pb pe
        r := r.addCover (if lo = hi then "c-probe-exact" else "c-probe-interval")
        if v < (lo : Int) ∨ v > (hi : Int) then
          r := r.violation s.idx l.idx s!"in-flight counter read {v} but the history allows only [{lo},{hi}] requests in flight during the read"
      -- quiescent point
      let fl := kvInt l.obs "fl" (-999)
      let expect : Int := (st.admitted : Int) - (st.resolved : Int)
      if fl ≠ expect then
        r := r.violation s.idx l.idx s!"in-flight counter {fl} but admitted-resolved = {expect} (quiescent point after a concurrent round)"
      if expect = 0 then r := r.addCover "c-quiescent-empty" else r := r.addCover "c-quiescent-in-flight"
      let mp := st.sh.maxPass st.now
      let rt := st.sh.minRt st.now
      let mf := st.sh.maxFlight st.now
      if st.sh.visibleNonEmpty st.now then r := r.addCover "c-window-nonempty"
      let okMp := kvInt l.obs "mp" (-999) = mp
      let okRt := ((kv? l.obs "rt").bind parseRat) = some rt
      let okMf := ((kv? l.obs "mf").bind parseRat).map (Spec.near mf) = some true
      let okOt := kvNat l.obs "ot" 999 = st.sh.overloadTime
      if !(okMp && okRt && okMf && okOt && fl = st.sh.flying) then
        r := r.mismatch s.idx l.idx s!"fl={st.sh.flying} mp={mp} rt={showRat rt} mf={showRat mf} ot={st.sh.overloadTime}" (joinSp (l.obs.take 6))
    | _ => r := r.mismatch s.idx l.idx "bad-op" (joinSp l.op)
  return r

def driver (secs : List Section) : Report := secs.foldl runSection {}

end GoZero.C02C
