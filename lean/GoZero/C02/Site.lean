/-
C02 — the code AROUND the adaptive shedder (core Lean only): construction, the CPU reading path, the call sites.

Modelled code (as it exists):
  core/load/adaptiveshedder.go   NewAdaptiveShedder (enabled flag, defaults, option handling), WithWindow / WithBuckets /
                                 WithCpuThreshold, Disable, the default `systemOverloadChecker`
  core/load/nopshedder.go        nopShedder / nopPromise
  core/load/sheddergroup.go      NewShedderGroup / GetShedder (one shedder per key, created at first use with the
                                 group's options; syncx.ResourceManager taken as a map with create-once semantics)
  core/stat/usage.go             the sampler's moving average  usage = int64(prev·0.95 + cur·0.05), CpuUsage()
  rest/handler/sheddinghandler.go                         SheddingHandler
  zrpc/internal/serverinterceptors/sheddinginterceptor.go UnarySheddingInterceptor
  core/load/sheddingstat.go      the three counters of SheddingStat (IncrementTotal / Pass / Drop)

A Go `defer` runs when the function returns AND when it panics; the models of the two wrappers therefore resolve the
promise for every outcome of the wrapped handler (the placement inside the defer is pinned by the Tie skeletons).
-/
import GoZero.C02.History
namespace GoZero.C02

/-! ### construction: options, Disable, the nop shedder -/

/-- a `ShedderOption`. -/
inductive Opt where
  | window (ns : Nat)
  | buckets (n : Nat)
  | threshold (t : Int)
  deriving Repr, DecidableEq

/-- `shedderOptions`. -/
structure Options where
  window    : Nat
  buckets   : Nat
  threshold : Int
  deriving Repr, DecidableEq

/-- defaultWindow = 5 s, defaultBuckets = 50, defaultCpuThreshold = 900. -/
def defaultOptions : Options := ⟨5000000000, 50, 900⟩

def Opt.apply (o : Options) : Opt → Options
  | .window w => { o with window := w }
  | .buckets b => { o with buckets := b }
  | .threshold t => { o with threshold := t }

/-- `for _, opt := range opts { opt(&options) }` starting from the defaults: applied in order, the last one wins. -/
def applyOpts (opts : List Opt) : Options := opts.foldl Opt.apply defaultOptions

/-- what `NewAdaptiveShedder` returns. -/
inductive AnyShedder where
  | nop
  | adaptive (s : Shedder)
  deriving Repr

/-- `NewAdaptiveShedder(opts...)` at time `now`; `enabled` is the package-level flag that `Disable()` clears.  The flag
is read here and nowhere else: a shedder built while enabled keeps shedding after a later `Disable()`. -/
def newShedder (enabled : Bool) (opts : List Opt) (now : Nat) : AnyShedder :=
  if !enabled then .nop
  else
    let o := applyOpts opts
    .adaptive (Shedder.new o.window o.buckets o.threshold now)

def AnyShedder.allow (a : AnyShedder) (now : Nat) (cpuOver : Bool) (cpu : Int) : AnyShedder × Verdict :=
  match a with
  | .nop => (.nop, nopAllow)
  | .adaptive s => (.adaptive (s.allow now cpuOver cpu).1, (s.allow now cpuOver cpu).2)

/-- resolving a promise (`pass = true`: Pass, else Fail); the nop promise does nothing. -/
def AnyShedder.resolve (a : AnyShedder) (now start : Nat) (pass : Bool) : AnyShedder :=
  match a with
  | .nop => .nop
  | .adaptive s => .adaptive (if pass then s.pass now start else s.fail)

def AnyShedder.flying : AnyShedder → Int
  | .nop => 0
  | .adaptive s => s.flying

/-! ### the default CPU check and the sampler of core/stat/usage.go -/

/-- the default `systemOverloadChecker`: `stat.CpuUsage() >= cpuThreshold`. -/
def defaultChecker (cpu threshold : Int) : Bool := decide (cpu ≥ threshold)

/-- `Allow()` with the default checker: the checker and `overloadFactor` both read `stat.CpuUsage()`; `cpuC` is the
reading of the checker, `cpuF` the one of `overloadFactor` (the sampler may have stored a new value in between). -/
def Shedder.allowDefault (s : Shedder) (now : Nat) (cpuC cpuF : Int) : Shedder × Verdict :=
  s.allow now (defaultChecker cpuC s.cpuThreshold) cpuF

/-- Go's conversion `int64(x)` of a float: truncation towards zero. -/
def goTrunc (x : Rat) : Int := if 0 ≤ x then x.floor else x.ceil

/-- one tick of the sampler: `usage := int64(float64(prevUsage)*beta + float64(curUsage)*(1-beta))`, beta = 0.95
(exact rational reading). -/
def cpuEma (prev cur : Int) : Int := goTrunc ((prev : Rat) * (19 / 20) + (cur : Rat) * (1 - 19 / 20))

/-- what the harness checks on two consecutive readings `prev → new` of the REAL sampler: `new` lies in the window the
samples 0 … 1000 span (`cpu_step_window`), with one unit of slack for the float64 rounding the model does not follow. -/
def samplerStepOk (prev new : Int) : Bool := decide (cpuEma prev 0 - 1 ≤ new) && decide (new ≤ cpuEma prev 1000 + 1)

/-- the reading after a whole trace of samples, starting from `start`. -/
def cpuTrace (start : Int) (curs : List Int) : Int := curs.foldl cpuEma start

/-! ### ShedderGroup -/

/-- the map key → shedder of the group's `syncx.ResourceManager` (association list, one entry per key). -/
def lookup : List (Nat × AnyShedder) → Nat → Option AnyShedder
  | [], _ => none
  | m :: ms, key => if m.1 = key then some m.2 else lookup ms key

def update : List (Nat × AnyShedder) → Nat → AnyShedder → List (Nat × AnyShedder)
  | [], key, a => [(key, a)]
  | m :: ms, key, a => if m.1 = key then (key, a) :: ms else m :: update ms key a

structure Group where
  opts    : List Opt
  members : List (Nat × AnyShedder) := []
  deriving Repr

def Group.find (g : Group) (key : Nat) : Option AnyShedder := lookup g.members key

/-- store the new state of key's shedder (the Go code shares the shedder by pointer). -/
def Group.set (g : Group) (key : Nat) (a : AnyShedder) : Group := { g with members := update g.members key a }

/-- `GetShedder(key)`: the existing shedder of the key, or a new `NewAdaptiveShedder(g.options...)`. -/
def Group.get (g : Group) (enabled : Bool) (key now : Nat) : Group × AnyShedder :=
  match g.find key with
  | some a => (g, a)
  | none =>
    let a := newShedder enabled g.opts now
    (g.set key a, a)

/-! ### where the services build their shedders: rest/engine.go, zrpc/server.go -/

/-- `topCpuUsage` of rest/engine.go. -/
def topCpuUsage : Int := 1000

/-- the threshold of the priority shedder: `(c.CpuThreshold + topCpuUsage) >> 1`. -/
def priorityThreshold (t : Int) : Int := (t + topCpuUsage) / 2

/-- `engine.shedder` / `engine.priorityShedder` (nil = `none`). -/
structure Engine where
  shedder  : Option AnyShedder
  priority : Option AnyShedder
  deriving Repr

/-- `newEngine(c)`: both shedders are built iff `c.CpuThreshold > 0`, each by `NewAdaptiveShedder(WithCpuThreshold(…))`
(so `load.Disable()` before it makes both nop shedders). -/
def newEngine (enabled : Bool) (cpuThreshold : Int) (now : Nat) : Engine :=
  if cpuThreshold > 0 then
    { shedder := some (newShedder enabled [.threshold cpuThreshold] now)
      priority := some (newShedder enabled [.threshold (priorityThreshold cpuThreshold)] now) }
  else { shedder := none, priority := none }

/-- `engine.getShedder(priority)`. -/
def Engine.getShedder (e : Engine) (priority : Bool) : Option AnyShedder :=
  if priority && e.priority.isSome then e.priority else e.shedder

/-- the shedder a route's chain gets: `if ng.conf.Middlewares.Shedding { SheddingHandler(ng.getShedder(fr.priority), …) }`;
`none` = no shedding middleware, or `SheddingHandler(nil, …)` which is the identity (`httpServe true`). -/
def routeShedder (sheddingMiddleware : Bool) (e : Engine) (priority : Bool) : Option AnyShedder :=
  if sheddingMiddleware then e.getShedder priority else none

/-- zrpc/server.go `setupUnaryInterceptors`: `if c.CpuThreshold > 0 { UnarySheddingInterceptor(NewAdaptiveShedder(
WithCpuThreshold(c.CpuThreshold)), …) }`. -/
def rpcServerShedder (enabled : Bool) (cpuThreshold : Int) (now : Nat) : Option AnyShedder :=
  if cpuThreshold > 0 then some (newShedder enabled [.threshold cpuThreshold] now) else none

/-! ### the call sites -/

namespace Site

/-- http.StatusServiceUnavailable / http.StatusOK. -/
def statusServiceUnavailable : Int := 503
def statusOK : Int := 200

/-- how a wrapped handler (HTTP or gRPC) ends.  Go runs deferred calls for every one of them; only after `returns` do
the named results hold what the handler returned. -/
inductive End where
  | returns            -- ordinary return
  | panicValue         -- panic with a non-error value
  | panicError         -- panic with an error value (http.ErrAbortHandler, context.DeadlineExceeded, *runtime.PanicNilError of panic(nil))
  | goexit             -- runtime.Goexit(): the goroutine ends, deferred calls run, nothing is returned
  deriving Repr, DecidableEq

/-- every end but the ordinary return is "abnormal": the `panics` flag of the two wrapper models. -/
def End.abnormal : End → Bool
  | .returns => false
  | _ => true

/-- what the wrapped HTTP handler does: first `WriteHeader(code)` (0: none), a body write, a second
`WriteHeader(again)` (0: none), then returns or panics.  `pre` is the status the incoming writer already carries when it
is a `*WithCodeResponseWriter` handed down by an outer middleware (`NewWithCodeResponseWriter` reuses it; 200 if fresh). -/
structure HttpOutcome where
  code   : Int := 0
  body   : Bool := false
  again  : Int := 0
  panics : Bool := false
  pre    : Int := 200
  deriving Repr, DecidableEq

/-- `cw.Code` when the deferred function runs: the last `WriteHeader` (WithCodeResponseWriter remembers every call). -/
def HttpOutcome.lastCode (o : HttpOutcome) : Int :=
  if o.again ≠ 0 then o.again else if o.code ≠ 0 then o.code else o.pre

/-- the status net/http puts on the wire: the first `WriteHeader` wins, a body write implies 200. -/
def HttpOutcome.wire (o : HttpOutcome) : Int :=
  if o.code ≠ 0 then o.code else if o.body then 200 else if o.again ≠ 0 then o.again else 200

/-- `cw.Code == http.StatusServiceUnavailable`: the HTTP wrapper's Fail condition. -/
def httpFails (cwCode : Int) : Bool := decide (cwCode = statusServiceUnavailable)

/-- `errors.Is(err, context.DeadlineExceeded)` evaluated in the defer: after a panic of the handler the named result
`err` still holds the nil that `shedder.Allow()` returned. -/
def rpcFails (errIsDeadline panics : Bool) : Bool := errIsDeadline && !panics

inductive Res where
  | pass
  | fail
  deriving Repr, DecidableEq

/-- increments of the package's SheddingStat counters during one request. -/
structure StatD where
  total : Nat := 0
  pass  : Nat := 0
  drop  : Nat := 0
  deriving Repr, DecidableEq

def StatD.add (a b : StatD) : StatD := ⟨a.total + b.total, a.pass + b.pass, a.drop + b.drop⟩

/-- everything observable of one request through a wrapper. -/
structure Served where
  asked  : Nat            -- calls of shedder.Allow
  ran    : Bool           -- the wrapped handler ran
  early  : Nat            -- resolutions before the handler was done
  res    : List Res       -- resolutions of the promise, in order
  status : Int            -- HTTP: status on the wire; gRPC: 0 = the handler's own result, 8 = codes.ResourceExhausted
  stat   : StatD
  deriving Repr, DecidableEq

/-- codes.ResourceExhausted. -/
def codeResourceExhausted : Int := 8

/-- `SheddingHandler(shedder, metrics)(next).ServeHTTP`.  `nilShedder`: the middleware is the identity. -/
def httpServe (nilShedder allowed : Bool) (o : HttpOutcome) : Served :=
  if nilShedder then { asked := 0, ran := true, early := 0, res := [], status := o.wire, stat := {} }
  else if !allowed then
    { asked := 1, ran := false, early := 0, res := [], status := statusServiceUnavailable, stat := ⟨1, 0, 1⟩ }
  else if httpFails o.lastCode then
    { asked := 1, ran := true, early := 0, res := [.fail], status := o.wire, stat := ⟨1, 0, 0⟩ }
  else
    { asked := 1, ran := true, early := 0, res := [.pass], status := o.wire, stat := ⟨1, 1, 0⟩ }

/-- `UnarySheddingInterceptor(shedder, metrics)(ctx, req, info, handler)`. -/
def rpcServe (allowed errIsDeadline panics : Bool) : Served :=
  if !allowed then
    { asked := 1, ran := false, early := 0, res := [], status := codeResourceExhausted, stat := ⟨1, 0, 1⟩ }
  else if rpcFails errIsDeadline panics then
    { asked := 1, ran := true, early := 0, res := [.fail], status := 0, stat := ⟨1, 0, 0⟩ }
  else
    { asked := 1, ran := true, early := 0, res := [.pass], status := 0, stat := ⟨1, 1, 0⟩ }

/-! ### a server: the shedder behind its call sites

Requests arrive (the wrapper asks `Allow`), run inside the wrapped handler for as long as they like, and end with an
arbitrary outcome — a status, an error, a panic.  The wrapper turns the outcome into `Pass` or `Fail`. -/

inductive SOp where
  | advance (d : Nat)
  | arrive (cpuOver : Bool) (cpu : Int)                        -- wrapper entry: IncrementTotal, shedder.Allow
  | finishHttp (id : Nat) (o : HttpOutcome)                    -- the handler of request `id` ends with outcome `o`
  | finishRpc (id : Nat) (errIsDeadline panics : Bool)
  deriving Repr

/-- what the shedder sees of a server operation. -/
def SOp.toH : SOp → HOp
  | .advance d => .advance d
  | .arrive o c => .allow o c
  | .finishHttp id o => if httpFails o.lastCode then .fail id else .pass id
  | .finishRpc id dl pn => if rpcFails dl pn then .fail id else .pass id

/-- the increments of the SheddingStat counters, given the verdict for an arrival. -/
def SOp.stat (v : Option Verdict) : SOp → StatD
  | .advance _ => {}
  | .arrive _ _ => if v = some .overloaded then ⟨1, 0, 1⟩ else ⟨1, 0, 0⟩
  | .finishHttp _ o => if httpFails o.lastCode then {} else ⟨0, 1, 0⟩
  | .finishRpc _ dl pn => if rpcFails dl pn then {} else ⟨0, 1, 0⟩

structure SSt where
  h      : HSt
  stat   : StatD := {}
  failed : Nat := 0          -- requests resolved by Fail
  deriving Repr

def sstep (s : SSt) (op : SOp) : Option SSt :=
  match hstep s.h op.toH with
  | none => none
  | some (h', v) =>
    some { h := h', stat := s.stat.add (op.stat v),
           failed := s.failed + (match op.toH with | .fail _ => 1 | _ => 0) }

def srun (s : SSt) : List SOp → Option SSt
  | [] => some s
  | op :: ops =>
    match sstep s op with
    | some s' => srun s' ops
    | none => none

end Site

end GoZero.C02
