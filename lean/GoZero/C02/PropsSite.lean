/-
C02 — property theorems about the code around the shedder (model: Site.lean): construction and options, Disable and
the nop shedder, ShedderGroup, the default CPU check and the sampler's moving average, the HTTP / gRPC call sites and
their SheddingStat counters, and the end-to-end statements "call site → wrapper → shedder".
-/
import GoZero.C02.Props
import GoZero.C02.Site
namespace GoZero.C02
open Site

/-! ### clause 4: a disabled shedder never sheds -/

/-- **A disabled shedder never sheds — constructor to promise.**  With the package flag cleared (`Disable()`),
`NewAdaptiveShedder` returns the nop shedder whatever the options; its `Allow` admits for every time, checker verdict
and CPU reading, and neither `Allow` nor resolving its promise changes it: by induction no history makes it shed. -/
theorem disabled_shedder_never_sheds (opts : List Opt) (t0 : Nat) :
    newShedder false opts t0 = .nop
    ∧ (∀ now cpuOver cpu, AnyShedder.nop.allow now cpuOver cpu = (.nop, .admitted))
    ∧ (∀ now start pass, AnyShedder.nop.resolve now start pass = .nop) :=
  ⟨rfl, fun _ _ _ => rfl, fun _ _ _ => rfl⟩

/-- the same through a ShedderGroup: a key first used while disabled gets the nop shedder and keeps it. -/
theorem disabled_group_member_never_sheds (g : Group) (key now : Nat) (h : g.find key = none) :
    (g.get false key now).2 = .nop := by
  simp [Group.get, h, newShedder]

/-! ### option handling -/

theorem options_default : applyOpts [] = ⟨5000000000, 50, 900⟩ := rfl

/-- options are applied in order; the last one of a kind wins and leaves the other fields alone. -/
theorem options_last_wins (opts : List Opt) (w b : Nat) (t : Int) :
    ((applyOpts (opts ++ [.threshold t])).threshold = t
      ∧ (applyOpts (opts ++ [.threshold t])).window = (applyOpts opts).window
      ∧ (applyOpts (opts ++ [.threshold t])).buckets = (applyOpts opts).buckets)
    ∧ ((applyOpts (opts ++ [.window w])).window = w
      ∧ (applyOpts (opts ++ [.window w])).threshold = (applyOpts opts).threshold
      ∧ (applyOpts (opts ++ [.window w])).buckets = (applyOpts opts).buckets)
    ∧ ((applyOpts (opts ++ [.buckets b])).buckets = b
      ∧ (applyOpts (opts ++ [.buckets b])).threshold = (applyOpts opts).threshold
      ∧ (applyOpts (opts ++ [.buckets b])).window = (applyOpts opts).window) := by
  simp [applyOpts, List.foldl_append, Opt.apply]

theorem foldl_threshold_absent (opts : List Opt) (o : Options) (h : ∀ t, Opt.threshold t ∉ opts) :
    (opts.foldl Opt.apply o).threshold = o.threshold := by
  induction opts generalizing o with
  | nil => rfl
  | cons x xs ih =>
    simp only [List.foldl_cons]
    rw [ih]
    · cases x with
      | threshold t => exact absurd (List.mem_cons_self) (h t)
      | window w => rfl
      | buckets b => rfl
    · intro t ht; exact h t (List.mem_cons_of_mem _ ht)

/-- no `WithCpuThreshold` among the options ⇒ the threshold is the default 900 (90 % CPU). -/
theorem options_threshold_default (opts : List Opt) (h : ∀ t, Opt.threshold t ∉ opts) :
    (applyOpts opts).threshold = 900 := foldl_threshold_absent opts defaultOptions h

/-- an enabled `NewAdaptiveShedder(opts...)` is the adaptive shedder of the resolved options — the object all the
theorems of Props.lean speak about. -/
theorem new_shedder_is_model (opts : List Opt) (now : Nat) :
    newShedder true opts now =
      .adaptive (Shedder.new (applyOpts opts).window (applyOpts opts).buckets (applyOpts opts).threshold now) := rfl

/-! ### ShedderGroup: one shedder per key, keys independent -/

theorem lookup_update_self (ms : List (Nat × AnyShedder)) (key : Nat) (a : AnyShedder) :
    lookup (update ms key a) key = some a := by
  induction ms with
  | nil => simp [update, lookup]
  | cons m ms ih =>
    by_cases hm : m.1 = key <;> simp [update, lookup, hm, ih]

theorem lookup_update_other (ms : List (Nat × AnyShedder)) (key key' : Nat) (a : AnyShedder) (h : key ≠ key') :
    lookup (update ms key a) key' = lookup ms key' := by
  induction ms with
  | nil => simp [update, lookup, h]
  | cons m ms ih =>
    by_cases hm : m.1 = key
    · have : ¬ m.1 = key' := by omega
      simp [update, lookup, hm, h]
    · simp [update, lookup, hm, ih]

theorem find_set_self (g : Group) (key : Nat) (a : AnyShedder) : (g.set key a).find key = some a :=
  lookup_update_self g.members key a

theorem find_set_other (g : Group) (key key' : Nat) (a : AnyShedder) (h : key ≠ key') :
    (g.set key a).find key' = g.find key' := lookup_update_other g.members key key' a h

/-- **`GetShedder` hands out one shedder per key.**  The first call for a key creates the shedder from the group's
options (at that moment: the `enabled` flag and the clock are read then); every later call — whatever the flag and
the clock say by then — returns that same shedder and leaves the group unchanged. -/
theorem group_one_shedder_per_key (g : Group) (en en' : Bool) (key now now' : Nat) :
    let r := g.get en key now
    r.1.get en' key now' = (r.1, r.2)
    ∧ (g.find key = none → r.2 = newShedder en g.opts now) := by
  intro r
  constructor
  · cases hf : g.find key with
    | some a =>
      have : r = (g, a) := by simp [r, Group.get, hf]
      simp [this, Group.get, hf]
    | none =>
      have : r = (g.set key (newShedder en g.opts now), newShedder en g.opts now) := by simp [r, Group.get, hf]
      simp [this, Group.get, find_set_self]
  · intro hf
    simp [r, Group.get, hf]

/-- **Keys are independent.**  Creating or updating the shedder of one key (an Allow, a Pass, a Fail on it) leaves the
shedder of every other key as it was. -/
theorem group_keys_independent (g : Group) (en : Bool) (key key' now : Nat) (a : AnyShedder) (h : key ≠ key') :
    (g.set key a).find key' = g.find key' ∧ (g.get en key now).1.find key' = g.find key' := by
  refine ⟨find_set_other g key key' a h, ?_⟩
  cases hf : g.find key with
  | some a' => simp [Group.get, hf]
  | none => simp [Group.get, hf, find_set_other g key key' _ h]

/-! ### clause 1 with the default checker: "the CPU is at or above the threshold at that moment" -/

/-- **Sheds only if the CPU reading is at or above the threshold** (default `systemOverloadChecker`): if `Allow`
returns ErrServiceOverloaded then `stat.CpuUsage() ≥ cpuThreshold` held at the checker's read — or shedding was in
progress and an Allow saw that less than a second ago — and in-flight count and average exceed 10 % of the estimate. -/
theorem shed_only_if_cpu_at_or_above_threshold (s : Shedder) (now : Nat) (cpuC cpuF : Int)
    (h : (s.allowDefault now cpuC cpuF).2 = .overloaded) :
    (cpuC ≥ s.cpuThreshold ∨
      (s.droppedRecently = true ∧ s.overloadTime ≠ 0 ∧ now - s.overloadTime < 1000000000))
    ∧ 10 * (s.flying : Rat) > s.maxFlight now
    ∧ 10 * s.avgFlying > s.maxFlight now
    ∧ 1 ≤ s.flying := by
  have := shed_only_if_hot_and_busy s now (defaultChecker cpuC s.cpuThreshold) cpuF h
  refine ⟨?_, this.2⟩
  rcases this.1 with h1 | h1
  · exact Or.inl (by simpa [defaultChecker] using h1)
  · exact Or.inr h1

/-- **Does shed** at a CPU reading at or above the threshold when in-flight count and average exceed the estimate. -/
theorem sheds_when_cpu_at_or_above_threshold (s : Shedder) (now : Nat) (cpuC cpuF : Int)
    (hc : cpuC ≥ s.cpuThreshold)
    (hf : (s.flying : Rat) > s.maxFlight now) (ha : s.avgFlying > s.maxFlight now) :
    (s.allowDefault now cpuC cpuF).2 = .overloaded := by
  have : defaultChecker cpuC s.cpuThreshold = true := by simpa [defaultChecker] using hc
  unfold Shedder.allowDefault
  rw [this]
  exact sheds_when_over_capacity s now cpuF hf ha

/-- below the threshold and outside a cool-off nothing is shed, whatever the load. -/
theorem calm_cpu_never_sheds (s : Shedder) (now : Nat) (cpuC cpuF : Int)
    (hc : cpuC < s.cpuThreshold) (hd : s.droppedRecently = false) :
    (s.allowDefault now cpuC cpuF).2 = .admitted := by
  cases hv : (s.allowDefault now cpuC cpuF).2 with
  | admitted => rfl
  | overloaded =>
    have := (shed_only_if_cpu_at_or_above_threshold s now cpuC cpuF hv).1
    rcases this with h | h
    · omega
    · simp [hd] at h

/-! ### the sampler of core/stat/usage.go -/

theorem cpuEma_eq_div (prev cur : Int) (hp : 0 ≤ prev) (hc : 0 ≤ cur) :
    cpuEma prev cur = (19 * prev + cur) / 20 := by
  have h20 : 20 * ((prev : Rat) * (19 / 20) + (cur : Rat) * (1 - 19 / 20)) = ((19 * prev + cur : Int) : Rat) := by
    simp only [Rat.intCast_add, Rat.intCast_mul]
    grind
  have hn : (0 : Rat) ≤ ((19 * prev + cur : Int) : Rat) := Rat.intCast_nonneg.mpr (by omega)
  unfold cpuEma goTrunc
  generalize (prev : Rat) * (19 / 20) + (cur : Rat) * (1 - 19 / 20) = x at h20
  have hx0 : 0 ≤ x := by grind
  rw [if_pos hx0]
  apply Int.le_antisymm
  · have h1 := Rat.floor_le x
    have h2 : ((20 * x.floor : Int) : Rat) ≤ ((19 * prev + cur : Int) : Rat) := by
      simp only [Rat.intCast_mul]
      grind
    have := Rat.intCast_le_intCast.mp h2
    omega
  · rw [Rat.le_floor_iff]
    have h3 : ((20 * ((19 * prev + cur) / 20) : Int) : Rat) ≤ ((19 * prev + cur : Int) : Rat) :=
      Rat.intCast_le_intCast.mpr (by omega)
    simp only [Rat.intCast_mul] at h3
    grind

/-- **The CPU reading stays a millicpu figure.**  One tick of the sampler moves the reading to a value between the
previous reading and the new sample; with samples in [0, 1000] (RefreshCpu clamps to cpuMax) every reading
`stat.CpuUsage()` returns lies in [0, 1000], and a constant sample at or above the threshold is approached from below
without ever overshooting it. -/
theorem cpu_reading_between (prev cur : Int) (hp : 0 ≤ prev) (hc : 0 ≤ cur) :
    min prev cur ≤ cpuEma prev cur ∧ cpuEma prev cur ≤ max prev cur := by
  rw [cpuEma_eq_div prev cur hp hc]
  constructor <;> omega

theorem cpu_reading_in_range (prev cur : Int) (hp : 0 ≤ prev ∧ prev ≤ 1000) (hc : 0 ≤ cur ∧ cur ≤ 1000) :
    0 ≤ cpuEma prev cur ∧ cpuEma prev cur ≤ 1000 := by
  rw [cpuEma_eq_div prev cur hp.1 hc.1]
  constructor <;> omega

/-- **The reading after ANY trace of samples stays in [0, 1000]** (induction over the sampler's ticks). -/
theorem cpu_trace_in_range (curs : List Int) (start : Int) (hs : 0 ≤ start ∧ start ≤ 1000)
    (hc : ∀ c ∈ curs, 0 ≤ c ∧ c ≤ 1000) : 0 ≤ cpuTrace start curs ∧ cpuTrace start curs ≤ 1000 := by
  induction curs generalizing start with
  | nil => simpa [cpuTrace] using hs
  | cons c cs ih =>
    have h1 := cpu_reading_in_range start c hs (hc c (by simp))
    have := ih (cpuEma start c) h1 (fun x hx => hc x (by simp [hx]))
    simpa [cpuTrace] using this

/-- the window the harness monitor `samplerStepOk` checks on the REAL sampler goroutine: with a sample in 0 … 1000 the new
reading lies between the readings the samples 0 and 1000 give. -/
theorem cpu_step_window (prev cur : Int) (hp : 0 ≤ prev) (hc : 0 ≤ cur ∧ cur ≤ 1000) :
    cpuEma prev 0 ≤ cpuEma prev cur ∧ cpuEma prev cur ≤ cpuEma prev 1000 := by
  rw [cpuEma_eq_div prev cur hp hc.1, cpuEma_eq_div prev 0 hp (by omega), cpuEma_eq_div prev 1000 hp (by omega)]
  constructor <;> omega

/-- the monitor never fires on a step of the model. -/
theorem sampler_monitor_sound (prev cur : Int) (hp : 0 ≤ prev) (hc : 0 ≤ cur ∧ cur ≤ 1000) :
    samplerStepOk prev (cpuEma prev cur) = true := by
  have := cpu_step_window prev cur hp hc
  simp only [samplerStepOk, Bool.and_eq_true, decide_eq_true_eq]
  omega

/-! ### the call sites, one request -/

/-- **HTTP: an admitted request is resolved exactly once, after its handler, for every outcome** — any status, a body,
a second WriteHeader, a writer inherited from an outer middleware, a panic.  Fail iff the last status set is 503. -/
theorem http_admitted_resolved_exactly_once (o : HttpOutcome) :
    let r := httpServe false true o
    r.res.length = 1 ∧ r.asked = 1 ∧ r.ran = true ∧ r.early = 0
    ∧ r.res = [if o.lastCode = 503 then Res.fail else Res.pass]
    ∧ r.stat = ⟨1, if o.lastCode = 503 then 0 else 1, 0⟩ := by
  by_cases h : o.lastCode = 503 <;> simp [httpServe, httpFails, statusServiceUnavailable, h]

/-- HTTP: a refused request gets 503, is not handled and its (nil) promise is not touched; one drop is counted. -/
theorem http_refused (o : HttpOutcome) :
    httpServe false false o = { asked := 1, ran := false, early := 0, res := [], status := 503, stat := ⟨1, 0, 1⟩ } := rfl

/-- HTTP: `SheddingHandler(nil, …)` is the identity: no Allow, no counters. -/
theorem http_nil_shedder (allowed : Bool) (o : HttpOutcome) :
    httpServe true allowed o = { asked := 0, ran := true, early := 0, res := [], status := o.wire, stat := {} } := rfl

/-- **gRPC: an admitted call is resolved exactly once for every outcome**; Fail iff the handler returned (did not
panic) with an error that `errors.Is` context.DeadlineExceeded. -/
theorem rpc_admitted_resolved_exactly_once (dl pn : Bool) :
    let r := rpcServe true dl pn
    r.res.length = 1 ∧ r.asked = 1 ∧ r.ran = true ∧ r.early = 0
    ∧ r.res = [if dl = true ∧ pn = false then Res.fail else Res.pass]
    ∧ r.stat = ⟨1, if dl = true ∧ pn = false then 0 else 1, 0⟩ := by
  cases dl <;> cases pn <;> decide

theorem rpc_refused (dl pn : Bool) :
    rpcServe false dl pn = { asked := 1, ran := false, early := 0, res := [], status := 8, stat := ⟨1, 0, 1⟩ } := rfl

/-- **Every way a handler can end** (return, panic with a value, panic with an error value — http.ErrAbortHandler,
context.DeadlineExceeded itself, the PanicNilError of panic(nil) —, runtime.Goexit): the admitted request is resolved
exactly once; after any abnormal end the gRPC wrapper resolves by Pass (its named result is still nil), the HTTP wrapper
by the last status recorded. -/
theorem admitted_resolved_exactly_once_every_end (e : End) (dl : Bool) (o : HttpOutcome) :
    (rpcServe true dl e.abnormal).res.length = 1
    ∧ (httpServe false true { o with panics := e.abnormal }).res.length = 1
    ∧ (e ≠ .returns → (rpcServe true dl e.abnormal).res = [Res.pass])
    ∧ (httpServe false true { o with panics := e.abnormal }).res = (httpServe false true o).res := by
  refine ⟨?_, ?_, ?_, ?_⟩
  · cases e <;> cases dl <;> decide
  · by_cases h : o.lastCode = 503 <;> simp [httpServe, httpFails, statusServiceUnavailable, HttpOutcome.lastCode] at * <;> simp [h]
  · intro hne
    cases e <;> cases dl <;> first | contradiction | decide
  · simp [httpServe, httpFails, HttpOutcome.lastCode, HttpOutcome.wire]

/-- **The call-site monitors never fire on the model** (what DriverH's `callSiteMonitor`, the classification clause and the
SheddingStat clause check on the real wrappers): an admitted request is resolved exactly once and not early, a refused one
is neither handled nor resolved and gets 503 / ResourceExhausted, Allow is asked once, and the counters are
total +1, pass +1 exactly with a Pass, drop +1 exactly with a refusal. -/
theorem callsite_monitor_sound (allowed : Bool) (o : HttpOutcome) (dl pn : Bool) :
    let h := httpServe false allowed o
    let r := rpcServe allowed dl pn
    (allowed = true → h.res.length = 1 ∧ h.early = 0 ∧ r.res.length = 1 ∧ r.early = 0
        ∧ (h.res = [Res.fail] ↔ httpFails o.lastCode = true) ∧ (r.res = [Res.fail] ↔ rpcFails dl pn = true))
    ∧ (allowed = false → h.res = [] ∧ h.ran = false ∧ h.status = 503 ∧ r.res = [] ∧ r.ran = false ∧ r.status = 8)
    ∧ h.asked = 1 ∧ r.asked = 1 ∧ h.stat.total = 1 ∧ r.stat.total = 1
    ∧ h.stat.pass = (h.res.filter (· = Res.pass)).length ∧ r.stat.pass = (r.res.filter (· = Res.pass)).length
    ∧ h.stat.drop = (if allowed then 0 else 1) ∧ r.stat.drop = (if allowed then 0 else 1) := by
  cases allowed <;> cases hf : httpFails o.lastCode <;> cases hr : rpcFails dl pn <;>
    simp [httpServe, rpcServe, hf, hr, statusServiceUnavailable, codeResourceExhausted]


/-! ### the server: call site → wrapper → shedder, every history -/

theorem hstep_outstanding (h : HSt) (op : HOp) (h' : HSt) (v : Option Verdict) (hs : hstep h op = some (h', v)) :
    (∀ d, op = .advance d → h'.outstanding.length = h.outstanding.length ∧ v = none)
    ∧ (∀ o c, op = .allow o c → (v = some .admitted ∧ h'.outstanding.length = h.outstanding.length + 1)
                    ∨ (v = some .overloaded ∧ h'.outstanding.length = h.outstanding.length))
    ∧ (∀ id, op = .pass id ∨ op = .fail id → h'.outstanding.length + 1 = h.outstanding.length ∧ v = none) := by
  cases op with
  | advance d =>
    simp only [hstep, Option.some.injEq, Prod.mk.injEq] at hs
    obtain ⟨rfl, rfl⟩ := hs
    simp
  | allow o c =>
    simp only [hstep] at hs
    split at hs <;> simp only [Option.some.injEq, Prod.mk.injEq] at hs <;> obtain ⟨rfl, rfl⟩ := hs <;> simp
  | pass id =>
    simp only [hstep] at hs
    split at hs
    · rename_i p hp
      simp only [Option.some.injEq, Prod.mk.injEq] at hs
      obtain ⟨rfl, rfl⟩ := hs
      have hm : p ∈ h.outstanding := List.mem_of_find?_eq_some hp
      have := List.length_erase_of_mem hm
      have := List.length_pos_of_mem hm
      simp
      omega
    · cases hs
  | fail id =>
    simp only [hstep] at hs
    split at hs
    · rename_i p hp
      simp only [Option.some.injEq, Prod.mk.injEq] at hs
      obtain ⟨rfl, rfl⟩ := hs
      have hm : p ∈ h.outstanding := List.mem_of_find?_eq_some hp
      have := List.length_erase_of_mem hm
      have := List.length_pos_of_mem hm
      simp
      omega
    · cases hs

/-- the invariant of a server run. -/
structure SInv (s : SSt) : Prop where
  fly  : s.h.st.sh.flying = (s.h.outstanding.length : Int)
  acct : s.stat.total = s.stat.pass + s.stat.drop + s.failed + s.h.outstanding.length

theorem sstep_inv (s s' : SSt) (op : SOp) (inv : SInv s) (hs : sstep s op = some s') : SInv s' := by
  unfold sstep at hs
  split at hs
  · cases hs
  · rename_i h' v hh
    simp only [Option.some.injEq] at hs
    subst hs
    refine ⟨hstep_conserves s.h op.toH h' v inv.fly hh, ?_⟩
    obtain ⟨hoA, hoB, hoC⟩ := hstep_outstanding s.h op.toH h' v hh
    have ha := inv.acct
    cases op with
    | advance d =>
      have := hoA d rfl
      simp only [SOp.toH, SOp.stat, StatD.add]
      omega
    | arrive o c =>
      rcases hoB o c rfl with ⟨rfl, hl⟩ | ⟨rfl, hl⟩ <;> simp [SOp.toH, SOp.stat, StatD.add] <;> omega
    | finishHttp id o =>
      by_cases hf : httpFails o.lastCode = true
      · have := hoC id (Or.inr (by simp [SOp.toH, hf]))
        simp only [SOp.toH, SOp.stat, hf, if_true, StatD.add]
        omega
      · have := hoC id (Or.inl (by simp [SOp.toH, hf]))
        simp [SOp.toH, SOp.stat, hf, StatD.add]
        omega
    | finishRpc id dl pn =>
      by_cases hf : rpcFails dl pn = true
      · have := hoC id (Or.inr (by simp [SOp.toH, hf]))
        simp only [SOp.toH, SOp.stat, hf, if_true, StatD.add]
        omega
      · have := hoC id (Or.inl (by simp [SOp.toH, hf]))
        simp [SOp.toH, SOp.stat, hf, StatD.add]
        omega

theorem srun_inv (ops : List SOp) (s s' : SSt) (inv : SInv s) (hr : srun s ops = some s') : SInv s' := by
  induction ops generalizing s with
  | nil => simp only [srun, Option.some.injEq] at hr; subst hr; exact inv
  | cons op ops ih =>
    simp only [srun] at hr
    split at hr
    · rename_i s1 hs
      exact ih s1 (sstep_inv s s1 op inv hs) hr
    · cases hr

/-- **Clause 3 through the call sites.**  For every history of a server — requests arriving through
SheddingHandler / UnarySheddingInterceptor at any times and CPU loads, staying in their handlers for as long as they
like and ending with ANY outcome (any status, a deadline error, a panic) — the shedder's `flying` counter equals the
number of requests that are inside their handlers, and the SheddingStat counters account for every request:
total = passed + dropped + failed + still being handled. -/
theorem site_in_flight_is_requests_in_handlers (st : St) (h0 : st.sh.flying = 0) (ops : List SOp) (s : SSt)
    (hr : srun { h := HSt.init st } ops = some s) :
    s.h.st.sh.flying = (s.h.outstanding.length : Int)
    ∧ s.stat.total = s.stat.pass + s.stat.drop + s.failed + s.h.outstanding.length := by
  have := srun_inv ops _ s ⟨by simp [HSt.init, h0], by simp [HSt.init]⟩ hr
  exact ⟨this.fly, this.acct⟩

/-- hence an idle server (every handler has ended, however) admits the next request whatever the CPU does, and a
request is shed only while more than 10 % of the capacity estimate are inside their handlers. -/
theorem site_idle_server_admits (st : St) (h0 : st.sh.flying = 0) (ops : List SOp) (s : SSt)
    (hr : srun { h := HSt.init st } ops = some s) (cpuOver : Bool) (cpu : Int) :
    (s.h.outstanding = [] → (s.h.st.sh.allow s.h.st.now cpuOver cpu).2 = .admitted)
    ∧ ((s.h.st.sh.allow s.h.st.now cpuOver cpu).2 = .overloaded →
        10 * ((s.h.outstanding.length : Int) : Rat) > s.h.st.sh.maxFlight s.h.st.now ∧ 1 ≤ s.h.outstanding.length) := by
  have hc := (site_in_flight_is_requests_in_handlers st h0 ops s hr).1
  constructor
  · intro hn
    apply nothing_in_flight_never_sheds
    rw [hc, hn]; simp
  · intro hv
    have hs := shed_only_if_hot_and_busy s.h.st.sh s.h.st.now cpuOver cpu hv
    rw [hc] at hs
    exact ⟨hs.2.1, by omega⟩

/-! ### every configuration of the public API, end to end -/

/-- **C02 for EVERY configuration of the public API.**  For every value of the package flag (`Disable()` called or not)
and EVERY option list given to `NewAdaptiveShedder` (any options, any order, repeated, none) whose resulting bucket
count and bucket duration are at least 1: a disabled constructor yields a shedder that admits whatever happens; an
enabled one yields a shedder for which, after every history of Allow / Pass / Fail events, a shed is justified
(clause 1) and an overloaded, over-capacity state is shed (clause 2) — the estimate being the one of the configured
window `applyOpts opts`. -/
theorem every_configuration_meets_spec (enabled : Bool) (opts : List Opt) (t0 : Nat)
    (hb : 1 ≤ (applyOpts opts).buckets) (hw : 1 ≤ (applyOpts opts).window / (applyOpts opts).buckets) (ht : 0 < t0)
    (ops : List Op) (cpuOver : Bool) (cpu : Int) :
    match newShedder enabled opts t0 with
    | .nop => enabled = false ∧ ∀ now, (AnyShedder.nop.allow now cpuOver cpu).2 = .admitted
    | .adaptive sh0 =>
      enabled = true ∧
      let o := applyOpts opts
      let wc : Spec.WinCfg := ⟨o.buckets, o.window / o.buckets, t0, sh0.windowScale⟩
      let r := runH ⟨t0, sh0⟩ { now := t0 } ops
      ((r.1.sh.allow r.1.now cpuOver cpu).2 = .overloaded → Spec.ShedJustified wc r.2 cpuOver)
      ∧ (Spec.MustShed wc r.2 cpuOver → (r.1.sh.allow r.1.now cpuOver cpu).2 = .overloaded) := by
  cases enabled with
  | false => exact ⟨rfl, fun _ => rfl⟩
  | true =>
    simp only [newShedder]
    exact ⟨trivial, allow_meets_spec _ _ _ t0 hb hw ht ops cpuOver cpu⟩

/-- the same through a ShedderGroup: the shedder `GetShedder(key)` hands out at the first use of a key, and at every
later use whatever the flag is then, is `NewAdaptiveShedder(group options…)` as of the first use — so
`every_configuration_meets_spec` speaks about every member of every group. -/
theorem group_member_is_configured_shedder (g : Group) (enabled : Bool) (key t0 : Nat) (hnew : g.find key = none) :
    (g.get enabled key t0).2 = newShedder enabled g.opts t0
    ∧ ∀ en' now', ((g.get enabled key t0).1.get en' key now').2 = newShedder enabled g.opts t0 := by
  constructor
  · simp [Group.get, hnew]
  · intro en' now'
    simp [Group.get, hnew, find_set_self]

/-! ### from the service configuration to the clauses (rest/engine.go, zrpc/server.go) -/

/-- which threshold a route's shedder has. -/
def routeThreshold (cpuThreshold : Int) (priority : Bool) : Int :=
  if priority then priorityThreshold cpuThreshold else cpuThreshold

/-- **REST: configuration → shedder.**  For every `CpuThreshold`, every value of `Middlewares.Shedding`, every route
priority and every value of the package flag: a route has NO shedder (its middleware is absent or the identity) exactly
when the middleware is off or `CpuThreshold ≤ 0`; otherwise its shedder is
`NewAdaptiveShedder(WithCpuThreshold(routeThreshold …))` built when the engine was — the nop shedder after `Disable()`. -/
theorem rest_route_shedder (enabled sheddingMiddleware priority : Bool) (cpuThreshold : Int) (t0 : Nat) :
    routeShedder sheddingMiddleware (newEngine enabled cpuThreshold t0) priority =
      if sheddingMiddleware ∧ cpuThreshold > 0 then
        some (newShedder enabled [.threshold (routeThreshold cpuThreshold priority)] t0)
      else none := by
  by_cases hc : cpuThreshold > 0 <;> cases sheddingMiddleware <;> cases priority <;>
    simp [routeShedder, newEngine, Engine.getShedder, routeThreshold, hc]

/-- for a valid configuration (`range=[0:1000)`) the priority shedder's threshold lies between the configured one and
cpuMax: priority routes are shed later, and the NaN corner `threshold = cpuMax` is out of reach. -/
theorem priority_threshold_between (t : Int) (h0 : 0 < t) (h1 : t < 1000) :
    t ≤ priorityThreshold t ∧ priorityThreshold t < 1000 := by
  unfold priorityThreshold topCpuUsage
  constructor <;> omega

theorem step_keeps_threshold (st : St) (op : Op) : (step st op).1.sh.cpuThreshold = st.sh.cpuThreshold := by
  cases op with
  | advance d => rfl
  | allow o c =>
    simp only [step, Shedder.allow, Shedder.allowWith]
    split <;> simp [afterGate_threshold]
  | pass start => simp [step, Shedder.pass, Shedder.release]
  | fail => simp [step, Shedder.fail, Shedder.release]

theorem run_keeps_threshold (ops : List Op) (st : St) (h : Spec.Hist) :
    (runH st h ops).1.sh.cpuThreshold = st.sh.cpuThreshold := by
  induction ops generalizing st h with
  | nil => rfl
  | cons op ops ih => rw [runH, ih, step_keeps_threshold]

/-- **REST / zRPC: from the service configuration to clauses 1 and 2.**  For every configuration that turns shedding on
(`CpuThreshold > 0`; REST: middleware on, any route priority), with load shedding enabled, after EVERY history of
Allow / Pass / Fail events on the route's (or server's) shedder since it was built at `t0`: a shed is justified and an
overloaded over-capacity state is shed, with the capacity estimate of the default window (50 buckets of 100 ms) — and with
the default checker a shed means the CPU reading was at or above the route's threshold, now or within the last second of
an episode. -/
theorem service_configuration_meets_spec (rpc priority : Bool) (cpuThreshold : Int) (hc : cpuThreshold > 0) (t0 : Nat)
    (ht : 0 < t0) (ops : List Op) (cpuOver : Bool) (cpu : Int) :
    let thr := if rpc then cpuThreshold else routeThreshold cpuThreshold priority
    let built := if rpc then rpcServerShedder true cpuThreshold t0
                 else routeShedder true (newEngine true cpuThreshold t0) priority
    let sh0 := Shedder.new 5000000000 50 thr t0
    let wc : Spec.WinCfg := ⟨50, 100000000, t0, sh0.windowScale⟩
    let r := runH ⟨t0, sh0⟩ { now := t0 } ops
    built = some (.adaptive sh0)
    ∧ ((r.1.sh.allow r.1.now cpuOver cpu).2 = .overloaded → Spec.ShedJustified wc r.2 cpuOver)
    ∧ (Spec.MustShed wc r.2 cpuOver → (r.1.sh.allow r.1.now cpuOver cpu).2 = .overloaded)
    ∧ r.1.sh.cpuThreshold = thr := by
  intro thr built sh0 wc r
  have hspec := allow_meets_spec 5000000000 50 thr t0 (by decide) (by decide) ht ops cpuOver cpu
  refine ⟨?_, hspec.1, hspec.2, ?_⟩
  · cases rpc
    · have := rest_route_shedder true true priority cpuThreshold t0
      simp only [built, Bool.false_eq_true, if_false, this, hc, and_self, if_true]
      rfl
    · simp only [built, if_true, rpcServerShedder, hc]
      rfl
  · exact run_keeps_threshold ops _ _

/-! ### non-vacuity -/

-- options: defaults, subsets, repeated options
example : applyOpts [.threshold 700, .window 1000000000, .threshold 800] = ⟨1000000000, 50, 800⟩ := by decide
example : (newShedder true [.buckets 10, .window 1000000000] 1).flying = 0 := by decide +kernel
-- a group: key 1 created while enabled, key 2 after Disable() → nop; key 1 keeps its adaptive shedder
example :
    let g0 : Group := { opts := [.window 1000000000, .buckets 10] }
    let r1 := g0.get true 1 5
    let r2 := r1.1.get false 2 6
    let r3 := r2.1.get false 1 7
    ((match r1.2 with | .adaptive _ => true | .nop => false), (match r2.2 with | .nop => true | _ => false),
     (match r3.2 with | .adaptive _ => true | .nop => false), r3.1.members.length) = (true, true, true, 2) := by
  decide +kernel
-- the default checker at the threshold: 900 ≥ 900 is "over"; 899 is not
example : defaultChecker 900 900 = true ∧ defaultChecker 899 900 = false := by decide
example : ((exShedder 11 (21 / 2) 0 false).allowDefault 5 900 900).2 = .overloaded := by decide +kernel
example : ((exShedder 11 (21 / 2) 0 false).allowDefault 5 899 899).2 = .admitted := by decide +kernel
-- the sampler: 20 ticks at full load from idle stay below 1000 and never leave [0, 1000]
example : cpuEma 0 1000 = 50 ∧ cpuEma 950 1000 = 952 ∧ cpuEma 999 1000 = 999 ∧ cpuEma 1000 0 = 950 := by decide +kernel
-- call sites: a handler that writes 500 and then 503 and panics → one Fail; one that panics after 200 → one Pass
example : (httpServe false true { code := 500, again := 503, panics := true }).res = [.fail] := by decide
example : (httpServe false true { code := 200, panics := true }).res = [.pass] := by decide
example : (httpServe false true { pre := 503 }).res = [.fail] := by decide
example : (rpcServe true true false).res = [.fail] ∧ (rpcServe true true true).res = [.pass] := by decide
-- the sampler over a trace; the monitor window
example : cpuTrace 0 [1000, 1000, 0, 500] = 112 ∧ samplerStepOk 1000 950 = true ∧ samplerStepOk 1000 50 = false
    ∧ samplerStepOk 0 50 = true ∧ samplerStepOk 0 950 = false := by decide +kernel
-- every end: a Goexit after a deadline error is still one Pass; an abort after 503 is one Fail
example : (rpcServe true true End.goexit.abnormal).res = [.pass]
    ∧ (httpServe false true { code := 503, panics := End.panicError.abnormal }).res = [.fail] := by decide
-- every configuration: an option list with a repeated option, disabled and enabled
example : (match newShedder false [.threshold 5, .threshold 7] 1 with | .nop => true | _ => false) = true := by decide
example : (match newShedder true [.threshold 5, .buckets 4, .threshold 7] 1 with
    | .adaptive s => decide (s.cpuThreshold = 7 ∧ s.passCounter.size = 4) | _ => false) = true := by decide +kernel
-- service configuration: CpuThreshold 900 → route shedder 900, priority route 950; 0 → no shedder; middleware off → none
example : routeThreshold 900 true = 950 ∧ routeThreshold 900 false = 900 ∧ priorityThreshold 1 = 500 := by decide
example : ((routeShedder true (newEngine true 0 1) true).isNone && (routeShedder false (newEngine true 900 1) false).isNone
    && (match routeShedder true (newEngine false 900 1) true with | some .nop => true | _ => false)
    && (match routeShedder true (newEngine true 900 1) true with | some (.adaptive s) => decide (s.cpuThreshold = 950) | _ => false))
    = true := by
  decide +kernel
-- the counters the call-site monitor compares
example : (httpServe false true { code := 503 }).stat = ⟨1, 0, 0⟩ ∧ (rpcServe false true false).stat = ⟨1, 0, 1⟩ := by decide
-- a server: three requests arrive, one ends in a panic after 500, one with 503, the third stays in its handler
def exServer : List SOp :=
  [.arrive false 0, .arrive true 950, .arrive false 0, .advance 3000000,
   .finishHttp 0 { code := 500, panics := true }, .finishRpc 1 true false]
example : (srun { h := HSt.init ⟨1, Shedder.new 1000000000 10 900 1⟩ } exServer).map
    (fun s => (s.h.st.sh.flying, s.h.outstanding.length, s.stat, s.failed)) = some (1, 1, ⟨3, 1, 0⟩, 1) := by
  decide +kernel

end GoZero.C02
