/-
C02 — the model's capacity estimate (`Shedder.maxFlight`, computed from the two ring buffers) is the
specification's capacity estimate (computed from the log of Pass events), along every run.
-/
import GoZero.C02.History
import GoZero.C02.RWRefine
namespace GoZero.C02
open Spec

/-- both windows of the shedder are views of the history's Pass log. -/
structure WRef (wc : WinCfg) (st : St) (h : Hist) : Prop where
  hnow  : h.now = st.now
  pw    : ∃ L, RWInv st.sh.passCounter wc (fun _ => 1) h.passes L
  rtw   : ∃ L, RWInv st.sh.rtCounter wc (fun e => e.rt) h.passes L
  plt   : st.sh.passCounter.lastTime ≤ st.now
  rlt   : st.sh.rtCounter.lastTime ≤ st.now
  pig   : st.sh.passCounter.ignoreCurrent = true
  rig   : st.sh.rtCounter.ignoreCurrent = true
  scale : st.sh.windowScale = wc.scale

theorem updateOffset_lastTime_le (rw : RW) (now : Nat) (h : rw.lastTime ≤ now) :
    (rw.updateOffset now).lastTime ≤ now := by
  unfold RW.updateOffset
  simp only []
  split
  · exact h
  · simp only []; omega

theorem add_lastTime_le (rw : RW) (now : Nat) (v : Int) (h : rw.lastTime ≤ now) :
    (rw.add now v).lastTime ≤ now := updateOffset_lastTime_le rw now h

theorem add_ignoreCurrent (rw : RW) (now : Nat) (v : Int) : (rw.add now v).ignoreCurrent = rw.ignoreCurrent := by
  unfold RW.add RW.updateOffset
  simp only []
  split <;> rfl

theorem allow_pass_window (s : Shedder) (now : Nat) (o : Bool) (c : Int) :
    (s.allow now o c).1.passCounter = s.passCounter ∧ (s.allow now o c).1.rtCounter = s.rtCounter
    ∧ (s.allow now o c).1.windowScale = s.windowScale := by
  unfold Shedder.allow Shedder.allowWith Shedder.afterGate Shedder.systemOverloaded Shedder.afterStillHot
  simp only []
  refine ⟨?_, ?_, ?_⟩ <;> (split <;> split <;> (try split) <;> rfl)

theorem wref_init (window buckets : Nat) (threshold : Int) (now : Nat) (hb : 1 ≤ buckets)
    (hw : 1 ≤ window / buckets) :
    WRef ⟨buckets, window / buckets, now, (Shedder.new window buckets threshold now).windowScale⟩
      ⟨now, Shedder.new window buckets threshold now⟩ { now := now } where
  hnow := rfl
  pw := ⟨0, rwinv_new buckets (window / buckets) now _ _ hb hw⟩
  rtw := ⟨0, rwinv_new buckets (window / buckets) now _ _ hb hw⟩
  plt := Nat.le_refl _
  rlt := Nat.le_refl _
  pig := rfl
  rig := rfl
  scale := rfl

theorem ref_init (window buckets : Nat) (threshold : Int) (t0 : Nat) (ht : 0 < t0) :
    Ref ⟨t0, Shedder.new window buckets threshold t0⟩ { now := t0 } where
  now := rfl
  pos := ht
  fly := rfl
  avg := rfl
  ot := rfl
  otp := by intro t h; cases h
  dr := rfl
  prog := by intro h; cases h

theorem wref_step (wc : WinCfg) (st : St) (h : Hist) (w : WRef wc st h) (op : Op) :
    WRef wc (step st op).1 (h.observe (evOf st op)) := by
  cases op with
  | advance d =>
    simp only [step, evOf, Hist.observe]
    exact { hnow := by simp [w.hnow], pw := w.pw, rtw := w.rtw,
            plt := by have := w.plt; simp only []; omega, rlt := by have := w.rlt; simp only []; omega,
            pig := w.pig, rig := w.rig, scale := w.scale }
  | fail =>
    simp only [step, evOf, Hist.observe]
    exact { hnow := w.hnow, pw := w.pw, rtw := w.rtw, plt := w.plt, rlt := w.rlt, pig := w.pig, rig := w.rig,
            scale := w.scale }
  | allow o c =>
    have hp := allow_pass_window st.sh st.now o c
    have hpass : ∀ v, (h.observe (.allow o v)).passes = h.passes ∧ (h.observe (.allow o v)).now = h.now := by
      intro v
      cases v <;> cases o <;> simp [Hist.observe] <;> (try (split <;> simp))
    simp only [step, evOf]
    have hq := hpass (st.sh.allow st.now o c).2
    exact { hnow := by rw [hq.2]; exact w.hnow,
            pw := by rw [hq.1, hp.1]; exact w.pw,
            rtw := by rw [hq.1, hp.2.1]; exact w.rtw,
            plt := by rw [hp.1]; exact w.plt, rlt := by rw [hp.2.1]; exact w.rlt,
            pig := by rw [hp.1]; exact w.pig, rig := by rw [hp.2.1]; exact w.rig,
            scale := by rw [hp.2.2]; exact w.scale }
  | pass start =>
    obtain ⟨Lp, ip⟩ := w.pw
    obtain ⟨Lr, ir⟩ := w.rtw
    simp only [step, evOf, Hist.observe, Shedder.pass]
    have hn := w.hnow
    let e : PassEv := ⟨st.now, rtMs st.now start⟩
    have ap := rwinv_add st.sh.passCounter wc (fun _ => 1) h.passes Lp e ip w.plt
    have ar := rwinv_add st.sh.rtCounter wc (fun e => e.rt) h.passes Lr e ir w.rlt
    exact { hnow := w.hnow,
            pw := ⟨_, by rw [hn]; exact ap⟩,
            rtw := ⟨_, by rw [hn]; exact ar⟩,
            plt := add_lastTime_le _ _ _ w.plt, rlt := add_lastTime_le _ _ _ w.rlt,
            pig := by simp only [Shedder.release, add_ignoreCurrent]; exact w.pig,
            rig := by simp only [Shedder.release, add_ignoreCurrent]; exact w.rig,
            scale := w.scale }

/-- **the capacity estimate of the model is the capacity estimate of the history.** -/
theorem capacity_eq (wc : WinCfg) (st : St) (h : Hist) (w : WRef wc st h) :
    st.sh.maxFlight st.now = capacity wc h.passes h.now := by
  obtain ⟨Lp, ip⟩ := w.pw
  obtain ⟨Lr, ir⟩ := w.rtw
  obtain ⟨n1, h1⟩ := visible_is_log_window _ wc _ h.passes Lp st.now ip w.plt w.pig
  obtain ⟨n2, h2⟩ := visible_is_log_window _ wc _ h.passes Lr st.now ir w.rlt w.rig
  unfold Shedder.maxFlight capacity peakPass minLatency passBuckets rtBuckets Shedder.maxPass Shedder.minRt
  rw [w.hnow, h1, h2, maxPassOf_append_empty, minRtOf_append_empty, w.scale]

end GoZero.C02
