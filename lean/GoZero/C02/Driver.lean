/-
C02 — driver: replays an implementation trace through the model (correspondence) and evaluates the
history-only specification on the implementation's own observations (monitor).

cfg:  window=<ns> buckets=<n> threshold=<n> t0=<ns> disabled=<0/1> group=<0/1> [opts=<letters>]
      opts: the ShedderOptions passed, in order: w = WithWindow(window), b = WithBuckets(buckets), t = WithCpuThreshold(
      threshold); capital letters pass a decoy value (window+1000000007, buckets+3, threshold+7) that a later option must
      override; `-` = no option; absent = wbt.  The shedder is `newShedder enabled (these options) now`.
ops:  t+ <ns>                                   => now=<ns>
      disable                                   => disabled     load.Disable(): shedders created from now on are nop shedders
      allow k=<key> over=<0/1/d> cpu=<n> p=<id> => ok | overloaded ; flying=<n> avg=<n/d> mp=<n> rt=<n/d> mf=<n/d>
                                                   (over=d: the DEFAULT systemOverloadChecker runs, verdict = cpu ≥ threshold)
                                                   ot=<ns> dr=<0/1> cpuok=<0/1> nan=<0/1> (p names the promise if admitted)
      pass <p> | fail <p>                       => flying=<n> avg=<n/d> | nopromise (p was never admitted) | nop (disabled)
      getmany k=<key> n=<goroutines>            => distinct=<d> again=<0/1>   n concurrent ShedderGroup.GetShedder(key): one shedder
      sample prev=<n> n=<k>                     => seq=<v1,…,vj> | seq=-      the REAL sampler goroutine of core/stat/usage.go: the
                                                   reading is set to prev, the next values it stores are recorded (wall-clock
                                                   ticker; fewer than k values when the time is up)
`over` is what the scripted systemOverloadChecker returns, `cpu` what stat.CpuUsage() is set to for
overloadFactor (cpuok=0: the background CPU sampler overwrote it during the call — the factor is then unknown
and the implementation's verdict is followed).  With group=1 the shedder of key k is created by
ShedderGroup.GetShedder at its first use.
nan=1: the implementation's overloadFactor() is NaN for this call (threshold = cpuMax = cpu and the guard of
fixes/C02-threshold-at-cpumax-nan.patch is absent): highThru is false whatever the load, the implementation's
verdict is followed and the call is counted as `factor-nan-unguarded` (finding C02-threshold-at-cpumax-nan; the Tie
accepts both forms of overloadFactor until the patch is applied). nan=1 anywhere else is a mismatch.
-/
import GoZero.Base.Trace
import GoZero.C02.Site
namespace GoZero.C02

open GoZero

def parseRat (s : String) : Option Rat :=
  match s.splitOn "/" with
  | [a] => a.toInt?.map fun n => (n : Rat)
  | [a, b] => do
    let n ← a.toInt?
    let d ← b.toNat?
    if d = 0 then none else some (mkRat n d)
  | _ => none

def showRat (r : Rat) : String := if r.den = 1 then s!"{r.num}" else s!"{r.num}/{r.den}"

structure Inst where
  key : Nat
  nop : Bool := false          -- created while load shedding was disabled: the nop shedder
  sh  : Shedder
  h   : Spec.Hist
  wc  : Spec.WinCfg
  dirty : Bool := false        -- a promise was resolved twice (outside the property's hypothesis)
  sheds : Nat := 0             -- requests shed so far
  lapses : Nat := 0            -- drop episodes whose cool-off a calm Allow has seen expire

structure Prom where
  id : Nat
  key : Nat
  start : Nat
  resolved : Bool := false

structure DSt where
  now : Nat
  enabled : Bool := true       -- the package flag `enabled`
  insts : List Inst := []
  proms : List Prom := []

/-- `NewAdaptiveShedder(opts...)` (directly or through `ShedderGroup.GetShedder`) at `now`. -/
def mkInst (enabled : Bool) (opts : List Opt) (key now : Nat) : Inst :=
  let o := applyOpts opts
  let sh0 := Shedder.new o.window o.buckets o.threshold now
  let wc : Spec.WinCfg := { size := o.buckets, interval := o.window / o.buckets, t0 := now, scale := sh0.windowScale }
  match newShedder enabled opts now with
  | .nop => { key := key, nop := true, sh := sh0, h := { now := now }, wc := wc }
  | .adaptive sh => { key := key, nop := false, sh := sh, h := { now := now }, wc := wc }

/-- the option list of a section (see the header). -/
def parseOpts (letters : String) (window buckets : Nat) (threshold : Int) : Option (List Opt) :=
  letters.toList.foldl (fun acc c => acc.bind fun l =>
    match c with
    | 'w' => some (l ++ [.window window])
    | 'b' => some (l ++ [.buckets buckets])
    | 't' => some (l ++ [.threshold threshold])
    | 'W' => some (l ++ [.window (window + 1000000007)])
    | 'B' => some (l ++ [.buckets (buckets + 3)])
    | 'T' => some (l ++ [.threshold (threshold + 7)])
    | '-' => some l
    | _ => none) (some [])

def setInst (l : List Inst) (i : Inst) : List Inst :=
  if l.any (·.key = i.key) then l.map fun j => if j.key = i.key then i else j else l ++ [i]

def bstr (b : Bool) : String := if b then "1" else "0"

/-- model line for an allow. -/
def allowLine (v : Verdict) : String :=
  match v with
  | .admitted => "ok"
  | .overloaded => "overloaded"

def Shedder.visibleNonEmpty (s : Shedder) (now : Nat) : Bool :=
  (s.passCounter.visible now).any (fun b => decide (b.count > 0))

def runSection (r : Report) (s : Section) : Report := Id.run do
  let window := kvNat s.cfg "window" 0
  let buckets := kvNat s.cfg "buckets" 0
  let threshold := kvInt s.cfg "threshold" 900
  let t0 := kvNat s.cfg "t0" 1
  let disabled := kvNat s.cfg "disabled" 0 = 1
  let group := kvNat s.cfg "group" 0 = 1
  let mut r := r
  let letters := kvStr s.cfg "opts" "wbt"
  let some opts := parseOpts letters window buckets threshold | return r.mismatch s.idx 0 "bad-cfg" (joinSp s.cfg)
  let eo := applyOpts opts
  if eo.buckets = 0 ∨ eo.window / eo.buckets = 0 ∨ kv? s.cfg "window" = none ∨ kv? s.cfg "buckets" = none then
    return r.mismatch s.idx 0 "bad-cfg" (joinSp s.cfg)
  let mut st : DSt := { now := t0, enabled := !disabled }
  if !group then
    st := { st with insts := [mkInst st.enabled opts 0 t0] }
  r := r.addCover (if disabled then "section-disabled" else if group then "section-group" else "section-plain")
  if letters ≠ "wbt" then
    r := r.addCover (if letters = "-" then "options-none-all-defaults"
                     else if letters.toList.any Char.isUpper then "options-repeated-last-wins"
                     else if letters.length < 3 then "options-subset-some-defaults" else "options-reordered")
  for l in s.lines do
    r := { r with ops := r.ops + 1 }
    match l.op with
    | ["t+", d] =>
      match d.toNat? with
      | none => r := r.mismatch s.idx l.idx "bad-op" (joinSp l.op)
      | some d =>
        st := { st with now := st.now + d,
                        insts := st.insts.map fun i => { i with h := i.h.observe (.advance d) } }
        r := r.addCover "advance"
        if kvNat l.obs "now" 0 ≠ st.now then r := r.mismatch s.idx l.idx s!"now={st.now}" (joinSp l.obs)
    | ["sample", pv, nv] =>
      match (kv? [pv] "prev").bind String.toInt?, (kv? [nv] "n").bind String.toNat? with
      | some prev, some _ =>
        let seqTok := kvStr l.obs "seq"
        if seqTok = "-" then r := r.addCover "sampler-no-tick-observed"
        else if seqTok = "" then r := r.mismatch s.idx l.idx "seq=…" (joinSp l.obs)
        else
          let mut p := prev
          for tok in seqTok.splitOn "," do
            match tok.toInt? with
            | none => r := r.mismatch s.idx l.idx "seq=<integers>" (joinSp l.obs)
            | some v =>
              r := r.addCover (if p ≥ 900 then "sampler-tick-from-hot" else if p ≤ 50 then "sampler-tick-from-idle" else "sampler-tick")
              -- monitor (CPU reading path of clauses 1 and 2): reading' = int64(0.95·reading + 0.05·sample), sample in 0…1000
              if !samplerStepOk p v then
                r := r.violation s.idx l.idx s!"the CPU sampler moved the reading from {p} to {v}, outside [{cpuEma p 0}, {cpuEma p 1000}]: not 0.95 x previous + 0.05 x sample for any sample in 0..1000 (the reading Allow compares with the threshold is no longer the smoothed CPU load)"
              p := v
      | _, _ => r := r.mismatch s.idx l.idx "bad-op" (joinSp l.op)
    | ["getmany", kt, nt] =>
      match (kv? [kt] "k").bind String.toNat?, (kv? [nt] "n").bind String.toNat? with
      | some key, some n =>
        if !group then r := r.mismatch s.idx l.idx "bad-op (no group)" (joinSp l.op) else
        let created := (st.insts.find? (·.key = key)).isNone
        if created then st := { st with insts := setInst st.insts (mkInst st.enabled opts key st.now) }
        r := r.addCover (if created then (if st.enabled then "group-concurrent-first-use" else "group-concurrent-first-use-disabled") else "group-concurrent-existing-key")
        let d := kvNat l.obs "distinct" 0
        if d ≠ 1 ∨ kvNat l.obs "again" 0 ≠ 1 then
          r := r.mismatch s.idx l.idx "distinct=1 again=1" (joinSp l.obs)
          -- monitor (clause 3 through the group): one shedder per key, or in-flight requests are split over several counters
          r := r.violation s.idx l.idx s!"{n} concurrent GetShedder calls for one key returned {d} different shedders (again={kvNat l.obs "again" 0}): requests admitted through one are not in flight for the others"
      | _, _ => r := r.mismatch s.idx l.idx "bad-op" (joinSp l.op)
    | ["disable"] =>
      st := { st with enabled := false }
      r := r.addCover "disable-mid-section"
      if joinSp l.obs ≠ "disabled" then r := r.mismatch s.idx l.idx "disabled" (joinSp l.obs)
    | "allow" :: args =>
      let ovTok := kvStr args "over"
      let dflt := ovTok = "d"
      match (kv? args "k").bind String.toNat?, (if dflt then some 0 else ovTok.toNat?), (kv? args "cpu").bind String.toInt?,
            (kv? args "p").bind String.toNat? with
      | some key, some ov, some cpu, some pid =>
        let implShed := l.obs.head? = some "overloaded"
        let implOk := l.obs.head? = some "ok"
        let inst := match st.insts.find? (·.key = key) with
          | some i => i
          | none => mkInst st.enabled opts key st.now
        let created := (st.insts.find? (·.key = key)).isNone
        -- the default checker: `stat.CpuUsage() >= cpuThreshold` on the injected reading
        let over := if dflt then defaultChecker cpu inst.sh.cpuThreshold else ov = 1
        if dflt then r := r.addCover (if over then (if cpu = inst.sh.cpuThreshold then "default-checker-at-threshold" else "default-checker-over") else
                                      (if cpu + 1 = inst.sh.cpuThreshold then "default-checker-just-below" else "default-checker-calm"))
        if l.obs.head? = some "nilpromise" then
          -- monitor (clause 3): an admitted request is in flight until its promise is resolved — there must be a promise
          r := r.mismatch s.idx l.idx "ok|overloaded" (joinSp l.obs)
          r := r.violation s.idx l.idx "Allow admitted the request (no error) but returned no promise: the request can never be resolved (the call sites call Pass / Fail on it unconditionally)"
        else if !implShed && !implOk then
          r := r.mismatch s.idx l.idx "ok|overloaded" (joinSp l.obs)
        else if inst.nop then
          -- nopShedder: always admits, its promise does nothing
          r := r.addCover (if disabled then "allow-disabled" else if created then "group-create-after-disable" else "allow-nop-after-disable")
          if created then st := { st with insts := setInst st.insts inst }
          if implOk then st := { st with proms := st.proms ++ [{ id := pid, key := key, start := st.now }] }
          if implShed then r := r.violation s.idx l.idx "a disabled shedder shed a request"
          if joinSp l.obs ≠ allowLine nopAllow then
            r := r.mismatch s.idx l.idx (allowLine nopAllow) (joinSp l.obs)
        else
          if created then r := r.addCover "group-create"
          if !st.enabled then r := r.addCover "adaptive-shedder-outlives-disable"
          let sh := inst.sh
          -- monitor: the property on the implementation's verdict, from the history alone
          let v : Verdict := if implShed then .overloaded else .admitted
          let nan := kvNat l.obs "nan" 0 = 1
          if nan then
            r := r.addCover "factor-nan-unguarded"
            if !(sh.cpuThreshold = cpuMax ∧ cpu = cpuMax) then
              r := r.mismatch s.idx l.idx "nan=0 (the factor is a number for this threshold and cpu)" (joinSp l.obs)
            if implShed then
              r := r.mismatch s.idx l.idx "ok (nothing exceeds a NaN limit)" (joinSp l.obs)
            if !inst.dirty && (Spec.checkAllow inst.wc inst.h over v).isSome then
              r := r.addCover "finding-threshold-at-cpumax-nan:admitted-although-over-capacity"
          if sh.cpuThreshold = cpuMax then r := r.addCover "threshold-at-cpumax"
          if sh.cpuThreshold > cpuMax then r := r.addCover "threshold-above-cpumax"
          if cpu > cpuMax then r := r.addCover "cpu-above-cpumax"
          if !inst.dirty && !nan then
            match Spec.checkAllow inst.wc inst.h over v with
            | some msg => r := r.violation s.idx l.idx msg
            | none => pure ()
          -- correspondence
          let sg := sh.afterGate st.now over
          let lim := sg.limit st.now cpu
          let cpuok := kvNat l.obs "cpuok" 1 = 1
          let gate := sh.gate st.now over
          -- default checker: a sampler store between the harness' injection and the checker's read makes the verdict unknown
          if dflt && !cpuok then r := r.addCover "cpu-sampler-race-default-checker"
          let boundary := (gate || (dflt && !cpuok)) && (!cpuok || Spec.near sg.avgFlying lim || Spec.near (sg.flying : Rat) lim)
          let mdrop := sh.shouldDrop st.now over cpu
          let drop := if nan then false else if boundary then implShed else mdrop
          if boundary then r := r.addCover (if cpuok then "boundary-decision" else "cpu-sampler-race")
          let sh' := sh.allowWith st.now over drop
          let mline := allowLine (if drop then .overloaded else .admitted)
          r := r.addCover (if drop then (if over then "shed-cpu-over" else "shed-still-hot")
                           else if gate then "allowed-gate-open-low-thru" else
                             (if sh.droppedRecently && !sg.droppedRecently then "allowed-cooloff-lapsed" else "allowed-gate-closed"))
          -- the life of droppedRecently: episodes, their end, and the Allows after an ended episode for which a stale flag would matter
          let lapsedNow := sh.droppedRecently && !sg.droppedRecently
          if !over && inst.lapses > 0 && !inst.h.inProgress && (match inst.h.lastOver with | some t => decide (st.now - t < coolOffNs) | none => false)
              && sg.highThru st.now cpu then
            r := r.addCover "lifecycle-calm-allow-high-thru-within-1s-of-hot-admission-after-ended-episode"
          if !over && sh.droppedRecently && !lapsedNow then r := r.addCover "lifecycle-calm-allow-during-episode"
          if over && !drop && inst.lapses > 0 then r := r.addCover "lifecycle-hot-admission-after-ended-episode"
          if drop && overloadFactor sh.cpuThreshold cpu = factorLowerBound then r := r.addCover "shed-factor-floor"
          if drop && overloadFactor sh.cpuThreshold cpu = 1 then r := r.addCover "shed-factor-one"
          if !drop && over && decide ((sg.flying : Rat) > lim) then r := r.addCover "allowed-avg-lagging"
          let implHead := joinSp (l.obs.take 1)
          if implHead ≠ mline then
            r := r.mismatch s.idx l.idx mline (joinSp l.obs)
          else
            -- white-box fields
            let mp := sh'.maxPass st.now
            let rt := sh'.minRt st.now
            let mf := sh'.maxFlight st.now
            if (sh'.visibleNonEmpty st.now) then r := r.addCover "window-nonempty"
            if mf = 1 then r := r.addCover "maxflight-floor"
            let okFly := kvInt l.obs "flying" (-999) = sh'.flying
            let okAvg := ((kv? l.obs "avg").bind parseRat).map (Spec.near sh'.avgFlying) = some true
            let okMp := kvInt l.obs "mp" (-999) = mp
            let okRt := ((kv? l.obs "rt").bind parseRat) = some rt
            let okMf := ((kv? l.obs "mf").bind parseRat).map (Spec.near mf) = some true
            let okOt := kvNat l.obs "ot" 999 = sh'.overloadTime
            let okDr := kvStr l.obs "dr" = bstr sh'.droppedRecently
            if !(okFly && okAvg && okMp && okRt && okMf && okOt && okDr) then
              r := r.mismatch s.idx l.idx
                s!"{mline} flying={sh'.flying} avg={showRat sh'.avgFlying} mp={mp} rt={showRat rt} mf={showRat mf} ot={sh'.overloadTime} dr={bstr sh'.droppedRecently}"
                (joinSp l.obs)
            -- conservation (monitor): the implementation's flying counter is admitted − resolved
            let h' := inst.h.observe (.allow over v)
            if (kv? l.obs "flying").isNone then
              r := r.mismatch s.idx l.idx "the white-box fields of an adaptive shedder" (joinSp l.obs ++ " (NewAdaptiveShedder returned something else although load shedding is enabled)")
            else if !inst.dirty && kvInt l.obs "flying" (-999) ≠ h'.inFlight then
              r := r.violation s.idx l.idx s!"in-flight counter {kvInt l.obs "flying" (-999)} but admitted-resolved = {h'.inFlight}"
          let h' := inst.h.observe (.allow over v)
          let lapsedNow' := inst.sh.droppedRecently && !(inst.sh.afterGate st.now over).droppedRecently
          let nSheds := inst.sheds + (if implShed then 1 else 0)
          let nLapses := inst.lapses + (if lapsedNow' then 1 else 0)
          let inst' : Inst := { inst with sh := sh', h := h', sheds := nSheds, lapses := nLapses }
          st := { st with insts := setInst st.insts inst' }
          if !implShed then
            st := { st with proms := st.proms ++ [{ id := pid, key := key, start := st.now }] }
      | _, _, _, _ => r := r.mismatch s.idx l.idx "bad-op" (joinSp l.op)
    | [kind, p] =>
      if kind ≠ "pass" ∧ kind ≠ "fail" then r := r.mismatch s.idx l.idx "bad-op" (joinSp l.op) else
      match p.toNat?.bind fun p => st.proms.find? (·.id = p) with
      | none =>
        r := r.addCover "resolve-not-admitted"
        if joinSp l.obs ≠ "nopromise" then r := r.mismatch s.idx l.idx "nopromise" (joinSp l.obs)
      | some pr =>
        match st.insts.find? (·.key = pr.key) with
        | none => r := r.mismatch s.idx l.idx "unknown-shedder" (joinSp l.op)
        | some inst =>
          if inst.nop then
            r := r.addCover "resolve-disabled"
            if joinSp l.obs ≠ "nop" then r := r.mismatch s.idx l.idx "nop" (joinSp l.obs)
          else
          let isPass := kind = "pass"
          let sh' := if isPass then inst.sh.pass st.now pr.start else inst.sh.fail
          let h' := inst.h.observe (if isPass then .pass pr.start else .fail)
          let dirty := inst.dirty || pr.resolved
          r := r.addCover (if pr.resolved then "double-resolve" else kind)
          if isPass then
            if inst.sh.passCounter.span st.now = 0 then r := r.addCover "pass-same-bucket"
            else if inst.sh.passCounter.span st.now = inst.sh.passCounter.size then r := r.addCover "pass-window-expired"
            else r := r.addCover "pass-bucket-advance"
          let okFly := kvInt l.obs "flying" (-999) = sh'.flying
          let okAvg := ((kv? l.obs "avg").bind parseRat).map (Spec.near sh'.avgFlying) = some true
          if !(okFly && okAvg) then
            r := r.mismatch s.idx l.idx s!"flying={sh'.flying} avg={showRat sh'.avgFlying}" (joinSp l.obs)
          if !dirty && (kv? l.obs "flying").isSome then
            if kvInt l.obs "flying" (-999) ≠ h'.inFlight then
              r := r.violation s.idx l.idx s!"in-flight counter {kvInt l.obs "flying" (-999)} but admitted-resolved = {h'.inFlight}"
            if ((kv? l.obs "avg").bind parseRat).map (Spec.near h'.avg) ≠ some true then
              r := r.violation s.idx l.idx s!"moving average {kvStr l.obs "avg"} but the history gives {showRat h'.avg} (clause 2: the average of the in-flight count, 0.9 x average + 0.1 x in-flight at every Pass and Fail, is what Allow compares with the capacity estimate)"
          st := { st with insts := setInst st.insts { inst with sh := sh', h := h', dirty := dirty },
                          proms := st.proms.map fun q => if q.id = pr.id then { q with resolved := true } else q }
    | _ => r := r.mismatch s.idx l.idx "bad-op" (joinSp l.op)
  return r

def driver (secs : List Section) : Report := secs.foldl runSection {}

end GoZero.C02
