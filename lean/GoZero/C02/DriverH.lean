/-
C02 (call sites) — driver for the SheddingHandler harness.
  op:  req allow=<0/1> code=<n> panic=<0/1>     obs: status=<n> ran=<0/1> early=<n> pass=<n> fail=<n>
Model of rest/handler/sheddinghandler.go: refused → 503, next handler not run, promise never touched;
admitted → next handler runs with the promise unresolved, then exactly one resolution: Fail if the response
code is 503, Pass otherwise (also when the handler panics: the resolution sits in a defer).
-/
import GoZero.Base.Trace
namespace GoZero.C02H
open GoZero

def runSection (r : Report) (s : Section) : Report := Id.run do
  let mut r := r
  for l in s.lines do
    r := { r with ops := r.ops + 1 }
    match l.op with
    | "req" :: args =>
      match (kv? args "allow").bind String.toNat?, (kv? args "code").bind String.toNat?, (kv? args "panic").bind String.toNat? with
      | some allow, some code, some pn =>
        let status := if allow = 0 then 503 else if code = 0 then 200 else code
        let ran := if allow = 0 then 0 else 1
        let fail := if allow = 1 ∧ code = 503 then 1 else 0
        let pass := if allow = 1 ∧ code ≠ 503 then 1 else 0
        let model := s!"status={status} ran={ran} early=0 pass={pass} fail={fail}"
        r := r.addCover (if allow = 0 then "refused" else if pn = 1 then (if code = 503 then "panic-after-503" else "panic")
                         else if code = 503 then "handler-503" else "handler-ok")
        if joinSp l.obs ≠ model then r := r.mismatch s.idx l.idx model (joinSp l.obs)
        -- monitor: an admitted request is in flight while handled and resolved exactly once; a refused one never
        let ip := kvNat l.obs "pass" 99
        let ifl := kvNat l.obs "fail" 99
        if allow = 1 ∧ ip + ifl ≠ 1 then
          r := r.violation s.idx l.idx s!"admitted request resolved {ip + ifl} times (pass={ip} fail={ifl})"
        if allow = 1 ∧ kvNat l.obs "early" 99 ≠ 0 then
          r := r.violation s.idx l.idx "promise resolved while the request was still being handled"
        if allow = 0 ∧ (ip + ifl ≠ 0 ∨ kvNat l.obs "ran" 99 ≠ 0) then
          r := r.violation s.idx l.idx "refused request was handled or resolved"
      | _, _, _ => r := r.mismatch s.idx l.idx "bad-op" (joinSp l.op)
    | _ => r := r.mismatch s.idx l.idx "bad-op" (joinSp l.op)
  return r

def driver (secs : List Section) : Report := secs.foldl runSection {}

end GoZero.C02H
