/-
C02 (call sites) — driver for the SheddingHandler (HTTP) and UnarySheddingInterceptor (zRPC) harnesses.

  op:  req allow=<0/1> code=<n> panic=<end> [body=<0/1>] [again=<n>] [nilshed=<0/1>]
       end: 0 returns | 1 panic(non-error value) | err / abort / dlerr / nilpanic panic(error value) | goexit runtime.Goexit()
  obs: status=<n> ran=<0/1> fwd=<0/1> early=<n> pass=<n> fail=<n> allows=<n> st=<total>/<pass>/<drop> | st=reset
       fwd=1: the wrapped handler received the very request (HTTP) / context and request (gRPC) the wrapper was given
Model of rest/handler/sheddinghandler.go: nil shedder → the next handler is used as is (no Allow, no stat);
refused → 503, next handler not run, promise never touched; admitted → next handler runs with the promise
unresolved, then exactly one resolution: Fail if the last status code the handler set is 503, Pass otherwise
(also when the handler panics: the resolution sits in a defer).

  op:  rpc allow=<0/1> err=<kind> panic=<end> [ctx=<bg|canceled|expired|future>]
  obs: ret=<nil|same|ResourceExhausted:service-overloaded|panic|goexit|…> ran= fwd= early= pass= fail= allows= st=
       err=ctxerr: the handler returns the Err() of the context it received (expired → DeadlineExceeded, canceled → Canceled,
       bg / future → nil)
Model of zrpc/internal/serverinterceptors/sheddinginterceptor.go: refused → status ResourceExhausted carrying
ErrServiceOverloaded's text, handler not run; admitted → handler runs with the promise unresolved, its value and
error are returned unchanged, then exactly one resolution in a defer: Fail iff the handler's error
`errors.Is` context.DeadlineExceeded (bare, wrapped or joined), Pass otherwise (also on nil, on gRPC status
errors including codes.DeadlineExceeded, and when the handler panics: the named result is still nil then).

The package-level SheddingStat counters are observed as deltas (total +1 per call, pass +1 with Pass,
drop +1 with a refusal); they are not part of the shedder model (`st=reset`: the reporter goroutine zeroed
them during the call — accepted).
-/
import GoZero.Base.Trace
import GoZero.C02.Site
namespace GoZero.C02H
open GoZero
open GoZero.C02 (Shedder)
open GoZero.C02.Site

def parseRat (s : String) : Option Rat :=
  match s.splitOn "/" with
  | [a] => a.toInt?.map fun n => (n : Rat)
  | [a, b] => do
    let n ← a.toInt?
    let d ← b.toNat?
    if d = 0 then none else some (mkRat n d)
  | _ => none

def showRat (r : Rat) : String := if r.den = 1 then s!"{r.num}" else s!"{r.num}/{r.den}"

/-- float64 tolerance (relative 1e-9), as in the sequential driver. -/
def nearR (a b : Rat) : Bool :=
  let ab (x : Rat) : Rat := if x < 0 then -x else x
  let m := if ab a < ab b then ab b else ab a
  decide (ab (a - b) ≤ (1 / 1000000000) * (if m < 1 then 1 else m))

def showRes (l : List Res) : String :=
  s!"pass={(l.filter (· = Res.pass)).length} fail={(l.filter (· = Res.fail)).length}"

def showStat (s : StatD) : String := s!"st={s.total}/{s.pass}/{s.drop}"

/-- `depth` nested admitted requests, then their resolutions innermost first: flying and its average
(`Shedder.release` is what both Pass and Fail do to them). -/
def nestRelease (sh : Shedder) : Nat → Shedder
  | 0 => sh
  | n + 1 => nestRelease sh.release n

/-- the `real` op shared by both call sites: the section's real shedder admits `depth` nested requests (its threshold
is out of reach), every one of them is resolved exactly once whatever the innermost handler does. -/
def realOp (r : Report) (sec line : Nat) (sh : Shedder) (depth : Nat) (fails : Bool) (obs : List String) : Report × Shedder := Id.run do
  let mut r := r
  let up : Shedder := { sh with flying := sh.flying + depth }
  let sh' := nestRelease up depth
  let st : StatD := ⟨depth, if fails then 0 else depth, 0⟩
  let gotSt := kvStr obs "st"
  if gotSt = "reset" then r := r.addCover "stat-reset"
  let okAvg := ((kv? obs "avg").bind parseRat).map (nearR sh'.avgFlying) = some true
  if kvNat obs "ran" 99 ≠ depth ∨ kvInt obs "peak" (-99) ≠ up.flying ∨ kvInt obs "flying" (-99) ≠ sh'.flying ∨ !okAvg
      ∨ (gotSt ≠ "reset" ∧ s!"st={gotSt}" ≠ showStat st) then
    r := r.mismatch sec line s!"ran={depth} peak={up.flying} flying={sh'.flying} avg={showRat sh'.avgFlying} {showStat st}" (joinSp obs)
  -- monitor (clause 3 at the call site): in flight = requests inside their handlers
  if kvInt obs "peak" (-99) ≠ (depth : Int) then
    r := r.violation sec line s!"in-flight counter {kvInt obs "peak" (-99)} while {depth} requests are inside their handlers"
  if kvInt obs "flying" (-99) ≠ 0 then
    r := r.violation sec line s!"in-flight counter {kvInt obs "flying" (-99)} after every request has left its handler (promise not resolved exactly once)"
  if gotSt ≠ "reset" ∧ s!"st={gotSt}" ≠ showStat st then
    r := r.violation sec line s!"SheddingStat counted st={gotSt} for {depth} admitted requests ({if fails then "failed" else "passed"}), expected {showStat st}"
  return (r, sh')

/-- error kinds of the rpc harness for which `errors.Is(err, context.DeadlineExceeded)` holds: the value itself, wrapped
with %w, inside errors.Join, behind a custom `Is` method, inside a custom `Unwrap() []error`.  NOT: gRPC status errors
(codes.DeadlineExceeded, status.FromContextError), os.ErrDeadlineExceeded, context.Canceled (bare or wrapped), a typed nil
pointer, a zero-valued struct error. -/
def isDeadline (kind : String) : Bool :=
  kind = "deadline" || kind = "wrapped" || kind = "joined" || kind = "customis" || kind = "multiunwrap"

def knownErrKinds : List String :=
  ["nil", "deadline", "wrapped", "joined", "canceled", "stdeadline", "internal", "unavailable", "exhausted", "plain",
   "typednil", "zero", "customis", "multiunwrap", "stctx", "wrapcanceled", "osdeadline"]

/-- `err=ctxerr`: what the Err() of the call's context is. -/
def ctxErrKind (ctx : String) : Option String :=
  if ctx = "expired" then some "deadline" else if ctx = "canceled" then some "canceled"
  else if ctx = "bg" ∨ ctx = "future" ∨ ctx = "" then some "nil" else none

def effErrKind (args : List String) : Option String :=
  match kv? args "err" with
  | some "ctxerr" => ctxErrKind (kvStr args "ctx")
  | k => k

/-- the `panic=` token: how the wrapped handler ends. -/
def parseEnd (tok : String) : Option End :=
  if tok = "0" ∨ tok = "" then some .returns
  else if tok = "1" then some .panicValue
  else if tok = "err" ∨ tok = "abort" ∨ tok = "dlerr" ∨ tok = "nilpanic" then some .panicError
  else if tok = "goexit" then some .goexit
  else none

def endName : End → String
  | .returns => "returns" | .panicValue => "panic-value" | .panicError => "panic-error" | .goexit => "goexit"

/-- the call-site monitor shared by both harnesses: an admitted request is resolved exactly once and only
after its handler; a refused one is neither handled nor resolved; Allow is asked exactly once. -/
def callSiteMonitor (r : Report) (sec line : Nat) (allow : Bool) (obs : List String) : Report := Id.run do
  let mut r := r
  let ip := kvNat obs "pass" 99
  let ifl := kvNat obs "fail" 99
  if allow ∧ ip + ifl ≠ 1 then
    r := r.violation sec line s!"admitted request resolved {ip + ifl} times (pass={ip} fail={ifl})"
  if allow ∧ kvNat obs "early" 99 ≠ 0 then
    r := r.violation sec line "promise resolved while the request was still being handled"
  if !allow ∧ (ip + ifl ≠ 0 ∨ kvNat obs "ran" 99 ≠ 0) then
    r := r.violation sec line "refused request was handled or resolved"
  if kvNat obs "allows" 99 ≠ 1 then
    r := r.violation sec line s!"Allow was called {kvNat obs "allows" 99} times for one request"
  return r

/-- `nil` / `nop` / the threshold of an adaptive shedder: how the engine harness describes a shedder. -/
def describeShedder : Option GoZero.C02.AnyShedder → String
  | none => "nil"
  | some .nop => "nop"
  | some (.adaptive s) => s!"{s.cpuThreshold}"

def stripSt (obs : List String) : List String := obs.filter fun t => !t.startsWith "st="

def runSection (r : Report) (s : Section) : Report := Id.run do
  let mut r := r
  -- `real=1`: the section's real shedder (NewAdaptiveShedder with the default window and buckets)
  let o := GoZero.C02.applyOpts []
  let mut sh : Shedder := Shedder.new o.window o.buckets o.threshold 1
  if kvNat s.cfg "real" 0 = 1 then r := r.addCover "section-real-shedder"
  for l in s.lines do
    r := { r with ops := r.ops + 1 }
    if l.obs.head? = some "PANIC" then
      -- the harness itself failed on this line (the handlers' own panics are recovered and reported as data)
      r := r.mismatch s.idx l.idx "an observation" (joinSp l.obs)
      continue
    match l.op with
    | "real" :: args =>
      let depth := kvNat args "depth" 0
      if depth = 0 ∨ kvNat s.cfg "real" 0 ≠ 1 then r := r.mismatch s.idx l.idx "bad-op" (joinSp l.op) else
      let some en := parseEnd (kvStr args "panic") | r := r.mismatch s.idx l.idx "bad-op" (joinSp l.op)
      let pn := en.abnormal
      if pn then r := r.addCover s!"real-end-{endName en}"
      if (kv? args "err").isSome ∧ (effErrKind args).isNone then r := r.mismatch s.idx l.idx "bad-op" (joinSp l.op) else
      match effErrKind args with
      | some kind =>
        if !knownErrKinds.contains kind then r := r.mismatch s.idx l.idx "bad-op" (joinSp l.op) else
        let fails := rpcFails (isDeadline kind) pn
        r := r.addCover (if depth > 1 then (if pn then "real-rpc-nested-panic" else "real-rpc-nested") else if pn then "real-rpc-panic" else "real-rpc")
        let (r', sh') := realOp r s.idx l.idx sh depth fails l.obs
        r := r'; sh := sh'
      | none =>
        let pre := kvNat args "pre" 0
        let o : HttpOutcome := { code := kvNat args "code" 0, again := kvNat args "again" 0, panics := pn, pre := if pre = 0 then 200 else pre }
        let fails := httpFails o.lastCode
        r := r.addCover (if depth > 1 then (if pn then "real-http-nested-panic" else "real-http-nested") else if pn then "real-http-panic" else "real-http")
        if fails then r := r.addCover "real-http-fail"
        let (r', sh') := realOp r s.idx l.idx sh depth fails l.obs
        r := r'; sh := sh'
    | "engine" :: args =>
      match (kv? args "thr").bind String.toInt?, (kv? args "dis").bind String.toNat? with
      | some thr, some dis =>
        let e := GoZero.C02.newEngine (dis = 0) thr 1
        let model := s!"main={describeShedder e.shedder} pri={describeShedder e.priority} get0={describeShedder (e.getShedder false)} get1={describeShedder (e.getShedder true)}"
        r := r.addCover (if thr ≤ 0 then "engine-shedding-off" else if dis = 1 then "engine-disabled-nop" else
                          if thr ≥ 999 then "engine-threshold-at-or-above-999" else "engine-two-shedders")
        if joinSp l.obs ≠ model then
          r := r.mismatch s.idx l.idx model (joinSp l.obs)
          -- monitor (clauses 1, 2 and 4 at the configuration): the route's shedder has the configured threshold
          for p in [false, true] do
            let key := if p then "get1" else "get0"
            if kvStr l.obs key ≠ describeShedder (e.getShedder p) then
              r := r.violation s.idx l.idx s!"engine built with CpuThreshold={thr} (load shedding {if dis = 1 then "disabled" else "enabled"}) hands a {if p then "priority" else "normal"} route the shedder {kvStr l.obs key}, the configuration demands {describeShedder (e.getShedder p)} (nil: none, nop: never sheds, n: sheds at a CPU reading of n or more)"
      | _, _ => r := r.mismatch s.idx l.idx "bad-op" (joinSp l.op)
    | "req" :: args =>
      match (kv? args "allow").bind String.toNat?, (kv? args "code").bind String.toNat?, (kv? args "panic").bind parseEnd with
      | some allow, some code, some en =>
        let pn : Nat := if en.abnormal then 1 else 0
        let body := kvNat args "body" 0 = 1
        let again := kvNat args "again" 0
        let nilshed := kvNat args "nilshed" 0 = 1
        let pre := kvNat args "pre" 0
        let o : HttpOutcome := { code := code, body := body, again := again, panics := pn = 1, pre := if pre = 0 then 200 else pre }
        let m := httpServe nilshed (allow = 1) o
        let wire := m.status
        let cw := o.lastCode
        let model := s!"status={m.status} ran={if m.ran then 1 else 0} fwd={if m.ran then 1 else 0} early={m.early} {showRes m.res} allows={m.asked}"
        let st := showStat m.stat
        if m.ran ∧ !nilshed then r := r.addCover s!"http-end-{endName en}"
        if m.ran ∧ kvNat l.obs "fwd" 9 ≠ 1 then
          r := r.violation s.idx l.idx "the wrapped handler ran on a different request than the one the wrapper was given"
        if pre ≠ 0 ∧ !nilshed ∧ allow = 1 then r := r.addCover (if pre = 503 then "http-inherited-writer-503" else "http-inherited-writer")
        r := r.addCover (if nilshed then "http-nil-shedder" else if allow = 0 then "refused"
                         else if pn = 1 then (if cw = 503 then "panic-after-503" else "panic")
                         else if cw = 503 then "handler-503" else "handler-ok")
        if again ≠ 0 ∧ !nilshed ∧ allow = 1 then r := r.addCover (if wire = cw then "http-second-header-same" else "http-second-header-differs")
        if body then r := r.addCover "http-body"
        let gotSt := kvStr l.obs "st"
        if gotSt = "reset" then r := r.addCover "stat-reset"
        if joinSp (stripSt l.obs) ≠ model ∨ (gotSt ≠ "reset" ∧ s!"st={gotSt}" ≠ st) then
          r := r.mismatch s.idx l.idx s!"{model} {st}" (joinSp l.obs)
        if !nilshed then r := callSiteMonitor r s.idx l.idx (allow = 1) l.obs
        if !nilshed ∧ gotSt ≠ "reset" ∧ s!"st={gotSt}" ≠ st then
          r := r.violation s.idx l.idx s!"SheddingStat counted st={gotSt}, expected {st} (total +1 per request, pass +1 with Pass, drop +1 with a refusal)"
        if !nilshed ∧ allow = 1 ∧ kvNat l.obs "pass" 99 + kvNat l.obs "fail" 99 = 1 ∧ (kvNat l.obs "fail" 99 = 1) ≠ httpFails cw then
          r := r.violation s.idx l.idx s!"request whose last status is {cw} was resolved by {if kvNat l.obs "fail" 99 = 1 then "Fail" else "Pass"} (Fail iff 503)"
        -- the documented refusal: 503 Service Unavailable
        if !nilshed ∧ allow = 0 ∧ kvNat l.obs "status" 0 ≠ 503 then
          r := r.violation s.idx l.idx s!"refused request did not get 503 (status={kvNat l.obs "status" 0})"
      | _, _, _ => r := r.mismatch s.idx l.idx "bad-op" (joinSp l.op)
    | "rpc" :: args =>
      match (kv? args "allow").bind String.toNat?, effErrKind args, (kv? args "panic").bind parseEnd with
      | some allow, some kind, some en =>
        if !knownErrKinds.contains kind then r := r.mismatch s.idx l.idx "bad-op" (joinSp l.op) else
        let pn : Nat := if en.abnormal then 1 else 0
        let dl := rpcFails (isDeadline kind) en.abnormal
        let m := rpcServe (allow = 1) (isDeadline kind) en.abnormal
        let ret := if allow = 0 then "ResourceExhausted:service-overloaded" else if en = .goexit then "goexit" else if pn = 1 then "panic"
                   else if kind = "nil" then "nil" else "same"
        let model := s!"ret={ret} ran={if m.ran then 1 else 0} fwd={if m.ran then 1 else 0} early={m.early} {showRes m.res} allows={m.asked}"
        let st := showStat m.stat
        r := r.addCover (if allow = 0 then "rpc-refused" else if pn = 1 then s!"rpc-end-{endName en}" else s!"rpc-err-{kind}")
        if allow = 1 ∧ (kv? args "ctx").isSome then r := r.addCover s!"rpc-ctx-{kvStr args "ctx"}"
        if allow = 1 ∧ kv? args "err" = some "ctxerr" then r := r.addCover s!"rpc-err-ctxerr-{kvStr args "ctx"}"
        if allow = 1 ∧ kvStr args "panic" = "dlerr" then r := r.addCover "rpc-panic-with-deadline-error"
        if m.ran ∧ kvNat l.obs "fwd" 9 ≠ 1 then
          r := r.violation s.idx l.idx "the wrapped handler was called with a different context or request than the interceptor was given"
        if allow = 1 then r := r.addCover (if dl then "rpc-fail" else "rpc-pass")
        let gotSt := kvStr l.obs "st"
        if gotSt = "reset" then r := r.addCover "stat-reset"
        if joinSp (stripSt l.obs) ≠ model ∨ (gotSt ≠ "reset" ∧ s!"st={gotSt}" ≠ st) then
          r := r.mismatch s.idx l.idx s!"{model} {st}" (joinSp l.obs)
        r := callSiteMonitor r s.idx l.idx (allow = 1) l.obs
        if gotSt ≠ "reset" ∧ s!"st={gotSt}" ≠ st then
          r := r.violation s.idx l.idx s!"SheddingStat counted st={gotSt}, expected {st} (total +1 per call, pass +1 with Pass, drop +1 with a refusal)"
        if allow = 1 ∧ kvNat l.obs "pass" 99 + kvNat l.obs "fail" 99 = 1 ∧ (kvNat l.obs "fail" 99 = 1) ≠ dl then
          r := r.violation s.idx l.idx s!"call ending with err={kind} end={endName en} was resolved by {if kvNat l.obs "fail" 99 = 1 then "Fail" else "Pass"} (Fail iff the handler returned an error that is context.DeadlineExceeded)"
        -- the documented refusal: a ResourceExhausted status
        if allow = 0 ∧ !(kvStr l.obs "ret").startsWith "ResourceExhausted:" then
          r := r.violation s.idx l.idx s!"refused rpc did not return codes.ResourceExhausted (ret={kvStr l.obs "ret"})"
      | _, _, _ => r := r.mismatch s.idx l.idx "bad-op" (joinSp l.op)
    | _ => r := r.mismatch s.idx l.idx "bad-op" (joinSp l.op)
  return r

def driver (secs : List Section) : Report := secs.foldl runSection {}

end GoZero.C02H
