/-
C02 (call sites) — driver for the SheddingHandler (HTTP) and UnarySheddingInterceptor (zRPC) harnesses.

  op:  req allow=<0/1> code=<n> panic=<0/1> [body=<0/1>] [again=<n>] [nilshed=<0/1>]
  obs: status=<n> ran=<0/1> early=<n> pass=<n> fail=<n> allows=<n> st=<total>/<pass>/<drop> | st=reset
Model of rest/handler/sheddinghandler.go: nil shedder → the next handler is used as is (no Allow, no stat);
refused → 503, next handler not run, promise never touched; admitted → next handler runs with the promise
unresolved, then exactly one resolution: Fail if the last status code the handler set is 503, Pass otherwise
(also when the handler panics: the resolution sits in a defer).

  op:  rpc allow=<0/1> err=<kind> panic=<0/1>
  obs: ret=<nil|same|ResourceExhausted:service-overloaded|panic|…> ran= early= pass= fail= allows= st=
Model of zrpc/internal/serverinterceptors/sheddinginterceptor.go: refused → status ResourceExhausted carrying
ErrServiceOverloaded's text, handler not run; admitted → handler runs with the promise unresolved, its value and
error are returned unchanged, then exactly one resolution in a defer: Fail iff the handler's error
`errors.Is` context.DeadlineExceeded (bare, wrapped or joined), Pass otherwise (also on nil, on gRPC status
errors including codes.DeadlineExceeded, and when the handler panics: the named result is still nil then).

The package-level SheddingStat counters are observed as deltas (total +1 per call, pass +1 with Pass,
drop +1 with a refusal); they are not part of the shedder model (`st=reset`: the reporter goroutine zeroed
them during the call — accepted).
-/
import GoZero.Base.Trace
namespace GoZero.C02H
open GoZero

/-- error kinds of the rpc harness for which `errors.Is(err, context.DeadlineExceeded)` holds. -/
def isDeadline (kind : String) : Bool := kind = "deadline" || kind = "wrapped" || kind = "joined"

def knownErrKinds : List String :=
  ["nil", "deadline", "wrapped", "joined", "canceled", "stdeadline", "internal", "unavailable", "exhausted", "plain"]

/-- the call-site monitor shared by both harnesses: an admitted request is resolved exactly once and only
after its handler; a refused one is neither handled nor resolved; Allow is asked exactly once. -/
def callSiteMonitor (r : Report) (sec line : Nat) (allow : Bool) (obs : List String) : Report := Id.run do
  let mut r := r
  let ip := kvNat obs "pass" 99
  let ifl := kvNat obs "fail" 99
  if allow ∧ ip + ifl ≠ 1 then
    r := r.violation sec line s!"admitted request resolved {ip + ifl} times (pass={ip} fail={ifl})"
  if allow ∧ kvNat obs "early" 99 ≠ 0 then
    r := r.violation sec line "promise resolved while the request was still being handled"
  if !allow ∧ (ip + ifl ≠ 0 ∨ kvNat obs "ran" 99 ≠ 0) then
    r := r.violation sec line "refused request was handled or resolved"
  if kvNat obs "allows" 99 ≠ 1 then
    r := r.violation sec line s!"Allow was called {kvNat obs "allows" 99} times for one request"
  return r

def stripSt (obs : List String) : List String := obs.filter fun t => !t.startsWith "st="

def runSection (r : Report) (s : Section) : Report := Id.run do
  let mut r := r
  for l in s.lines do
    r := { r with ops := r.ops + 1 }
    if l.obs.head? = some "PANIC" then
      -- the harness itself failed on this line (the handlers' own panics are recovered and reported as data)
      r := r.mismatch s.idx l.idx "an observation" (joinSp l.obs)
      continue
    match l.op with
    | "req" :: args =>
      match (kv? args "allow").bind String.toNat?, (kv? args "code").bind String.toNat?, (kv? args "panic").bind String.toNat? with
      | some allow, some code, some pn =>
        let body := kvNat args "body" 0 = 1
        let again := kvNat args "again" 0
        let nilshed := kvNat args "nilshed" 0 = 1
        -- what net/http puts on the wire: the first status wins (a body write implies 200)
        let wire := if code ≠ 0 then code else if body then 200 else if again ≠ 0 then again else 200
        -- what the shedding wrapper remembers: the last WriteHeader
        let cw := if again ≠ 0 then again else if code ≠ 0 then code else 200
        let (model, st) :=
          if nilshed then (s!"status={wire} ran=1 early=0 pass=0 fail=0 allows=0", "st=0/0/0")
          else if allow = 0 then ("status=503 ran=0 early=0 pass=0 fail=0 allows=1", "st=1/0/1")
          else if cw = 503 then (s!"status={wire} ran=1 early=0 pass=0 fail=1 allows=1", "st=1/0/0")
          else (s!"status={wire} ran=1 early=0 pass=1 fail=0 allows=1", "st=1/1/0")
        r := r.addCover (if nilshed then "http-nil-shedder" else if allow = 0 then "refused"
                         else if pn = 1 then (if cw = 503 then "panic-after-503" else "panic")
                         else if cw = 503 then "handler-503" else "handler-ok")
        if again ≠ 0 ∧ !nilshed ∧ allow = 1 then r := r.addCover (if wire = cw then "http-second-header-same" else "http-second-header-differs")
        if body then r := r.addCover "http-body"
        let gotSt := kvStr l.obs "st"
        if gotSt = "reset" then r := r.addCover "stat-reset"
        if joinSp (stripSt l.obs) ≠ model ∨ (gotSt ≠ "reset" ∧ s!"st={gotSt}" ≠ st) then
          r := r.mismatch s.idx l.idx s!"{model} {st}" (joinSp l.obs)
        if !nilshed then r := callSiteMonitor r s.idx l.idx (allow = 1) l.obs
        -- the documented refusal: 503 Service Unavailable
        if !nilshed ∧ allow = 0 ∧ kvNat l.obs "status" 0 ≠ 503 then
          r := r.violation s.idx l.idx s!"refused request did not get 503 (status={kvNat l.obs "status" 0})"
      | _, _, _ => r := r.mismatch s.idx l.idx "bad-op" (joinSp l.op)
    | "rpc" :: args =>
      match (kv? args "allow").bind String.toNat?, kv? args "err", (kv? args "panic").bind String.toNat? with
      | some allow, some kind, some pn =>
        if !knownErrKinds.contains kind then r := r.mismatch s.idx l.idx "bad-op" (joinSp l.op) else
        let dl := isDeadline kind && pn = 0
        let (model, st) :=
          if allow = 0 then ("ret=ResourceExhausted:service-overloaded ran=0 early=0 pass=0 fail=0 allows=1", "st=1/0/1")
          else
            let ret := if pn = 1 then "panic" else if kind = "nil" then "nil" else "same"
            if dl then (s!"ret={ret} ran=1 early=0 pass=0 fail=1 allows=1", "st=1/0/0")
            else (s!"ret={ret} ran=1 early=0 pass=1 fail=0 allows=1", "st=1/1/0")
        r := r.addCover (if allow = 0 then "rpc-refused" else if pn = 1 then "rpc-panic" else s!"rpc-err-{kind}")
        if allow = 1 then r := r.addCover (if dl then "rpc-fail" else "rpc-pass")
        let gotSt := kvStr l.obs "st"
        if gotSt = "reset" then r := r.addCover "stat-reset"
        if joinSp (stripSt l.obs) ≠ model ∨ (gotSt ≠ "reset" ∧ s!"st={gotSt}" ≠ st) then
          r := r.mismatch s.idx l.idx s!"{model} {st}" (joinSp l.obs)
        r := callSiteMonitor r s.idx l.idx (allow = 1) l.obs
        -- the documented refusal: a ResourceExhausted status
        if allow = 0 ∧ !(kvStr l.obs "ret").startsWith "ResourceExhausted:" then
          r := r.violation s.idx l.idx s!"refused rpc did not return codes.ResourceExhausted (ret={kvStr l.obs "ret"})"
      | _, _, _ => r := r.mismatch s.idx l.idx "bad-op" (joinSp l.op)
    | _ => r := r.mismatch s.idx l.idx "bad-op" (joinSp l.op)
  return r

def driver (secs : List Section) : Report := secs.foldl runSection {}

end GoZero.C02H
