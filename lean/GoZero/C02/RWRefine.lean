/-
C02 — the rolling window (ring of `size` buckets, `offset`, `lastTime`, lazy reset on Add) is a view of the
event log: after any sequence of `Add`s at non-decreasing times, what `Reduce` hands out at time `now`
(current bucket ignored) is, bucket for bucket and oldest first, the log partitioned by
`(t − t0) / interval` over the `size − 1` buckets before the current one — followed only by empty buckets.
-/
import GoZero.C02.Spec
namespace GoZero.C02
open Spec

/-! ### ring positions -/

/-- position of the bucket `d` steps behind the one at `off`. -/
def ringPos (size off d : Nat) : Nat := (off + size - d) % size

theorem ringPos_zero (size off : Nat) (h : off < size) : ringPos size off 0 = off := by
  unfold ringPos
  rw [Nat.sub_zero, Nat.add_mod_right, Nat.mod_eq_of_lt h]

theorem mod_inj_window (n a x y : Nat) (hxy : x < y) (hlt : y - x < n) : (a + x) % n ≠ (a + y) % n := by
  intro h
  have h0 := Nat.sub_mod_eq_zero_of_mod_eq h.symm
  have e : a + y - (a + x) = y - x := by omega
  rw [e, Nat.mod_eq_of_lt hlt] at h0
  omega

/-- advancing the offset by `span` and looking `d' ≥ span` behind = looking `d' − span` behind the old one. -/
theorem ringPos_shift (size off span d' : Nat) (hd : d' < size) (hs : span ≤ d') :
    ringPos size ((off + span) % size) d' = ringPos size off (d' - span) := by
  unfold ringPos
  have e1 : (off + span) % size + size - d' = (off + span) % size + (size - d') := by omega
  rw [e1, Nat.mod_add_mod]
  congr 1
  omega

/-- looking `d' < span` behind the advanced offset lands on a bucket the reset loop cleared. -/
theorem ringPos_reset (size off span d' : Nat) (hd : d' < span) (hs : span ≤ size) :
    ringPos size ((off + span) % size) d' = (off + (span - d' - 1) + 1) % size := by
  unfold ringPos
  have e1 : (off + span) % size + size - d' = (off + span) % size + (size - d') := by omega
  rw [e1, Nat.mod_add_mod]
  have e2 : off + span + (size - d') = off + (span - d' - 1) + 1 + size := by omega
  rw [e2, Nat.add_mod_right]

/-- buckets more than `span` … behind are not touched by the reset loop. -/
theorem ringPos_not_reset (size off span d i : Nat) (hd : d + span < size) (hi : i < span) :
    ringPos size off d ≠ (off + i + 1) % size := by
  unfold ringPos
  by_cases h0 : d = 0
  · subst h0
    rw [Nat.sub_zero, Nat.add_mod_right]
    have := mod_inj_window size off 0 (i + 1) (by omega) (by omega)
    simpa [Nat.add_assoc] using this
  · have e : off + size - d = off + (size - d) := by omega
    rw [e]
    have := mod_inj_window size off (i + 1) (size - d) (by omega) (by omega)
    intro h
    exact this (by rw [h, Nat.add_assoc])

theorem ringPos_ne_zero (size off d : Nat) (h : off < size) (hd : 0 < d) (hds : d < size) :
    ringPos size off d ≠ off := by
  unfold ringPos
  have e : off + size - d = off + (size - d) := by omega
  rw [e]
  have := mod_inj_window size off 0 (size - d) (by omega) (by omega)
  intro h'
  apply this
  rw [h', Nat.add_zero, Nat.mod_eq_of_lt h]

/-! ### the reset loop -/

theorem resetLoop_length (bs : List Bucket) (size off span : Nat) :
    (resetLoop bs size off span).length = bs.length := by
  induction span with
  | zero => rfl
  | succ n ih => simp [resetLoop, ih]

theorem resetLoop_hit (bs : List Bucket) (size off span p : Nat)
    (h : ∃ i, i < span ∧ p = (off + i + 1) % size) :
    (resetLoop bs size off span).getD p Bucket.empty = Bucket.empty := by
  induction span with
  | zero => obtain ⟨i, hi, _⟩ := h; omega
  | succ n ih =>
    obtain ⟨i, hi, hp⟩ := h
    simp only [resetLoop, List.getD_eq_getElem?_getD, List.getElem?_set]
    by_cases hn : (off + n + 1) % size = p
    · simp only [hn, if_true]
      split <;> rfl
    · simp only [hn, if_false]
      have : i < n := by
        have : i ≠ n := by intro e; subst e; exact hn hp.symm
        omega
      have := ih ⟨i, this, hp⟩
      simpa [List.getD_eq_getElem?_getD] using this

theorem resetLoop_miss (bs : List Bucket) (size off span p : Nat)
    (h : ∀ i, i < span → p ≠ (off + i + 1) % size) :
    (resetLoop bs size off span).getD p Bucket.empty = bs.getD p Bucket.empty := by
  induction span with
  | zero => rfl
  | succ n ih =>
    simp only [resetLoop, List.getD_eq_getElem?_getD, List.getElem?_set]
    have hn : ¬ (off + n + 1) % size = p := fun e => h n (by omega) e.symm
    simp only [hn, if_false]
    have := ih (fun i hi => h i (by omega))
    simpa [List.getD_eq_getElem?_getD] using this

/-! ### the invariant: the ring is the log, bucket by bucket -/

/-- `L` is the absolute index of the bucket at `offset` (the last one written or aligned to). -/
structure RWInv (rw : RW) (c : WinCfg) (val : PassEv → Int) (log : List PassEv) (L : Nat) : Prop where
  size_eq  : rw.size = c.size
  iv_eq    : rw.interval = c.interval
  size_pos : 1 ≤ rw.size
  iv_pos   : 1 ≤ rw.interval
  len      : rw.buckets.length = rw.size
  off      : rw.offset < rw.size
  align    : rw.lastTime = c.t0 + L * rw.interval
  cont     : ∀ d, d < rw.size →
               rw.buckets.getD (ringPos rw.size rw.offset d) Bucket.empty
                 = if d ≤ L then bucketOf c val log (L - d) else Bucket.empty
  fresh    : ∀ j, L < j → bucketOf c val log j = Bucket.empty

theorem replicate_getD_empty (n p : Nat) : (List.replicate n Bucket.empty).getD p Bucket.empty = Bucket.empty := by
  simp only [List.getD_eq_getElem?_getD, List.getElem?_replicate]
  split <;> rfl

theorem rwinv_new (size interval now : Nat) (sc : Rat) (val : PassEv → Int) (hs : 1 ≤ size) (hi : 1 ≤ interval) :
    RWInv (RW.new size interval now true) ⟨size, interval, now, sc⟩ val [] 0 where
  size_eq := rfl
  iv_eq := rfl
  size_pos := hs
  iv_pos := hi
  len := by simp [RW.new]
  off := by simp only [RW.new]; omega
  align := by simp [RW.new]
  cont := by
    intro d _
    simp only [RW.new, replicate_getD_empty, bucketOf]
    split <;> rfl
  fresh := by intro j _; rfl

/-- index of `now` from the aligned `lastTime`. -/
theorem idx_of_aligned (c : WinCfg) (iv L now lastTime : Nat) (hiv : 1 ≤ iv) (hc : c.interval = iv)
    (ha : lastTime = c.t0 + L * iv) (hle : lastTime ≤ now) :
    bucketIdx c now = L + (now - lastTime) / iv := by
  unfold bucketIdx
  rw [hc]
  have e : now - c.t0 = iv * L + (now - lastTime) := by
    rw [ha] at hle ⊢
    rw [Nat.mul_comm iv L]
    omega
  rw [e, Nat.mul_add_div (by omega)]

theorem span_le (rw : RW) (now : Nat) : rw.span now ≤ rw.size := by
  unfold RW.span
  generalize (now - rw.lastTime) / rw.interval = k
  by_cases h : k < rw.size <;> simp [h]
  omega

theorem span_le_k (rw : RW) (now : Nat) : rw.span now ≤ (now - rw.lastTime) / rw.interval := by
  unfold RW.span
  generalize (now - rw.lastTime) / rw.interval = k
  by_cases h : k < rw.size <;> simp [h]
  omega

theorem span_eq_k (rw : RW) (now : Nat) (h : rw.span now < rw.size) :
    rw.span now = (now - rw.lastTime) / rw.interval := by
  unfold RW.span at h ⊢
  generalize (now - rw.lastTime) / rw.interval = k at *
  by_cases h' : k < rw.size <;> simp [h'] at h ⊢

/-- `updateOffset` keeps the invariant, now anchored at the bucket of `now`. -/
theorem rwinv_update (rw : RW) (c : WinCfg) (val : PassEv → Int) (log : List PassEv) (L now : Nat)
    (inv : RWInv rw c val log L) (hle : rw.lastTime ≤ now) :
    RWInv (rw.updateOffset now) c val log (bucketIdx c now) := by
  have hidx := idx_of_aligned c rw.interval L now rw.lastTime inv.iv_pos inv.iv_eq.symm inv.align hle
  have hsl := span_le rw now
  have hsk := span_le_k rw now
  unfold RW.updateOffset
  simp only []
  by_cases h0 : rw.span now = 0
  · -- same bucket: nothing changes, and `now` is in bucket L
    simp only [h0, if_true]
    have hk : (now - rw.lastTime) / rw.interval = 0 := by
      have := span_eq_k rw now (by have := inv.size_pos; omega)
      omega
    have : bucketIdx c now = L := by omega
    rw [this]
    exact inv
  · simp only [h0, if_false]
    generalize hk : (now - rw.lastTime) / rw.interval = k at *
    generalize hsp : rw.span now = span at *
    have hL' : bucketIdx c now = L + k := hidx
    rw [hL']
    refine
      { size_eq := inv.size_eq, iv_eq := inv.iv_eq, size_pos := inv.size_pos, iv_pos := inv.iv_pos,
        len := by simp [resetLoop_length, inv.len], off := Nat.mod_lt _ (by have := inv.size_pos; omega),
        align := ?_, cont := ?_, fresh := ?_ }
    · -- lastTime' = now − (now − lastTime) % interval = lastTime + k·interval
      simp only []
      have hdm := Nat.div_add_mod (now - rw.lastTime) rw.interval
      rw [hk] at hdm
      have hal := inv.align
      have : now - (now - rw.lastTime) % rw.interval = rw.lastTime + rw.interval * k := by omega
      rw [this, hal, Nat.add_mul, Nat.mul_comm rw.interval k, Nat.add_assoc]
    · intro d' hd'
      simp only [] at hd' ⊢
      by_cases hlt : d' < span
      · -- a bucket cleared by the loop; its absolute index is beyond L, where the log is empty
        rw [ringPos_reset rw.size rw.offset span d' hlt hsl]
        rw [resetLoop_hit _ _ _ _ _ ⟨span - d' - 1, by omega, rfl⟩]
        split
        · rw [inv.fresh (L + k - d') (by omega)]
        · rfl
      · -- an older bucket, untouched
        have hsk' : span = k := by
          have := span_eq_k rw now (by omega)
          omega
        rw [ringPos_shift rw.size rw.offset span d' hd' (by omega)]
        rw [resetLoop_miss _ _ _ _ _ (fun i hi => ringPos_not_reset rw.size rw.offset span (d' - span) i (by omega) hi)]
        rw [inv.cont (d' - span) (by omega)]
        have e : L + k - d' = L - (d' - span) := by omega
        by_cases hc : d' ≤ L + k
        · have : d' - span ≤ L := by omega
          simp only [hc, this, if_true, e]
        · have : ¬ d' - span ≤ L := by omega
          simp only [hc, this, if_false]
    · intro j hj
      exact inv.fresh j (by omega)

/-- `Add(v)` at time `now` = the log gains the event `(now, v)`. -/
theorem rwinv_add (rw : RW) (c : WinCfg) (val : PassEv → Int) (log : List PassEv) (L : Nat) (e : PassEv)
    (inv : RWInv rw c val log L) (hle : rw.lastTime ≤ e.t) :
    RWInv (rw.add e.t (val e)) c val (e :: log) (bucketIdx c e.t) := by
  have u := rwinv_update rw c val log L e.t inv hle
  unfold RW.add
  generalize rw.updateOffset e.t = rw' at *
  generalize hL' : bucketIdx c e.t = L' at *
  have hoff : rw'.offset % rw'.size = rw'.offset := Nat.mod_eq_of_lt u.off
  refine
    { size_eq := u.size_eq, iv_eq := u.iv_eq, size_pos := u.size_pos, iv_pos := u.iv_pos,
      len := by simp [u.len], off := u.off, align := u.align, cont := ?_, fresh := ?_ }
  · intro d hd
    simp only [] at hd ⊢
    rw [hoff]
    simp only [List.getD_eq_getElem?_getD, List.getElem?_modify]
    have hc := u.cont d hd
    simp only [List.getD_eq_getElem?_getD] at hc
    by_cases hd0 : d = 0
    · subst hd0
      rw [ringPos_zero _ _ u.off] at hc ⊢
      have hlt : rw'.offset < rw'.buckets.length := by rw [u.len]; exact u.off
      have hsome : rw'.buckets[rw'.offset]? = some rw'.buckets[rw'.offset] := List.getElem?_eq_getElem hlt
      rw [hsome] at hc ⊢
      simp only [Option.map_eq_map, Option.map_some, if_true, Option.getD_some, Nat.zero_le, Nat.sub_zero] at hc ⊢
      simp only [bucketOf, hL', if_true]
      rw [hc]
    · have hne : ¬ rw'.offset = ringPos rw'.size rw'.offset d :=
        fun h => ringPos_ne_zero rw'.size rw'.offset d u.off (by omega) hd h.symm
      have hmap : ((fun a => if rw'.offset = ringPos rw'.size rw'.offset d then Bucket.add a (val e) else a) <$>
            rw'.buckets[ringPos rw'.size rw'.offset d]?) = rw'.buckets[ringPos rw'.size rw'.offset d]? := by
        simp only [hne, if_false]
        cases rw'.buckets[ringPos rw'.size rw'.offset d]? <;> rfl
      rw [hmap, hc]
      by_cases hdl : d ≤ L'
      · simp only [hdl, if_true, bucketOf, hL']
        have : ¬ L' = L' - d := by omega
        simp only [this, if_false]
      · simp only [hdl, if_false]
  · intro j hj
    simp only [bucketOf, hL']
    have : ¬ L' = j := by omega
    simp only [this, if_false]
    exact u.fresh j hj

/-! ### what Reduce sees -/

/-- trailing empty buckets change neither the peak pass count nor the minimum latency. -/
theorem maxPassOf_append_empty (bs : List Bucket) (n : Nat) :
    maxPassOf (bs ++ List.replicate n Bucket.empty) = maxPassOf bs := by
  unfold maxPassOf
  rw [List.foldl_append]
  have one_le : ∀ (l : List Bucket) (r : Int), 1 ≤ r → 1 ≤ l.foldl (fun r b => if b.sum > r then b.sum else r) r := by
    intro l
    induction l with
    | nil => intro r h; exact h
    | cons b l ih => intro r h; simp only [List.foldl_cons]; apply ih; split <;> omega
  have hr := one_le bs 1 (by omega)
  generalize bs.foldl (fun r b => if b.sum > r then b.sum else r) 1 = r at *
  induction n with
  | zero => rfl
  | succ n ih =>
    rw [List.replicate_succ, List.foldl_cons]
    have : ¬ Bucket.empty.sum > r := by simp [Bucket.empty]; omega
    simp only [this, if_false]
    exact ih

theorem minRtOf_append_empty (bs : List Bucket) (n : Nat) :
    minRtOf (bs ++ List.replicate n Bucket.empty) = minRtOf bs := by
  unfold minRtOf
  rw [List.foldl_append]
  generalize bs.foldl _ defaultMinRt = r
  induction n with
  | zero => rfl
  | succ n ih =>
    rw [List.replicate_succ, List.foldl_cons]
    have : Bucket.empty.count ≤ 0 := by simp [Bucket.empty]
    simp only [this, if_true]
    exact ih

/-- **The rolling window is a view of the log.** -/
theorem visible_is_log_window (rw : RW) (c : WinCfg) (val : PassEv → Int) (log : List PassEv) (L now : Nat)
    (inv : RWInv rw c val log L) (hle : rw.lastTime ≤ now) (hig : rw.ignoreCurrent = true) :
    ∃ n, windowBuckets c val log now = rw.visible now ++ List.replicate n Bucket.empty := by
  have hidx := idx_of_aligned c rw.interval L now rw.lastTime inv.iv_pos inv.iv_eq.symm inv.align hle
  have hsl := span_le rw now
  have hsk := span_le_k rw now
  have hsz := inv.size_pos
  unfold RW.visible windowBuckets visibleIdx
  simp only [hig, Bool.and_true, List.map_map]
  rw [← inv.size_eq]
  generalize hsp : rw.span now = span at *
  generalize hk : (now - rw.lastTime) / rw.interval = k at *
  generalize hcur : bucketIdx c now = cur at *
  -- number of buckets handed out
  generalize hdiff : (if (decide (span = 0)) = true then rw.size - 1 else rw.size - span) = diff
  have hdv : (span = 0 ∧ diff = rw.size - 1) ∨ (0 < span ∧ diff = rw.size - span) := by
    rw [← hdiff]
    by_cases h : span = 0
    · left; simp [h]
    · right; simp [h]; omega
  have hdle : diff ≤ rw.size - 1 := by omega
  refine ⟨rw.size - 1 - diff, ?_⟩
  have hsplit : rw.size - 1 = diff + (rw.size - 1 - diff) := by omega
  rw [hsplit, List.range_add, List.map_append]
  have hd0 : diff + (rw.size - 1 - diff) = rw.size - 1 := by omega
  congr 1
  · -- the buckets Reduce walks
    by_cases hpos : diff > 0
    · simp only [hpos, if_true]
      apply List.map_congr_left
      intro i hi
      have hi' : i < diff := List.mem_range.mp hi
      simp only [Function.comp]
      -- position walked = ringPos of d = size − span − 1 − i
      have hspan_lt : span < rw.size := by omega
      have hspk : span = k := by
        have := span_eq_k rw now (by omega); omega
      have hd : rw.size - span - 1 - i < rw.size := by omega
      have hi2 : i + span + 1 ≤ rw.size := by omega
      have hposeq : ((rw.offset + span + 1) % rw.size + i) % rw.size = ringPos rw.size rw.offset (rw.size - span - 1 - i) := by
        unfold ringPos
        rw [Nat.mod_add_mod]
        have : rw.offset + rw.size - (rw.size - span - 1 - i) = rw.offset + span + 1 + i := by omega
        rw [this]
      rw [hposeq, inv.cont _ hd]
      by_cases hge : rw.size ≤ cur + 1 + i
      · have h1 : rw.size - span - 1 - i ≤ L := by omega
        have h2 : cur + 1 + i - rw.size = L - (rw.size - span - 1 - i) := by omega
        simp only [hge, h1, if_true, h2]
      · have h1 : ¬ rw.size - span - 1 - i ≤ L := by omega
        simp only [hge, h1, if_false]
    · have : diff = 0 := by omega
      subst this
      simp
  · -- the buckets after the last written one are empty in the log
    apply List.ext_getElem
    · simp
    · intro i h1 h2
      simp only [List.getElem_map, List.getElem_range, List.getElem_replicate, Function.comp]
      simp only [List.length_map, List.length_range] at h1
      by_cases hge : rw.size ≤ cur + 1 + (diff + i)
      · simp only [hge, if_true]
        apply inv.fresh
        omega
      · simp only [hge, if_false]

end GoZero.C02
