/-
C02 — the lifecycle of `droppedRecently` over ALL histories (the property's "shedding was already in progress").

Seeded change C02-9 made the reset in `stillHot` a no-op: the flag stayed set for the life of the shedder after the first
drop episode, and a later overloaded-but-admitted Allow re-armed `stillHot` for calm Allows.  The theorems below say
what the flag IS at every point of every history of the model (which the Tie binds to the code: `tie_stillHotBody`
proves the generated body of `stillHot`, reset included, equal to `afterStillHot`).
-/
import GoZero.C02.Props
import GoZero.C02.Life
namespace GoZero.C02

/-- the invariant carried along every run. -/
structure LifeInv (st : St) (l : Life) : Prop where
  ref     : Ref st l.h
  overLe  : ∀ t, l.h.lastOver = some t → t ≤ l.h.now
  dropLe  : ∀ t, l.lastDrop = some t → t ≤ l.h.now
  lapseLe : ∀ t, l.lastLapse = some t → t ≤ l.h.now
  /-- the flag is set ⇒ a request was shed, less than one second after an overload sighting no later than the latest one,
  and no calm Allow has seen a cool-off expire since that drop. -/
  setBy   : l.h.inProgress = true →
              ∃ td tover, l.lastDrop = some td ∧ l.h.lastOver = some tover ∧ td < tover + 1000000000
                ∧ (∀ tl, l.lastLapse = some tl → tl ≤ td)
  /-- the flag is clear ⇒ no request was ever shed, or a calm Allow has seen the cool-off of the latest episode expire. -/
  clear   : l.h.inProgress = false →
              l.lastDrop = none ∨ ∃ td tl, l.lastDrop = some td ∧ l.lastLapse = some tl ∧ td ≤ tl

theorem calm_shed_was_hot (s : Shedder) (now : Nat) (cpu : Int) (h : (s.allow now false cpu).2 = .overloaded) :
    s.stillHot now = true := by
  have := (shed_only_if_hot_and_busy s now false cpu h).1
  rcases this with h1 | ⟨hd, ho, hl⟩
  · cases h1
  · simp only [Shedder.stillHot, hd, coolOffNs, Bool.true_and, Bool.and_eq_true, bne_iff_ne, ne_eq]
    exact ⟨ho, decide_eq_true hl⟩

theorem life_step (st : St) (l : Life) (inv : LifeInv st l) (op : Op) :
    LifeInv (step st op).1 (l.observe (evOf st op)) := by
  have hnow := inv.ref.now
  have hr := ref_step st l.h inv.ref op
  cases op with
  | advance d =>
    simp only [evOf, Life.observe, Life.lapsesAt, Spec.Hist.observe] at hr ⊢
    exact { ref := hr
            overLe := fun t ht => by have := inv.overLe t ht; simp; omega
            dropLe := fun t ht => by have := inv.dropLe t ht; simp; omega
            lapseLe := fun t ht => by have := inv.lapseLe t (by simpa using ht); simp; omega
            setBy := fun hp => by simpa using inv.setBy hp
            clear := fun hp => by simpa using inv.clear hp }
  | pass start =>
    simp only [evOf, Life.observe, Life.lapsesAt, Spec.Hist.observe, Spec.Hist.resolve] at hr ⊢
    exact { ref := hr, overLe := inv.overLe, dropLe := inv.dropLe, lapseLe := by simpa using inv.lapseLe,
            setBy := by simpa using inv.setBy, clear := by simpa using inv.clear }
  | fail =>
    simp only [evOf, Life.observe, Life.lapsesAt, Spec.Hist.observe, Spec.Hist.resolve] at hr ⊢
    exact { ref := hr, overLe := inv.overLe, dropLe := inv.dropLe, lapseLe := by simpa using inv.lapseLe,
            setBy := by simpa using inv.setBy, clear := by simpa using inv.clear }
  | allow o c =>
    have hhot := ref_hot st l.h inv.ref
    cases o with
    | true =>
      cases hv : (st.sh.allow st.now true c).2 with
      | admitted =>
        simp only [evOf, hv, Life.observe, Life.lapsesAt, Spec.Hist.observe, ↓reduceIte, Bool.false_eq_true] at hr ⊢
        refine { ref := hr, overLe := ?_, dropLe := inv.dropLe, lapseLe := by simpa using inv.lapseLe, setBy := ?_, clear := by simpa using inv.clear }
        · intro t ht
          simp at ht ⊢
          omega
        · intro hp
          obtain ⟨td, tover, h1, _, _, h4⟩ := inv.setBy hp
          have := inv.dropLe td h1
          exact ⟨td, l.h.now, h1, rfl, by omega, by simpa using h4⟩
      | overloaded =>
        simp only [evOf, hv, Life.observe, Life.lapsesAt, Spec.Hist.observe, ↓reduceIte, Bool.false_eq_true] at hr ⊢
        refine { ref := hr, overLe := ?_, dropLe := ?_, lapseLe := by simpa using inv.lapseLe, setBy := ?_, clear := ?_ }
        · intro t ht
          simp at ht ⊢
          omega
        · intro t ht
          simp at ht ⊢
          omega
        · intro _
          exact ⟨l.h.now, l.h.now, rfl, rfl, by omega, by simpa using inv.lapseLe⟩
        · intro hp
          simp at hp
    | false =>
      cases hv : (st.sh.allow st.now false c).2 with
      | admitted =>
        by_cases hl : (l.h.inProgress && !l.h.hot) = true
        · have hp : l.h.inProgress = true := by simp at hl; exact hl.1
          simp only [evOf, hv, Life.observe, Life.lapsesAt, Spec.Hist.observe, hl, ↓reduceIte, Bool.false_eq_true] at hr ⊢
          obtain ⟨td, tover, h1, _, _, _⟩ := inv.setBy hp
          refine { ref := hr, overLe := inv.overLe, dropLe := inv.dropLe, lapseLe := ?_, setBy := ?_, clear := ?_ }
          · intro t ht
            simp at ht ⊢
            omega
          · intro hp'
            simp at hp'
          · intro _
            exact Or.inr ⟨td, l.h.now, h1, rfl, inv.dropLe td h1⟩
        · simp only [evOf, hv, Life.observe, Life.lapsesAt, Spec.Hist.observe, hl, ↓reduceIte, Bool.false_eq_true] at hr ⊢
          exact { ref := hr, overLe := inv.overLe, dropLe := inv.dropLe, lapseLe := inv.lapseLe, setBy := inv.setBy, clear := inv.clear }
      | overloaded =>
        have hh : l.h.hot = true := by rw [← hhot]; exact calm_shed_was_hot st.sh st.now c hv
        have hl : (l.h.inProgress && !l.h.hot) = false := by simp [hh]
        have hp : l.h.inProgress = true := by
          unfold Spec.Hist.hot at hh
          simp at hh
          exact hh.1
        simp only [evOf, hv, Life.observe, Life.lapsesAt, Spec.Hist.observe, hl, ↓reduceIte, Bool.false_eq_true] at hr ⊢
        refine { ref := hr, overLe := inv.overLe, dropLe := ?_, lapseLe := inv.lapseLe, setBy := ?_, clear := ?_ }
        · intro t ht
          simp at ht ⊢
          omega
        · intro _
          unfold Spec.Hist.hot at hh
          cases hlo : l.h.lastOver with
          | none => simp [hlo] at hh
          | some t =>
            simp [hlo] at hh
            exact ⟨l.h.now, t, rfl, rfl, by omega, inv.lapseLe⟩
        · intro hp'
          simp at hp'

theorem life_init (window buckets : Nat) (threshold : Int) (t0 : Nat) (ht : 0 < t0) :
    LifeInv ⟨t0, Shedder.new window buckets threshold t0⟩ { h := { now := t0 } } where
  ref := ref_init window buckets threshold t0 ht
  overLe := fun t h => by simp at h
  dropLe := fun t h => by simp at h
  lapseLe := fun t h => by simp at h
  setBy := fun h => by simp at h
  clear := fun _ => Or.inl rfl

theorem runL_inv (ops : List Op) (st : St) (l : Life) (inv : LifeInv st l) : LifeInv (runL st l ops).1 (runL st l ops).2 := by
  induction ops generalizing st l with
  | nil => exact inv
  | cons op ops ih => exact ih _ _ (life_step st l inv op)

/-- `runL` is `runH` with the ghost times kept alongside: same model states, same history summary. -/
theorem runL_is_runH (ops : List Op) (st : St) (l : Life) :
    (runL st l ops).1 = (runH st l.h ops).1 ∧ (runL st l ops).2.h = (runH st l.h ops).2 := by
  induction ops generalizing st l with
  | nil => exact ⟨rfl, rfl⟩
  | cons op ops ih => exact ih _ _

/-- **The life of `droppedRecently`, for every configuration and every history** of Allow / Pass / Fail events from a
fresh shedder.  At every point:
* the flag is SET only if a request has been shed — at a time `td` less than one second after an Allow that saw the CPU
  over the threshold (`tover`, now the latest such Allow or an earlier one) — and no calm Allow has found a cool-off
  expired since that drop;
* the flag is CLEAR if nothing was ever shed, or a calm Allow has found the cool-off of the latest episode expired;
* `stillHot` (what lets a calm Allow shed) holds only if additionally the latest overloaded Allow is less than a second
  ago: the property's "was at an Allow within the preceding second while shedding was already in progress". -/
theorem flag_lifecycle (window buckets : Nat) (threshold : Int) (t0 : Nat) (ht : 0 < t0) (ops : List Op) :
    let r := runL ⟨t0, Shedder.new window buckets threshold t0⟩ { h := { now := t0 } } ops
    (r.1.sh.droppedRecently = true →
        ∃ td tover, r.2.lastDrop = some td ∧ r.2.h.lastOver = some tover ∧ td ≤ r.1.now ∧ td < tover + 1000000000
          ∧ (∀ tl, r.2.lastLapse = some tl → tl ≤ td))
    ∧ (r.1.sh.droppedRecently = false →
        r.2.lastDrop = none ∨ ∃ td tl, r.2.lastDrop = some td ∧ r.2.lastLapse = some tl ∧ td ≤ tl)
    ∧ (r.1.sh.stillHot r.1.now = true →
        ∃ td tover, r.2.lastDrop = some td ∧ r.1.sh.overloadTime = tover ∧ td < tover + 1000000000
          ∧ r.1.now < tover + 1000000000 ∧ tover ≤ r.1.now) := by
  intro r
  have inv : LifeInv r.1 r.2 := runL_inv ops _ _ (life_init window buckets threshold t0 ht)
  have hdr : r.1.sh.droppedRecently = r.2.h.inProgress := inv.ref.dr
  have hnow : r.2.h.now = r.1.now := inv.ref.now
  refine ⟨?_, ?_, ?_⟩
  · intro h
    obtain ⟨td, tover, h1, h2, h3, h4⟩ := inv.setBy (by rw [← hdr]; exact h)
    exact ⟨td, tover, h1, h2, by have := inv.dropLe td h1; omega, h3, h4⟩
  · intro h
    exact inv.clear (by rw [← hdr]; exact h)
  · intro h
    have hh : r.2.h.hot = true := by rw [← ref_hot _ _ inv.ref]; exact h
    have hp : r.2.h.inProgress = true := by
      unfold Spec.Hist.hot at hh
      simp at hh
      exact hh.1
    obtain ⟨td, tover, h1, h2, h3, _⟩ := inv.setBy hp
    have hot : r.1.sh.overloadTime = r.2.h.lastOver.getD 0 := inv.ref.ot
    rw [h2] at hot
    rw [Spec.Hist.hot, h2] at hh
    simp at hh
    have hle : tover ≤ r.2.h.now := inv.overLe tover h2
    exact ⟨td, tover, h1, by simpa using hot, h3, by omega, by omega⟩

/-- **One step: the reset that seeded C02-9 removed.**  In every state with a recorded overload time, a calm Allow that
comes a second or more after it is admitted AND leaves `droppedRecently` clear, whatever the flag was. -/
theorem calm_allow_after_expiry_clears_flag (s : Shedder) (now : Nat) (cpu : Int) (h0 : s.overloadTime ≠ 0)
    (hexp : ¬ now - s.overloadTime < 1000000000) :
    (s.allow now false cpu).2 = .admitted ∧ (s.allow now false cpu).1.droppedRecently = false := by
  have hg : s.gate now false = false := by
    simp [Shedder.gate, Shedder.stillHot, coolOffNs, hexp]
  simp only [Shedder.allow, Shedder.shouldDrop, hg, Bool.false_and, Shedder.allowWith, Shedder.afterGate,
    Shedder.afterStillHot, coolOffNs, Bool.false_eq_true, ↓reduceIte]
  refine ⟨trivial, ?_⟩
  cases hd : s.droppedRecently <;> simp [hd, h0, hexp]

/-- hence after an ended episode an overloaded-but-admitted Allow does not re-arm `stillHot`: the next calm Allows are
admitted however high the CPU reading and the load (the four-step history of seeded C02-9). -/
theorem no_shed_after_ended_episode (s : Shedder) (t1 t2 t3 : Nat) (c1 c2 c3 : Int) (h0 : s.overloadTime ≠ 0)
    (hexp : ¬ t1 - s.overloadTime < 1000000000)
    (hadm : ((s.allow t1 false c1).1.allow t2 true c2).2 = .admitted) :
    ((((s.allow t1 false c1).1.allow t2 true c2).1).allow t3 false c3).2 = .admitted := by
  have h1 := (calm_allow_after_expiry_clears_flag s t1 c1 h0 hexp).2
  generalize (s.allow t1 false c1).1 = s1 at *
  have h2 : (s1.allow t2 true c2).1.droppedRecently = false := by
    have : (s1.allow t2 true c2).2 = .admitted := hadm
    simp only [Shedder.allow] at this ⊢
    split at this
    · cases this
    · rename_i hn
      simp [Shedder.allowWith, hn, Shedder.afterGate, Shedder.systemOverloaded, h1]
  generalize (s1.allow t2 true c2).1 = s2 at *
  cases hv : (s2.allow t3 false c3).2 with
  | admitted => rfl
  | overloaded =>
    have := calm_shed_was_hot s2 t3 c3 hv
    simp [Shedder.stillHot, h2] at this

-- non-vacuity: an episode in progress (flag set, overload seen at 7); a calm Allow one second later is admitted and clears
-- the flag; an overloaded Allow at the threshold is admitted; a calm Allow right after it with the CPU reading at 1000 and
-- 13 in flight is admitted.  With the flag left set (the seeded change) the last one is shed.
example : ((exShedder 11 11 7 true).allow (7 + 1000000000) false 0).1.droppedRecently = false := by decide +kernel
example : (((((exShedder 11 (19 / 2) 7 true).allow (7 + 1000000000) false 0).1.allow (8 + 1000000000) true 900).1).allow
    (9 + 1000000000) false 1000).2 = .admitted := by decide +kernel
example : ((exShedder 13 (19 / 2) (8 + 1000000000) true).allow (9 + 1000000000) false 1000).2 = .overloaded := by decide +kernel
-- a whole history: 12 admitted, 10 failed, an overloaded Allow sheds (drop at 1), a second later a calm Allow ends the episode
def exLife : St × Life :=
  runL ⟨1, Shedder.new 1000000000 10 900 1⟩ { h := { now := 1 } }
    (List.replicate 12 (.allow false 0) ++ List.replicate 10 .fail ++ [.allow true 1000, .advance 1000000000, .allow false 0])
example : exLife.2.lastDrop = some 1 ∧ exLife.2.lastLapse = some 1000000001 ∧ exLife.1.sh.droppedRecently = false := by
  decide +kernel

end GoZero.C02
