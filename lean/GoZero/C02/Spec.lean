/-
C02 — abstract specification: the property read on the externally visible history only
(what was admitted, what finished and when, which CPU verdicts the Allow calls saw).
Nothing here looks at the shedder's internal fields or at the rolling-window representation.

History summary `Hist`
  admitted / resolved   number of promises handed out / resolved            → in-flight = admitted − resolved
  passes                the log of Pass events (time of the Pass, latency in ms, rounded up)
  lastOver              time of the latest Allow at which the CPU was at/above the threshold
  inProgress            "shedding is in progress": a request has been shed and no later Allow has seen the
                        one-second cool-off (counted from `lastOver`) lapse
  avg                   moving average (β = 0.9) of the in-flight count, sampled at every resolution

Capacity estimate at time `now` (window of `size` buckets of `interval` ns aligned at the creation time `t0`,
current bucket ignored):  max(1, peak per-bucket pass count × minimum rounded per-bucket average latency × scale).
-/
import GoZero.C02.Model
namespace GoZero.C02.Spec
open GoZero.C02

structure WinCfg where
  size     : Nat
  interval : Nat
  t0       : Nat
  scale    : Rat
  deriving Repr

structure PassEv where
  t  : Nat
  rt : Int
  deriving Repr, DecidableEq

/-- absolute bucket index of a time stamp. -/
def bucketIdx (c : WinCfg) (t : Nat) : Nat := (t - c.t0) / c.interval

/-- bucket `j` of a log (newest event first): every pass whose time stamp falls into bucket `j`,
`val` of each summed, and their number. -/
def bucketOf (c : WinCfg) (val : PassEv → Int) : List PassEv → Nat → Bucket
  | [], _ => Bucket.empty
  | e :: es, j => if bucketIdx c e.t = j then (bucketOf c val es j).add (val e) else bucketOf c val es j

/-- the bucket indices visible at `now`, oldest first: the `size − 1` buckets before the current one
(`none`: that bucket lies before the creation time and is empty). -/
def visibleIdx (c : WinCfg) (now : Nat) : List (Option Nat) :=
  (List.range (c.size - 1)).map fun i =>
    if c.size ≤ bucketIdx c now + 1 + i then some (bucketIdx c now + 1 + i - c.size) else none

def windowBuckets (c : WinCfg) (val : PassEv → Int) (log : List PassEv) (now : Nat) : List Bucket :=
  (visibleIdx c now).map fun
    | some j => bucketOf c val log j
    | none => Bucket.empty

/-- per-bucket latency sums / pass counts of the visible window. -/
def rtBuckets (c : WinCfg) (log : List PassEv) (now : Nat) : List Bucket :=
  windowBuckets c (fun e => e.rt) log now

/-- per-bucket pass counts of the visible window. -/
def passBuckets (c : WinCfg) (log : List PassEv) (now : Nat) : List Bucket :=
  windowBuckets c (fun _ => 1) log now

/-- peak per-bucket pass count over the sliding window (at least 1). -/
def peakPass (c : WinCfg) (log : List PassEv) (now : Nat) : Int := maxPassOf (passBuckets c log now)

/-- minimum rounded average latency over the non-empty buckets of the window (1000 ms if none). -/
def minLatency (c : WinCfg) (log : List PassEv) (now : Nat) : Rat := minRtOf (rtBuckets c log now)

/-- the capacity estimate. -/
def capacity (c : WinCfg) (log : List PassEv) (now : Nat) : Rat :=
  let m : Rat := (peakPass c log now : Rat) * minLatency c log now * c.scale
  if m < 1 then 1 else m

structure Hist where
  now        : Nat
  admitted   : Nat := 0
  resolved   : Nat := 0
  passes     : List PassEv := []
  lastOver   : Option Nat := none
  inProgress : Bool := false
  avg        : Rat := 0
  deriving Repr

def Hist.inFlight (h : Hist) : Int := (h.admitted : Int) - (h.resolved : Int)

/-- an Allow within the preceding second saw the CPU over the threshold, while shedding was in progress. -/
def Hist.hot (h : Hist) : Bool :=
  h.inProgress && (match h.lastOver with
    | some t => decide (h.now - t < 1000000000)
    | none => false)

/-- observable events of a history. -/
inductive Ev where
  | advance (d : Nat)
  | allow (cpuOver : Bool) (v : Verdict)
  | pass (start : Nat)
  | fail
  deriving Repr

def Hist.resolve (h : Hist) : Hist :=
  let r := h.resolved + 1
  { h with resolved := r, avg := h.avg * (9 / 10) + (((h.admitted : Int) - (r : Int) : Int) : Rat) * (1 / 10) }

def Hist.observe (h : Hist) : Ev → Hist
  | .advance d => { h with now := h.now + d }
  | .allow over v =>
    let h1 : Hist :=
      if over then { h with lastOver := some h.now }
      else if h.inProgress && !h.hot then { h with inProgress := false }
      else h
    match v with
    | .overloaded => { h1 with inProgress := true }
    | .admitted => { h1 with admitted := h1.admitted + 1 }
  | .pass start => { h.resolve with passes := ⟨h.now, rtMs h.now start⟩ :: h.passes }
  | .fail => h.resolve

/-! ### the property, clause by clause (exact form, used by the theorems) -/

/-- clause 1: a shed is justified only by an overloaded CPU now, or one within the last second while shedding
was in progress — and by more than 10 % of the capacity estimate in flight. -/
def ShedJustified (c : WinCfg) (h : Hist) (cpuOver : Bool) : Prop :=
  (cpuOver = true ∨ h.hot = true) ∧ 10 * (h.inFlight : Rat) > capacity c h.passes h.now

/-- clause 2: the situation in which Allow must shed. -/
def MustShed (c : WinCfg) (h : Hist) (cpuOver : Bool) : Prop :=
  cpuOver = true ∧ (h.inFlight : Rat) > capacity c h.passes h.now ∧ h.avg > capacity c h.passes h.now

/-! ### executable monitor (tolerant at float boundaries: relative 1e-9) -/

def tol : Rat := 1 / 1000000000

def rabs (x : Rat) : Rat := if x < 0 then -x else x

def rmax (a b : Rat) : Rat := if a < b then b else a

/-- `a` and `b` are indistinguishable for a float64 computation. -/
def near (a b : Rat) : Bool := decide (rabs (a - b) ≤ tol * rmax (rmax (rabs a) (rabs b)) 1)

/-- `none` = fine; `some msg` = the property fails on this Allow. `h` is the history *before* the Allow. -/
def checkAllow (c : WinCfg) (h : Hist) (cpuOver : Bool) (v : Verdict) : Option String :=
  let cap := capacity c h.passes h.now
  let fl : Rat := (h.inFlight : Rat)
  match v with
  | .overloaded =>
    if !(cpuOver || h.hot) then
      some s!"shed while the CPU verdict was below threshold and no shedding in progress within the last second (inProgress={h.inProgress} lastOver={h.lastOver} now={h.now})"
    else if h.inFlight ≤ 0 then
      some s!"shed with nothing in flight (admitted={h.admitted} resolved={h.resolved})"
    else if !(decide (10 * fl > cap) || near (10 * fl) cap) then
      some s!"shed with in-flight {h.inFlight} not above 10% of the capacity estimate {cap}"
    else none
  | .admitted =>
    if cpuOver && decide (fl > cap) && decide (h.avg > cap) && !near fl cap && !near h.avg cap then
      some s!"admitted although the CPU is overloaded and in-flight {h.inFlight} and its average {h.avg} exceed the capacity estimate {cap}"
    else none

end GoZero.C02.Spec
