/-
C12 — the public API layer of core/collection/timingwheel.go (core Lean only).

  SetTimer / MoveTimer / RemoveTimer / Drain   argument check, then `select` between handing the request
                                               to the run loop and the closed stopChannel
  Stop                                         close(stopChannel); the run loop stops the ticker and returns
  run                                          one request at a time: tick → onTick, set → setTask, …

The layer is generic in the timer mechanism `T` (the wheel model `TW` or the timer table `Spec.Table`), so
that the same text is the model of the code and the specification.
The run loop is single threaded and every channel is unbuffered: a public method returns `nil` exactly when
the loop has received the request, and the loop handles it before it receives the next one.  The model
therefore executes a request at the moment the method returns (the harness waits for the loop before it
observes).  Requests issued concurrently with `Stop` are not modelled (Go's `select` may pick either ready
case while the loop has not yet seen the close).
-/
import GoZero.C12.Spec
namespace GoZero.C12

/-- what a call of the public API returns. -/
inductive Res where
  | ok            -- error `nil`
  | errArgument   -- `ErrArgument`
  | errClosed     -- `ErrClosed`
  | unit          -- nothing to return (a tick delivered by the ticker, `Stop`)
  | panic         -- `Stop` on a stopped wheel: close of closed channel
  deriving Repr, DecidableEq

/-- calls of the public API (and ticks of the ticker).  `key = none` is Go's `nil` key, `delay` is the raw
`time.Duration` (any sign), in the unit of `interval`. -/
inductive Call where
  | setTimer (key : Option Nat) (value : Nat) (delay : Int)
  | moveTimer (key : Option Nat) (delay : Int)
  | removeTimer (key : Option Nat)
  | drain
  | tick
  | stop
  deriving Repr, DecidableEq

structure ApiG (T : Type) where
  interval    : Nat
  inner       : T
  stopped     : Bool
  tickerStops : Nat       -- calls of `ticker.Stop()` so far
  deriving Repr

abbrev TStep (T : Type) := T → Op → T × List (Nat × Nat)

/-- the guard `delay <= 0 || key == nil` of SetTimer and MoveTimer. -/
def badDelayKey (delay : Int) (keyNil : Bool) : Bool := decide (delay ≤ 0) || keyNil

/-- the guard `interval <= 0 || numSlots <= 0 || execute == nil` of NewTimingWheel. -/
def badCtor (interval numSlots : Int) (execNil : Bool) : Bool :=
  decide (interval ≤ 0) || decide (numSlots ≤ 0) || execNil

/-- `select { case tw.xChannel <- req: return nil; case <-tw.stopChannel: return ErrClosed }` followed by the
run loop's handler for the request. -/
def ApiG.submit {T : Type} (ts : TStep T) (a : ApiG T) (op : Op) : ApiG T × Res × List (Nat × Nat) :=
  if a.stopped then (a, .errClosed, [])
  else ({ a with inner := (ts a.inner op).1 }, .ok, (ts a.inner op).2)

/-- `steps = int(d / interval)` for a positive delay. -/
def stepsOf (interval : Nat) (delay : Int) : Nat := delay.toNat / interval

def ApiG.step {T : Type} (ts : TStep T) (a : ApiG T) : Call → ApiG T × Res × List (Nat × Nat)
  | .setTimer key v d =>
      if badDelayKey d key.isNone then (a, .errArgument, [])
      else match key with
        | some k => a.submit ts (.set k v (stepsOf a.interval d))
        | none => (a, .errArgument, [])
  | .moveTimer key d =>
      if badDelayKey d key.isNone then (a, .errArgument, [])
      else match key with
        | some k => a.submit ts (.move k (stepsOf a.interval d))
        | none => (a, .errArgument, [])
  | .removeTimer key =>
      match key with
      | some k => a.submit ts (.remove k)
      | none => (a, .errArgument, [])
  | .drain => a.submit ts .drain
  | .tick =>
      -- after Stop the run loop has returned: nobody receives from the ticker any more
      if a.stopped then (a, .unit, [])
      else ({ a with inner := (ts a.inner .tick).1 }, .unit, (ts a.inner .tick).2)
  | .stop =>
      if a.stopped then (a, .panic, [])
      else ({ a with stopped := true, tickerStops := a.tickerStops + 1 }, .unit, [])

def ApiG.run {T : Type} (ts : TStep T) (a : ApiG T) : List Call → List (Res × List (Nat × Nat))
  | [] => []
  | c :: cs => (a.step ts c).2 :: ApiG.run ts (a.step ts c).1 cs

/-- the model of the code: the API over the wheel. -/
abbrev Api := ApiG TW

/-- `NewTimingWheelWithTicker(interval, numSlots, execute, ticker)`. -/
def Api.init (interval n : Nat) : Api :=
  { interval := interval, inner := TW.init n, stopped := false, tickerStops := 0 }

def Api.step (a : Api) (c : Call) := ApiG.step GoZero.C12.step a c
def Api.run (a : Api) (cs : List Call) := ApiG.run GoZero.C12.step a cs

/-- the specification: the same API over the timer table. -/
abbrev Spec.Api := ApiG Spec.Table

def Spec.Api.init (interval : Nat) : Spec.Api :=
  { interval := interval, inner := [], stopped := false, tickerStops := 0 }

def Spec.Api.step (a : Spec.Api) (c : Call) := ApiG.step Spec.step a c
def Spec.Api.run (a : Spec.Api) (cs : List Call) := ApiG.run Spec.step a cs

end GoZero.C12
