/-
C12 — the cache client over the wheel model refines the cache client over the timer table (lemmas for
PropsSched.lean; uses the refinement lemmas of ProofsClients.lean).
-/
import GoZero.C12.ProofsSched
import GoZero.C12.ProofsClients
namespace GoZero.C12

/-- the same client over the wheel model (fuel: the number of live entries bounds what one tick fires). -/
def cacheStepW (st : Api × CacheL) (op : COp) : Api × CacheL :=
  ((ApiG.settle step cacheLCb (st.1.inner.entries.length + 1) (ApiG.issue step 0 st.1 (st.2.client op).2).1
      (st.2.client op).1 (ApiG.issue step 0 st.1 (st.2.client op).2).2.1).api,
   (ApiG.settle step cacheLCb (st.1.inner.entries.length + 1) (ApiG.issue step 0 st.1 (st.2.client op).2).1
      (st.2.client op).1 (ApiG.issue step 0 st.1 (st.2.client op).2).2.1).cb)

theorem cacheStepW_refines (st : Api × CacheL) (h : WF st.1.inner) (op : COp) :
    WF (cacheStepW st op).1.inner
    ∧ (absApi (cacheStepW st op).1, (cacheStepW st op).2) = cacheStep (absApi st.1, st.2) op := by
  have hi := issue_refines 0 (st.2.client op).2 st.1 h
  have hq := settle_refines cacheLCb (st.1.inner.entries.length + 1) (ApiG.issue step 0 st.1 (st.2.client op).2).1
    (st.2.client op).1 (ApiG.issue step 0 st.1 (st.2.client op).2).2.1 hi.1
  have hlen : (absApi st.1).inner.length = st.1.inner.entries.length := by simp [absApi, abs]
  refine ⟨hq.1, ?_⟩
  simp only [cacheStepW, cacheStep, hlen]
  rw [← hi.2.1, ← hi.2.2, hq.2.1, hq.2.2.1]

theorem cacheRunW_refines : ∀ (ops : List COp) (st : Api × CacheL), WF st.1.inner →
    WF (ops.foldl cacheStepW st).1.inner
    ∧ (absApi (ops.foldl cacheStepW st).1, (ops.foldl cacheStepW st).2) = ops.foldl cacheStep (absApi st.1, st.2) := by
  intro ops
  induction ops with
  | nil => intro st h; exact ⟨h, rfl⟩
  | cons op rest ih =>
    intro st h
    have h1 := cacheStepW_refines st h op
    have h2 := ih (cacheStepW st op) h1.1
    simp only [List.foldl_cons]
    rw [← h1.2]
    exact h2

end GoZero.C12
