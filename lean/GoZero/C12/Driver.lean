/-
C12 — driver: replays an implementation trace through the model (correspondence) and the spec (monitor).

Section cfg:  n=<slots> interval=<ticks unit> mode=api|wb|ctor tk=sync|fake
  mode=api   the real TimingWheel through its public API (NewTimingWheelWithTicker + a harness ticker:
             tk=sync an unbuffered ticker, tk=fake timex.NewFakeTicker)
  mode=wb    the run loop is stopped and its handlers setTask/moveTask/removeTask/onTick/drainAll are called
             directly (a panic inside them is then an observation instead of a crashed process)
  mode=ctor  NewTimingWheel's argument check
Ops:  set <k|nil> <v> <d> | move <k|nil> <d> | remove <k|nil> | tick | drain | stop     (d in the unit of `interval`)
      new <interval> <slots> <execute-is-nil 0|1>                                         (mode=ctor)
      arm <k> set <k2> <v> <d> | arm <k> move <k2> <d> | arm <k> remove <k2>   (mode=api) one-shot script: the
          next callback (execute or Drain) that runs for key k issues that call on the wheel from inside the callback;
          the observation of the operation that fired it then also carries `in<k>=ok|err=…` (sorted by key, then text:
          callbacks of one operation run concurrently)
      mode=cleaner (core/stores/cache/cleaner.go on a wheel with a harness ticker):
          add <id> <f|s…> (AddCleanTask; the task's outcomes: f = returns an error) | tick | drain (the shutdown listener)
          fired tokens are `id:delay` (the delayTask.delay handed to `clean`)
      mode=cache (core/collection/cache.go, its wheel on a harness ticker, jitter off):
          cset <k> <v> <expire> | cput <k> <v> (Set: the cache's own expire= of the cfg) | cdel <k> | tick     observation: fired `k:v` tokens, then has=<keys in data>
Obs:  sorted `k:v` tokens handed to the execute/drain callback by that operation | err=argument | err=closed |
      stopped <ticker.Stop calls> | undelivered (tick after Stop) | PANIC … | bad-op | ok | err
-/
import GoZero.Base.Trace
import GoZero.C12.Clients
namespace GoZero.C12

open GoZero

def parseKey (s : String) : Option (Option Nat) :=
  if s = "nil" then some none else s.toNat?.map some

def parseCall : List String → Option Call
  | ["set", k, v, d] => do pure (.setTimer (← parseKey k) (← v.toNat?) (← d.toInt?))
  | ["move", k, d] => do pure (.moveTimer (← parseKey k) (← d.toInt?))
  | ["remove", k] => do pure (.removeTimer (← parseKey k))
  | ["tick"] => some .tick
  | ["drain"] => some .drain
  | ["stop"] => some .stop
  | _ => none

def insertPair (x : Nat × Nat) : List (Nat × Nat) → List (Nat × Nat)
  | [] => [x]
  | y :: ys => if x.1 < y.1 ∨ (x.1 = y.1 ∧ x.2 ≤ y.2) then x :: y :: ys else y :: insertPair x ys

def canon (l : List (Nat × Nat)) : String :=
  joinSp ((l.foldr insertPair []).map fun (k, v) => s!"{k}:{v}")

/-- the observation the harness prints for a call, from the result and the state after it. -/
def render {T : Type} (c : Call) (pre post : ApiG T) (out : Res × List (Nat × Nat)) : String :=
  match out.1 with
  | .errArgument => "err=argument"
  | .errClosed => "err=closed"
  | .panic => "PANIC close of closed channel"
  | .ok => canon out.2
  | .unit =>
    match c with
    | .stop => s!"stopped {post.tickerStops}"
    | .tick => if pre.stopped then "undelivered" else canon out.2
    | _ => canon out.2

/-- calls the white-box mode cannot express (it bypasses the argument checks and has no running loop). -/
def wbUnsupported : Call → Bool
  | .setTimer key _ d => badDelayKey d key.isNone
  | .moveTimer key d => badDelayKey d key.isNone
  | .removeTimer key => key.isNone
  | .stop => true
  | _ => false

/-- the request the run loop handles for an accepted call. -/
def opOf (iv : Nat) : Call → Option Op
  | .setTimer (some k) v d => if d ≤ 0 then none else some (.set k v (stepsOf iv d))
  | .moveTimer (some k) d => if d ≤ 0 then none else some (.move k (stepsOf iv d))
  | .removeTimer (some k) => some (.remove k)
  | .drain => some .drain
  | .tick => some .tick
  | _ => none

/-- auxiliary bookkeeping for the cover counters only (not part of the model): entries flagged `removed`
that are still parked in a slot, and keys whose entry was carried to another slot by a tick. -/
structure Aux where
  ghosts    : List (Nat × Nat) := []     -- (key, slot)
  relocated : List Nat := []

def branchOf (tw : TW) (aux : Aux) (op : Op) : List String :=
  match op with
  | .set k _ s0 =>
    let s := if s0 = 0 then 1 else s0
    let sub := if s0 = 0 then ["set-below-interval"] else []
    sub ++
    (if hasKey tw k then
      match tw.entries.find? (·.key = k) with
      | some e =>
        let extra :=
          (if e.diff > 0 then ["retime-pending-diff"] else []) ++
          (if e.circle > 0 then ["retime-pending-circle"] else []) ++
          (if (posCircle tw.n tw.tickedPos s).1 = e.slot then
             (if e.diff > 0 then ["retime-same-slot-pending-diff"] else ["retime-same-slot"]) else []) ++
          (if aux.relocated.contains k then ["retime-after-relocate"] else []) ++
          (if s > tw.n then ["retime-multirev"] else []) ++
          (if s ≥ 2147483647 then ["delay-beyond-32-bits"] else [])
        (match moveCase tw.n tw.tickedPos e.slot s with
          | .keep _ _ => if e.slot ≤ tw.tickedPos then "set-existing-keep-wrapped" else "set-existing-keep"
          | .reinsert _ => "set-existing-reinsert") :: extra
      | none => ["set-new"]
    else
      (if s > tw.n then "set-new-multirev" else "set-new") ::
        ((if aux.ghosts.any (·.1 = k) then ["set-new-ghost-parked"] else []) ++
         (if s ≥ 2147483647 then ["delay-beyond-32-bits"] else [])))
  | .move k s =>
    if s = 0 then [if hasKey tw k then "move-immediate" else "move-immediate-absent"] else
    match tw.entries.find? (·.key = k) with
    | some e =>
      let w := if e.slot ≤ tw.tickedPos then "-oldwrapped" else ""
      let pw := if (posCircle tw.n tw.tickedPos s).1 ≤ tw.tickedPos then "-newwrapped" else ""
      let extra :=
        (if e.diff > 0 then ["retime-pending-diff"] else []) ++
        (if e.circle > 0 then ["retime-pending-circle"] else []) ++
        (if (posCircle tw.n tw.tickedPos s).1 = e.slot then
           (if e.diff > 0 then ["retime-same-slot-pending-diff"] else ["retime-same-slot"]) else []) ++
        (if aux.relocated.contains k then ["retime-after-relocate"] else []) ++
        (if s > tw.n then ["retime-multirev"] else []) ++
        (if s ≥ 2147483647 then ["delay-beyond-32-bits"] else []) ++
        (if e.circle ≥ 2147483647 / tw.n then ["retime-from-beyond-32-bits"] else [])
      (match moveCase tw.n tw.tickedPos e.slot s with
        | .keep c _ => (if c = (posCircle tw.n tw.tickedPos s).2 then "move-keep" else "move-keep-circle-1") ++ w ++ pw
        | .reinsert _ => "move-reinsert" ++ w ++ pw) :: extra
    | none => ["move-absent"]
  | .remove k =>
    if hasKey tw k then
      "remove" :: (match tw.entries.find? (·.key = k) with
        | some e => if e.diff > 0 ∨ e.circle > 0 then ["remove-lazy-pending"] else []
        | none => [])
    else ["remove-absent"]
  | .tick =>
    let pos := (tw.tickedPos + 1) % tw.n
    let scanned := tw.entries.filter (·.slot = pos)
    let g := aux.ghosts.filter (·.2 = pos)
    "tick" ::
      ((if scanned.any (·.circle > 0) then ["scan-circle-dec"] else []) ++
       (if scanned.any (fun e => e.circle = 0 ∧ e.diff > 0) then ["scan-relocate"] else []) ++
       (if scanned.any (fun e => e.circle > 0 ∧ e.diff > 0) then ["scan-circle-dec-with-diff"] else []) ++
       (if (scanned.filter (fun e => e.circle = 0 ∧ e.diff = 0)).length ≥ 2 then ["scan-fire-many"] else []) ++
       (if g.length > 0 then ["scan-ghost"] else []) ++
       (if g.any (fun x => hasKey tw x.1) then ["scan-ghost-key-live"] else []) ++
       (if pos = 0 then ["tick-wrap"] else []))
  | .drain =>
    if tw.entries.isEmpty then ["drain-empty"] else
      "drain" :: ((if tw.entries.any (fun e => e.diff > 0 ∨ e.circle > 0) then ["drain-lazy-pending"] else []) ++
                  (if aux.ghosts.length > 0 then ["drain-ghost-parked"] else []))

def auxStep (tw : TW) (aux : Aux) (op : Op) : Aux :=
  match op with
  | .set k _ s0 =>
    let s := if s0 = 0 then 1 else s0
    match tw.entries.find? (·.key = k) with
    | some e => match moveCase tw.n tw.tickedPos e.slot s with
      | .keep _ _ => aux
      | .reinsert _ => { ghosts := (k, e.slot) :: aux.ghosts, relocated := aux.relocated.filter (· ≠ k) }
    | none => { aux with relocated := aux.relocated.filter (· ≠ k) }
  | .move k s =>
    if s = 0 then aux else
    match tw.entries.find? (·.key = k) with
    | some e => match moveCase tw.n tw.tickedPos e.slot s with
      | .keep _ _ => aux
      | .reinsert _ => { ghosts := (k, e.slot) :: aux.ghosts, relocated := aux.relocated.filter (· ≠ k) }
    | none => aux
  | .remove k =>
    match tw.entries.find? (·.key = k) with
    | some e => { ghosts := (k, e.slot) :: aux.ghosts, relocated := aux.relocated.filter (· ≠ k) }
    | none => aux
  | .tick =>
    let pos := (tw.tickedPos + 1) % tw.n
    let moved := (tw.entries.filter (fun e => e.slot = pos ∧ e.circle = 0 ∧ e.diff > 0)).map (·.key)
    let fired := (tw.entries.filter (fun e => e.slot = pos ∧ e.circle = 0 ∧ e.diff = 0)).map (·.key)
    { ghosts := aux.ghosts.filter (·.2 ≠ pos),
      relocated := moved ++ aux.relocated.filter (fun k => !fired.contains k) }
  | .drain => {}

def apiCover {T : Type} (a : ApiG T) (c : Call) (out : Res × List (Nat × Nat)) : List String :=
  match out.1 with
  | .errArgument =>
    (match c with
     | .setTimer key _ d => (if key.isNone then ["api-nil-key"] else []) ++ (if d ≤ 0 then ["api-delay-nonpositive"] else [])
     | .moveTimer key d => (if key.isNone then ["api-nil-key"] else []) ++ (if d ≤ 0 then ["api-delay-nonpositive"] else [])
     | _ => ["api-nil-key"]) ++ (if a.stopped then ["api-bad-argument-after-stop"] else [])
  | .errClosed => ["api-closed"]
  | .panic => ["api-stop-twice"]
  | .unit => (match c with
     | .stop => ["api-stop"]
     | .tick => if a.stopped then ["api-tick-after-stop"] else []
     | _ => [])
  | .ok => []

/-- callback state of the driver: the scripts of mode=api, the clean tasks' outcomes, the cache's keys. -/
structure DS where
  arms     : List Arm := []
  outcomes : Outcomes := []
  present  : List Nat := []

def drvCb (mode : String) : Cb DS := fun s k v =>
  if mode = "cleaner" then ({ s with outcomes := (cleanerCb s.outcomes k v).1 }, (cleanerCb s.outcomes k v).2)
  else if mode = "cache" then ({ s with present := (cacheCb s.present k v).1 }, (cacheCb s.present k v).2)
  else ({ s with arms := (armCb s.arms k v).1 }, (armCb s.arms k v).2)

def parseOutcomes (s : String) : Option (List Bool) :=
  s.toList.mapM fun ch => if ch = 'f' then some true else if ch = 's' then some false else none

/-- a trace line: a call (with what the client does to its own state before it), or a script registration. -/
inductive Line where
  | call (c : Call) (upd : DS → DS)
  | arm (a : Arm)

def parseLine (mode : String) (expire : Int) (op : List String) : Option Line :=
  if mode = "cleaner" then
    match op with
    | ["add", id, oc] => do
      let k ← id.toNat?
      let o ← parseOutcomes oc
      pure (.call (addCleanTask k) fun s => { s with outcomes := s.outcomes ++ [(k, o)] })
    | ["tick"] => some (.call .tick id)
    | ["drain"] => some (.call .drain id)
    | _ => none
  else if mode = "cache" then
    match op with
    | ["cset", k, v, e] => do
      let k ← k.toNat?
      pure (.call (.setTimer (some k) (← v.toNat?) (← e.toInt?))
        fun s => { s with present := if s.present.contains k then s.present else s.present ++ [k] })
    | ["cput", k, v] => do
      let k ← k.toNat?
      pure (.call (.setTimer (some k) (← v.toNat?) expire)
        fun s => { s with present := if s.present.contains k then s.present else s.present ++ [k] })
    | ["cdel", k] => do
      let k ← k.toNat?
      pure (.call (.removeTimer (some k)) fun s => { s with present := s.present.filter (· ≠ k) })
    | ["tick"] => some (.call .tick id)
    | _ => none
  else
    match op with
    | "arm" :: k :: rest => do
      let k ← k.toNat?
      let c ← parseCall rest
      match c with
      | .setTimer _ _ _ | .moveTimer _ _ | .removeTimer _ => pure (.arm ⟨k, [c]⟩)
      | _ => none
    | _ => (parseCall op).map fun c => .call c id

def insertNat (x : Nat) : List Nat → List Nat
  | [] => [x]
  | y :: ys => if x ≤ y then x :: y :: ys else y :: insertNat x ys

def resStr : Res → String
  | .ok => "ok"
  | .errArgument => "err=argument"
  | .errClosed => "err=closed"
  | .unit => "unit"
  | .panic => "panic"

def insertInner (x : Inner) : List Inner → List Inner
  | [] => [x]
  | y :: ys => if x.1 < y.1 ∨ (x.1 = y.1 ∧ resStr x.2.2 ≤ resStr y.2.2) then x :: y :: ys else y :: insertInner x ys

/-- observation of one line from the model's / the spec's result. -/
def renderCb {T : Type} (mode : String) (c : Call) (pre post : ApiG T) (res : Res) (q : Settled T DS) : String :=
  let base :=
    if mode = "api" ∨ mode = "wb" then render c pre post (res, q.fired) else canon q.fired
  let inner :=
    if mode = "api" then (q.inner.foldr insertInner []).map fun x => s!"in{x.1}={resStr x.2.2}" else []
  let has :=
    if mode = "cache" then
      ["has=" ++ (if q.cb.present.isEmpty then "-" else
        ",".intercalate ((q.cb.present.foldr insertNat []).map toString))]
    else []
  let fuel := if q.left.isEmpty then [] else ["FUEL"]
  joinSp ((if base = "" then [] else [base]) ++ inner ++ has ++ fuel)

def innerCover (mode : String) (c : Call) (stepsIv : Nat) {T : Type} (q : Settled T DS) : List String :=
  (q.inner.map fun x =>
    let own := match x.2.1 with
      | .setTimer (some k) _ _ => if k = x.1 then "-own-key" else "-other-key"
      | .moveTimer (some k) _ => if k = x.1 then "-own-key" else "-other-key"
      | .removeTimer (some k) => if k = x.1 then "-own-key" else "-other-key"
      | _ => ""
    let kind := match x.2.1 with
      | .setTimer _ _ d =>
        if mode = "cleaner" then s!"cleaner-retry-after-{(stepsOf stepsIv d)}s" else "inner-set" ++ own
      | .moveTimer _ _ => "inner-move" ++ own
      | .removeTimer _ => if mode = "cache" then "cache-expiry-callback" else "inner-remove" ++ own
      | _ => "inner-other"
    kind) ++
  (if q.inner.isEmpty then [] else
    [match c with
     | .drain => "inner-call-from-drain-callback"
     | .tick => "inner-call-from-tick-callback"
     | .moveTimer _ _ => "inner-call-from-immediate-move-callback"
     | _ => "inner-call-from-other"]) ++
  (if q.inner.length ≥ 2 then ["inner-calls-2+-in-one-op"] else [])


/-! ### which clause of the property a difference between the specification's and the code's observation breaks -/

def pairToks (s : String) : List (Nat × String) :=
  (s.splitOn " ").filterMap fun t =>
    match t.splitOn ":" with
    | [k, v] => k.toNat?.map fun k => (k, v)     -- the value may be `<nil>` (a dropped value)
    | _ => none

def otherToks (s : String) : List String :=
  (s.splitOn " ").filter fun t => t != "" && (match t.splitOn ":" with
    | [k, _] => !k.toNat?.isSome
    | _ => true)

/-- the clause of C12 (or of its client-side reading) that `spec ≠ impl` breaks, for the monitor message. -/
def clauseOf (spec impl : String) (op : List String) : String :=
  let sp := pairToks spec
  let ip := pairToks impl
  let drain := op.head? = some "drain"
  if sp ≠ ip then
    let keysS := sp.map (·.1)
    let keysI := ip.map (·.1)
    if ip.any (fun x => keysS.count x.1 ≥ 1 ∧ keysI.count x.1 > keysS.count x.1) then
      (if drain then "Drain delivers each pending timer exactly ONCE" else "a timer fires exactly ONCE") ++ " (delivered more often than it was due)"
    else if ip.any (fun x => ¬ keysS.contains x.1) then
      (if drain then "Drain delivers the PENDING timers (a removed / fired / never set key was delivered)"
       else "a timer fires at its due tick and at NO OTHER tick; a removed timer never fires (fired although not due)")
    else if sp.any (fun x => ¬ keysI.contains x.1) ∨ keysS.length ≠ keysI.length then
      (if drain then "Drain delivers EACH pending timer (one is missing)"
       else "a timer fires at the floor(d/interval)-th tick after the most recent set or move (due, not fired)")
    else "a timer fires carrying the MOST RECENTLY SET VALUE (right key and tick, wrong value)"
  else
    let io := otherToks impl
    let so := otherToks spec
    if io.any (·.startsWith "detached=") then
      "most recent set/move/remove of a key = the client's program order: a request was still in flight when the operation that issued it returned"
    else if io.any (·.startsWith "STALLED") ∨ io.any (·.startsWith "TIMEOUT") ∨ io.any (·.startsWith "BLOCKED") then
      "every pending timer is delivered (the run loop / a public method no longer makes progress)"
    else if (io.filter (·.startsWith "rq=")) ≠ (so.filter (·.startsWith "rq=")) then
      "the requests an operation issues on the wheel (method, key, value, delay, order) decide which set/move/remove is the most recent"
    else if (io.filter (·.startsWith "has=")) ≠ (so.filter (·.startsWith "has=")) then
      "client: an entry is present exactly while its timer is pending (cache_entry_iff_pending_timer)"
    else if io.any (·.startsWith "err") ∨ so.any (·.startsWith "err") ∨ io.any (·.startsWith "PANIC") ∨ so.any (·.startsWith "PANIC") ∨ so.any (·.startsWith "stopped") then
      "API table: which calls are accepted / rejected / closed (api_validation_table, stop_then_silent)"
    else "callbacks: what is handed to / issued by a callback (held, inner calls, take/get results)"

def runCtor (r : Report) (s : Section) : Report := Id.run do
  let mut r := r
  for l in s.lines do
    match l.op with
    | ["new", iv, n, en] =>
      match iv.toInt?, n.toInt?, en.toNat? with
      | some iv, some n, some en =>
        r := { r with ops := r.ops + 1 }
        let bad := badCtor iv n (en ≠ 0)
        r := r.addCover (if bad then "ctor-rejected" else "ctor-accepted")
        let want := if bad then "err" else "ok"
        let impl := joinSp l.obs
        if want ≠ impl then
          r := r.mismatch s.idx l.idx want impl
          r := r.violation s.idx l.idx s!"spec=[{want}] impl=[{impl}] op=[{joinSp l.op}] clause=[NewTimingWheel rejects interval <= 0, numSlots <= 0, execute == nil]"
      | _, _, _ => r := r.mismatch s.idx l.idx "bad-op" (joinSp l.op)
    | _ => r := r.mismatch s.idx l.idx "bad-op" (joinSp l.op)
  return r


/-! ### mode=sched: the harness is the run loop (see the harness file); clients: the wheel's public API with
callbacks that stay inside the callback (hold / release), and the real Cache with WithLimit / Get / Take. -/

structure SchedSt where
  cache  : CacheL
  armed  : List Nat := []
  active : List Nat := []
  acc    : List (Nat × Nat) := []
  cleaner  : Bool := false      -- client=cleaner: the callback is cleaner.go's `clean`
  outcomes : Outcomes := []
  gx     : List Nat := []       -- keys whose next callback calls runtime.Goexit (`boom k goexit`)
  late   : List String := []    -- requests of the callbacks of an `ltick`, received during the next operation

def rqTok : Call → String
  | .setTimer (some k) v d => s!"set:{k}:{v}:{d}"
  | .moveTimer (some k) d => s!"move:{k}:{d}"
  | .removeTimer (some k) => s!"remove:{k}"
  | .drain => "drain"
  | _ => "?"

def insertStr (x : String) : List String → List String
  | [] => [x]
  | y :: ys => if x ≤ y then x :: y :: ys else y :: insertStr x ys

inductive SOp where
  | hold (k : Nat)
  | release (k : Nat)
  | boomGx (k : Nat)    -- the next callback of k calls runtime.Goexit: in a tick the goroutine of the whole batch ends there
  | boom (k : Nat)      -- the next callback of k panics: recovered by RunSafe / GoSafe / the task runner, nothing else changes
  | calls (cs : List Call) (res : List String) (sortRq : Bool) (cache' : CacheL)
  | add (k : Nat) (o : List Bool)     -- client=cleaner: AddCleanTask with a task of these outcomes
  | ltick

def parseFetch (s : String) : Option (Fetch × String) :=
  if s = "ok" then some (.ok, "fresh") else if s = "err" ∨ s = "tnil" then some (.err, "err")
  else if s = "panic" ∨ s = "panicerr" then some (.noReturn, "panic")
  else if s = "goexit" then some (.noReturn, "goexit") else none

def parseSched (isCache : Bool) (c : CacheL) : List String → Option SOp
  | ["hold", k] => k.toNat?.map .hold
  | ["release", k] => k.toNat?.map .release
  | ["boom", k, kind] => if kind = "err" ∨ kind = "str" then k.toNat?.map .boom
      else if kind = "goexit" then k.toNat?.map .boomGx else none
  | ["tick"] => some (.calls [.tick] [] true c)
  | ["ltick"] => some .ltick
  | ["add", id, oc] => do pure (.add (← id.toNat?) (← parseOutcomes oc))
  | op =>
    if isCache then
      match op with
      | ["cset", k, v, e] => do
        let x := c.setWithExpire (← k.toNat?) (← v.toNat?) (← e.toInt?)
        pure (.calls x.2 [] false x.1)
      | ["cput", k, v] => do
        let x := c.set (← k.toNat?) (← v.toNat?)
        pure (.calls x.2 [] false x.1)
      | ["cdel", k] => do
        let x := c.del (← k.toNat?)
        pure (.calls x.2 [] false x.1)
      | ["cget", k] => do
        let x := c.doGet (← k.toNat?)
        pure (.calls x.2.1 [match x.2.2 with | some v => s!"get={v}" | none => "get=miss"] false x.1)
      | ["ctake", k, v, f] => do
        let k ← k.toNat?
        let fo ← parseFetch f
        let x := c.take k (← v.toNat?) fo.1
        let tok := match c.lookup k with
          | some v => s!"take=hit:{v}"
          | none => match x.2.2 with
            | some v => s!"take=fresh:{v}"
            | none => "take=" ++ fo.2
        pure (.calls x.2.1 [tok] false x.1)
      | _ => none
    else
      match parseCall op with
      | some .stop => none
      | some .drain => some (.calls [.drain] [] true c)
      | some call => some (.calls [call] [] false c)
      | none => none

/-- the part of a tick's batch (in the order of the slot) that reaches its callback when the callbacks of `gx` call Goexit. -/
def cutAtGoexit (gx : List Nat) : List (Nat × Nat) → List (Nat × Nat)
  | [] => []
  | x :: xs => if gx.contains x.1 then [x] else x :: cutAtGoexit gx xs

/-- one line of a sched section over the wheel model or the timer table: new state and the observation. -/
def schedCalls {T : Type} (ts : TStep T) (isCache : Bool) (a : ApiG T) (st : SchedSt)
    (cs : List Call) (res : List String) (sortRq : Bool) (cache' : CacheL) : ApiG T × SchedSt × String × List (Nat × Nat) :=
  let i := ApiG.issue ts 0 a cs
  let cb : Cb (CacheL × Outcomes) := fun s k v =>
    if st.cleaner then ((s.1, (cleanerCb s.2 k v).1), (cleanerCb s.2 k v).2)
    else if isCache then (((cacheLCb s.1 k v).1, s.2), (cacheLCb s.1 k v).2) else (s, [])
  let q := ApiG.settle ts cb 1000000 i.1 (cache', st.outcomes) i.2.1
  let errs := if isCache || st.cleaner then [] else i.2.2.filterMap fun x =>
    match x.2.2 with
    | .errArgument => some "err=argument"
    | .errClosed => some "err=closed"
    | _ => none
  let okTok (x : Inner) : Option String :=
    if x.2.2 = .ok then (match x.2.1 with | .tick => none | c => some (rqTok c)) else none
  let rq := st.late ++ i.2.2.filterMap okTok ++ q.inner.filterMap okTok
  let rq := if sortRq then rq.foldr insertStr [] else rq
  -- runTasks walks the batch of a tick on ONE goroutine: a callback that calls Goexit ends it (Deliver.lean,
  -- goexit_loses_the_rest_of_its_tick); Drain and the immediate MoveTimer run every callback on a goroutine of its own
  let fired := if cs = [.tick] then cutAtGoexit st.gx q.fired else q.fired
  let armedFired := st.armed.filter fun k => fired.any (·.1 = k)
  let active := st.active ++ armedFired
  let acc := st.acc ++ fired
  let out := if active.isEmpty then (if acc.isEmpty then [] else [canon acc]) else ["held"]
  let has := if isCache then
      ["has=" ++ (if q.cb.1.data.isEmpty then "-" else ",".intercalate (((q.cb.1.data.map (·.1)).foldr insertNat []).map toString))]
    else []
  let fuel := if q.left.isEmpty then [] else ["FUEL"]
  let toks := res ++ errs ++ (if rq.isEmpty then [] else ["rq=" ++ ",".intercalate rq]) ++ out ++ has ++ fuel
  let armed' := st.armed.filter (fun k => !fired.any (·.1 = k))
  let gx' := st.gx.filter (fun k => !fired.any (·.1 = k))
  let acc' := if active.isEmpty then [] else acc
  let st' : SchedSt := { cache := q.cb.1, cleaner := st.cleaner, outcomes := q.cb.2, armed := armed', active := active,
                         gx := gx', acc := acc', late := [] }
  (q.api, st',
   (if toks.isEmpty then "-" else joinSp toks), fired)

def schedStep {T : Type} (ts : TStep T) (isCache : Bool) (a : ApiG T) (st : SchedSt) :
    SOp → ApiG T × SchedSt × String × List (Nat × Nat)
  | .hold k =>
    if st.active.isEmpty then (a, { st with armed := if st.armed.contains k then st.armed else st.armed ++ [k] }, "armed", [])
    else (a, st, "busy", [])
  | .boom k => (a, { st with gx := st.gx.filter (· ≠ k) }, "armed", [])    -- replaces an earlier `boom k goexit`
  | .boomGx k => (a, { st with gx := if st.gx.contains k then st.gx else st.gx ++ [k] }, "armed", [])
  | .release k =>
    schedCalls ts isCache a { st with armed := st.armed.filter (· ≠ k), active := st.active.filter (· ≠ k) } [] [] true st.cache
  | .calls cs res sortRq cache' => schedCalls ts isCache a st cs res sortRq cache'
  | .add k o => schedCalls ts isCache a { st with outcomes := st.outcomes ++ [(k, o)] } [addCleanTask k] [] false st.cache
  | .ltick =>
    -- the tick and its callbacks as in `tick`; the callbacks' requests are printed by the next operation, first
    -- (they were pending before it started), in the order the callbacks issued them
    let r := schedCalls ts isCache a st [.tick] [] true st.cache
    let q := ApiG.settle ts (if isCache then cacheLCb else fun c _ _ => (c, [])) 1000000 (ApiG.issue ts 0 a [.tick]).1 st.cache
      (ApiG.issue ts 0 a [.tick]).2.1
    let late := q.inner.filterMap fun x => if x.2.2 = .ok then some (rqTok x.2.1) else none
    (r.1, { r.2.1 with late := st.late ++ late, acc := [] }, joinSp ("lazy" :: (if r.2.2.2.isEmpty then [] else [canon r.2.2.2])), r.2.2.2)

def schedCover (isCache : Bool) (st : SchedSt) (op : List String) (sop : SOp) (fired : List (Nat × Nat))
    (after : SchedSt) (lastEvicted : Option Nat) : List String :=
  let evicts (cs : List Call) : Bool := match cs with
    | .removeTimer _ :: .setTimer _ _ _ :: _ => true
    | _ => false
  (match sop with
   | .hold _ => [if st.active.isEmpty then "sched-hold-armed" else "sched-hold-while-held"]
   | .boom _ => ["sched-callback-panics-" ++ op.getD 2 ""]
   | .boomGx _ => ["sched-callback-goexit-armed"]
   | .ltick => ["sched-lazy-tick-replay-only"]
   | .add _ o => ["sched-cleaner-add", if o.any id then "sched-cleaner-add-failing-task" else "sched-cleaner-add-task-that-succeeds"]
   | .release k =>
     (if st.active.contains k then ["sched-release-held"] else if st.armed.contains k then ["sched-release-armed-not-reached"] else ["sched-release-idle"]) ++
     (if st.active.contains k ∧ after.active.isEmpty ∧ st.acc.length ≥ 2 then ["sched-release-prints-2+"] else [])
   | .calls cs _ _ _ =>
     (if ¬ st.active.isEmpty then
        ["sched-op-while-callback-held"] ++
        (if op = ["tick"] ∧ fired.length ≥ 1 then ["sched-tick-fires-while-held"] else []) ++
        (if op = ["tick"] ∧ fired.length ≥ 2 then ["sched-tick-fires-2+-while-held"] else []) ++
        (if op = ["drain"] ∧ fired.length ≥ 1 then ["sched-drain-while-held"] else [])
      else []) ++
     (if op = ["tick"] ∧ after.gx.length < st.gx.length then
        ["sched-goexit-in-tick"] ++ (if (st.gx.length - after.gx.length) + 0 ≥ 1 ∧ fired.length ≥ 2 then ["sched-goexit-in-batch-of-2+-delivered"] else [])
      else []) ++
     (if op = ["drain"] ∧ after.gx.length < st.gx.length then ["sched-goexit-in-drain"] else []) ++
     (if st.active.isEmpty ∧ ¬ after.active.isEmpty then
        [if op = ["drain"] then "sched-drain-callback-held" else "sched-tick-callback-held"] ++
        (if fired.length ≥ 2 then ["sched-held-in-batch-of-2+"] else [])
      else []) ++
     (if after.active.length ≥ 8 then ["sched-held-8+-drain-workers-full"] else []) ++
     (if isCache then
        (if evicts cs then ["cache-lru-evicts-on-" ++ op.headD ""] else []) ++
        (match cs, lastEvicted with
         | [.setTimer (some k) _ _], some e => if k = e then ["cache-evicted-key-set-again-at-once"] else []
         | .removeTimer _ :: .setTimer (some k) _ _ :: _, some e => if k = e then ["cache-evicted-key-set-again-at-once"] else []
         | _, _ => []) ++
        (match cs with
         | [.removeTimer _, .removeTimer _] => ["cache-del-listed-key-two-removes"]
         | [.removeTimer _] => ["cache-del-one-remove"]
         | _ => []) ++
        (if op.headD "" = "cget" ∨ op.headD "" = "ctake" then
           [op.headD "" ++ (if (st.cache.lookup ((op.getD 1 "").toNat?.getD 0)).isSome then "-hit" else if op.headD "" = "cget" then "-miss" else "-miss-fetch-" ++ op.getD 3 "")] else []) ++
        (if op = ["tick"] ∧ fired.length ≥ 1 then [if st.cache.limit = 0 then "cache-expiry-no-limit" else "cache-expiry-with-limit"] else [])
      else
        (if cs.any (fun c => match c with | .setTimer none _ _ | .moveTimer none _ | .removeTimer none => true | _ => false) then ["sched-api-nil-key"] else [])))

def runSched (r : Report) (s : Section) : Report := Id.run do
  let isCache := kvStr s.cfg "client" "wheel" = "cache"
  let n := kvNat s.cfg "n" 1
  let interval := kvNat s.cfg "interval" 1
  let limit := (kvStr s.cfg "limit" "0").toInt?.getD 0
  let hasLimitOpt := (kvStr s.cfg "limit" "absent") ≠ "absent"
  let c0 := CacheL.init limit ((kvStr s.cfg "expire" "0").toInt?.getD 0)
  let mut a : Api := Api.init interval n
  let mut sp : Spec.Api := Spec.Api.init interval
  let isCleaner := kvStr s.cfg "client" "wheel" = "cleaner"
  let mut st : SchedSt := { cache := c0, cleaner := isCleaner }
  let mut stS : SchedSt := { cache := c0, cleaner := isCleaner }
  let mut lastEv : Option Nat := none
  let pri := (kvStr s.cfg "pri" "").splitOn ","
  let mut r := r.addCover (if isCache then "mode-sched-cache" else if isCleaner then "mode-sched-cleaner" else "mode-sched-wheel")
  if isCache then r := r.addCover (if limit > 0 then s!"cache-limit-{limit}" else if limit < 0 then "cache-WithLimit-negative"
    else if hasLimitOpt then "cache-WithLimit-0" else "cache-no-WithLimit")
  if isCache ∧ kvStr s.cfg "name" "" ≠ "" then r := r.addCover "cache-WithName"
  r := r.addCover (if pri.idxOf "set" < pri.idxOf "remove" then "sched-pri-set-before-remove" else "sched-pri-remove-before-set")
  for l in s.lines do
    match parseSched isCache st.cache l.op, parseSched isCache stS.cache l.op with
    | some sop, some sopS =>
      r := { r with ops := r.ops + 1 }
      let impl := joinSp l.obs
      let (a', st', m, fired) := schedStep step isCache a st sop
      let (sp', stS', sm, _) := schedStep Spec.step isCache sp stS sopS
      for cv in schedCover isCache st l.op sop fired st' lastEv do r := r.addCover cv
      match sop with
      | .calls (.removeTimer (some e) :: .setTimer _ _ _ :: _) _ _ _ => lastEv := some e
      | .calls _ _ _ _ => if l.op ≠ ["tick"] then lastEv := none
      | _ => pure ()
      if fired.length > 0 then r := r.addCover "fired" fired.length
      if m ≠ impl then r := r.mismatch s.idx l.idx m impl
      if sm ≠ impl then r := r.violation s.idx l.idx s!"spec=[{sm}] impl=[{impl}] op=[{joinSp l.op}] clause=[{clauseOf sm impl l.op}]"
      a := a'
      sp := sp'
      st := st'
      stS := stS'
    | _, _ => r := r.mismatch s.idx l.idx "bad-op" (joinSp l.op)
  return r

def runSection (r : Report) (s : Section) : Report := Id.run do
  let mode := kvStr s.cfg "mode" "api"
  if mode = "ctor" then return runCtor (r.addCover "mode-ctor") s
  if mode = "sched" then return runSched r s
  let n := kvNat s.cfg "n" 1
  let interval := kvNat s.cfg "interval" 1
  let wb := mode = "wb"
  let mut a : Api := Api.init interval n
  let mut sp : Spec.Api := Spec.Api.init interval
  let mut ds : DS := {}
  let mut dsS : DS := {}
  let mut aux : Aux := {}
  let mut r := r.addCover (if wb then "mode-wb" else if mode = "api" then "mode-api-" ++ kvStr s.cfg "tk" "sync" else "mode-" ++ mode)
  if kvNat s.cfg "long" 0 = 1 then r := r.addCover "long-run-section"
  let cb := drvCb mode
  let fuel := 1000000
  let mut maxLive := 0
  for l in s.lines do
    match parseLine mode ((kvStr s.cfg "expire" "0").toInt?.getD 0) l.op with
    | none => r := r.mismatch s.idx l.idx "bad-op" (joinSp l.op)
    | some (.arm arm) =>
      r := { r with ops := r.ops + 1 }
      r := r.addCover "arm"
      let impl := joinSp l.obs
      if wb then
        if impl ≠ "bad-op" then r := r.mismatch s.idx l.idx "bad-op" impl
      else
        if impl ≠ "armed" then r := r.mismatch s.idx l.idx "armed" impl
        ds := { ds with arms := ds.arms ++ [arm] }
        dsS := { dsS with arms := dsS.arms ++ [arm] }
    | some (.call c upd) =>
      r := { r with ops := r.ops + 1 }
      let impl := joinSp l.obs
      if wb && wbUnsupported c then
        if impl ≠ "bad-op" then r := r.mismatch s.idx l.idx "bad-op" impl
      else
        let (q, res) := ApiG.stepCb step cb fuel a (upd ds) c
        let (qs, sres) := ApiG.stepCb Spec.step cb fuel sp (upd dsS) c
        let out := (a.step c).2
        for cv in apiCover a c out do r := r.addCover cv
        if out.1 = .ok ∨ out.1 = .unit then
          match opOf interval c with
          | some op =>
            if ¬ a.stopped then
              for cv in branchOf a.inner aux op do r := r.addCover cv
              aux := auxStep a.inner aux op
          | none => pure ()
        for x in q.inner do
          if x.2.2 = .ok then
            match opOf interval x.2.1 with
            | some op => aux := auxStep a.inner aux op    -- bookkeeping only (approximate for inner calls)
            | none => pure ()
        for cv in innerCover mode c interval q do r := r.addCover cv
        if mode = "cleaner" then
          for kv in q.fired do
            r := r.addCover (if q.inner.any (·.1 = kv.1) then "cleaner-task-failed-rearmed"
              else if (nextDelay kv.2).2 then "cleaner-task-done" else "cleaner-task-done-or-gave-up-after-1h")
        if mode = "cache" then
          match c with
          | .setTimer (some k) _ d =>
            r := r.addCover (if d ≤ 0 then "cache-set-nonpositive-expire" else if hasKey a.inner k then "cache-set-pending-key" else "cache-set")
            if 0 < d ∧ d < interval then r := r.addCover "cache-set-expire-below-interval"
          | .removeTimer (some k) => r := r.addCover (if hasKey a.inner k then "cache-del-pending" else "cache-del-absent")
          | _ => pure ()
        if (q.fired.length > 0) then r := r.addCover "fired" q.fired.length
        let m := renderCb mode c a q.api res q
        let sm := renderCb mode c sp qs.api sres qs
        if m ≠ impl then r := r.mismatch s.idx l.idx m impl
        if sm ≠ impl then r := r.violation s.idx l.idx s!"spec=[{sm}] impl=[{impl}] op=[{joinSp l.op}] clause=[{clauseOf sm impl l.op}]"
        a := q.api
        sp := qs.api
        ds := q.cb
        dsS := qs.cb
        if a.inner.entries.length > maxLive then maxLive := a.inner.entries.length
  if maxLive ≥ 1000 then r := r.addCover "live-timers-1000+"
  if maxLive ≥ 10 then r := r.addCover "live-timers-10+"
  return r

def driver (secs : List Section) : Report := secs.foldl runSection {}

end GoZero.C12
