/-
C12 — driver: replays an implementation trace through the model (correspondence) and the spec (monitor).

Section cfg:  n=<slots> interval=<ticks unit> mode=api|wb|ctor tk=sync|fake
  mode=api   the real TimingWheel through its public API (NewTimingWheelWithTicker + a harness ticker:
             tk=sync an unbuffered ticker, tk=fake timex.NewFakeTicker)
  mode=wb    the run loop is stopped and its handlers setTask/moveTask/removeTask/onTick/drainAll are called
             directly (a panic inside them is then an observation instead of a crashed process)
  mode=ctor  NewTimingWheel's argument check
Ops:  set <k|nil> <v> <d> | move <k|nil> <d> | remove <k|nil> | tick | drain | stop     (d in the unit of `interval`)
      new <interval> <slots> <execute-is-nil 0|1>                                         (mode=ctor)
Obs:  sorted `k:v` tokens handed to the execute/drain callback by that operation | err=argument | err=closed |
      stopped <ticker.Stop calls> | undelivered (tick after Stop) | PANIC … | bad-op | ok | err
-/
import GoZero.Base.Trace
import GoZero.C12.Api
namespace GoZero.C12

open GoZero

def parseKey (s : String) : Option (Option Nat) :=
  if s = "nil" then some none else s.toNat?.map some

def parseCall : List String → Option Call
  | ["set", k, v, d] => do pure (.setTimer (← parseKey k) (← v.toNat?) (← d.toInt?))
  | ["move", k, d] => do pure (.moveTimer (← parseKey k) (← d.toInt?))
  | ["remove", k] => do pure (.removeTimer (← parseKey k))
  | ["tick"] => some .tick
  | ["drain"] => some .drain
  | ["stop"] => some .stop
  | _ => none

def insertPair (x : Nat × Nat) : List (Nat × Nat) → List (Nat × Nat)
  | [] => [x]
  | y :: ys => if x.1 < y.1 ∨ (x.1 = y.1 ∧ x.2 ≤ y.2) then x :: y :: ys else y :: insertPair x ys

def canon (l : List (Nat × Nat)) : String :=
  joinSp ((l.foldr insertPair []).map fun (k, v) => s!"{k}:{v}")

/-- the observation the harness prints for a call, from the result and the state after it. -/
def render {T : Type} (c : Call) (pre post : ApiG T) (out : Res × List (Nat × Nat)) : String :=
  match out.1 with
  | .errArgument => "err=argument"
  | .errClosed => "err=closed"
  | .panic => "PANIC close of closed channel"
  | .ok => canon out.2
  | .unit =>
    match c with
    | .stop => s!"stopped {post.tickerStops}"
    | .tick => if pre.stopped then "undelivered" else canon out.2
    | _ => canon out.2

/-- calls the white-box mode cannot express (it bypasses the argument checks and has no running loop). -/
def wbUnsupported : Call → Bool
  | .setTimer key _ d => badDelayKey d key.isNone
  | .moveTimer key d => badDelayKey d key.isNone
  | .removeTimer key => key.isNone
  | .stop => true
  | _ => false

/-- the request the run loop handles for an accepted call. -/
def opOf (iv : Nat) : Call → Option Op
  | .setTimer (some k) v d => if d ≤ 0 then none else some (.set k v (stepsOf iv d))
  | .moveTimer (some k) d => if d ≤ 0 then none else some (.move k (stepsOf iv d))
  | .removeTimer (some k) => some (.remove k)
  | .drain => some .drain
  | .tick => some .tick
  | _ => none

/-- auxiliary bookkeeping for the cover counters only (not part of the model): entries flagged `removed`
that are still parked in a slot, and keys whose entry was carried to another slot by a tick. -/
structure Aux where
  ghosts    : List (Nat × Nat) := []     -- (key, slot)
  relocated : List Nat := []

def branchOf (tw : TW) (aux : Aux) (op : Op) : List String :=
  match op with
  | .set k _ s0 =>
    let s := if s0 = 0 then 1 else s0
    let sub := if s0 = 0 then ["set-below-interval"] else []
    sub ++
    (if hasKey tw k then
      match tw.entries.find? (·.key = k) with
      | some e =>
        let extra :=
          (if e.diff > 0 then ["retime-pending-diff"] else []) ++
          (if e.circle > 0 then ["retime-pending-circle"] else []) ++
          (if (posCircle tw.n tw.tickedPos s).1 = e.slot then
             (if e.diff > 0 then ["retime-same-slot-pending-diff"] else ["retime-same-slot"]) else []) ++
          (if aux.relocated.contains k then ["retime-after-relocate"] else []) ++
          (if s > tw.n then ["retime-multirev"] else []) ++
          (if s ≥ 2147483647 then ["delay-beyond-32-bits"] else [])
        (match moveCase tw.n tw.tickedPos e.slot s with
          | .keep _ _ => if e.slot ≤ tw.tickedPos then "set-existing-keep-wrapped" else "set-existing-keep"
          | .reinsert _ => "set-existing-reinsert") :: extra
      | none => ["set-new"]
    else
      (if s > tw.n then "set-new-multirev" else "set-new") ::
        ((if aux.ghosts.any (·.1 = k) then ["set-new-ghost-parked"] else []) ++
         (if s ≥ 2147483647 then ["delay-beyond-32-bits"] else [])))
  | .move k s =>
    if s = 0 then [if hasKey tw k then "move-immediate" else "move-immediate-absent"] else
    match tw.entries.find? (·.key = k) with
    | some e =>
      let w := if e.slot ≤ tw.tickedPos then "-oldwrapped" else ""
      let pw := if (posCircle tw.n tw.tickedPos s).1 ≤ tw.tickedPos then "-newwrapped" else ""
      let extra :=
        (if e.diff > 0 then ["retime-pending-diff"] else []) ++
        (if e.circle > 0 then ["retime-pending-circle"] else []) ++
        (if (posCircle tw.n tw.tickedPos s).1 = e.slot then
           (if e.diff > 0 then ["retime-same-slot-pending-diff"] else ["retime-same-slot"]) else []) ++
        (if aux.relocated.contains k then ["retime-after-relocate"] else []) ++
        (if s > tw.n then ["retime-multirev"] else []) ++
        (if s ≥ 2147483647 then ["delay-beyond-32-bits"] else []) ++
        (if e.circle ≥ 2147483647 / tw.n then ["retime-from-beyond-32-bits"] else [])
      (match moveCase tw.n tw.tickedPos e.slot s with
        | .keep c _ => (if c = (posCircle tw.n tw.tickedPos s).2 then "move-keep" else "move-keep-circle-1") ++ w ++ pw
        | .reinsert _ => "move-reinsert" ++ w ++ pw) :: extra
    | none => ["move-absent"]
  | .remove k =>
    if hasKey tw k then
      "remove" :: (match tw.entries.find? (·.key = k) with
        | some e => if e.diff > 0 ∨ e.circle > 0 then ["remove-lazy-pending"] else []
        | none => [])
    else ["remove-absent"]
  | .tick =>
    let pos := (tw.tickedPos + 1) % tw.n
    let scanned := tw.entries.filter (·.slot = pos)
    let g := aux.ghosts.filter (·.2 = pos)
    "tick" ::
      ((if scanned.any (·.circle > 0) then ["scan-circle-dec"] else []) ++
       (if scanned.any (fun e => e.circle = 0 ∧ e.diff > 0) then ["scan-relocate"] else []) ++
       (if scanned.any (fun e => e.circle > 0 ∧ e.diff > 0) then ["scan-circle-dec-with-diff"] else []) ++
       (if (scanned.filter (fun e => e.circle = 0 ∧ e.diff = 0)).length ≥ 2 then ["scan-fire-many"] else []) ++
       (if g.length > 0 then ["scan-ghost"] else []) ++
       (if g.any (fun x => hasKey tw x.1) then ["scan-ghost-key-live"] else []) ++
       (if pos = 0 then ["tick-wrap"] else []))
  | .drain =>
    if tw.entries.isEmpty then ["drain-empty"] else
      "drain" :: ((if tw.entries.any (fun e => e.diff > 0 ∨ e.circle > 0) then ["drain-lazy-pending"] else []) ++
                  (if aux.ghosts.length > 0 then ["drain-ghost-parked"] else []))

def auxStep (tw : TW) (aux : Aux) (op : Op) : Aux :=
  match op with
  | .set k _ s0 =>
    let s := if s0 = 0 then 1 else s0
    match tw.entries.find? (·.key = k) with
    | some e => match moveCase tw.n tw.tickedPos e.slot s with
      | .keep _ _ => aux
      | .reinsert _ => { ghosts := (k, e.slot) :: aux.ghosts, relocated := aux.relocated.filter (· ≠ k) }
    | none => { aux with relocated := aux.relocated.filter (· ≠ k) }
  | .move k s =>
    if s = 0 then aux else
    match tw.entries.find? (·.key = k) with
    | some e => match moveCase tw.n tw.tickedPos e.slot s with
      | .keep _ _ => aux
      | .reinsert _ => { ghosts := (k, e.slot) :: aux.ghosts, relocated := aux.relocated.filter (· ≠ k) }
    | none => aux
  | .remove k =>
    match tw.entries.find? (·.key = k) with
    | some e => { ghosts := (k, e.slot) :: aux.ghosts, relocated := aux.relocated.filter (· ≠ k) }
    | none => aux
  | .tick =>
    let pos := (tw.tickedPos + 1) % tw.n
    let moved := (tw.entries.filter (fun e => e.slot = pos ∧ e.circle = 0 ∧ e.diff > 0)).map (·.key)
    let fired := (tw.entries.filter (fun e => e.slot = pos ∧ e.circle = 0 ∧ e.diff = 0)).map (·.key)
    { ghosts := aux.ghosts.filter (·.2 ≠ pos),
      relocated := moved ++ aux.relocated.filter (fun k => !fired.contains k) }
  | .drain => {}

def apiCover {T : Type} (a : ApiG T) (c : Call) (out : Res × List (Nat × Nat)) : List String :=
  match out.1 with
  | .errArgument =>
    (match c with
     | .setTimer key _ d => (if key.isNone then ["api-nil-key"] else []) ++ (if d ≤ 0 then ["api-delay-nonpositive"] else [])
     | .moveTimer key d => (if key.isNone then ["api-nil-key"] else []) ++ (if d ≤ 0 then ["api-delay-nonpositive"] else [])
     | _ => ["api-nil-key"]) ++ (if a.stopped then ["api-bad-argument-after-stop"] else [])
  | .errClosed => ["api-closed"]
  | .panic => ["api-stop-twice"]
  | .unit => (match c with
     | .stop => ["api-stop"]
     | .tick => if a.stopped then ["api-tick-after-stop"] else []
     | _ => [])
  | .ok => []

def runCtor (r : Report) (s : Section) : Report := Id.run do
  let mut r := r
  for l in s.lines do
    match l.op with
    | ["new", iv, n, en] =>
      match iv.toInt?, n.toInt?, en.toNat? with
      | some iv, some n, some en =>
        r := { r with ops := r.ops + 1 }
        let bad := badCtor iv n (en ≠ 0)
        r := r.addCover (if bad then "ctor-rejected" else "ctor-accepted")
        let want := if bad then "err" else "ok"
        let impl := joinSp l.obs
        if want ≠ impl then
          r := r.mismatch s.idx l.idx want impl
          r := r.violation s.idx l.idx s!"spec=[{want}] impl=[{impl}] op=[{joinSp l.op}]"
      | _, _, _ => r := r.mismatch s.idx l.idx "bad-op" (joinSp l.op)
    | _ => r := r.mismatch s.idx l.idx "bad-op" (joinSp l.op)
  return r

def runSection (r : Report) (s : Section) : Report := Id.run do
  let mode := kvStr s.cfg "mode" "api"
  if mode = "ctor" then return runCtor (r.addCover "mode-ctor") s
  let n := kvNat s.cfg "n" 1
  let interval := kvNat s.cfg "interval" 1
  let wb := mode = "wb"
  let mut a : Api := Api.init interval n
  let mut sp : Spec.Api := Spec.Api.init interval
  let mut aux : Aux := {}
  let mut r := r.addCover (if wb then "mode-wb" else "mode-api-" ++ kvStr s.cfg "tk" "sync")
  if kvNat s.cfg "long" 0 = 1 then r := r.addCover "long-run-section"
  let mut maxLive := 0
  for l in s.lines do
    match parseCall l.op with
    | none => r := r.mismatch s.idx l.idx "bad-op" (joinSp l.op)
    | some c =>
      r := { r with ops := r.ops + 1 }
      let impl := joinSp l.obs
      if wb && wbUnsupported c then
        if impl ≠ "bad-op" then r := r.mismatch s.idx l.idx "bad-op" impl
      else
        let (a', out) := a.step c
        let (sp', sout) := sp.step c
        for cv in apiCover a c out do r := r.addCover cv
        if out.1 = .ok ∨ out.1 = .unit then
          match opOf interval c with
          | some op =>
            if ¬ a.stopped then
              for cv in branchOf a.inner aux op do r := r.addCover cv
              aux := auxStep a.inner aux op
          | none => pure ()
        if (out.2.length > 0) then r := r.addCover "fired" out.2.length
        let m := render c a a' out
        let sm := render c sp sp' sout
        if m ≠ impl then r := r.mismatch s.idx l.idx m impl
        if sm ≠ impl then r := r.violation s.idx l.idx s!"spec=[{sm}] impl=[{impl}] op=[{joinSp l.op}]"
        a := a'
        sp := sp'
        if a.inner.entries.length > maxLive then maxLive := a.inner.entries.length
  if maxLive ≥ 1000 then r := r.addCover "live-timers-1000+"
  if maxLive ≥ 10 then r := r.addCover "live-timers-10+"
  return r

def driver (secs : List Section) : Report := secs.foldl runSection {}

end GoZero.C12
