/-
C12 — driver: replays an implementation trace through the model (correspondence) and the spec (monitor).
Ops:  set <k> <v> <d> | move <k> <d> | remove <k> | tick | drain      (d in the unit of cfg `interval`)
Obs:  sorted `k:v` tokens handed to the execute callback by that operation.
-/
import GoZero.Base.Trace
import GoZero.C12.Spec
namespace GoZero.C12

open GoZero

def parseOp (interval : Nat) : List String → Option Op
  | ["set", k, v, d] => do pure (.set (← k.toNat?) (← v.toNat?) ((← d.toNat?) / interval))
  | ["move", k, d] => do pure (.move (← k.toNat?) ((← d.toNat?) / interval))
  | ["remove", k] => do pure (.remove (← k.toNat?))
  | ["tick"] => some .tick
  | ["drain"] => some .drain
  | _ => none

def insertPair (x : Nat × Nat) : List (Nat × Nat) → List (Nat × Nat)
  | [] => [x]
  | y :: ys => if x.1 < y.1 ∨ (x.1 = y.1 ∧ x.2 ≤ y.2) then x :: y :: ys else y :: insertPair x ys

def canon (l : List (Nat × Nat)) : String :=
  joinSp ((l.foldr insertPair []).map fun (k, v) => s!"{k}:{v}")

def branchOf (tw : TW) (op : Op) : String :=
  match op with
  | .set k _ s =>
    if hasKey tw k then
      match tw.entries.find? (·.key = k) with
      | some e => match moveCase tw.n tw.tickedPos e.slot (if s = 0 then 1 else s) with
        | .keep _ _ => if e.slot ≤ tw.tickedPos then "set-existing-keep-wrapped" else "set-existing-keep"
        | .reinsert _ => "set-existing-reinsert"
      | none => "set-new"
    else if s > tw.n then "set-new-multirev" else "set-new"
  | .move k s =>
    if s = 0 then "move-immediate" else
    match tw.entries.find? (·.key = k) with
    | some e =>
      let w := if e.slot ≤ tw.tickedPos then "-oldwrapped" else ""
      let pw := if (posCircle tw.n tw.tickedPos s).1 ≤ tw.tickedPos then "-newwrapped" else ""
      match moveCase tw.n tw.tickedPos e.slot s with
      | .keep c _ => (if c = (posCircle tw.n tw.tickedPos s).2 then "move-keep" else "move-keep-circle-1") ++ w ++ pw
      | .reinsert _ => "move-reinsert" ++ w ++ pw
    | none => "move-absent"
  | .remove k => if hasKey tw k then "remove" else "remove-absent"
  | .tick => "tick"
  | .drain => "drain"

def runSection (r : Report) (s : Section) : Report := Id.run do
  let n := kvNat s.cfg "n" 1
  let interval := kvNat s.cfg "interval" 1
  let mut tw := TW.init n
  let mut sp : Spec.Table := []
  let mut r := r
  for l in s.lines do
    match parseOp interval l.op with
    | none => r := r.mismatch s.idx l.idx "bad-op" (joinSp l.op)
    | some op =>
      r := { r with ops := r.ops + 1 }
      r := r.addCover (branchOf tw op)
      let (tw', out) := step tw op
      let (sp', sout) := Spec.step sp op
      let impl := joinSp l.obs
      if (out.length > 0) then r := r.addCover "fired" out.length
      if canon out ≠ impl then r := r.mismatch s.idx l.idx (canon out) impl
      if canon sout ≠ impl then r := r.violation s.idx l.idx s!"spec=[{canon sout}] impl=[{impl}] op=[{joinSp l.op}]"
      tw := tw'
      sp := sp'
  return r

def driver (secs : List Section) : Report := secs.foldl runSection {}

end GoZero.C12
