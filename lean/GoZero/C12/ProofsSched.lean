/-
C12 — lemmas for PropsSched.lean: the hand-off of due tasks to callback goroutines (Deliver.lean) and the
Cache with an LRU limit as a client of the wheel (Clients.lean, CacheL).  Core Lean only.
-/
import GoZero.C12.Deliver
import GoZero.C12.Clients
namespace GoZero.C12

theorem takeAt_count (p : Pair) : ∀ (g : Nat) (gs : List (List Pair)) (r : Pair × List (List Pair)),
    takeAt g gs = some r → gs.flatten.count p = r.2.flatten.count p + (if r.1 = p then 1 else 0) := by
  intro g gs
  induction gs generalizing g with
  | nil => intro r h; simp [takeAt] at h
  | cons x rest ih =>
    intro r h
    cases g with
    | zero =>
      cases x with
      | nil => simp [takeAt] at h
      | cons y ys =>
        simp only [takeAt, Option.some.injEq] at h
        subst h
        simp only [List.flatten_cons, List.cons_append, List.count_cons, List.count_append, beq_iff_eq]
    | succ i =>
      simp only [takeAt, Option.map_eq_some_iff] at h
      obtain ⟨r', hr', rfl⟩ := h
      have := ih i r' hr'
      simp only [List.flatten_cons, List.count_append]
      omega

theorem dl_step_inv (p : Pair) (s : Dl) (ev : DEv) (total : Nat)
    (h : s.out.count p + s.gs.flatten.count p = total) :
    (s.step ev).out.count p + (s.step ev).gs.flatten.count p =
      total + (match ev with | .spawn b => b.count p | .run _ => 0) := by
  cases ev with
  | spawn b => simp only [Dl.step, List.flatten_append, List.count_append, List.flatten_cons, List.flatten_nil, List.append_nil]; omega
  | run g =>
    simp only [Dl.step]
    split
    · rename_i r hr
      have := takeAt_count p g s.gs r hr
      simp only [List.count_append, List.count_cons, List.count_nil, beq_iff_eq]
      omega
    · omega

theorem batches_count (p : Pair) : ∀ (evs : List DEv) (s : Dl),
    (s.run evs).out.count p + (s.run evs).gs.flatten.count p =
      s.out.count p + s.gs.flatten.count p + (batches evs).flatten.count p := by
  intro evs
  induction evs with
  | nil => intro s; simp [Dl.run, batches]
  | cons ev evs ih =>
    intro s
    have h1 := dl_step_inv p s ev _ rfl
    have h2 := ih (s.step ev)
    simp only [Dl.run, List.foldl_cons] at h2 ⊢
    cases ev with
    | spawn b => simp only [batches, List.flatten_cons, List.count_append] at h1 ⊢; omega
    | run g => simp only [batches] at h1 ⊢; omega

theorem finished_flatten (gs : List (List Pair)) (h : gs.all (·.isEmpty) = true) : gs.flatten = [] := by
  induction gs with
  | nil => rfl
  | cons x rest ih =>
    simp only [List.all_cons, Bool.and_eq_true, List.isEmpty_iff] at h
    simp [h.1, ih h.2]


theorem lruAdd_calls (c : CacheL) (k : Nat) :
    (c.lruAdd k).2 = [] ∨ ∃ old, old ≠ k ∧ (c.lruAdd k).2 = [.removeTimer (some old)] := by
  unfold CacheL.lruAdd
  split
  · left; rfl
  · rename_i hl
    split
    · left; rfl
    · rename_i hc
      split
      · rename_i hlen
        right
        refine ⟨(k :: c.lru).getLast (List.cons_ne_nil _ _), ?_, rfl⟩
        cases hlru : c.lru with
        | nil => simp [hlru] at hlen; omega
        | cons y ys =>
          rw [List.getLast_cons (List.cons_ne_nil y ys)]
          intro heq
          have hm := List.getLast_mem (List.cons_ne_nil y ys)
          rw [heq, ← hlru] at hm
          exact hc (List.contains_iff_mem.mpr hm)
      · left; rfl

theorem spec_set_mem (t : Spec.Table) (k v s : Nat) : (⟨k, v, s⟩ : Spec.Timer) ∈ Spec.set t k v s := by
  unfold Spec.set
  split
  · rename_i h
    simp only [Spec.hasKey, List.any_eq_true, decide_eq_true_eq] at h
    obtain ⟨x, hx, hk⟩ := h
    simp only [List.mem_map]
    exact ⟨x, hx, by simp [hk]⟩
  · simp

theorem spec_set_hasKey (t : Spec.Table) (k v s : Nat) : Spec.hasKey (Spec.set t k v s) k = true := by
  simp only [Spec.hasKey, List.any_eq_true, decide_eq_true_eq]
  exact ⟨_, spec_set_mem t k v s, rfl⟩

theorem spec_remove_not_hasKey (t : Spec.Table) (k : Nat) : Spec.hasKey (Spec.remove t k) k = false := by
  simp [Spec.hasKey, Spec.remove]

/-- a valid SetTimer on a running wheel (over the table): afterwards the key is pending with that value and delay. -/
theorem issue_set_last (a : Spec.Api) (k v : Nat) (e : Int) (pre : List Call) (n : Nat)
    (hpre : ∀ x ∈ pre, ∃ old, x = Call.removeTimer (some old))
    (hrun : a.stopped = false) (he : 0 < e) :
    (⟨k, v, if stepsOf a.interval e = 0 then 1 else stepsOf a.interval e⟩ : Spec.Timer)
      ∈ (ApiG.issue Spec.step n a (pre ++ [.setTimer (some k) v e])).1.inner := by
  induction pre generalizing a with
  | nil =>
    have hb : badDelayKey e (some k).isNone = false := by simp [badDelayKey]; omega
    simp only [List.nil_append, ApiG.issue, ApiG.step, hb, ApiG.submit, hrun, Bool.false_eq_true, if_false, Spec.step]
    exact spec_set_mem _ _ _ _
  | cons x rest ih =>
    obtain ⟨old, rfl⟩ := hpre x (by simp)
    simp only [List.cons_append, ApiG.issue]
    have h1 : ((ApiG.step Spec.step a (.removeTimer (some old))).1).stopped = false := by
      simp [ApiG.step, ApiG.submit, hrun]
    have h2 : ((ApiG.step Spec.step a (.removeTimer (some old))).1).interval = a.interval := by
      simp [ApiG.step, ApiG.submit, hrun]
    have := ih (ApiG.step Spec.step a (.removeTimer (some old))).1 (fun y hy => hpre y (by simp [hy])) h1
    rw [h2] at this
    exact this


end GoZero.C12
