/-
C12 — lemmas for PropsSched.lean: the hand-off of due tasks to callback goroutines (Deliver.lean) and the
Cache with an LRU limit as a client of the wheel (Clients.lean, CacheL).  Core Lean only.
-/
import GoZero.C12.Deliver
import GoZero.C12.Clients
set_option linter.unusedSimpArgs false
namespace GoZero.C12

theorem takeAt_count (p : Pair) : ∀ (g : Nat) (gs : List (List Pair)) (r : Pair × List (List Pair)),
    takeAt g gs = some r → gs.flatten.count p = r.2.flatten.count p + (if r.1 = p then 1 else 0) := by
  intro g gs
  induction gs generalizing g with
  | nil => intro r h; simp [takeAt] at h
  | cons x rest ih =>
    intro r h
    cases g with
    | zero =>
      cases x with
      | nil => simp [takeAt] at h
      | cons y ys =>
        simp only [takeAt, Option.some.injEq] at h
        subst h
        simp only [List.flatten_cons, List.cons_append, List.count_cons, List.count_append, beq_iff_eq]
    | succ i =>
      simp only [takeAt, Option.map_eq_some_iff] at h
      obtain ⟨r', hr', rfl⟩ := h
      have := ih i r' hr'
      simp only [List.flatten_cons, List.count_append]
      omega

theorem dl_step_inv (p : Pair) (s : Dl) (ev : DEv) (total : Nat)
    (h : s.out.count p + s.gs.flatten.count p = total) :
    (s.step ev).out.count p + (s.step ev).gs.flatten.count p =
      total + (match ev with | .spawn b => b.count p | .run _ => 0) := by
  cases ev with
  | spawn b => simp only [Dl.step, List.flatten_append, List.count_append, List.flatten_cons, List.flatten_nil, List.append_nil]; omega
  | run g =>
    simp only [Dl.step]
    split
    · rename_i r hr
      have := takeAt_count p g s.gs r hr
      simp only [List.count_append, List.count_cons, List.count_nil, beq_iff_eq]
      omega
    · omega

theorem batches_count (p : Pair) : ∀ (evs : List DEv) (s : Dl),
    (s.run evs).out.count p + (s.run evs).gs.flatten.count p =
      s.out.count p + s.gs.flatten.count p + (batches evs).flatten.count p := by
  intro evs
  induction evs with
  | nil => intro s; simp [Dl.run, batches]
  | cons ev evs ih =>
    intro s
    have h1 := dl_step_inv p s ev _ rfl
    have h2 := ih (s.step ev)
    simp only [Dl.run, List.foldl_cons] at h2 ⊢
    cases ev with
    | spawn b => simp only [batches, List.flatten_cons, List.count_append] at h1 ⊢; omega
    | run g => simp only [batches] at h1 ⊢; omega

theorem finished_flatten (gs : List (List Pair)) (h : gs.all (·.isEmpty) = true) : gs.flatten = [] := by
  induction gs with
  | nil => rfl
  | cons x rest ih =>
    simp only [List.all_cons, Bool.and_eq_true, List.isEmpty_iff] at h
    simp [h.1, ih h.2]


theorem lruAdd_calls (c : CacheL) (k : Nat) :
    (c.lruAdd k).2 = [] ∨ ∃ old, old ≠ k ∧ (c.lruAdd k).2 = [.removeTimer (some old)] := by
  unfold CacheL.lruAdd
  split
  · left; rfl
  · rename_i hl
    split
    · left; rfl
    · rename_i hc
      split
      · rename_i hlen
        right
        refine ⟨(k :: c.lru).getLast (List.cons_ne_nil _ _), ?_, rfl⟩
        cases hlru : c.lru with
        | nil => simp [hlru] at hlen; omega
        | cons y ys =>
          rw [List.getLast_cons (List.cons_ne_nil y ys)]
          intro heq
          have hm := List.getLast_mem (List.cons_ne_nil y ys)
          rw [heq, ← hlru] at hm
          exact hc (List.contains_iff_mem.mpr hm)
      · left; rfl

theorem spec_set_mem (t : Spec.Table) (k v s : Nat) : (⟨k, v, s⟩ : Spec.Timer) ∈ Spec.set t k v s := by
  unfold Spec.set
  split
  · rename_i h
    simp only [Spec.hasKey, List.any_eq_true, decide_eq_true_eq] at h
    obtain ⟨x, hx, hk⟩ := h
    simp only [List.mem_map]
    exact ⟨x, hx, by simp [hk]⟩
  · simp

theorem spec_set_hasKey (t : Spec.Table) (k v s : Nat) : Spec.hasKey (Spec.set t k v s) k = true := by
  simp only [Spec.hasKey, List.any_eq_true, decide_eq_true_eq]
  exact ⟨_, spec_set_mem t k v s, rfl⟩

theorem spec_remove_not_hasKey (t : Spec.Table) (k : Nat) : Spec.hasKey (Spec.remove t k) k = false := by
  simp [Spec.hasKey, Spec.remove]

/-- a valid SetTimer on a running wheel (over the table): afterwards the key is pending with that value and delay. -/
theorem issue_set_last (a : Spec.Api) (k v : Nat) (e : Int) (pre : List Call) (n : Nat)
    (hpre : ∀ x ∈ pre, ∃ old, x = Call.removeTimer (some old))
    (hrun : a.stopped = false) (he : 0 < e) :
    (⟨k, v, if stepsOf a.interval e = 0 then 1 else stepsOf a.interval e⟩ : Spec.Timer)
      ∈ (ApiG.issue Spec.step n a (pre ++ [.setTimer (some k) v e])).1.inner := by
  induction pre generalizing a with
  | nil =>
    have hb : badDelayKey e (some k).isNone = false := by simp [badDelayKey]; omega
    simp only [List.nil_append, ApiG.issue, ApiG.step, hb, ApiG.submit, hrun, Bool.false_eq_true, if_false, Spec.step]
    exact spec_set_mem _ _ _ _
  | cons x rest ih =>
    obtain ⟨old, rfl⟩ := hpre x (by simp)
    simp only [List.cons_append, ApiG.issue]
    have h1 : ((ApiG.step Spec.step a (.removeTimer (some old))).1).stopped = false := by
      simp [ApiG.step, ApiG.submit, hrun]
    have h2 : ((ApiG.step Spec.step a (.removeTimer (some old))).1).interval = a.interval := by
      simp [ApiG.step, ApiG.submit, hrun]
    have := ih (ApiG.step Spec.step a (.removeTimer (some old))).1 (fun y hy => hpre y (by simp [hy])) h1
    rw [h2] at this
    exact this


/-! ### callbacks that panic or call Goexit -/

theorem takeAtK_count (keep : Pair → Bool) (p : Pair) : ∀ (g : Nat) (gs : List (List Pair)) (r : Pair × List (List Pair)),
    takeAtK keep g gs = some r →
    ((gs.map (deliveredOf keep)).flatten).count p
      = ((r.2.map (deliveredOf keep)).flatten).count p + (if r.1 = p then 1 else 0) := by
  intro g gs
  induction gs generalizing g with
  | nil => intro r h; simp [takeAtK] at h
  | cons x rest ih =>
    intro r h
    cases g with
    | zero =>
      cases x with
      | nil => simp [takeAtK] at h
      | cons y ys =>
        simp only [takeAtK, Option.some.injEq] at h
        subst h
        by_cases hk : keep y = true
        · simp [deliveredOf, hk, List.count_cons]
        · simp [deliveredOf, hk, List.count_cons]
    | succ i =>
      simp only [takeAtK, Option.map_eq_some_iff] at h
      obtain ⟨r', hr', rfl⟩ := h
      have := ih i r' hr'
      simp only [List.map_cons, List.flatten_cons, List.count_append]
      omega

theorem runO_count (sc : Scope) (oc : Pair → Outcome) (p : Pair) : ∀ (evs : List DEv) (s : Dl),
    (s.runO sc oc evs).out.count p
        + (((s.runO sc oc evs).gs.map (deliveredOf fun q => survives sc (oc q))).flatten).count p
      = s.out.count p + ((s.gs.map (deliveredOf fun q => survives sc (oc q))).flatten).count p
        + (((batches evs).map (deliveredOf fun q => survives sc (oc q))).flatten).count p := by
  intro evs
  induction evs with
  | nil => intro s; simp [Dl.runO, batches]
  | cons ev evs ih =>
    intro s
    have h2 := ih (s.stepO sc oc ev)
    simp only [Dl.runO, List.foldl_cons] at h2 ⊢
    rw [h2]
    cases ev with
    | spawn b =>
      simp only [Dl.stepO, batches, List.map_append, List.map_cons, List.map_nil, List.flatten_append, List.flatten_cons,
        List.flatten_nil, List.append_nil, List.count_append]
      omega
    | run g =>
      simp only [Dl.stepO, batches]
      split
      · rename_i r hr
        have := takeAtK_count (fun q => survives sc (oc q)) p g s.gs r hr
        simp only [List.count_append, List.count_cons, List.count_nil, beq_iff_eq]
        omega
      · rfl

theorem deliveredOf_all (keep : Pair → Bool) (h : ∀ q, keep q = true) : ∀ b, deliveredOf keep b = b := by
  intro b
  induction b with
  | nil => rfl
  | cons x xs ih => simp [deliveredOf, h x, ih]

theorem finished_map_flatten (f : List Pair → List Pair) (hf : f [] = []) (gs : List (List Pair))
    (h : gs.all (·.isEmpty) = true) : (gs.map f).flatten = [] := by
  induction gs with
  | nil => rfl
  | cons x rest ih =>
    simp only [List.all_cons, Bool.and_eq_true, List.isEmpty_iff] at h
    simp [h.1, hf, ih h.2]


theorem deliveredOf_all_mem (keep : Pair → Bool) : ∀ b : List Pair, (∀ x ∈ b, keep x = true) → deliveredOf keep b = b := by
  intro b
  induction b with
  | nil => intro _; rfl
  | cons x xs ih =>
    intro h
    simp [deliveredOf, h x (by simp), ih (fun y hy => h y (by simp [hy]))]

/-! ### the cache and the timer table move together -/

def keysOf (c : CacheL) : List Nat := c.data.map (·.1)


theorem hasKey_iff (t : Spec.Table) (j : Nat) : Spec.hasKey t j = true ↔ ∃ x ∈ t, x.key = j := by
  simp [Spec.hasKey]

theorem hasKey_set (t : Spec.Table) (k v s j : Nat) :
    Spec.hasKey (Spec.set t k v s) j = true ↔ (Spec.hasKey t j = true ∨ j = k) := by
  unfold Spec.set
  split
  · rename_i h
    rw [hasKey_iff] at h
    obtain ⟨y, hy, hyk⟩ := h
    simp only [hasKey_iff, List.mem_map]
    constructor
    · rintro ⟨x, ⟨z, hz, rfl⟩, hx⟩
      by_cases hzk : z.key = k
      · right; simp [hzk] at hx; omega
      · left; simp [hzk] at hx; exact ⟨z, hz, hx⟩
    · rintro (⟨x, hx, hxj⟩ | rfl)
      · by_cases hxk : x.key = k
        · exact ⟨_, ⟨x, hx, rfl⟩, by simp [hxk]; omega⟩
        · exact ⟨_, ⟨x, hx, rfl⟩, by simp [hxk]; exact hxj⟩
      · exact ⟨_, ⟨y, hy, rfl⟩, by simp [hyk]⟩
  · simp only [hasKey_iff, List.mem_append, List.mem_singleton]
    constructor
    · rintro ⟨x, hx | rfl, hxj⟩
      · left; exact ⟨x, hx, hxj⟩
      · right; exact hxj.symm
    · rintro (⟨x, hx, hxj⟩ | rfl)
      · exact ⟨x, Or.inl hx, hxj⟩
      · exact ⟨_, Or.inr rfl, rfl⟩

theorem hasKey_remove (t : Spec.Table) (k j : Nat) :
    Spec.hasKey (Spec.remove t k) j = true ↔ (Spec.hasKey t j = true ∧ j ≠ k) := by
  simp only [hasKey_iff, Spec.remove, List.mem_filter, decide_eq_true_eq]
  constructor
  · rintro ⟨x, ⟨hx, hne⟩, rfl⟩; exact ⟨⟨x, hx, rfl⟩, hne⟩
  · rintro ⟨⟨x, hx, rfl⟩, hne⟩; exact ⟨x, ⟨hx, hne⟩, rfl⟩

theorem keys_upsert (d : List (Nat × Nat)) (k v j : Nat) :
    j ∈ (upsert d k v).map (·.1) ↔ (j ∈ d.map (·.1) ∨ j = k) := by
  unfold upsert
  split
  · rename_i h
    simp only [List.any_eq_true, decide_eq_true_eq] at h
    obtain ⟨y, hy, hyk⟩ := h
    simp only [List.mem_map]
    constructor
    · rintro ⟨x, ⟨z, hz, rfl⟩, rfl⟩
      by_cases hzk : z.1 = k
      · right; simp [hzk]
      · left; simp [hzk]; exact ⟨z.2, by simpa using hz⟩
    · rintro (⟨x, hx, rfl⟩ | rfl)
      · by_cases hxk : x.1 = k
        · exact ⟨_, ⟨x, hx, rfl⟩, by simp [hxk]⟩
        · exact ⟨_, ⟨x, hx, rfl⟩, by simp [hxk]⟩
      · exact ⟨_, ⟨y, hy, rfl⟩, by simp [hyk]⟩
  · simp only [List.map_append, List.mem_append, List.map_cons, List.map_nil, List.mem_singleton]

theorem keys_filter (d : List (Nat × Nat)) (k j : Nat) :
    j ∈ (d.filter (·.1 ≠ k)).map (·.1) ↔ (j ∈ d.map (·.1) ∧ j ≠ k) := by
  simp only [List.mem_map, List.mem_filter, decide_eq_true_eq]
  constructor
  · rintro ⟨x, ⟨hx, hne⟩, rfl⟩; exact ⟨⟨x, hx, rfl⟩, hne⟩
  · rintro ⟨⟨x, hx, rfl⟩, hne⟩; exact ⟨x, ⟨hx, hne⟩, rfl⟩



def quiet : Call → Bool
  | .removeTimer (some _) => true
  | .setTimer (some _) _ _ => true
  | _ => false

/-- what a quiet call does to the timer table of a running wheel. -/
def tblCall (iv : Nat) (t : Spec.Table) : Call → Spec.Table
  | .removeTimer (some k) => Spec.remove t k
  | .setTimer (some k) v e => if e ≤ 0 then t else Spec.set t k v (if stepsOf iv e = 0 then 1 else stepsOf iv e)
  | _ => t

theorem issue_quiet (n : Nat) : ∀ (cs : List Call) (a : Spec.Api), a.stopped = false → (∀ x ∈ cs, quiet x = true) →
    (ApiG.issue Spec.step n a cs).1.stopped = false ∧ (ApiG.issue Spec.step n a cs).1.interval = a.interval
    ∧ (ApiG.issue Spec.step n a cs).2.1 = []
    ∧ (ApiG.issue Spec.step n a cs).1.inner = cs.foldl (tblCall a.interval) a.inner := by
  intro cs
  induction cs with
  | nil => intro a h _; simp [ApiG.issue, h]
  | cons c rest ih =>
    intro a hrun hq
    have hc := hq c (by simp)
    have hrest : ∀ x ∈ rest, quiet x = true := fun x hx => hq x (by simp [hx])
    have key : (ApiG.step Spec.step a c).1.stopped = false ∧ (ApiG.step Spec.step a c).1.interval = a.interval
        ∧ (ApiG.step Spec.step a c).2.2 = [] ∧ (ApiG.step Spec.step a c).1.inner = tblCall a.interval a.inner c := by
      cases c with
      | removeTimer key =>
        cases key with
        | none => simp [quiet] at hc
        | some k => simp [ApiG.step, ApiG.submit, hrun, Spec.step, tblCall]
      | setTimer key v e =>
        cases key with
        | none => simp [quiet] at hc
        | some k =>
          by_cases he : e ≤ 0
          · simp [ApiG.step, badDelayKey, he, hrun, tblCall]
          · simp [ApiG.step, badDelayKey, he, ApiG.submit, hrun, Spec.step, tblCall]
      | moveTimer => simp [quiet] at hc
      | drain => simp [quiet] at hc
      | tick => simp [quiet] at hc
      | stop => simp [quiet] at hc
    obtain ⟨k1, k2, k3, k4⟩ := key
    obtain ⟨i1, i2, i3, i4⟩ := ih (ApiG.step Spec.step a c).1 k1 hrest
    simp only [ApiG.issue, List.foldl_cons]
    refine ⟨i1, by rw [i2, k2], by rw [k3, i3]; rfl, ?_⟩
    rw [i4, k2, k4]

/-! shapes of the cache functions: what happens to `data`, which calls are issued -/

theorem lruAdd_shape (c : CacheL) (k : Nat) :
    (c.lruAdd k).1.expire = c.expire ∧
    (((c.lruAdd k).1.data = c.data ∧ (c.lruAdd k).2 = [])
     ∨ ∃ old, old ≠ k ∧ (c.lruAdd k).1.data = c.data.filter (·.1 ≠ old) ∧ (c.lruAdd k).2 = [.removeTimer (some old)]) := by
  unfold CacheL.lruAdd
  split
  · exact ⟨rfl, Or.inl ⟨rfl, rfl⟩⟩
  · rename_i hl
    split
    · exact ⟨rfl, Or.inl ⟨rfl, rfl⟩⟩
    · rename_i hc
      split
      · rename_i hlen
        refine ⟨rfl, Or.inr ⟨(k :: c.lru).getLast (List.cons_ne_nil _ _), ?_, rfl, rfl⟩⟩
        cases hlru : c.lru with
        | nil => simp [hlru] at hlen; omega
        | cons y ys =>
          rw [List.getLast_cons (List.cons_ne_nil y ys)]
          intro heq
          have hm := List.getLast_mem (List.cons_ne_nil y ys)
          rw [heq, ← hlru] at hm
          exact hc (List.contains_iff_mem.mpr hm)
      · exact ⟨rfl, Or.inl ⟨rfl, rfl⟩⟩

theorem lruRemove_shape (c : CacheL) (k : Nat) :
    (c.lruRemove k).1.expire = c.expire ∧
    (((c.lruRemove k).1.data = c.data ∧ (c.lruRemove k).2 = [])
     ∨ ((c.lruRemove k).1.data = c.data.filter (·.1 ≠ k) ∧ (c.lruRemove k).2 = [.removeTimer (some k)])) := by
  unfold CacheL.lruRemove
  split
  · exact ⟨rfl, Or.inr ⟨rfl, rfl⟩⟩
  · exact ⟨rfl, Or.inl ⟨rfl, rfl⟩⟩

def Rel (c : CacheL) (t : Spec.Table) : Prop := ∀ j, j ∈ keysOf c ↔ Spec.hasKey t j = true

theorem rel_lruAdd (iv : Nat) (c : CacheL) (t : Spec.Table) (k : Nat) (h : Rel c t) :
    Rel (c.lruAdd k).1 ((c.lruAdd k).2.foldl (tblCall iv) t) ∧ (∀ x ∈ (c.lruAdd k).2, quiet x = true)
    ∧ (c.lruAdd k).1.expire = c.expire ∧ (k ∈ keysOf c → k ∈ keysOf (c.lruAdd k).1) := by
  obtain ⟨he, ⟨hd, hc⟩ | ⟨old, hne, hd, hc⟩⟩ := lruAdd_shape c k
  · refine ⟨?_, by simp [hc], he, ?_⟩
    · intro j; simp only [keysOf, hd, hc, List.foldl_nil]; exact h j
    · simp only [keysOf, hd]; exact id
  · refine ⟨?_, by simp [hc, quiet], he, ?_⟩
    · intro j
      simp only [keysOf, hd, hc, List.foldl_cons, List.foldl_nil, tblCall, keys_filter, hasKey_remove]
      have := h j; simp only [keysOf] at this; rw [this]
    · simp only [keysOf, hd, keys_filter]; intro hk; exact ⟨hk, fun e => hne e.symm⟩

theorem rel_set (iv : Nat) (c : CacheL) (t : Spec.Table) (k v : Nat) (e : Int) (h : Rel c t) (he : 0 < e) :
    Rel (c.setWithExpire k v e).1 ((c.setWithExpire k v e).2.foldl (tblCall iv) t)
    ∧ (∀ x ∈ (c.setWithExpire k v e).2, quiet x = true) ∧ (c.setWithExpire k v e).1.expire = c.expire := by
  unfold CacheL.setWithExpire
  obtain ⟨hex, ⟨hd, hc⟩ | ⟨old, hne, hd, hc⟩⟩ := lruAdd_shape { c with data := upsert c.data k v } k
  · refine ⟨?_, by simp [hc, quiet], hex⟩
    intro j
    have hn : ¬ e ≤ 0 := by omega
    simp only [keysOf, hd, hc, List.nil_append, List.foldl_cons, List.foldl_nil, tblCall, hn, if_false, keys_upsert, hasKey_set]
    have := h j; simp only [keysOf] at this; rw [this]
  · refine ⟨?_, by simp [hc, quiet], hex⟩
    intro j
    have hn : ¬ e ≤ 0 := by omega
    simp only [keysOf, hd, hc, List.cons_append, List.nil_append, List.foldl_cons, List.foldl_nil, tblCall, hn, if_false,
      keys_filter, keys_upsert, hasKey_set, hasKey_remove]
    have := h j; simp only [keysOf] at this; rw [this]
    constructor
    · rintro ⟨h1 | h1, h2⟩
      · exact Or.inl ⟨h1, h2⟩
      · exact Or.inr h1
    · rintro (⟨h1, h2⟩ | h1)
      · exact ⟨Or.inl h1, h2⟩
      · exact ⟨Or.inr h1, by rw [h1]; exact fun e => hne e.symm⟩

theorem rel_del (iv : Nat) (c : CacheL) (t : Spec.Table) (k : Nat) (h : Rel c t) :
    Rel (c.del k).1 ((c.del k).2.foldl (tblCall iv) t) ∧ (∀ x ∈ (c.del k).2, quiet x = true)
    ∧ (c.del k).1.expire = c.expire := by
  unfold CacheL.del
  obtain ⟨hex, ⟨hd, hc⟩ | ⟨hd, hc⟩⟩ := lruRemove_shape { c with data := c.data.filter (·.1 ≠ k) } k
  · refine ⟨?_, by rw [hc]; simp [quiet], hex⟩
    intro j
    simp only [keysOf, hd, hc, List.nil_append, List.foldl_cons, List.foldl_nil, tblCall, keys_filter, hasKey_remove]
    have := h j; simp only [keysOf] at this; rw [this]
  · refine ⟨?_, by rw [hc]; simp [quiet], hex⟩
    intro j
    simp only [keysOf, hd, hc, List.cons_append, List.nil_append, List.foldl_cons, List.foldl_nil, tblCall, keys_filter, hasKey_remove]
    have := h j; simp only [keysOf] at this; rw [this]

theorem del_effect (iv : Nat) (c : CacheL) (t : Spec.Table) (k : Nat) :
    (∀ j, Spec.hasKey ((c.del k).2.foldl (tblCall iv) t) j = true ↔ (Spec.hasKey t j = true ∧ j ≠ k))
    ∧ (∀ j, j ∈ keysOf (c.del k).1 ↔ (j ∈ keysOf c ∧ j ≠ k))
    ∧ (∀ x ∈ (c.del k).2, quiet x = true) ∧ (c.del k).1.expire = c.expire := by
  unfold CacheL.del
  obtain ⟨hex, ⟨hd, hc⟩ | ⟨hd, hc⟩⟩ := lruRemove_shape { c with data := c.data.filter (·.1 ≠ k) } k
  · refine ⟨?_, ?_, by rw [hc]; simp [quiet], hex⟩
    · intro j; rw [hc]; simp only [List.nil_append, List.foldl_cons, List.foldl_nil, tblCall, hasKey_remove]
    · intro j; simp only [keysOf, hd, keys_filter]
  · refine ⟨?_, ?_, by rw [hc]; simp [quiet], hex⟩
    · intro j; rw [hc]; simp only [List.cons_append, List.nil_append, List.foldl_cons, List.foldl_nil, tblCall, hasKey_remove]
      constructor
      · rintro ⟨⟨h1, h2⟩, _⟩; exact ⟨h1, h2⟩
      · rintro ⟨h1, h2⟩; exact ⟨⟨h1, h2⟩, h2⟩
    · intro j; simp only [keysOf, hd, keys_filter]
      constructor
      · rintro ⟨⟨h1, h2⟩, _⟩; exact ⟨h1, h2⟩
      · rintro ⟨h1, h2⟩; exact ⟨⟨h1, h2⟩, h2⟩

theorem settle_cache : ∀ (f : Nat) (a : Spec.Api) (c : CacheL) (pend : List (Nat × Nat)),
    a.stopped = false → pend.length ≤ f →
    (ApiG.settle Spec.step cacheLCb f a c pend).api.stopped = false
    ∧ (ApiG.settle Spec.step cacheLCb f a c pend).cb.expire = c.expire
    ∧ (∀ j, Spec.hasKey (ApiG.settle Spec.step cacheLCb f a c pend).api.inner j = true
          ↔ (Spec.hasKey a.inner j = true ∧ j ∉ pend.map (·.1)))
    ∧ (∀ j, j ∈ keysOf (ApiG.settle Spec.step cacheLCb f a c pend).cb ↔ (j ∈ keysOf c ∧ j ∉ pend.map (·.1))) := by
  intro f
  induction f with
  | zero =>
    intro a c pend hrun hlen
    have : pend = [] := List.length_eq_zero_iff.mp (Nat.le_zero.mp hlen)
    subst this
    simp [ApiG.settle, hrun]
  | succ f ih =>
    intro a c pend hrun hlen
    cases pend with
    | nil => simp [ApiG.settle, hrun]
    | cons kv rest =>
      obtain ⟨e1, e2, e3, e4⟩ := del_effect a.interval c a.inner kv.1
      obtain ⟨i1, _, i3, i4⟩ := issue_quiet kv.1 (c.del kv.1).2 a hrun e3
      have hlen' : rest.length ≤ f := by simp at hlen; omega
      obtain ⟨r1, r2, r3, r4⟩ := ih (ApiG.issue Spec.step kv.1 a (c.del kv.1).2).1 (c.del kv.1).1 rest i1 hlen'
      simp only [ApiG.settle, cacheLCb, i3, List.append_nil]
      refine ⟨r1, by rw [r2, e4], ?_, ?_⟩
      · intro j
        rw [r3 j, i4, e1 j]
        simp only [List.map_cons, List.mem_cons, not_or]
        constructor
        · rintro ⟨⟨h1, h2⟩, h3⟩; exact ⟨h1, h2, h3⟩
        · rintro ⟨h1, h2, h3⟩; exact ⟨⟨h1, h2⟩, h3⟩
      · intro j
        rw [r4 j, e2 j]
        simp only [List.map_cons, List.mem_cons, not_or]
        constructor
        · rintro ⟨⟨h1, h2⟩, h3⟩; exact ⟨h1, h2, h3⟩
        · rintro ⟨h1, h2, h3⟩; exact ⟨⟨h1, h2⟩, h3⟩

theorem hasKey_tick (t : Spec.Table) (j : Nat) :
    Spec.hasKey t j = true ↔ (Spec.hasKey (Spec.tick t).1 j = true ∨ j ∈ (Spec.tick t).2.map (·.1)) := by
  simp only [hasKey_iff, Spec.tick, List.mem_map, List.mem_filter, decide_eq_true_eq]
  constructor
  · rintro ⟨x, hx, rfl⟩
    by_cases h1 : x.rem = 1
    · right; exact ⟨(x.key, x.value), ⟨x, ⟨hx, h1⟩, rfl⟩, rfl⟩
    · left; exact ⟨_, ⟨x, ⟨hx, h1⟩, rfl⟩, rfl⟩
  · rintro (⟨y, ⟨x, ⟨hx, _⟩, rfl⟩, rfl⟩ | ⟨y, ⟨x, ⟨hx, _⟩, rfl⟩, rfl⟩)
    · exact ⟨x, hx, rfl⟩
    · exact ⟨x, hx, rfl⟩

theorem tick_fired_le (t : Spec.Table) : (Spec.tick t).2.length ≤ t.length := by
  simp only [Spec.tick, List.length_map]; exact List.length_filter_le _ _

/-- every operation of a client but the tick: the cache and the table move together, only quiet calls are issued. -/
theorem client_rel (iv : Nat) (c : CacheL) (t : Spec.Table) (op : COp) (hop : op ≠ .tick)
    (hexp : 0 < c.expire) (hpos : ∀ k v e, op = .set k v e → 0 < e) (h : Rel c t) :
    Rel (c.client op).1 ((c.client op).2.foldl (tblCall iv) t) ∧ (∀ x ∈ (c.client op).2, quiet x = true)
    ∧ (c.client op).1.expire = c.expire := by
  cases op with
  | set k v e => exact rel_set iv c t k v e h (hpos k v e rfl)
  | put k v => exact rel_set iv c t k v c.expire h hexp
  | del k => exact rel_del iv c t k h
  | get k =>
    simp only [CacheL.client, CacheL.doGet]
    cases c.lookup k with
    | none => exact ⟨h, by simp, rfl⟩
    | some w => obtain ⟨a1, a2, a3, _⟩ := rel_lruAdd iv c t k h; exact ⟨a1, a2, a3⟩
  | take k v f =>
    simp only [CacheL.client, CacheL.take, CacheL.doGet]
    cases c.lookup k with
    | some w => obtain ⟨a1, a2, a3, _⟩ := rel_lruAdd iv c t k h; exact ⟨a1, a2, a3⟩
    | none =>
      cases f with
      | ok => exact rel_set iv c t k v c.expire h hexp
      | err => exact ⟨h, by simp, rfl⟩
      | noReturn => exact ⟨h, by simp, rfl⟩
  | tick => exact absurd rfl hop

/-- the invariant: the wheel runs, the cache's expire is the configured one, and the keys in `data` are exactly the
keys with a pending timer. -/
def CInv (expire : Int) (st : Spec.Api × CacheL) : Prop :=
  st.1.stopped = false ∧ st.2.expire = expire ∧ Rel st.2 st.1.inner

theorem cacheStep_inv (expire : Int) (hexp : 0 < expire) (st : Spec.Api × CacheL) (op : COp)
    (hpos : ∀ k v e, op = .set k v e → 0 < e) (h : CInv expire st) : CInv expire (cacheStep st op) := by
  obtain ⟨hrun, hex, hrel⟩ := h
  by_cases hop : op = .tick
  · subst hop
    have hf : (Spec.tick st.1.inner).2.length ≤ st.1.inner.length + 1 := Nat.le_succ_of_le (tick_fired_le _)
    obtain ⟨s1, s2, s3, s4⟩ := settle_cache (st.1.inner.length + 1)
      ⟨st.1.interval, (Spec.tick st.1.inner).1, false, st.1.tickerStops⟩ st.2 (Spec.tick st.1.inner).2 rfl hf
    simp only [cacheStep, CacheL.client, ApiG.issue, ApiG.step, hrun, Bool.false_eq_true, if_false, Spec.step, List.append_nil]
    refine ⟨s1, by rw [s2]; exact hex, ?_⟩
    intro j
    rw [s4 j, s3 j, hrel j, hasKey_tick st.1.inner j]
    constructor
    · rintro ⟨h1 | h1, h2⟩
      · exact ⟨h1, h2⟩
      · exact absurd h1 h2
    · rintro ⟨h1, h2⟩; exact ⟨Or.inl h1, h2⟩
  · obtain ⟨c1, c2, c3⟩ := client_rel st.1.interval st.2 st.1.inner op hop (by rw [hex]; exact hexp) hpos hrel
    obtain ⟨i1, _, i3, i4⟩ := issue_quiet 0 (st.2.client op).2 st.1 hrun c2
    simp only [cacheStep, i3, ApiG.settle]
    exact ⟨i1, by rw [c3]; exact hex, by rw [i4]; exact c1⟩

theorem cacheRun_inv (expire : Int) (hexp : 0 < expire) : ∀ (ops : List COp) (st : Spec.Api × CacheL),
    (∀ k v e, COp.set k v e ∈ ops → 0 < e) → CInv expire st → CInv expire (ops.foldl cacheStep st) := by
  intro ops
  induction ops with
  | nil => intro st _ h; exact h
  | cons op rest ih =>
    intro st hpos h
    simp only [List.foldl_cons]
    exact ih _ (fun k v e hm => hpos k v e (by simp [hm]))
      (cacheStep_inv expire hexp st op (fun k v e he => hpos k v e (by simp [he])) h)


end GoZero.C12
