/-
C12 — helper lemmas for Clients.lean: the callback layer over the wheel refines the callback layer over the
timer table; calls issued from callbacks are ordinary sequential calls; a fired key is absent afterwards.
-/
import GoZero.C12.Clients
import GoZero.C12.ProofsApi
namespace GoZero.C12

theorem issue_refines (k : Nat) (cs : List Call) (a : Api) (h : WF a.inner) :
    WF (ApiG.issue step k a cs).1.inner
    ∧ absApi (ApiG.issue step k a cs).1 = (ApiG.issue Spec.step k (absApi a) cs).1
    ∧ (ApiG.issue step k a cs).2 = (ApiG.issue Spec.step k (absApi a) cs).2 := by
  induction cs generalizing a with
  | nil => exact ⟨h, rfl, rfl⟩
  | cons c cs ih =>
    have hs := api_step_refines a h c
    have e1 : ApiG.step step a c = a.step c := rfl
    have e2 : ApiG.step Spec.step (absApi a) c = (absApi a).step c := rfl
    have := ih (a.step c).1 hs.1
    simp only [ApiG.issue, e1, e2]
    rw [← hs.2.1, ← hs.2.2]
    refine ⟨this.1, this.2.1, ?_⟩
    rw [this.2.2]

theorem settle_refines {σ : Type} (cb : Cb σ) (fuel : Nat) (a : Api) (s : σ) (pend : List (Nat × Nat))
    (h : WF a.inner) :
    WF (ApiG.settle step cb fuel a s pend).api.inner
    ∧ absApi (ApiG.settle step cb fuel a s pend).api = (ApiG.settle Spec.step cb fuel (absApi a) s pend).api
    ∧ (ApiG.settle step cb fuel a s pend).cb = (ApiG.settle Spec.step cb fuel (absApi a) s pend).cb
    ∧ (ApiG.settle step cb fuel a s pend).fired = (ApiG.settle Spec.step cb fuel (absApi a) s pend).fired
    ∧ (ApiG.settle step cb fuel a s pend).inner = (ApiG.settle Spec.step cb fuel (absApi a) s pend).inner
    ∧ (ApiG.settle step cb fuel a s pend).left = (ApiG.settle Spec.step cb fuel (absApi a) s pend).left := by
  induction fuel generalizing a s pend with
  | zero => exact ⟨h, rfl, rfl, rfl, rfl, rfl⟩
  | succ f ih =>
    cases pend with
    | nil => exact ⟨h, rfl, rfl, rfl, rfl, rfl⟩
    | cons kv rest =>
      have hi := issue_refines kv.1 (cb s kv.1 kv.2).2 a h
      have := ih (ApiG.issue step kv.1 a (cb s kv.1 kv.2).2).1 (cb s kv.1 kv.2).1
        (rest ++ (ApiG.issue step kv.1 a (cb s kv.1 kv.2).2).2.1) hi.1
      simp only [ApiG.settle]
      rw [hi.2.1, hi.2.2] at this
      rw [hi.2.2]
      exact ⟨this.1, this.2.1, this.2.2.1, by rw [this.2.2.2.1], by rw [this.2.2.2.2.1], this.2.2.2.2.2⟩

theorem runCb_refines {σ : Type} (cb : Cb σ) (fuel : Nat) (cs : List Call) (a : Api) (s : σ) (h : WF a.inner) :
    ApiG.runCb step cb fuel a s cs = ApiG.runCb Spec.step cb fuel (absApi a) s cs := by
  induction cs generalizing a s with
  | nil => rfl
  | cons c cs ih =>
    have hs := api_step_refines a h c
    have e1 : ApiG.step step a c = a.step c := rfl
    have e2 : ApiG.step Spec.step (absApi a) c = (absApi a).step c := rfl
    have hq := settle_refines cb fuel (a.step c).1 s (a.step c).2.2 hs.1
    have := ih (ApiG.settle step cb fuel (a.step c).1 s (a.step c).2.2).api
      (ApiG.settle step cb fuel (a.step c).1 s (a.step c).2.2).cb hq.1
    simp only [ApiG.runCb, ApiG.stepCb, e1, e2]
    rw [← hs.2.1, ← hs.2.2, ← hq.2.1, ← hq.2.2.1, ← hq.2.2.2.1, ← hq.2.2.2.2.1, ← hq.2.2.2.2.2, this]

/-! ### calls from callbacks are ordinary calls -/

theorem issue_is_run {T : Type} (ts : TStep T) (k : Nat) (cs : List Call) (a : ApiG T) :
    (ApiG.issue ts k a cs).1 = ApiG.after ts a cs
    ∧ (ApiG.issue ts k a cs).2.1 = (ApiG.run ts a cs).flatMap (·.2)
    ∧ (ApiG.issue ts k a cs).2.2.map (·.2.1) = cs
    ∧ (ApiG.issue ts k a cs).2.2.map (·.2.2) = (ApiG.run ts a cs).map (·.1)
    ∧ ∀ x ∈ (ApiG.issue ts k a cs).2.2, x.1 = k := by
  induction cs generalizing a with
  | nil => simp [ApiG.issue, ApiG.after, ApiG.run]
  | cons c cs ih =>
    have := ih (a.step ts c).1
    simp only [ApiG.issue, ApiG.after, ApiG.run, List.foldl_cons, List.flatMap_cons, List.map_cons]
    refine ⟨this.1, by rw [this.2.1], by rw [this.2.2.1], by rw [this.2.2.2.1], ?_⟩
    intro x hx
    cases hx with
    | head => rfl
    | tail _ hx => exact this.2.2.2.2 x hx

theorem after_append {T : Type} (ts : TStep T) (a : ApiG T) (xs ys : List Call) :
    ApiG.after ts a (xs ++ ys) = ApiG.after ts (ApiG.after ts a xs) ys := by
  simp [ApiG.after, List.foldl_append]

theorem run_append_api {T : Type} (ts : TStep T) (xs ys : List Call) (a : ApiG T) :
    ApiG.run ts a (xs ++ ys) = ApiG.run ts a xs ++ ApiG.run ts (ApiG.after ts a xs) ys := by
  induction xs generalizing a with
  | nil => rfl
  | cons x xs ih => simp [ApiG.run, ApiG.after, ih]

theorem settle_is_sequential {T σ : Type} (ts : TStep T) (cb : Cb σ) (fuel : Nat) (a : ApiG T) (s : σ)
    (pend : List (Nat × Nat)) :
    (ApiG.settle ts cb fuel a s pend).api = ApiG.after ts a ((ApiG.settle ts cb fuel a s pend).inner.map (·.2.1))
    ∧ (ApiG.settle ts cb fuel a s pend).fired ++ (ApiG.settle ts cb fuel a s pend).left
        = pend ++ (ApiG.run ts a ((ApiG.settle ts cb fuel a s pend).inner.map (·.2.1))).flatMap (·.2)
    ∧ (ApiG.settle ts cb fuel a s pend).inner.map (·.2.2)
        = (ApiG.run ts a ((ApiG.settle ts cb fuel a s pend).inner.map (·.2.1))).map (·.1) := by
  induction fuel generalizing a s pend with
  | zero => simp [ApiG.settle, ApiG.after, ApiG.run]
  | succ f ih =>
    cases pend with
    | nil => simp [ApiG.settle, ApiG.after, ApiG.run]
    | cons kv rest =>
      have hi := issue_is_run ts kv.1 (cb s kv.1 kv.2).2 a
      have := ih (ApiG.issue ts kv.1 a (cb s kv.1 kv.2).2).1 (cb s kv.1 kv.2).1
        (rest ++ (ApiG.issue ts kv.1 a (cb s kv.1 kv.2).2).2.1)
      simp only [ApiG.settle, List.map_append, hi.2.2.1, after_append, run_append_api, List.flatMap_append,
        List.cons_append]
      rw [← hi.1]
      refine ⟨this.1, ?_, ?_⟩
      · rw [this.2.1, hi.2.1]; simp [List.append_assoc]
      · rw [this.2.2, hi.2.2.2.1]

/-! ### a fired key is no longer pending -/

theorem Spec.tick_fired_absent (t : Spec.Table) (hnd : Spec.KeysNodup t) (k v : Nat)
    (hf : (k, v) ∈ (Spec.tick t).2) : k ∉ Spec.keys (Spec.tick t).1 := by
  simp only [Spec.tick, List.mem_map, List.mem_filter, decide_eq_true_eq] at hf
  obtain ⟨x, ⟨hx, hr⟩, hxk⟩ := hf
  intro hk
  simp only [Spec.tick, Spec.keys, List.map_map, List.mem_map, List.mem_filter, Function.comp] at hk
  obtain ⟨y, ⟨hy, hyr⟩, hyk⟩ := hk
  have hkx : x.key = k := by cases hxk; rfl
  have : x = y := Spec.unique_of_nodup t hnd x y hx hy (by rw [hkx]; exact hyk.symm)
  subst this
  simp [hr] at hyr

end GoZero.C12
