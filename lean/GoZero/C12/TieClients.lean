/-
C12 — Tie for the clients of the wheel: core/stores/cache/cleaner.go, core/collection/cache.go,
core/timex/ticker.go (what the extractor reads from them now = what Clients.lean was written against).

  semantic     nextDelay (Go switch → Lean function, equal to the model's for all arguments); the delays and wheel
               parameters the clients pass (evaluated constants): AddCleanTask arms with one second and stores one
               second, both wheels tick once per second with 300 slots
  statements   AddCleanTask, clean (run the task; on error look up the next delay, store it in the task, re-arm the
               SAME key with SetTimer — not MoveTimer: the key is gone when the callback runs), the shutdown
               listener (Drain(clean)), Cache.SetWithExpire / Set / Del / onEvict / the expiry callback, the tickers
-/
import GoZero.Extracted.C12
import GoZero.C12.Clients
namespace GoZero.C12.TieClients
open GoZero.C12
open GoZero.Extracted.C12

/-! ### cleaner.go -/

/-- Go's `nextDelay` is the model's, for every delay. -/
theorem tie_nextDelay (d : Int) : Extracted.C12.nextDelay d = GoZero.C12.nextDelay d := rfl

/-- AddCleanTask arms the task one second ahead and stores that second as the task's delay (the model's
`addCleanTask`); the cleaner's wheel ticks once per second and has 300 slots (the harness' `n`, `interval`). -/
theorem tie_cleanerConstants :
    addCleanTaskTimerDelay = (second : Int) ∧ addCleanTaskValueDelay = (second : Int)
    ∧ cleanerInterval = (second : Int) ∧ cleanerSlotsArg = 300 ∧ cleanerSlots = 300 ∧ cleanWorkers = 5 := by decide

theorem tie_addCleanTask : addCleanTaskStmts =
    ["tw := timingWheel.Load().(*collection.TimingWheel)",
     "if err := tw.SetTimer(stringx.Randn(taskKeyLen), delayTask{ delay: time.Second, task: task, keys: keys, }, time.Second); err != nil {",
     "(log)", "}"] := rfl

/-- `clean` = the model's `cleanerCb`: run the task on the task runner; success → nothing; failure → `nextDelay`
of the stored delay; if there is one, store it and `SetTimer(key, dt, next)` on the same key, else give up. -/
theorem tie_clean : cleanStmts =
    ["taskRunner.Schedule(func {", "dt := value.(delayTask)", "err := dt.task()", "if err == nil {", "return", "}",
     "next, ok := nextDelay(dt.delay)", "if ok {", "dt.delay = next",
     "tw := timingWheel.Load().(*collection.TimingWheel)",
     "if err = tw.SetTimer(key, dt, next); err != nil {", "(log)", "}",
     "} else {", "(log)", "(log)", "(log)", "}", "})"] := by decide

theorem tie_cleanerInit : cleanerInitStmts =
    ["tw, err := collection.NewTimingWheel(time.Second, timingWheelSlots, clean)", "logx.Must(err)",
     "timingWheel.Store(tw)", "proc.AddShutdownListener(func {", "if err := tw.Drain(clean); err != nil {",
     "(log)", "}", "})"] := by decide

/-! ### cache.go -/

theorem tie_cacheConstants :
    cacheInterval = (second : Int) ∧ cacheSlotsArg = 300 ∧ cacheSlots = 300 := by decide

/-- SetWithExpire stores the entry and (re)starts its timer with SetTimer (key, value, jittered expiry); Set uses
the cache's expire; Del removes the entry and its timer; the expiry callback is Del (the model's `cacheCb`). -/
theorem tie_cache :
    cacheSetWithExpireStmts =
      ["c.lock.Lock()", "c.data[key] = value", "c.lruCache.add(key)", "c.lock.Unlock()",
       "expiry := c.unstableExpiry.AroundDuration(expire)", "c.timingWheel.SetTimer(key, value, expiry)"]
    ∧ cacheSetStmts = ["c.SetWithExpire(key, value, c.expire)"]
    ∧ cacheDelStmts =
      ["c.lock.Lock()", "delete(c.data, key)", "c.lruCache.remove(key)", "c.lock.Unlock()",
       "c.timingWheel.RemoveTimer(key)"]
    ∧ cacheExpiryCallback = ["key, ok := k.(string)", "if !ok {", "return", "}", "cache.Del(key)"]
    ∧ cacheOnEvictStmts = ["delete(c.data, key)", "c.timingWheel.RemoveTimer(key)"] := by decide

/-! ### ticker.go -/

/-- the real ticker is `time.NewTicker(d)` and hands out its channel; the fake ticker buffers one tick,
`Tick` sends one value, `Stop` closes the channel (the run loop's `ticker.Stop()`). -/
theorem tie_tickers :
    newTickerStmts = ["return &realTicker{ Ticker: time.NewTicker(d), }"]
    ∧ realTickerChanStmts = ["return rt.C"]
    ∧ newFakeTickerStmts = ["return &fakeTicker{ c: make(chan time.Time, 1), done: make(chan lang.PlaceholderType, 1), }"]
    ∧ fakeTickerChanStmts = ["return ft.c"]
    ∧ fakeTickerStopStmts = ["close(ft.c)"]
    ∧ fakeTickerTickStmts = ["ft.c <- time.Now()"] := by decide

end GoZero.C12.TieClients
