/-
C12 — Tie for the clients of the wheel: core/stores/cache/cleaner.go, core/collection/cache.go,
core/timex/ticker.go (what the extractor reads from them now = what Clients.lean was written against).

  semantic     nextDelay (Go switch → Lean function, equal to the model's for all arguments); the delays and wheel
               parameters the clients pass (evaluated constants): AddCleanTask arms with one second and stores one
               second, both wheels tick once per second with 300 slots
  statements   AddCleanTask, clean (run the task; on error look up the next delay, store it in the task, re-arm the
               SAME key with SetTimer — not MoveTimer: the key is gone when the callback runs), the shutdown
               listener (Drain(clean)), Cache.SetWithExpire / Set / Del / onEvict / the expiry callback, the tickers
-/
import GoZero.Extracted.C12
import GoZero.C12.Clients
import GoZero.C12.Deliver
namespace GoZero.C12.TieClients
open GoZero.C12
open GoZero.Extracted.C12

/-! ### cleaner.go -/

/-- Go's `nextDelay` is the model's, for every delay. -/
theorem tie_nextDelay (d : Int) : Extracted.C12.nextDelay d = GoZero.C12.nextDelay d := rfl

/-- AddCleanTask arms the task one second ahead and stores that second as the task's delay (the model's
`addCleanTask`); the cleaner's wheel ticks once per second and has 300 slots (the harness' `n`, `interval`). -/
theorem tie_cleanerConstants :
    addCleanTaskTimerDelay = (second : Int) ∧ addCleanTaskValueDelay = (second : Int)
    ∧ cleanerInterval = (second : Int) ∧ cleanerSlotsArg = 300 ∧ cleanerSlots = 300 ∧ cleanWorkers = 5 := by decide

theorem tie_addCleanTask : addCleanTaskStmts =
    ["tw := timingWheel.Load().(*collection.TimingWheel)",
     "if err := tw.SetTimer(stringx.Randn(taskKeyLen), delayTask{ delay: time.Second, task: task, keys: keys, }, time.Second); err != nil {",
     "(log)", "}"] := rfl

/-- `clean` = the model's `cleanerCb`: run the task on the task runner; success → nothing; failure → `nextDelay`
of the stored delay; if there is one, store it and `SetTimer(key, dt, next)` on the same key, else give up. -/
theorem tie_clean : cleanStmts =
    ["taskRunner.Schedule(func {", "dt := value.(delayTask)", "err := dt.task()", "if err == nil {", "return", "}",
     "next, ok := nextDelay(dt.delay)", "if ok {", "dt.delay = next",
     "tw := timingWheel.Load().(*collection.TimingWheel)",
     "if err = tw.SetTimer(key, dt, next); err != nil {", "(log)", "}",
     "} else {", "(log)", "(log)", "(log)", "}", "})"] := by decide

theorem tie_cleanerInit : cleanerInitStmts =
    ["tw, err := collection.NewTimingWheel(time.Second, timingWheelSlots, clean)", "logx.Must(err)",
     "timingWheel.Store(tw)", "proc.AddShutdownListener(func {", "if err := tw.Drain(clean); err != nil {",
     "(log)", "}", "})"] := by decide

/-! ### cache.go -/

theorem tie_cacheConstants :
    cacheInterval = (second : Int) ∧ cacheSlotsArg = 300 ∧ cacheSlots = 300 := by decide

/-- SetWithExpire stores the entry and (re)starts its timer with SetTimer (key, value, jittered expiry); Set uses
the cache's expire; Del removes the entry and its timer; the expiry callback is Del (the model's `cacheCb`). -/
theorem tie_cache :
    cacheSetWithExpireStmts =
      ["c.lock.Lock()", "c.data[key] = value", "c.lruCache.add(key)", "c.lock.Unlock()",
       "expiry := c.unstableExpiry.AroundDuration(expire)", "c.timingWheel.SetTimer(key, value, expiry)"]
    ∧ cacheSetStmts = ["c.SetWithExpire(key, value, c.expire)"]
    ∧ (cacheDelStmts =
        ["c.lock.Lock()", "delete(c.data, key)", "c.lruCache.remove(key)", "c.lock.Unlock()",
         "c.timingWheel.RemoveTimer(key)"]
       -- or with fixes/not-applied/C12-cache-del-removes-timer-under-lock.patch (the same requests, issued before the unlock)
       ∨ cacheDelStmts =
        ["c.lock.Lock()", "delete(c.data, key)", "c.lruCache.remove(key)", "c.timingWheel.RemoveTimer(key)",
         "c.lock.Unlock()"])
    ∧ cacheExpiryCallback = ["key, ok := k.(string)", "if !ok {", "return", "}", "cache.Del(key)"]
    ∧ cacheOnEvictStmts = ["delete(c.data, key)", "c.timingWheel.RemoveTimer(key)"] := by decide

/-! ### ticker.go -/

/-- the real ticker is `time.NewTicker(d)` and hands out its channel; the fake ticker buffers one tick,
`Tick` sends one value, `Stop` closes the channel (the run loop's `ticker.Stop()`). -/
theorem tie_tickers :
    newTickerStmts = ["return &realTicker{ Ticker: time.NewTicker(d), }"]
    ∧ realTickerChanStmts = ["return rt.C"]
    ∧ newFakeTickerStmts = ["return &fakeTicker{ c: make(chan time.Time, 1), done: make(chan lang.PlaceholderType, 1), }"]
    ∧ fakeTickerChanStmts = ["return ft.c"]
    ∧ fakeTickerStopStmts = ["close(ft.c)"]
    ∧ fakeTickerTickStmts = ["ft.c <- time.Now()"] := by decide

/-! ### round 5: typed tables derived from cache.go / cleaner.go / timingwheel.go -/

/-- EVERY call of SetTimer / MoveTimer / RemoveTimer / Drain in EVERY function of cache.go and cleaner.go is issued
by the calling goroutine itself (not under `go`, not through threading.GoSafe, not from a defer): the requests of
one operation reach the wheel in program order, which is what `CacheL` / `cleanerCb` / `ApiG.issue` assume.
(seeded change C12-7 turns the row of Cache.onEvict into `detached = true`.) -/
theorem tie_wheelCallsInProgramOrder :
    (cacheWheelCalls ++ cleanerWheelCalls).all (fun c => !c.detached && !c.deferred) = true := by decide

/-- which function calls which method with which arguments (the calls `CacheL` issues: Del → RemoveTimer(key),
SetWithExpire → SetTimer(key, value, expiry), onEvict → RemoveTimer(key); no other function touches the wheel). -/
theorem tie_cacheWheelCalls : cacheWheelCalls =
    [⟨"Cache.Del", "RemoveTimer", ["key"], false, false⟩,
     ⟨"Cache.SetWithExpire", "SetTimer", ["key", "value", "expiry"], false, false⟩,
     ⟨"Cache.onEvict", "RemoveTimer", ["key"], false, false⟩] := by decide

theorem tie_cleanerWheelCalls : cleanerWheelCalls =
    [⟨"init", "Drain", ["clean"], false, false⟩,
     ⟨"AddCleanTask", "SetTimer",
       ["stringx.Randn(taskKeyLen)", "delayTask{ delay: time.Second, task: task, keys: keys, }", "time.Second"], false, false⟩,
     ⟨"clean", "SetTimer", ["key", "dt", "next"], false, false⟩] := by decide

/-- forwarded argument lists of the delegating entry points: Set → SetWithExpire(key, value, c.expire)
(`CacheL.set`), Take → Set(key, v), the expiry handed to the jitter is the caller's, NewTimingWheel →
NewTimingWheelWithTicker(interval, numSlots, execute, timex.NewTicker(interval)). -/
theorem tie_forwardedArguments :
    cacheSetForward = ["key", "value", "c.expire"] ∧ cacheTakeForward = ["key", "v"]
    ∧ cacheExpiryForward = ["expire"]
    ∧ newTimingWheelForward = ["interval", "numSlots", "execute", "timex.NewTicker(interval)"]
    ∧ newTimingWheelTickerForward = ["interval"] := by decide

/-- Go's guard of WithLimit is the model's configuration, for every limit. -/
theorem tie_withLimit (limit expire : Int) :
    (withLimitGuard limit = true ↔ (CacheL.init limit expire).limit ≠ 0)
    ∧ (withLimitGuard limit = true → ((CacheL.init limit expire).limit : Int) = limit) := by
  unfold withLimitGuard CacheL.init
  constructor
  · by_cases h : limit > 0 <;> simp [h] <;> omega
  · intro h; simp at h; simp [h]; omega

/-- Go's eviction test of keyLru.add is the model's (`lruAdd`), for every list and limit. -/
theorem tie_lruEvict (c : CacheL) (k : Nat) :
    lruEvictGuard ((k :: c.lru).length : Nat) (c.limit : Nat) = decide ((k :: c.lru).length > c.limit) := by
  unfold lruEvictGuard
  simp only [gt_iff_lt, Int.ofNat_lt]

/-- the LRU list: a known key moves to the front; a new key is pushed to the front and, past the limit, the BACK
element is removed; removeElement unlinks, forgets the element and calls onEvict with its key; remove goes
through removeElement as well; without WithLimit both operations are empty (`CacheL.lruAdd` / `lruRemove`). -/
theorem tie_lru :
    lruAddStmts =
      ["if elem, ok := klru.elements[key]; ok {", "klru.evicts.MoveToFront(elem)", "return", "}",
       "elem := klru.evicts.PushFront(key)", "klru.elements[key] = elem",
       "if klru.evicts.Len() > klru.limit {", "klru.removeOldest()", "}"]
    ∧ lruRemoveStmts = ["if elem, ok := klru.elements[key]; ok {", "klru.removeElement(elem)", "}"]
    ∧ lruRemoveOldestStmts = ["elem := klru.evicts.Back()", "if elem != nil {", "klru.removeElement(elem)", "}"]
    ∧ lruRemoveElementStmts =
      ["klru.evicts.Remove(e)", "key := e.Value.(string)", "delete(klru.elements, key)", "klru.onEvict(key)"]
    ∧ emptyLruAddStmts = [] ∧ emptyLruRemoveStmts = [] := by decide

/-- the constructors: newKeyLru stores the limit and the eviction callback it is given, WithLimit hands it
`cache.onEvict`, NewCache starts from the empty LRU and applies the options in order. -/
theorem tie_lruCtor :
    newKeyLruStmts =
      ["return &keyLru{ limit: limit, evicts: list.New(), elements: make(map[string]*list.Element), onEvict: onEvict, }"]
    ∧ withLimitStmts = ["return func(cache *Cache) { if limit > 0 { cache.lruCache = newKeyLru(limit, cache.onEvict) } }"]
    ∧ newCacheOptionStmts =
      ["cache := &Cache{ data: make(map[string]any), expire: expire, lruCache: emptyLruCache, barrier: syncx.NewSingleFlight(), unstableExpiry: mathx.NewUnstable(expiryDeviation), }",
       "for _, opt := range opts { opt(cache) }"] := ⟨rfl, rfl, rfl⟩

/-- Get / doGet / Take (`CacheL.doGet`, `CacheL.take`): a hit touches the LRU list under the lock; Take looks up
twice, calls fetch, returns its error, and stores only a fetched value, with Set. -/
theorem tie_getTake :
    cacheDoGetStmts =
      ["c.lock.Lock()", "defer c.lock.Unlock()", "value, ok := c.data[key]", "if ok {", "c.lruCache.add(key)", "}",
       "return value, ok"]
    ∧ cacheGetStmts =
      ["value, ok := c.doGet(key)", "if ok {", "c.stats.IncrementHit()", "} else {", "c.stats.IncrementMiss()", "}",
       "return value, ok"]
    ∧ cacheTakeStmts =
      ["if val, ok := c.doGet(key); ok {", "c.stats.IncrementHit()", "return val, nil", "}", "var fresh bool",
       "val, err := c.barrier.Do(key, func {", "if val, ok := c.doGet(key); ok {", "return val, nil", "}",
       "v, e := fetch()", "if e != nil {", "return nil, e", "}", "fresh = true", "c.Set(key, v)", "return v, nil", "})",
       "if err != nil {", "return nil, err", "}", "if fresh {", "c.stats.IncrementMiss()", "return val, nil", "}",
       "c.stats.IncrementHit()", "return val, nil"] := by decide

/-- the due tasks of a tick / of a Drain are collected in a slice declared inside the function and never stored
anywhere else: every goroutine started by runTasks / drainAll owns its batch (`Dl`, not `DlShared`). -/
theorem tie_tasksOwned :
    scanTasksDecl = ["var tasks []timingTask", "tasks = append(tasks, timingTask{ key: task.key, value: task.value, })"]
    ∧ drainTasksDecl =
      ["var tasks []timingTask", "tasks = append(tasks, timingTask{ key: task.key, value: task.value, })",
       "task := tasks[i]"] := by decide

/-! ### round 5c: where the recovery sits (typed nesting, read off the AST) -/

/-- does the construct recover a panic of what it encloses? (GoSafe / RunSafe: `defer rescue.Recover()`;
TaskRunner.Schedule: its goroutine defers rescue.Recover) -/
def Nest.recovers : Nest → Bool
  | .goSafe | .runSafe | .schedule => true
  | _ => false

/-- does the construct start a goroutine for what it encloses? -/
def Nest.spawns : Nest → Bool
  | .go | .goSafe | .schedule => true
  | _ => false

/-- the recover scope of a delivery, from the constructs around the callback's call (outermost first): a
recovering construct INSIDE the loop → per task; only outside → around the loop; none → no recovery at all. -/
def scopeOf (path : List Nest) : Option Scope :=
  if ((path.dropWhile (· ≠ .loop)).drop 1).any Nest.recovers then some .perTask
  else if (path.takeWhile (· ≠ .loop)).any Nest.recovers then some .aroundLoop
  else none

/-- a goroutine per task (inside the loop): then even Goexit ends only that task's goroutine. -/
def goroutinePerTask (path : List Nest) : Bool := ((path.dropWhile (· ≠ .loop)).drop 1).any Nest.spawns

/-- runTasks: ONE goroutine per tick, the loop inside it, the recovery inside the loop — the `Scope.perTask` of
Deliver.lean (`panicking_callback_affects_no_other_timer`), and no goroutine per task (`goexit_loses_the_rest_of_its_tick`
is the behaviour of the code).  Seeded C12-9 gives `[.goSafe, .loop]`: `some .aroundLoop`. -/
theorem tie_runTasksScope :
    runTasksNest = [.go, .loop, .runSafe] ∧ scopeOf runTasksNest = some .perTask
    ∧ goroutinePerTask runTasksNest = false := by decide

/-- drainAll's delivery: one goroutine hands out, and every task gets a goroutine of its own that recovers
(TaskRunner.Schedule): neither a panic nor Goexit in a Drain callback touches another task. -/
theorem tie_drainScope :
    drainNest = [.go, .loop, .schedule] ∧ scopeOf drainNest = some .perTask ∧ goroutinePerTask drainNest = true := by decide

/-- MoveTimer below one interval: the callback runs on a recovering goroutine of its own, outside any loop. -/
theorem tie_moveImmediateScope :
    moveImmediateNest = [.goSafe] ∧ (moveImmediateNest.any Nest.recovers ∧ moveImmediateNest.any Nest.spawns) = true := by decide

/-! ### round 5c: the public methods and the run loop as typed tables, composed -/

/-- the public method a call of the model is (a tick comes from the ticker, Stop closes the stop channel). -/
def methodOfCall : Call → Option String
  | .setTimer _ _ _ => some "SetTimer"
  | .moveTimer _ _ => some "MoveTimer"
  | .removeTimer _ => some "RemoveTimer"
  | .drain => some "Drain"
  | _ => none

/-- the handler the model runs for an accepted call (`ApiG.step` → `Op` → `stepWith`). -/
def handlerOfCall : Call → Option String
  | .setTimer _ _ _ => some "setTask"
  | .moveTimer _ _ => some "moveTask"
  | .removeTimer _ => some "removeTask"
  | .drain => some "drainAll"
  | _ => none

/-- Go: the channel the method sends on, then the handler `run` calls for what it receives from that channel. -/
def goHandlerOfCall (c : Call) : Option String := do
  let m ← methodOfCall c
  let row ← apiSends.find? (·.method = m)
  let d ← runDispatch.find? (·.chan = row.chan)
  pure d.handler

/-- [semantic, for every call]  method → channel → handler in the Go source is the handler the model runs: a method
sending on another method's channel, or `run` dispatching a channel to another handler, breaks this. -/
theorem tie_methodToHandler (c : Call) : goHandlerOfCall c = handlerOfCall c := by
  cases c <;> rfl

/-- every public method: the request carries exactly the caller's arguments (delay, key, value / delay, key / key / fn),
returns nil once the loop HAS the request (send on an unbuffered channel) and ErrClosed when stopChannel is closed. -/
theorem tie_apiSends : apiSends =
    [⟨"SetTimer", "setChannel", [("delay", "delay"), ("key", "key"), ("value", "value")], "nil", "stopChannel", "ErrClosed"⟩,
     ⟨"MoveTimer", "moveChannel", [("delay", "delay"), ("key", "key")], "nil", "stopChannel", "ErrClosed"⟩,
     ⟨"RemoveTimer", "removeChannel", [("", "key")], "nil", "stopChannel", "ErrClosed"⟩,
     ⟨"Drain", "drainChannel", [("", "fn")], "nil", "stopChannel", "ErrClosed"⟩] := by decide

/-- `run`: every channel is dispatched to its handler with what was received; the tick goes to onTick; only the
stop channel ends the loop, after stopping the ticker; each channel appears once. -/
theorem tie_runDispatch : runDispatch =
    [⟨"ticker.Chan()", "", "onTick", [], false⟩,
     ⟨"setChannel", "task", "setTask", ["&task"], false⟩,
     ⟨"removeChannel", "key", "removeTask", ["key"], false⟩,
     ⟨"moveChannel", "task", "moveTask", ["task"], false⟩,
     ⟨"drainChannel", "fn", "drainAll", ["fn"], false⟩,
     ⟨"stopChannel", "", "ticker.Stop", [], true⟩]
    ∧ (runDispatch.map (·.chan)).Nodup := by decide

end GoZero.C12.TieClients
