/-
C12 — Tie: what the extractor read from core/collection/timingwheel.go *now* equals what the
model was written against.  A failing obligation here means the code moved away from the model.

  arithmetic            getOffset, getPositionAndCircle, onTick's position, the constructor's initial tickedPos
  run-loop handlers     moveTask (whole function), setTask (clamp + rest), removeTask, setTimerPosition, one
                        iteration of the scan loop and of the drain loop: effect lists, per branch, with values
  public API            the argument guards as Bool functions (= the model's `badDelayKey`, `badCtor`), the
                        select tables (channel, direction, sent fields, returned error), Stop, the run loop's
                        dispatch table (channel ↦ handler; stopChannel ↦ ticker.Stop(); return), constructor
  statement skeletons   order of list / map operations in scan, drain, remove, set, onTick
-/
import GoZero.Extracted.C12
import GoZero.C12.Proofs
import GoZero.C12.Api
namespace GoZero.C12.Tie
open GoZero.C12
open GoZero.Extracted.C12

theorem extraction_clean : extractionErrors = [] := by decide

/-! ### arithmetic -/

/-- Go's `getOffset` (truncating `%` on `int`) is the model's `off` on slot indices. -/
theorem tie_getOffset (n p q : Nat) (hp : p < n) : getOffset q n p = (off n p q : Nat) := by
  unfold getOffset off
  have h : ((q : Int) + n - p - 1) = ((q + n - p - 1 : Nat) : Int) := by omega
  rw [h, Int.tmod_eq_emod_of_nonneg (by omega)]
  norm_cast

/-- Go's `getPositionAndCircle` is the model's `posCircle` on `steps = d / interval`. -/
theorem tie_getPositionAndCircle (n p d iv : Nat) (hs : iv ≤ d) (hiv : 0 < iv) :
    getPositionAndCircle d iv p n
      = (((posCircle n p (d / iv)).1 : Int), ((posCircle n p (d / iv)).2 : Int)) := by
  unfold getPositionAndCircle posCircle
  have h1 : 1 ≤ d / iv := (Nat.le_div_iff_mul_le hiv).mpr (by omega)
  simp only []
  have e1 : Int.tdiv (d : Int) (iv : Int) = ((d / iv : Nat) : Int) := by
    rw [Int.tdiv_eq_ediv_of_nonneg (by omega)]; norm_cast
  rw [e1]
  generalize d / iv = s at *
  have e2 : ((s : Int) - 1) = ((s - 1 : Nat) : Int) := by omega
  rw [e2, Int.tdiv_eq_ediv_of_nonneg (by omega), Int.tmod_eq_emod_of_nonneg (by omega)]
  congr 1

/-- the only numeric conversion in the file is `int(d / interval)` of a `time.Duration` quotient (int is
64 bits wide on the supported platforms): no narrowing anywhere. -/
theorem tie_conversions : conversions = ["int(d / tw.interval)"] := by decide

/-- the constructor starts the wheel "at the previous virtual circle": `tickedPos = numSlots - 1`. -/
theorem tie_initTickedPos (n : Nat) (hn : 0 < n) : initTickedPos n = ((TW.init n).tickedPos : Int) := by
  unfold initTickedPos TW.init
  simp only []
  omega

/-- `onTick` advances `tickedPos` by one modulo `numSlots` (the model's `tick`), then scans — and the
slot it scans is the one at the advanced position. -/
theorem tie_onTick (n p : Nat) :
    onTickEff p n = [("tickedPos", (((tick { n := n, tickedPos := p, entries := [] }).1.tickedPos : Nat) : Int)),
                     ("call:scanAndRunTasks(l)", 0)]
    ∧ onTickStmts = ["tw.tickedPos = (tw.tickedPos + 1) % tw.numSlots", "l := tw.slots[tw.tickedPos]",
                     "tw.scanAndRunTasks(l)"] := by
  refine ⟨?_, by decide⟩
  unfold onTickEff tick
  simp only []
  have h : ((p : Int) + 1) = ((p + 1 : Nat) : Int) := by omega
  rw [h, Int.tmod_eq_emod_of_nonneg (by omega)]
  norm_cast

/-! ### the run loop's handlers -/

/-- the case split of Go's `moveTask` (its assignments, per branch) is the model's `moveCase`. -/
theorem tie_moveTask (n p old d iv : Nat) (hp : p < n) (hs : iv ≤ d) (hiv : 0 < iv) :
    moveTaskTail d iv p n old =
      match moveCase n p old (d / iv) with
      | .keep c df => [("timer.item.circle", (c : Int)), ("timer.item.diff", (df : Int))]
      | .reinsert _ => [("timer.item.removed", 1), ("call:tw.slots[pos].PushBack(newItem)", 0),
                        ("call:setTimerPosition(pos,newItem)", 0)] := by
  have hn : 0 < n := by omega
  unfold moveTaskTail moveCase
  simp only [tie_getPositionAndCircle n p d iv hs hiv]
  have hpl : (posCircle n p (d / iv)).1 < n := Nat.mod_lt _ hn
  generalize (posCircle n p (d / iv)).1 = pos at *
  generalize (posCircle n p (d / iv)).2 = c at *
  rw [tie_getOffset n p old hp, tie_getOffset n p pos hp]
  have hoo : off n p old < n := off_lt _ _ _ hn
  generalize off n p old = oo at *
  generalize off n p pos = no at *
  by_cases h1 : no ≥ oo
  · have h1' : (no : Int) ≥ (oo : Int) := by omega
    simp only [h1, h1', decide_true, if_true]
    congr 3
    omega
  · have h1' : ¬ ((no : Int) ≥ (oo : Int)) := by omega
    by_cases h2 : c > 0
    · have h2' : (c : Int) > 0 := by omega
      simp only [h1, h1', h2, h2', decide_true, decide_false, if_true, if_false, Bool.false_eq_true]
      congr 3 <;> omega
    · have h2' : ¬ ((c : Int) > 0) := by omega
      simp only [h1, h1', h2, h2', decide_false, if_false, Bool.false_eq_true]

theorem steps_zero_iff (d iv : Nat) (hiv : 0 < iv) : d / iv = 0 ↔ d < iv := by
  constructor
  · intro h
    by_cases hlt : d < iv
    · exact hlt
    · have : 1 ≤ d / iv := (Nat.le_div_iff_mul_le hiv).mpr (by omega)
      omega
  · exact Nat.div_eq_of_lt

/-- **every statement of `moveTask`**, as the model's `stepWith … (.move k s)` reads it (`s = d / interval`):
unknown key → nothing; `s = 0` (delay below one interval) → the callback runs at once with the timer's key and
value and nothing else changes; otherwise `moveCase`: lazy move (circle, diff) or flag the entry removed and
insert a fresh entry — carrying the old value — into the slot `getPositionAndCircle` computed. -/
theorem tie_moveTaskFull (n p old d iv : Nat) (hp : p < n) (hiv : 0 < iv) (ok : Bool) :
    moveTaskEff ok d iv p n old =
      ("call:timers.Get(task.key)", 0) ::
        (if ok = false then []
         else if d / iv = 0 then
           [("call:threading.GoSafe{()", 0), ("call:execute(timer.item.key,timer.item.value)", 0), ("call:}()", 0)]
         else match moveCase n p old (d / iv) with
           | .keep c df => [("timer.item.circle", (c : Int)), ("timer.item.diff", (df : Int))]
           | .reinsert s =>
             [("timer.item.removed", 1),
              ("call:new:newItem(&timingEntry{ baseEntry: task, value: timer.item.value, })", 0),
              ("arg.pos", (s : Int)), ("call:tw.slots[pos].PushBack(newItem)", 0),
              ("arg.pos", (s : Int)), ("call:setTimerPosition(pos,newItem)", 0)]) := by
  have hn : 0 < n := by omega
  cases ok with
  | false => simp [moveTaskEff]
  | true =>
    by_cases hlt : d < iv
    · have h0 : d / iv = 0 := Nat.div_eq_of_lt hlt
      have hlt' : (d : Int) < (iv : Int) := by omega
      simp [moveTaskEff, h0, hlt']
    · have hs : iv ≤ d := by omega
      have h0 : ¬ d / iv = 0 := fun h => hlt ((steps_zero_iff d iv hiv).mp h)
      have hlt' : ¬ (d : Int) < (iv : Int) := by omega
      unfold moveTaskEff moveCase
      simp only [Bool.not_true, Bool.false_eq_true, if_false, hlt', decide_false, h0,
        tie_getPositionAndCircle n p d iv hs hiv]
      have hpl : (posCircle n p (d / iv)).1 < n := Nat.mod_lt _ hn
      generalize (posCircle n p (d / iv)).1 = pos at *
      generalize (posCircle n p (d / iv)).2 = c at *
      rw [tie_getOffset n p old hp, tie_getOffset n p pos hp]
      have hoo : off n p old < n := off_lt _ _ _ hn
      generalize off n p old = oo at *
      generalize off n p pos = no at *
      by_cases h1 : no ≥ oo
      · have h1' : (no : Int) ≥ (oo : Int) := by omega
        simp only [h1, h1', decide_true, if_true]
        congr 4
        omega
      · have h1' : ¬ ((no : Int) ≥ (oo : Int)) := by omega
        by_cases h2 : c > 0
        · have h2' : (c : Int) > 0 := by omega
          simp only [h1, h1', h2, h2', decide_true, decide_false, if_true, if_false, Bool.false_eq_true]
          congr 4 <;> omega
        · have h2' : ¬ ((c : Int) > 0) := by omega
          simp only [h1, h1', h2, h2', decide_false, if_false, Bool.false_eq_true]
          simp

/-- `setTask` first clamps a delay below one interval up to one interval — in steps: `0 ↦ 1`, the model's
`if s = 0 then 1 else s`. -/
theorem tie_setTaskClamp (d iv : Nat) (hiv : 0 < iv) :
    setTaskClamp d iv = (if d / iv = 0 then [("task.delay", (iv : Int))] else [])
    ∧ (if d / iv = 0 then iv else d) / iv = (if d / iv = 0 then 1 else d / iv) := by
  constructor
  · unfold setTaskClamp
    by_cases hlt : d < iv
    · have h0 : d / iv = 0 := Nat.div_eq_of_lt hlt
      have hlt' : (d : Int) < (iv : Int) := by omega
      simp [h0, hlt']
    · have h0 : ¬ d / iv = 0 := fun h => hlt ((steps_zero_iff d iv hiv).mp h)
      have hlt' : ¬ (d : Int) < (iv : Int) := by omega
      simp [h0, hlt']
  · split
    · exact Nat.div_self hiv
    · rfl

/-- **`setTask` after the clamp**, as the model's `setWith`: a known key gets the new value and is then
moved (`moveTask` with the same key and clamped delay); a new key gets a fresh entry with
`circle = posCircle.2`, pushed to slot `posCircle.1` and registered there. -/
theorem tie_setTask (n p d iv : Nat) (v : Int) (hs : iv ≤ d) (hiv : 0 < iv) (ok : Bool) :
    setTaskEff ok v d iv p n =
      ("call:timers.Get(task.key)", 0) ::
        (if ok then [("entry.item.value", v), ("call:moveTask(task.baseEntry)", 0)]
         else [("task.circle", ((posCircle n p (d / iv)).2 : Int)),
               ("arg.pos", ((posCircle n p (d / iv)).1 : Int)), ("call:tw.slots[pos].PushBack(task)", 0),
               ("arg.pos", ((posCircle n p (d / iv)).1 : Int)), ("call:setTimerPosition(pos,task)", 0)]) := by
  unfold setTaskEff
  cases ok <;> simp [tie_getPositionAndCircle n p d iv hs hiv]

/-- `removeTask`: unknown key → nothing; else flag the entry removed and forget the key. -/
theorem tie_removeTask (ok : Bool) :
    removeTaskEff ok = ("call:timers.Get(key)", 0) ::
      (if ok then [("timer.item.removed", 1), ("call:timers.Del(key)", 0)] else []) := by
  cases ok <;> rfl

/-- `setTimerPosition`: a known key is re-pointed to the given entry and slot, a new key is registered
with both. -/
theorem tie_setTimerPosition (pos task : Int) (ok : Bool) :
    setTimerPositionEff pos ok task = ("call:timers.Get(task.key)", 0) ::
      (if ok then [("timer.item", task), ("timer.pos", pos)]
       else [("arg.pos", pos), ("call:timers.Set(task.key,&positionEntry{ pos: pos, item: task, })", 0)]) := by
  cases ok <;> rfl

/-- **one iteration of the scan loop is the model's `scanEntry`** (for an entry sitting in the scanned slot
`p`): a removed entry is only unlinked; `circle > 0` → `circle - 1` and nothing else; else `diff > 0` → the
entry is unlinked, pushed to slot `(p + diff) % n`, registered there, `diff = 0`; else it is handed to the
callback (key, value), unlinked and its key forgotten. -/
theorem tie_scanEntry (n p c d k v : Nat) (removed : Bool) :
    scanEntryEff removed c d p n =
      if removed then [("call:l.Remove(e)", 0)] else
      match scanEntry n p { key := k, value := v, slot := p, circle := c, diff := d } with
      | .stay e' =>
        if c > 0 then [("task.circle", (e'.circle : Int))]
        else [("call:l.Remove(e)", 0), ("arg.pos", (e'.slot : Int)), ("call:tw.slots[pos].PushBack(task)", 0),
              ("arg.pos", (e'.slot : Int)), ("call:setTimerPosition(pos,task)", 0), ("task.diff", (e'.diff : Int))]
      | .fire => [("call:append:tasks(timingTask{ key: task.key, value: task.value, })", 0),
                  ("call:l.Remove(e)", 0), ("call:timers.Del(task.key)", 0)] := by
  unfold scanEntryEff scanEntry
  cases removed with
  | true => simp
  | false =>
    simp only [Bool.false_eq_true, if_false, ne_eq, not_true_eq_false]
    by_cases hc : c > 0
    · have hc' : (c : Int) > 0 := by omega
      simp only [hc, hc', decide_true, if_true]
      congr 2
      omega
    · have hc' : ¬ (c : Int) > 0 := by omega
      by_cases hd : d > 0
      · have hd' : (d : Int) > 0 := by omega
        have h : ((p : Int) + d) = ((p + d : Nat) : Int) := by omega
        simp only [hc, hc', hd, hd', decide_true, decide_false, if_true, if_false, Bool.false_eq_true]
        rw [h, Int.tmod_eq_emod_of_nonneg (by omega)]
        norm_cast
      · have hd' : ¬ (d : Int) > 0 := by omega
        simp only [hc, hc', hd, hd', decide_false, if_false, Bool.false_eq_true]

/-- one iteration of the drain loop: every entry is unlinked; an entry not flagged removed is forgotten
(`timers.Del`, on the wheel's goroutine, before any callback can run) and collected with its key and value — the
model's `drain`. -/
theorem tie_drainEntry (removed : Bool) :
    drainEntryEff removed = ("call:slot.Remove(e)", 0) ::
      (if removed then [] else [("call:timers.Del(task.key)", 0),
                                ("call:append:tasks(timingTask{ key: task.key, value: task.value, })", 0)]) := by
  cases removed <;> rfl

/-- **the hand-off of the drained tasks**: nothing to do for an empty wheel; otherwise ONE goroutine that is not the
run loop's creates the task runner and schedules `fn(key, value)` for every collected task.  `Schedule` blocks while
all `drainWorkers` workers are busy; because it blocks this goroutine and not the run loop, a callback that calls
back into the wheel is always served (Handoff.lean: `handoff_off_loop_never_stalls`; on the run loop's own goroutine
the same code stalls: `handoff_on_loop_stalls`). -/
theorem tie_drainTail : drainTailStmts =
    ["if len(tasks) == 0 {", "return", "}",
     "go func() { runner := threading.NewTaskRunner(drainWorkers) for i := range tasks { task := tasks[i] runner.Schedule(func() { fn(task.key, task.value) }) } }()"] :=
  rfl

theorem tie_loopHeaders :
    scanLoopHeader = ["e := l.Front()", "e != nil", ""] ∧ drainLoopHeader = ["e := slot.Front()", "e != nil", ""]
    ∧ drainWorkers = 8 := by decide

/-- the callbacks of a tick run with `(key, value)` in this order, for every collected task, and only if
there is one. -/
theorem tie_runTasks (len : Int) :
    runTasksGuard len = decide (len = 0)
    ∧ runTasksStmts = ["if GUARD {", "return", "}",
        "go func() { for i := range tasks { threading.RunSafe(func() { tw.execute(tasks[i].key, tasks[i].value) }) } }()"] := by
  exact ⟨rfl, by decide⟩

/-! ### the public API -/

/-- the argument guards of SetTimer / MoveTimer / RemoveTimer / NewTimingWheel are the model's. -/
theorem tie_guards (delay interval numSlots : Int) (keyNil execNil : Bool) :
    setTimerGuard delay keyNil = badDelayKey delay keyNil
    ∧ moveTimerGuard delay keyNil = badDelayKey delay keyNil
    ∧ removeTimerGuard delay keyNil = keyNil
    ∧ newTimingWheelGuard interval numSlots execNil = badCtor interval numSlots execNil := by
  exact ⟨rfl, rfl, rfl, rfl⟩

/-- SetTimer: guard → ErrArgument; then either the request (delay, key, value) is handed to the run loop on
setChannel → nil, or stopChannel is closed → ErrClosed (the model's `ApiG.submit`). -/
theorem tie_setTimer : setTimerStmts =
    ["if GUARD {", "return ErrArgument", "}", "select {",
     "case tw.setChannel <- timingEntry{ baseEntry: baseEntry{ delay: delay, key: key, }, value: value, }:",
     "return nil", "case <-tw.stopChannel:", "return ErrClosed", "}"] := by decide

theorem tie_moveTimer : moveTimerStmts =
    ["if GUARD {", "return ErrArgument", "}", "select {",
     "case tw.moveChannel <- baseEntry{ delay: delay, key: key, }:",
     "return nil", "case <-tw.stopChannel:", "return ErrClosed", "}"] := by decide

theorem tie_removeTimer : removeTimerStmts =
    ["if GUARD {", "return ErrArgument", "}", "select {", "case tw.removeChannel <- key:",
     "return nil", "case <-tw.stopChannel:", "return ErrClosed", "}"] := by decide

theorem tie_drain : drainStmts =
    ["select {", "case tw.drainChannel <- fn:", "return nil", "case <-tw.stopChannel:", "return ErrClosed", "}"] := by
  decide

theorem tie_stop : stopStmts = ["close(tw.stopChannel)"] := by decide

/-- the run loop: forever, one request at a time; each channel is received from (never sent to) and
dispatched to its handler; a closed stopChannel stops the ticker and ends the loop. -/
theorem tie_runLoop : runLoopStmts =
    ["for {", "select {",
     "case <-tw.ticker.Chan():", "tw.onTick()",
     "case task := <-tw.setChannel:", "tw.setTask(&task)",
     "case key := <-tw.removeChannel:", "tw.removeTask(key)",
     "case task := <-tw.moveChannel:", "tw.moveTask(task)",
     "case fn := <-tw.drainChannel:", "tw.drainAll(fn)",
     "case <-tw.stopChannel:", "tw.ticker.Stop()", "return",
     "}", "}"] := by decide

/-- the constructors: NewTimingWheel checks its arguments (guard above) and delegates with a real ticker;
NewTimingWheelWithTicker copies every argument into its field, makes `numSlots` slots, unbuffered channels
(a public method returns nil only once the loop has the request), initialises the slots and starts the loop. -/
theorem tie_constructors :
    newTimingWheelStmts =
      ["if GUARD {", "return nil, fmt.Errorf(\"interval: %v, slots: %d, execute: %p\", interval, numSlots, execute)", "}",
       "return NewTimingWheelWithTicker(interval, numSlots, execute, timex.NewTicker(interval))"]
    ∧ ctorFields =
      ["interval: interval", "ticker: ticker", "slots: make([]*list.List, numSlots)", "timers: NewSafeMap()",
       "tickedPos: INIT", "execute: execute", "numSlots: numSlots",
       "setChannel: make(chan timingEntry)", "moveChannel: make(chan baseEntry)", "removeChannel: make(chan any)",
       "drainChannel: make(chan func(key, value any))", "stopChannel: make(chan lang.PlaceholderType)"]
    ∧ ctorStmts = ["tw := &TimingWheel{…}", "tw.initSlots()", "go tw.run()", "return tw, nil"]
    ∧ initSlotsStmts = ["for i := 0; i < tw.numSlots; i++ {", "tw.slots[i] = list.New()", "}"] := by
  decide

/-! ### statement skeletons (order of list / map operations) -/

/-- the scan loop the model's `scanEntry` was written against: removed → drop; circle > 0 → circle--;
diff > 0 → relocate and clear diff; else fire and forget the key. -/
theorem tie_scanShape : scanShape =
    ["for e != nil {", "if task.removed {", "call e.Next", "call l.Remove", "continue", "}", "else{",
     "if task.circle > 0 {", "store task.circle", "call e.Next", "continue", "}", "else{",
     "if task.diff > 0 {", "call e.Next", "call l.Remove", "call tw.slots[pos].PushBack",
     "call tw.setTimerPosition", "store task.diff", "continue", "}", "}", "}",
     "call e.Next", "call l.Remove", "call tw.timers.Del", "}", "call tw.runTasks"] := by decide

theorem tie_drainShape : drainShape =
    ["range tw.slots {", "for e != nil {", "call e.Next", "call slot.Remove",
     "if !task.removed {", "call tw.timers.Del", "}", "}", "}",
     "if len(tasks) == 0 {", "return", "}",
     "go{", "func{", "call threading.NewTaskRunner", "range tasks {", "func{", "call fn", "}", "call runner.Schedule",
     "}", "}", "call func", "}"] := by
  decide

theorem tie_removeShape : removeShape =
    ["call tw.timers.Get", "if !ok {", "return", "}", "store timer.item.removed", "call tw.timers.Del"] := by decide

theorem tie_setTaskShape : setTaskShape =
    ["if task.delay < tw.interval {", "store task.delay", "}", "call tw.timers.Get", "if ok {",
     "store entry.item.value", "call tw.moveTask", "}", "else{", "call tw.getPositionAndCircle",
     "store task.circle", "call tw.slots[pos].PushBack", "call tw.setTimerPosition", "}"] := by decide

theorem tie_onTickShape : onTickShape = ["store tw.tickedPos", "call tw.scanAndRunTasks"] := by decide

end GoZero.C12.Tie
