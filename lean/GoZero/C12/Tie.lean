/-
C12 — Tie: what the extractor read from core/collection/timingwheel.go *now* equals what the
model was written against.  A failing obligation here means the code moved away from the model.
-/
import GoZero.Extracted.C12
import GoZero.C12.Proofs
namespace GoZero.C12.Tie
open GoZero.C12
open GoZero.Extracted.C12

theorem extraction_clean : extractionErrors = [] := by decide

/-- Go's `getOffset` (truncating `%` on `int`) is the model's `off` on slot indices. -/
theorem tie_getOffset (n p q : Nat) (hp : p < n) : getOffset q n p = (off n p q : Nat) := by
  unfold getOffset off
  have h : ((q : Int) + n - p - 1) = ((q + n - p - 1 : Nat) : Int) := by omega
  rw [h, Int.tmod_eq_emod_of_nonneg (by omega)]
  norm_cast

/-- Go's `getPositionAndCircle` is the model's `posCircle` on `steps = d / interval`. -/
theorem tie_getPositionAndCircle (n p d iv : Nat) (hs : iv ≤ d) (hiv : 0 < iv) :
    getPositionAndCircle d iv p n
      = (((posCircle n p (d / iv)).1 : Int), ((posCircle n p (d / iv)).2 : Int)) := by
  unfold getPositionAndCircle posCircle
  have h1 : 1 ≤ d / iv := (Nat.le_div_iff_mul_le hiv).mpr (by omega)
  simp only []
  have e1 : Int.tdiv (d : Int) (iv : Int) = ((d / iv : Nat) : Int) := by
    rw [Int.tdiv_eq_ediv_of_nonneg (by omega)]; norm_cast
  rw [e1]
  generalize d / iv = s at *
  have e2 : ((s : Int) - 1) = ((s - 1 : Nat) : Int) := by omega
  rw [e2, Int.tdiv_eq_ediv_of_nonneg (by omega), Int.tmod_eq_emod_of_nonneg (by omega)]
  congr 1

/-- the case split of Go's `moveTask` (its assignments, per branch) is the model's `moveCase`. -/
theorem tie_moveTask (n p old d iv : Nat) (hp : p < n) (hs : iv ≤ d) (hiv : 0 < iv) :
    moveTaskTail d iv p n old =
      match moveCase n p old (d / iv) with
      | .keep c df => [("timer.item.circle", (c : Int)), ("timer.item.diff", (df : Int))]
      | .reinsert _ => [("timer.item.removed", 1), ("call:tw.slots[pos].PushBack(newItem)", 0),
                        ("call:setTimerPosition(pos,newItem)", 0)] := by
  have hn : 0 < n := by omega
  unfold moveTaskTail moveCase
  simp only [tie_getPositionAndCircle n p d iv hs hiv]
  have hpl : (posCircle n p (d / iv)).1 < n := Nat.mod_lt _ hn
  generalize (posCircle n p (d / iv)).1 = pos at *
  generalize (posCircle n p (d / iv)).2 = c at *
  rw [tie_getOffset n p old hp, tie_getOffset n p pos hp]
  have hoo : off n p old < n := off_lt _ _ _ hn
  generalize off n p old = oo at *
  generalize off n p pos = no at *
  by_cases h1 : no ≥ oo
  · have h1' : (no : Int) ≥ (oo : Int) := by omega
    simp only [h1, h1', decide_true, if_true]
    congr 3
    omega
  · have h1' : ¬ ((no : Int) ≥ (oo : Int)) := by omega
    by_cases h2 : c > 0
    · have h2' : (c : Int) > 0 := by omega
      simp only [h1, h1', h2, h2', decide_true, decide_false, if_true, if_false, Bool.false_eq_true]
      congr 3 <;> omega
    · have h2' : ¬ ((c : Int) > 0) := by omega
      simp only [h1, h1', h2, h2', decide_false, if_false, Bool.false_eq_true]

/-- the scan loop the model's `scanEntry` was written against: removed → drop; circle > 0 → circle--;
diff > 0 → relocate and clear diff; else fire and forget the key. -/
theorem tie_scanShape : scanShape =
    ["for e != nil {", "if task.removed {", "call e.Next", "call l.Remove", "continue", "}", "else{",
     "if task.circle > 0 {", "store task.circle", "call e.Next", "continue", "}", "else{",
     "if task.diff > 0 {", "call e.Next", "call l.Remove", "call tw.slots[pos].PushBack",
     "call tw.setTimerPosition", "store task.diff", "continue", "}", "}", "}",
     "call e.Next", "call l.Remove", "call tw.timers.Del", "}", "call tw.runTasks"] := by decide

theorem tie_drainShape : drainShape =
    ["call threading.NewTaskRunner", "range tw.slots {", "for e != nil {", "call e.Next", "call slot.Remove",
     "if !task.removed {", "call tw.timers.Del", "func{", "call fn", "}", "call runner.Schedule", "}", "}", "}"] := by
  decide

theorem tie_removeShape : removeShape =
    ["call tw.timers.Get", "if !ok {", "return", "}", "store timer.item.removed", "call tw.timers.Del"] := by decide

theorem tie_setTaskShape : setTaskShape =
    ["if task.delay < tw.interval {", "store task.delay", "}", "call tw.timers.Get", "if ok {",
     "store entry.item.value", "call tw.moveTask", "}", "else{", "call tw.getPositionAndCircle",
     "store task.circle", "call tw.slots[pos].PushBack", "call tw.setTimerPosition", "}"] := by decide

theorem tie_onTickShape : onTickShape = ["store tw.tickedPos", "call tw.scanAndRunTasks"] := by decide

end GoZero.C12.Tie
