/-
C12 — the hand-off of the due tasks of a tick to the callbacks (`scanAndRunTasks` → `runTasks`), for callbacks that
stay inside the callback over the following ticks (core Lean only).

`scanAndRunTasks` collects the due tasks of its tick in a slice of its own (`var tasks []timingTask`) and `runTasks`
starts ONE goroutine per tick that walks that slice, one callback after the other.  The goroutine of tick n may
still be walking (a callback blocks) or may not have started when tick n+1 collects its tasks.

  `Dl`        the code that exists: every goroutine owns its batch
  `DlShared`  a buffer kept on the wheel and reused by every tick (`tasks := tw.buf[:0]`): the goroutines read
              `buf[i]` at the time they get there (kept to state what goes wrong: seeded change C12-8)
-/
namespace GoZero.C12

abbrev Pair := Nat × Nat

/-- events: a tick whose scan found `batch` due (runTasks starts a goroutine for it unless it is empty — an empty
goroutine is the same as none), and goroutine `g` running its next callback. -/
inductive DEv where
  | spawn (batch : List Pair)
  | run (g : Nat)
  deriving Repr, DecidableEq

structure Dl where
  gs  : List (List Pair) := []      -- per goroutine: what it still has to hand to the callback
  out : List Pair := []             -- handed to a callback so far
  deriving Repr, DecidableEq

/-- goroutine `g` takes its next task. -/
def takeAt : Nat → List (List Pair) → Option (Pair × List (List Pair))
  | _, [] => none
  | 0, [] :: _ => none
  | 0, (x :: xs) :: rest => some (x, xs :: rest)
  | i + 1, g :: rest => (takeAt i rest).map fun r => (r.1, g :: r.2)

def Dl.step (s : Dl) : DEv → Dl
  | .spawn b => { s with gs := s.gs ++ [b] }
  | .run g =>
    match takeAt g s.gs with
    | some r => { gs := r.2, out := s.out ++ [r.1] }
    | none => s        -- that goroutine has finished (or was never started)

def Dl.run (s : Dl) (evs : List DEv) : Dl := evs.foldl Dl.step s

/-- the batches the ticks found due, in order. -/
def batches : List DEv → List (List Pair)
  | [] => []
  | .spawn b :: evs => b :: batches evs
  | .run _ :: evs => batches evs

/-- every goroutine has walked its slice to the end. -/
def Dl.finished (s : Dl) : Bool := s.gs.all (·.isEmpty)

/-! the shared buffer -/

structure DlShared where
  buf : List Pair := []
  gs  : List (Nat × Nat) := []      -- per goroutine: (length of its slice, next index)
  out : List Pair := []
  deriving Repr, DecidableEq

def bumpAt : Nat → List (Nat × Nat) → Option (Nat × List (Nat × Nat))
  | _, [] => none
  | 0, (len, i) :: rest => if i < len then some (i, (len, i + 1) :: rest) else none
  | g + 1, x :: rest => (bumpAt g rest).map fun r => (r.1, x :: r.2)

def DlShared.step (s : DlShared) : DEv → DlShared
  | .spawn b => { s with buf := b ++ s.buf.drop b.length, gs := s.gs ++ [(b.length, 0)] }
  | .run g =>
    match bumpAt g s.gs with
    | some r => { s with gs := r.2, out := s.out ++ (s.buf.drop r.1).take 1 }
    | none => s

def DlShared.run (s : DlShared) (evs : List DEv) : DlShared := evs.foldl DlShared.step s

/-! ### what a callback does, and where the recovery sits

`runTasks` (the code that exists): `go func() { for i := range tasks { threading.RunSafe(func() { tw.execute(…) }) } }()` —
the recover is INSIDE the loop (per task).  Seeded change C12-9 put one GoSafe AROUND the loop.
A callback returns, panics (error value or any other value: `recover` does not distinguish), or calls
runtime.Goexit (what testing.T.FailNow does): Goexit runs the deferred recover, which sees no panic, and then ends
the goroutine — the goroutine of the whole tick. -/

inductive Outcome where
  | ret | panic | goexit
  deriving Repr, DecidableEq

inductive Scope where
  | perTask       -- recover inside the loop
  | aroundLoop    -- one recover around the whole loop
  deriving Repr, DecidableEq

/-- does the goroutine go on with the next task of its batch? -/
def survives : Scope → Outcome → Bool
  | _, .ret => true
  | .perTask, .panic => true
  | _, _ => false

/-- what ONE goroutine hands to the callbacks, of its own batch: everything up to and including the first task after
which it does not go on. -/
def deliveredOf (keep : Pair → Bool) : List Pair → List Pair
  | [] => []
  | x :: xs => if keep x then x :: deliveredOf keep xs else [x]

/-- goroutine `g` takes its next task; if it does not survive it, its remaining tasks are dropped. -/
def takeAtK (keep : Pair → Bool) : Nat → List (List Pair) → Option (Pair × List (List Pair))
  | _, [] => none
  | 0, [] :: _ => none
  | 0, (x :: xs) :: rest => some (x, (if keep x then xs else []) :: rest)
  | i + 1, g :: rest => (takeAtK keep i rest).map fun r => (r.1, g :: r.2)

/-- the delivery with outcomes: `oc` says what the callback does with each pair. -/
def Dl.stepO (sc : Scope) (oc : Pair → Outcome) (s : Dl) : DEv → Dl
  | .spawn b => { s with gs := s.gs ++ [b] }
  | .run g =>
    match takeAtK (fun p => survives sc (oc p)) g s.gs with
    | some r => { gs := r.2, out := s.out ++ [r.1] }
    | none => s

def Dl.runO (sc : Scope) (oc : Pair → Outcome) (s : Dl) (evs : List DEv) : Dl := evs.foldl (Dl.stepO sc oc) s

end GoZero.C12
