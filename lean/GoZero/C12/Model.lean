/-
C12 — timing wheel.  Executable model of core/collection/timingwheel.go (core Lean only).

Pointer structure of the Go code (slots of *timingEntry, timers : key → positionEntry{pos,item})
is flattened: the model keeps the list of *live* entries, each with the slot it physically sits in.
An entry flagged `removed` in Go is never observable again (scan and drain skip it), so the model
drops it.  Firing order inside one tick is not part of the property; the harness compares sets.
-/
namespace GoZero.C12

structure Entry where
  key    : Nat
  value  : Nat
  slot   : Nat
  circle : Nat
  diff   : Nat
  deriving Repr, DecidableEq

structure TW where
  n         : Nat
  tickedPos : Nat
  entries   : List Entry
  deriving Repr, DecidableEq

def TW.init (n : Nat) : TW := { n := n, tickedPos := n - 1, entries := [] }

/-- `getPositionAndCircle` with `steps = int(d / interval)`. -/
def posCircle (n tickedPos steps : Nat) : Nat × Nat :=
  ((tickedPos + steps) % n, (steps - 1) / n)

/-- offset of a slot from `tickedPos`: ticks until the slot is next scanned, minus one. -/
def off (n tickedPos slot : Nat) : Nat := (slot + n - tickedPos - 1) % n

inductive MoveCase where
  | keep (circle diff : Nat)       -- lazy move: stay in the old slot
  | reinsert (slot : Nat)          -- flag old entry removed, push a fresh entry (circle 0, diff 0)
  deriving Repr, DecidableEq

/-- case split of `moveTask` (after the fix: offsets relative to `tickedPos`). -/
def moveCase (n tickedPos oldSlot steps : Nat) : MoveCase :=
  if off n tickedPos (posCircle n tickedPos steps).1 ≥ off n tickedPos oldSlot then
    .keep (posCircle n tickedPos steps).2 (off n tickedPos (posCircle n tickedPos steps).1 - off n tickedPos oldSlot)
  else if (posCircle n tickedPos steps).2 > 0 then
    .keep ((posCircle n tickedPos steps).2 - 1) (n + off n tickedPos (posCircle n tickedPos steps).1 - off n tickedPos oldSlot)
  else .reinsert (posCircle n tickedPos steps).1

/-- The pinned commit's `moveTask` compared absolute slot indices (kept to state the defect). -/
def moveCaseBuggy (n tickedPos oldSlot steps : Nat) : MoveCase :=
  if (posCircle n tickedPos steps).1 ≥ oldSlot then
    .keep (posCircle n tickedPos steps).2 ((posCircle n tickedPos steps).1 - oldSlot)
  else if (posCircle n tickedPos steps).2 > 0 then
    .keep ((posCircle n tickedPos steps).2 - 1) (n + (posCircle n tickedPos steps).1 - oldSlot)
  else .reinsert (posCircle n tickedPos steps).1

def applyMove (mc : Nat → Nat → Nat → Nat → MoveCase) (tw : TW) (e : Entry) (steps : Nat) : Entry :=
  match mc tw.n tw.tickedPos e.slot steps with
  | .keep c d => { e with circle := c, diff := d }
  | .reinsert s => { e with slot := s, circle := 0, diff := 0 }

/-- `moveTask` for `delay ≥ interval` (steps ≥ 1). -/
def moveWith (mc : Nat → Nat → Nat → Nat → MoveCase) (tw : TW) (k steps : Nat) : TW :=
  { tw with entries := tw.entries.map fun e => if e.key = k then applyMove mc tw e steps else e }

def move := moveWith moveCase

def hasKey (tw : TW) (k : Nat) : Bool := tw.entries.any (·.key = k)

/-- `setTask` (the caller has clamped `delay < interval` to `interval`, i.e. steps ≥ 1). -/
def setWith (mc : Nat → Nat → Nat → Nat → MoveCase) (tw : TW) (k v steps : Nat) : TW :=
  if hasKey tw k then
    moveWith mc { tw with entries := tw.entries.map fun e => if e.key = k then { e with value := v } else e } k steps
  else
    { tw with entries := tw.entries ++ [{ key := k, value := v, slot := (posCircle tw.n tw.tickedPos steps).1,
                                          circle := (posCircle tw.n tw.tickedPos steps).2, diff := 0 }] }

def set := setWith moveCase

def remove (tw : TW) (k : Nat) : TW :=
  { tw with entries := tw.entries.filter (·.key ≠ k) }

inductive Scan where
  | stay (e : Entry)
  | fire
  deriving Repr, DecidableEq

/-- what `scanAndRunTasks` does with one live entry when the wheel has just moved to `pos`. -/
def scanEntry (n pos : Nat) (e : Entry) : Scan :=
  if e.slot ≠ pos then .stay e
  else if e.circle > 0 then .stay { e with circle := e.circle - 1 }
  else if e.diff > 0 then .stay { e with slot := (pos + e.diff) % n, diff := 0 }
  else .fire

def tick (tw : TW) : TW × List (Nat × Nat) :=
  let pos := (tw.tickedPos + 1) % tw.n
  let kept := tw.entries.filterMap fun e =>
    match scanEntry tw.n pos e with
    | .stay e' => some e'
    | .fire => none
  let fired := tw.entries.filterMap fun e =>
    match scanEntry tw.n pos e with
    | .stay _ => none
    | .fire => some (e.key, e.value)
  ({ tw with tickedPos := pos, entries := kept }, fired)

def drain (tw : TW) : TW × List (Nat × Nat) :=
  ({ tw with entries := [] }, tw.entries.map fun e => (e.key, e.value))

/-- Operations of the wheel's event loop. `steps = d / interval`. -/
inductive Op where
  | set (k v steps : Nat)
  | move (k steps : Nat)
  | remove (k : Nat)
  | tick
  | drain
  deriving Repr, DecidableEq

/-- Observable output of an operation: the (key, value) pairs handed to the execute callback. -/
def stepWith (mc : Nat → Nat → Nat → Nat → MoveCase) (tw : TW) : Op → TW × List (Nat × Nat)
  | .set k v s =>
      -- `setTask` clamps a delay below one interval up to one interval
      (setWith mc tw k v (if s = 0 then 1 else s), [])
  | .move k s =>
      if s = 0 then
        -- `delay < interval`: the callback runs immediately and the timer stays (outside C12's d ≥ interval)
        (tw, (tw.entries.filter (·.key = k)).map fun e => (e.key, e.value))
      else (moveWith mc tw k s, [])
  | .remove k => (remove tw k, [])
  | .tick => tick tw
  | .drain => drain tw

def step := stepWith moveCase

def runWith (mc : Nat → Nat → Nat → Nat → MoveCase) (tw : TW) : List Op → List (List (Nat × Nat))
  | [] => []
  | op :: ops => let (tw', out) := stepWith mc tw op; out :: runWith mc tw' ops

def run := runWith moveCase

end GoZero.C12
