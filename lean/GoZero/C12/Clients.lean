/-
C12 — clients of the wheel: calls issued from inside a running callback (core Lean only).

The execute callback (tick, MoveTimer below one interval) and the Drain callback run on goroutines of their
own, after the run loop has unlinked the fired entry and forgotten its key (`timers.Del` comes *before*
`runTasks` / `runner.Schedule`).  A call the callback issues on the wheel (`clean` in core/stores/cache/cleaner.go
re-arms its key with SetTimer, the expiry callback of core/collection/cache.go calls RemoveTimer through
Cache.Del) is therefore received by the run loop after the firing operation is complete: it is an ordinary
call, executed after the operation that fired the callback.  `settle` is exactly that: the queue of fired
pairs is worked off, each callback's calls are executed as API calls, what they fire joins the queue.

The layer is generic in the timer mechanism (wheel model / timer table), like Api.lean, and in the callback
`cb` (a state machine: its state, the fired key and value ↦ new state and the calls it issues).
Not modelled: the order in which concurrently running callbacks reach the run loop (the harness keeps the
calls of callbacks that run in the same operation on distinct keys, so they commute), and the limit of
`drainWorkers` concurrently blocked Drain callbacks (see props/C12.json level_note).
-/
import GoZero.C12.Api
namespace GoZero.C12

/-- behaviour of a callback: state, fired key, fired value ↦ new state, calls issued from inside the callback. -/
abbrev Cb (σ : Type) := σ → Nat → Nat → σ × List Call

/-- one entry of the log of calls issued from inside callbacks: the key whose callback issued it, the call,
its result. -/
abbrev Inner := Nat × Call × Res

/-- the calls `cs` issued (sequentially) by the callback of key `k`: final state, pairs they fired, log. -/
def ApiG.issue {T : Type} (ts : TStep T) (k : Nat) : ApiG T → List Call → ApiG T × List (Nat × Nat) × List Inner
  | a, [] => (a, [], [])
  | a, c :: cs =>
    ((ApiG.issue ts k (a.step ts c).1 cs).1,
     (a.step ts c).2.2 ++ (ApiG.issue ts k (a.step ts c).1 cs).2.1,
     (k, c, (a.step ts c).2.1) :: (ApiG.issue ts k (a.step ts c).1 cs).2.2)

structure Settled (T σ : Type) where
  api   : ApiG T
  cb    : σ
  fired : List (Nat × Nat)      -- every pair handed to a callback, in the order worked off
  inner : List Inner            -- every call issued from inside a callback, in the order executed
  left  : List (Nat × Nat)      -- pairs not worked off (fuel exhausted; `[]` otherwise)

/-- work off the queue of fired pairs: run the callback, execute its calls, queue what they fire. -/
def ApiG.settle {T σ : Type} (ts : TStep T) (cb : Cb σ) : Nat → ApiG T → σ → List (Nat × Nat) → Settled T σ
  | 0, a, s, pend => ⟨a, s, [], [], pend⟩
  | _ + 1, a, s, [] => ⟨a, s, [], [], []⟩
  | f + 1, a, s, kv :: rest =>
    let i := ApiG.issue ts kv.1 a (cb s kv.1 kv.2).2
    let r := ApiG.settle ts cb f i.1 (cb s kv.1 kv.2).1 (rest ++ i.2.1)
    ⟨r.api, r.cb, kv :: r.fired, i.2.2 ++ r.inner, r.left⟩

/-- one call of the harness / of the client, and everything its callbacks cause. -/
def ApiG.stepCb {T σ : Type} (ts : TStep T) (cb : Cb σ) (fuel : Nat) (a : ApiG T) (s : σ) (c : Call) :
    Settled T σ × Res :=
  (ApiG.settle ts cb fuel (a.step ts c).1 s (a.step ts c).2.2, (a.step ts c).2.1)

/-- observable part of one call: result, every fired pair, the inner calls with their results, leftovers. -/
abbrev CbObs := Res × List (Nat × Nat) × List Inner × List (Nat × Nat)

def ApiG.runCb {T σ : Type} (ts : TStep T) (cb : Cb σ) (fuel : Nat) : ApiG T → σ → List Call → List CbObs
  | _, _, [] => []
  | a, s, c :: cs =>
    ((ApiG.stepCb ts cb fuel a s c).2, (ApiG.stepCb ts cb fuel a s c).1.fired,
      (ApiG.stepCb ts cb fuel a s c).1.inner, (ApiG.stepCb ts cb fuel a s c).1.left)
    :: ApiG.runCb ts cb fuel (ApiG.stepCb ts cb fuel a s c).1.api (ApiG.stepCb ts cb fuel a s c).1.cb cs

/-- state after a list of calls. -/
def ApiG.after {T : Type} (ts : TStep T) (a : ApiG T) (cs : List Call) : ApiG T :=
  cs.foldl (fun a c => (a.step ts c).1) a

/-! ### the callbacks of the anchored clients -/

/-- one-shot scripts (the public-API harness): when the callback of `key` runs, it issues `calls`. -/
structure Arm where
  key   : Nat
  calls : List Call
  deriving Repr, DecidableEq

/-- the first script of the fired key is consumed and its calls are issued. -/
def armCb : Cb (List Arm) := fun arms k _ =>
  match arms.find? (·.key = k) with
  | some arm => (arms.erase arm, arm.calls)
  | none => (arms, [])

/-- nanoseconds in a second (`time.Second`): the tick interval of the cleaner's and the cache's wheel. -/
def second : Nat := 1000000000

/-- `nextDelay` of core/stores/cache/cleaner.go: 1 s → 5 s → 1 min → 5 min → 1 h → give up. -/
def nextDelay (d : Int) : Int × Bool :=
  if d = 1000000000 then (5000000000, true)
  else if d = 5000000000 then (60000000000, true)
  else if d = 60000000000 then (300000000000, true)
  else if d = 300000000000 then (3600000000000, true)
  else (0, false)

/-- outcomes the clean tasks will have, per task key: `true` = the task returns an error. -/
abbrev Outcomes := List (Nat × List Bool)

def Outcomes.next (o : Outcomes) (k : Nat) : Bool × Outcomes :=
  match o.find? (·.1 = k) with
  | some (k', b :: bs) => (b, (k', bs) :: o.erase (k', b :: bs))
  | _ => (false, o)

/-- `clean(key, value)` of cleaner.go, `value = delayTask{delay := v}`: run the task; if it fails and the
schedule has a next delay, re-arm the same key with `SetTimer(key, dt{delay := next}, next)`. -/
def cleanerCb : Cb Outcomes := fun o k v =>
  if (o.next k).1 then
    (if (nextDelay v).2 then ((o.next k).2, [.setTimer (some k) (nextDelay v).1.toNat (nextDelay v).1])
     else ((o.next k).2, []))
  else ((o.next k).2, [])

/-- `AddCleanTask`: `SetTimer(fresh key, delayTask{delay: time.Second, …}, time.Second)`. -/
def addCleanTask (k : Nat) : Call := .setTimer (some k) second second

/-- the expiry callback of core/collection/cache.go (`cache.Del(key)`): the entry leaves `data` and
`RemoveTimer(key)` is called.  State: the keys present in `data`. -/
def cacheCb : Cb (List Nat) := fun present k _ =>
  (present.filter (· ≠ k), [.removeTimer (some k)])

/-! ### core/collection/cache.go with the LRU limit (`WithLimit`), Get / Take and the values

`data` and the key list of `keyLru` (front = most recently used).  Every function returns the new cache and the
calls it issues on the wheel, in program order; each call is synchronous (the public methods of the wheel return
when the run loop has received the request), so the next one is issued only after the previous one was received. -/

structure CacheL where
  limit  : Nat                 -- 0: `emptyLru` (no `WithLimit`, or `WithLimit(limit)` with `limit <= 0`)
  expire : Int
  data   : List (Nat × Nat)
  lru    : List Nat
  deriving Repr, DecidableEq

/-- `NewCache(expire, WithLimit(limit))`: `if limit > 0 { cache.lruCache = newKeyLru(limit, cache.onEvict) }`. -/
def CacheL.init (limit expire : Int) : CacheL := ⟨if limit > 0 then limit.toNat else 0, expire, [], []⟩

def upsert (d : List (Nat × Nat)) (k v : Nat) : List (Nat × Nat) :=
  if d.any (·.1 = k) then d.map (fun x => if x.1 = k then (k, v) else x) else d ++ [(k, v)]

/-- `onEvict(key)`: `delete(c.data, key); c.timingWheel.RemoveTimer(key)`. -/
def CacheL.onEvict (c : CacheL) (k : Nat) : CacheL × List Call :=
  ({ c with data := c.data.filter (·.1 ≠ k) }, [.removeTimer (some k)])

/-- `lruCache.add(key)`: known key → to the front; new key → pushed to the front, and if the list is now longer
than `limit` its last element is evicted (`removeOldest` → `removeElement` → `onEvict`). -/
def CacheL.lruAdd (c : CacheL) (k : Nat) : CacheL × List Call :=
  if c.limit = 0 then (c, [])
  else if c.lru.contains k then ({ c with lru := k :: c.lru.erase k }, [])
  else if (k :: c.lru).length > c.limit then
    ({ c with lru := (k :: c.lru).dropLast }).onEvict ((k :: c.lru).getLast (List.cons_ne_nil _ _))
  else ({ c with lru := k :: c.lru }, [])

/-- `lruCache.remove(key)`: a listed key is unlinked and `onEvict` runs for it. -/
def CacheL.lruRemove (c : CacheL) (k : Nat) : CacheL × List Call :=
  if c.limit ≠ 0 ∧ c.lru.contains k then ({ c with lru := c.lru.erase k }).onEvict k else (c, [])

/-- `SetWithExpire`: store, `lruCache.add` (may evict another key: its RemoveTimer comes first), then SetTimer. -/
def CacheL.setWithExpire (c : CacheL) (k v : Nat) (e : Int) : CacheL × List Call :=
  ((({ c with data := upsert c.data k v }).lruAdd k).1,
   (({ c with data := upsert c.data k v }).lruAdd k).2 ++ [.setTimer (some k) v e])

def CacheL.set (c : CacheL) (k v : Nat) : CacheL × List Call := c.setWithExpire k v c.expire

/-- `Del`: delete, `lruCache.remove` (with a limit: `onEvict` issues a first RemoveTimer), then RemoveTimer. -/
def CacheL.del (c : CacheL) (k : Nat) : CacheL × List Call :=
  ((({ c with data := c.data.filter (·.1 ≠ k) }).lruRemove k).1,
   (({ c with data := c.data.filter (·.1 ≠ k) }).lruRemove k).2 ++ [.removeTimer (some k)])

def CacheL.lookup (c : CacheL) (k : Nat) : Option Nat := (c.data.find? (·.1 = k)).map (·.2)

/-- `doGet` (Get, and the two look-ups of Take): a hit moves the key to the front of the LRU list. -/
def CacheL.doGet (c : CacheL) (k : Nat) : CacheL × List Call × Option Nat :=
  match c.lookup k with
  | some v => ((c.lruAdd k).1, (c.lruAdd k).2, some v)
  | none => (c, [], none)

/-- outcome kinds of Take's `fetch`: a value; an error (any non-nil error value, a typed nil included); no
return at all (panic with an error or with another value, runtime.Goexit). -/
inductive Fetch where
  | ok | err | noReturn
  deriving Repr, DecidableEq

/-- `Take`: hit → `doGet`; miss → `fetch`, and only a fetched value is stored (`c.Set`). -/
def CacheL.take (c : CacheL) (k v : Nat) (f : Fetch) : CacheL × List Call × Option Nat :=
  match c.lookup k with
  | some _ => c.doGet k
  | none => match f with
    | .ok => ((c.set k v).1, (c.set k v).2, some v)
    | _ => (c, [], none)

/-- the expiry callback: `cache.Del(key)`. -/
def cacheLCb : Cb CacheL := fun c k _ => c.del k

/-- operations of a client of the Cache. -/
inductive COp where
  | set (k v : Nat) (e : Int)
  | put (k v : Nat)
  | del (k : Nat)
  | get (k : Nat)
  | take (k v : Nat) (f : Fetch)
  | tick
  deriving Repr, DecidableEq

/-- the cache after the operation's own statements and the calls it issues on the wheel (a tick is the ticker's). -/
def CacheL.client (c : CacheL) : COp → CacheL × List Call
  | .set k v e => c.setWithExpire k v e
  | .put k v => c.set k v
  | .del k => c.del k
  | .get k => ((c.doGet k).1, (c.doGet k).2.1)
  | .take k v f => ((c.take k v f).1, (c.take k v f).2.1)
  | .tick => (c, [.tick])

/-- one operation over the timer table: its calls in program order, then the expiry callbacks of everything that
fired (fuel: the number of pending timers bounds what one tick can fire). -/
def cacheStep (st : Spec.Api × CacheL) (op : COp) : Spec.Api × CacheL :=
  let x := st.2.client op
  let i := ApiG.issue Spec.step 0 st.1 x.2
  let q := ApiG.settle Spec.step cacheLCb (st.1.inner.length + 1) i.1 x.1 i.2.1
  (q.api, q.cb)


end GoZero.C12
