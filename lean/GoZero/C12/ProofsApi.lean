/-
C12 — helper lemmas for the API layer (Api.lean): refinement of the API over the wheel by the API over the
timer table, validation table, silence after Stop / after Drain, delays below one interval.
-/
import GoZero.C12.Api
import GoZero.C12.Refine
import GoZero.C12.SpecFacts
namespace GoZero.C12

def absApi (a : Api) : Spec.Api :=
  { interval := a.interval, inner := abs a.inner, stopped := a.stopped, tickerStops := a.tickerStops }

theorem submit_refines (a : Api) (h : WF a.inner) (op : Op) :
    WF (a.submit step op).1.inner
    ∧ absApi (a.submit step op).1 = ((absApi a).submit Spec.step op).1
    ∧ (a.submit step op).2 = ((absApi a).submit Spec.step op).2 := by
  have hs := step_refines a.inner h op
  unfold ApiG.submit
  by_cases hst : a.stopped = true
  · simp [hst, absApi, h]
  · simp [hst, absApi, hs.1, hs.2.1, hs.2.2]

theorem api_step_refines (a : Api) (h : WF a.inner) (c : Call) :
    WF (a.step c).1.inner
    ∧ absApi (a.step c).1 = ((absApi a).step c).1
    ∧ (a.step c).2 = ((absApi a).step c).2 := by
  have hint : (absApi a).interval = a.interval := rfl
  cases c with
  | setTimer key v d =>
    simp only [Api.step, Spec.Api.step, ApiG.step]
    by_cases hb : badDelayKey d key.isNone = true
    · simp [hb, h]
    · simp only [hb, Bool.false_eq_true, if_false]
      cases key with
      | none => simp [h]
      | some k => simpa [hint] using submit_refines a h (.set k v (stepsOf a.interval d))
  | moveTimer key d =>
    simp only [Api.step, Spec.Api.step, ApiG.step]
    by_cases hb : badDelayKey d key.isNone = true
    · simp [hb, h]
    · simp only [hb, Bool.false_eq_true, if_false]
      cases key with
      | none => simp [h]
      | some k => simpa [hint] using submit_refines a h (.move k (stepsOf a.interval d))
  | removeTimer key =>
    simp only [Api.step, Spec.Api.step, ApiG.step]
    cases key with
    | none => simp [h]
    | some k => simpa using submit_refines a h (.remove k)
  | drain =>
    simp only [Api.step, Spec.Api.step, ApiG.step]
    exact submit_refines a h .drain
  | tick =>
    have hs := step_refines a.inner h .tick
    simp only [Api.step, Spec.Api.step, ApiG.step]
    by_cases hst : a.stopped = true
    · simp [hst, absApi, h]
    · simp [hst, absApi, hs.1, hs.2.1, hs.2.2]
  | stop =>
    simp only [Api.step, Spec.Api.step, ApiG.step]
    by_cases hst : a.stopped = true
    · simp [hst, absApi, h]
    · simp [hst, absApi, h]

theorem api_run_refines (a : Api) (h : WF a.inner) (cs : List Call) :
    a.run cs = (absApi a).run cs := by
  induction cs generalizing a with
  | nil => rfl
  | cons c cs ih =>
    have hs := api_step_refines a h c
    simp only [Api.run, Spec.Api.run, ApiG.run]
    have e1 : ApiG.step step a c = a.step c := rfl
    have e2 : ApiG.step Spec.step (absApi a) c = (absApi a).step c := rfl
    rw [e1, e2, hs.2.2]
    congr 1
    have := ih (a.step c).1 hs.1
    simp only [Api.run, Spec.Api.run] at this
    rw [this, hs.2.1]

/-! ### silence after Stop -/

theorem stopped_step {T : Type} (ts : TStep T) (a : ApiG T) (hst : a.stopped = true) (c : Call) :
    (a.step ts c).1 = a ∧ (a.step ts c).2.2 = [] ∧ (a.step ts c).2.1 ≠ .ok := by
  cases c with
  | setTimer key v d =>
    simp only [ApiG.step]
    split
    · simp
    · cases key <;> simp [ApiG.submit, hst]
  | moveTimer key d =>
    simp only [ApiG.step]
    split
    · simp
    · cases key <;> simp [ApiG.submit, hst]
  | removeTimer key => cases key <;> simp [ApiG.step, ApiG.submit, hst]
  | drain => simp [ApiG.step, ApiG.submit, hst]
  | tick => simp [ApiG.step, hst]
  | stop => simp [ApiG.step, hst]

theorem stopped_run {T : Type} (ts : TStep T) (a : ApiG T) (hst : a.stopped = true) (cs : List Call) :
    ∀ out ∈ a.run ts cs, out.2 = [] ∧ out.1 ≠ .ok := by
  induction cs with
  | nil => simp [ApiG.run]
  | cons c cs ih =>
    have hs := stopped_step ts a hst c
    intro out hout
    simp only [ApiG.run, List.mem_cons] at hout
    rcases hout with rfl | hout
    · exact ⟨hs.2.1, hs.2.2⟩
    · rw [hs.1] at hout
      exact ih out hout

/-! ### the timer table after Drain: nothing pending, nothing fires until the next set -/

def isSet : Op → Bool
  | .set _ _ _ => true
  | _ => false

theorem Spec.empty_step (op : Op) (h : isSet op = false) :
    (Spec.step [] op).1 = [] ∧ (Spec.step [] op).2 = [] := by
  cases op with
  | set k v s => simp [isSet] at h
  | move k s => simp only [Spec.step]; split <;> simp [Spec.move]
  | remove k => simp [Spec.step, Spec.remove]
  | tick => simp [Spec.step, Spec.tick]
  | drain => simp [Spec.step, Spec.drain]

theorem Spec.empty_silent (ops : List Op) (h : ∀ op ∈ ops, isSet op = false) :
    ∀ out ∈ Spec.run [] ops, out = [] := by
  induction ops with
  | nil => simp [Spec.run]
  | cons op ops ih =>
    have h1 := Spec.empty_step op (h op (by simp))
    intro out hout
    simp only [Spec.run, List.mem_cons] at hout
    rcases hout with rfl | hout
    · exact h1.2
    · rw [h1.1] at hout
      exact ih (fun o ho => h o (by simp [ho])) out hout

/-! ### the unique pending timer of a key -/

theorem Spec.filter_key_pending (t : Spec.Table) (hnd : Spec.KeysNodup t) (k v s : Nat)
    (hm : (⟨k, v, s⟩ : Spec.Timer) ∈ t) :
    (t.filter (·.key = k)).map (fun x => (x.key, x.value)) = [(k, v)] := by
  induction t with
  | nil => cases hm
  | cons a t ih =>
    simp only [Spec.KeysNodup, Spec.keys, List.map_cons, List.nodup_cons] at hnd
    simp only [List.mem_cons] at hm
    rcases hm with rfl | hm
    · have : t.filter (·.key = k) = [] := by
        rw [List.filter_eq_nil_iff]
        intro x hx hxk
        simp only [decide_eq_true_eq] at hxk
        exact hnd.1 (List.mem_map.mpr ⟨x, hx, hxk⟩)
      simp [this]
    · have hak : ¬ a.key = k := by
        intro h
        exact hnd.1 (List.mem_map.mpr ⟨⟨k, v, s⟩, hm, h.symm⟩)
      simp only [List.filter_cons, hak, decide_false, Bool.false_eq_true, if_false]
      exact ih hnd.2 hm

theorem Spec.filter_key_absent (t : Spec.Table) (k : Nat) (hk : k ∉ Spec.keys t) :
    (t.filter (·.key = k)).map (fun x => (x.key, x.value)) = [] := by
  have : t.filter (·.key = k) = [] := by
    rw [List.filter_eq_nil_iff]
    intro x hx hxk
    simp only [decide_eq_true_eq] at hxk
    exact hk (List.mem_map.mpr ⟨x, hx, hxk⟩)
  simp [this]

theorem Spec.drop_append_len {α} (a b : List α) (j : Nat) : (a ++ b).drop (a.length + j) = b.drop j := by
  induction a with
  | nil => simp
  | cons x a ih =>
    have : (x :: a).length + j = (a.length + j) + 1 := by simp; omega
    rw [this, List.cons_append, List.drop_succ_cons, ih]

end GoZero.C12

namespace GoZero.C12

/-! ### valid calls on a running wheel are exactly the wheel's operations -/

/-- a call whose arguments pass the guards (Stop excluded). -/
def validCall : Call → Bool
  | .setTimer (some _) _ d => decide (0 < d)
  | .moveTimer (some _) d => decide (0 < d)
  | .removeTimer (some _) => true
  | .drain => true
  | .tick => true
  | _ => false

/-- the request the run loop handles for a valid call (`steps = delay / interval`). -/
def toOp (iv : Nat) : Call → Op
  | .setTimer (some k) v d => .set k v (stepsOf iv d)
  | .moveTimer (some k) d => .move k (stepsOf iv d)
  | .removeTimer (some k) => .remove k
  | .drain => .drain
  | _ => .tick

theorem valid_step (a : Api) (hrun : a.stopped = false) (c : Call) (hv : validCall c = true) :
    (a.step c).1.stopped = false ∧ (a.step c).1.interval = a.interval
    ∧ (a.step c).1.inner = (step a.inner (toOp a.interval c)).1
    ∧ (a.step c).2.2 = (step a.inner (toOp a.interval c)).2
    ∧ ((a.step c).2.1 = .ok ∨ (a.step c).2.1 = .unit) := by
  cases c with
  | setTimer key v d =>
    cases key with
    | none => simp [validCall] at hv
    | some k =>
      simp only [validCall, decide_eq_true_eq] at hv
      have hb : badDelayKey d false = false := by simp [badDelayKey]; omega
      simp [Api.step, ApiG.step, ApiG.submit, hb, hrun, toOp]
  | moveTimer key d =>
    cases key with
    | none => simp [validCall] at hv
    | some k =>
      simp only [validCall, decide_eq_true_eq] at hv
      have hb : badDelayKey d false = false := by simp [badDelayKey]; omega
      simp [Api.step, ApiG.step, ApiG.submit, hb, hrun, toOp]
  | removeTimer key =>
    cases key with
    | none => simp [validCall] at hv
    | some k => simp [Api.step, ApiG.step, ApiG.submit, hrun, toOp]
  | drain => simp [Api.step, ApiG.step, ApiG.submit, hrun, toOp]
  | tick => simp [Api.step, ApiG.step, hrun, toOp]
  | stop => simp [validCall] at hv

theorem valid_run (a : Api) (hrun : a.stopped = false) (cs : List Call) (hv : ∀ c ∈ cs, validCall c = true) :
    (a.run cs).map (·.2) = run a.inner (cs.map (toOp a.interval))
    ∧ ∀ r ∈ a.run cs, r.1 = .ok ∨ r.1 = .unit := by
  induction cs generalizing a with
  | nil => exact ⟨rfl, by simp [Api.run, ApiG.run]⟩
  | cons c cs ih =>
    have hs := valid_step a hrun c (hv c (by simp))
    have ih' := ih (a.step c).1 hs.1 (fun x hx => hv x (by simp [hx]))
    have e1 : ApiG.step step a c = a.step c := rfl
    constructor
    · simp only [Api.run, ApiG.run, List.map_cons, run, runWith, e1]
      have e2 : stepWith moveCase a.inner (toOp a.interval c) = step a.inner (toOp a.interval c) := rfl
      rw [e2, hs.2.2.2.1]
      congr 1
      have := ih'.1
      simp only [Api.run, run] at this
      rw [this, hs.2.1, hs.2.2.1]
    · intro r hr
      simp only [Api.run, ApiG.run, List.mem_cons, e1] at hr
      rcases hr with rfl | hr
      · exact hs.2.2.2.2
      · exact ih'.2 r hr

end GoZero.C12
