/-
C12 — the wheel refines the timer table, operation by operation.
-/
import GoZero.C12.Proofs
namespace GoZero.C12

theorem hasKey_abs (tw : TW) (k : Nat) : Spec.hasKey (abs tw) k = hasKey tw k := by
  unfold Spec.hasKey hasKey abs
  induction tw.entries with
  | nil => rfl
  | cons e es ih => simp only [List.map_cons, List.any_cons, ih, absEntry]

theorem move_refines (tw : TW) (h : WF tw) (k s : Nat) (hs : 1 ≤ s) :
    WF (moveWith moveCase tw k s) ∧ abs (moveWith moveCase tw k s) = Spec.move (abs tw) k s := by
  constructor
  · refine ⟨h.npos, h.tp, ?_⟩
    intro e he
    simp only [moveWith, List.mem_map] at he
    obtain ⟨e0, he0, rfl⟩ := he
    have hw := h.ent e0 he0
    split
    · have := applyMove_spec tw h e0 hw.1 s hs
      exact ⟨this.2.1, this.2.2.1⟩
    · exact hw
  · simp only [abs, moveWith, Spec.move, List.map_map]
    apply List.map_congr_left
    intro e he
    have hw := h.ent e he
    simp only [Function.comp_def]
    by_cases hk : e.key = k
    · have := applyMove_spec tw h e hw.1 s hs
      simp only [hk, if_true, absEntry, this.1, this.2.2.2.1, this.2.2.2.2]
    · simp only [hk, if_false, absEntry]

theorem tick_list (n p : Nat) (hp : p < n) (es : List Entry) (hes : ∀ e ∈ es, e.slot < n ∧ e.diff < n) :
    (es.filterMap (fun e => match scanEntry n ((p + 1) % n) e with | .stay e' => some e' | .fire => none)).map
        (absEntry n ((p + 1) % n))
      = ((es.map (absEntry n p)).filter (·.rem ≠ 1)).map (fun x => { x with rem := x.rem - 1 })
    ∧ es.filterMap (fun e => match scanEntry n ((p + 1) % n) e with
          | .stay _ => none | .fire => some (e.key, e.value))
      = ((es.map (absEntry n p)).filter (·.rem = 1)).map (fun x => (x.key, x.value))
    ∧ ∀ e' ∈ es.filterMap (fun e => match scanEntry n ((p + 1) % n) e with | .stay e' => some e' | .fire => none),
        e'.slot < n ∧ e'.diff < n := by
  induction es with
  | nil => simp
  | cons e es ih =>
    have hw := hes e (by simp)
    have ih' := ih (fun x hx => hes x (by simp [hx]))
    have hsc := scan_spec n p hp e hw.1 hw.2
    cases hc : scanEntry n ((p + 1) % n) e with
    | fire =>
      rw [hc] at hsc
      simp only [List.filterMap_cons, hc, List.map_cons, absEntry, List.filter_cons, hsc]
      simp only [ne_eq, not_true_eq_false, decide_false, decide_true, if_true, if_false, Bool.false_eq_true,
        List.map_cons]
      refine ⟨ih'.1, ?_, ih'.2.2⟩
      rw [ih'.2.1]
    | stay e' =>
      rw [hc] at hsc
      obtain ⟨h1, h2, h3, h4, h5, h6⟩ := hsc
      simp only [List.filterMap_cons, hc, List.map_cons, List.filter_cons]
      have hr : (absEntry n p e).rem = remaining n p e := rfl
      simp only [hr, ne_eq, h1, not_false_eq_true, decide_true, decide_false, if_true, if_false,
        Bool.false_eq_true, List.map_cons]
      refine ⟨?_, ih'.2.1, ?_⟩
      · rw [ih'.1]
        congr 1
        simp only [absEntry, h3, h4]
        congr 1
        omega
      · intro x hx
        simp only [List.mem_cons] at hx
        rcases hx with rfl | hx
        · exact ⟨h5, h6⟩
        · exact ih'.2.2 x hx

theorem step_refines (tw : TW) (h : WF tw) (op : Op) :
    WF (step tw op).1 ∧ abs (step tw op).1 = (Spec.step (abs tw) op).1
      ∧ (step tw op).2 = (Spec.step (abs tw) op).2 := by
  cases op with
  | set k v s =>
    simp only [step, stepWith, Spec.step, setWith, Spec.set, hasKey_abs]
    have hs : 1 ≤ (if s = 0 then 1 else s) := by split <;> omega
    generalize (if s = 0 then 1 else s) = s' at hs ⊢
    by_cases hk : hasKey tw k = true
    · simp only [hk, if_true]
      let tw1 : TW := { tw with entries := tw.entries.map fun e => if e.key = k then { e with value := v } else e }
      have hwf1 : WF tw1 := by
        refine ⟨h.npos, h.tp, ?_⟩
        intro e he
        simp only [tw1, List.mem_map] at he
        obtain ⟨e0, he0, rfl⟩ := he
        have := h.ent e0 he0
        split <;> exact this
      have hm := move_refines tw1 hwf1 k s' hs
      refine ⟨hm.1, ?_, trivial⟩
      rw [hm.2]
      simp only [abs, tw1, Spec.move, List.map_map]
      apply List.map_congr_left
      intro e _
      simp only [Function.comp_def]
      by_cases hk' : e.key = k
      · simp [hk', absEntry, remaining]
      · simp [hk', absEntry]
    · simp only [hk, Bool.false_eq_true, if_false]
      refine ⟨⟨h.npos, h.tp, ?_⟩, ?_, trivial⟩
      · intro e he
        simp only [List.mem_append, List.mem_singleton] at he
        rcases he with he | rfl
        · exact h.ent e he
        · exact ⟨Nat.mod_lt _ h.npos, h.npos⟩
      · simp only [abs, List.map_append, List.map_cons, List.map_nil]
        congr 2
        simp only [absEntry, remaining_fresh tw.n tw.tickedPos s' k v h.tp hs]
  | move k s =>
    simp only [step, stepWith, Spec.step]
    by_cases hs : s = 0
    · simp only [hs, if_true]
      refine ⟨h, trivial, ?_⟩
      simp only [abs, List.filter_map, List.map_map]
      rfl
    · simp only [hs, if_false]
      have hm := move_refines tw h k s (by omega)
      exact ⟨hm.1, hm.2, trivial⟩
  | remove k =>
    simp only [step, stepWith, Spec.step, remove, Spec.remove]
    refine ⟨⟨h.npos, h.tp, ?_⟩, ?_, trivial⟩
    · intro e he
      exact h.ent e (List.mem_filter.mp he).1
    · simp only [abs, List.filter_map]
      rfl
  | tick =>
    simp only [step, stepWith, Spec.step, tick, Spec.tick]
    have ht := tick_list tw.n tw.tickedPos h.tp tw.entries h.ent
    refine ⟨⟨h.npos, Nat.mod_lt _ h.npos, ht.2.2⟩, ?_, ?_⟩
    · exact ht.1
    · exact ht.2.1
  | drain =>
    simp only [step, stepWith, Spec.step, drain, Spec.drain]
    refine ⟨⟨h.npos, h.tp, by simp⟩, by simp [abs], ?_⟩
    simp [abs, absEntry, Function.comp_def]

theorem init_wf (n : Nat) (hn : 0 < n) : WF (TW.init n) :=
  ⟨hn, by simp only [TW.init]; omega, by simp [TW.init]⟩

theorem run_refines (tw : TW) (h : WF tw) (ops : List Op) :
    run tw ops = Spec.run (abs tw) ops := by
  induction ops generalizing tw with
  | nil => rfl
  | cons op ops ih =>
    have hs := step_refines tw h op
    simp only [run, runWith, Spec.run]
    have h2 : (stepWith moveCase tw op) = step tw op := rfl
    rw [h2, hs.2.2]
    congr 1
    have := ih (step tw op).1 hs.1
    rw [hs.2.1] at this
    exact this

end GoZero.C12
