/-
C12 — abstract specification: a table key ↦ (value, ticks remaining).
This is the property read literally: a timer set or moved with `steps = ⌊d/interval⌋ ≥ 1` fires at
the `steps`-th following tick, once, with the latest value, unless it is set/moved/removed before.
-/
import GoZero.C12.Model
namespace GoZero.C12.Spec

structure Timer where
  key   : Nat
  value : Nat
  rem   : Nat          -- ticks until it fires (≥ 1 for a pending timer)
  deriving Repr, DecidableEq

abbrev Table := List Timer

def hasKey (t : Table) (k : Nat) : Bool := t.any (·.key = k)

def set (t : Table) (k v s : Nat) : Table :=
  if hasKey t k then t.map fun x => if x.key = k then { x with value := v, rem := s } else x
  else t ++ [{ key := k, value := v, rem := s }]

def move (t : Table) (k s : Nat) : Table :=
  t.map fun x => if x.key = k then { x with rem := s } else x

def remove (t : Table) (k : Nat) : Table := t.filter (·.key ≠ k)

def tick (t : Table) : Table × List (Nat × Nat) :=
  ((t.filter (·.rem ≠ 1)).map fun x => { x with rem := x.rem - 1 },
   (t.filter (·.rem = 1)).map fun x => (x.key, x.value))

def drain (t : Table) : Table × List (Nat × Nat) := ([], t.map fun x => (x.key, x.value))

def step (t : Table) : Op → Table × List (Nat × Nat)
  | .set k v s => (set t k v (if s = 0 then 1 else s), [])
  | .move k s =>
      if s = 0 then (t, (t.filter (·.key = k)).map fun x => (x.key, x.value))
      else (move t k s, [])
  | .remove k => (remove t k, [])
  | .tick => tick t
  | .drain => drain t

def run (t : Table) : List Op → List (List (Nat × Nat))
  | [] => []
  | op :: ops => let (t', out) := step t op; out :: run t' ops

end GoZero.C12.Spec
