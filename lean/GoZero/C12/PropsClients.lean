/-
C12 — property theorems of round 4: the property's clauses end to end through the public API, calls issued
from inside a running callback (execute or Drain), and the anchored clients of the wheel
(core/stores/cache/cleaner.go, core/collection/cache.go).  Only statements, short proofs from the lemmas in
ProofsClients.lean, and non-vacuity examples.
-/
import GoZero.C12.ProofsClients
import GoZero.C12.Handoff
import GoZero.C12.PropsApi
namespace GoZero.C12

/-! ### the clauses of the property, call site → public method → run loop → wheel -/

theorem getD_map_toOp (iv : Nat) (cs : List Call) (i : Nat) :
    (cs.map (toOp iv)).getD i .drain = toOp iv (cs.getD i .drain) := by
  induction cs generalizing i with
  | nil => simp [toOp]
  | cons c cs ih =>
    cases i with
    | zero => simp
    | succ j => simpa using ih j

/-- **Clause 1 (set), through the API.**  On a running wheel of any size, after any history of valid calls,
`SetTimer(k, v, d)` with `d ≥ interval` hands `(k, v')` to the execute callback at the `i`-th following call
iff `v' = v`, that call is a tick, and it is the `⌊d/interval⌋`-th tick since the SetTimer — provided no call
in between sets, moves, removes `k` or drains. -/
theorem api_setTimer_fires_exactly_at_due (iv n : Nat) (hn : 0 < n) (hiv : 0 < iv) (cs₀ cs : List Call)
    (hv₀ : ∀ c ∈ cs₀, validCall c = true) (hv : ∀ c ∈ cs, validCall c = true) (k v : Nat) (d : Int)
    (hd : (iv : Int) ≤ d) (hun : ∀ c ∈ cs, Spec.touches k (toOp iv c) = false) (i v' : Nat) :
    (k, v') ∈ (((Api.init iv n).run (cs₀ ++ .setTimer (some k) v d :: cs)).map (·.2)).getD (cs₀.length + 1 + i) [] ↔
      (v' = v ∧ i < cs.length ∧ Spec.isTick (toOp iv (cs.getD i .drain)) = true
        ∧ Spec.ticksIn ((cs.take (i + 1)).map (toOp iv)) = d.toNat / iv) := by
  have hd0 : 0 < d := by omega
  have hvall : ∀ c ∈ cs₀ ++ .setTimer (some k) v d :: cs, validCall c = true := by
    intro c hc
    simp only [List.mem_append, List.mem_cons] at hc
    rcases hc with h | rfl | h
    · exact hv₀ c h
    · simp [validCall, hd0]
    · exact hv c h
  rw [(api_valid_calls_are_wheel_ops iv n _ hvall).1]
  simp only [List.map_append, List.map_cons, toOp]
  have hs : 1 ≤ stepsOf iv d := by
    unfold stepsOf
    exact (Nat.le_div_iff_mul_le hiv).mpr (by omega)
  have hun' : ∀ op ∈ cs.map (toOp iv), Spec.touches k op = false := by
    intro op hop
    obtain ⟨c, hc, rfl⟩ := List.mem_map.mp hop
    exact hun c hc
  have := set_fires_exactly_at_due n hn (cs₀.map (toOp iv)) (cs.map (toOp iv)) k v (stepsOf iv d) hs hun' i v'
  rw [List.length_map] at this
  rw [this, getD_map_toOp, List.length_map, ← List.map_take]
  rfl

/-- **Clause 2 (move), through the API**: `MoveTimer(k, d)` with `d ≥ interval` on a key pending with value
`v`: fires exactly once, at the `⌊d/interval⌋`-th tick after the MoveTimer, with `v`. -/
theorem api_moveTimer_fires_exactly_at_due (iv n : Nat) (hn : 0 < n) (hiv : 0 < iv) (cs₀ cs : List Call)
    (hv₀ : ∀ c ∈ cs₀, validCall c = true) (hv : ∀ c ∈ cs, validCall c = true) (k v s0 : Nat) (d : Int)
    (hd : (iv : Int) ≤ d)
    (hpend : (⟨k, v, s0⟩ : Spec.Timer) ∈ (cs₀.map (toOp iv)).foldl (fun t op => (Spec.step t op).1) [])
    (hun : ∀ c ∈ cs, Spec.touches k (toOp iv c) = false) (i v' : Nat) :
    (k, v') ∈ (((Api.init iv n).run (cs₀ ++ .moveTimer (some k) d :: cs)).map (·.2)).getD (cs₀.length + 1 + i) [] ↔
      (v' = v ∧ i < cs.length ∧ Spec.isTick (toOp iv (cs.getD i .drain)) = true
        ∧ Spec.ticksIn ((cs.take (i + 1)).map (toOp iv)) = d.toNat / iv) := by
  have hd0 : 0 < d := by omega
  have hvall : ∀ c ∈ cs₀ ++ .moveTimer (some k) d :: cs, validCall c = true := by
    intro c hc
    simp only [List.mem_append, List.mem_cons] at hc
    rcases hc with h | rfl | h
    · exact hv₀ c h
    · simp [validCall, hd0]
    · exact hv c h
  rw [(api_valid_calls_are_wheel_ops iv n _ hvall).1]
  simp only [List.map_append, List.map_cons, toOp]
  have hs : 1 ≤ stepsOf iv d := by
    unfold stepsOf
    exact (Nat.le_div_iff_mul_le hiv).mpr (by omega)
  have hun' : ∀ op ∈ cs.map (toOp iv), Spec.touches k op = false := by
    intro op hop
    obtain ⟨c, hc, rfl⟩ := List.mem_map.mp hop
    exact hun c hc
  have := move_fires_exactly_at_due n hn (cs₀.map (toOp iv)) (cs.map (toOp iv)) k v s0 (stepsOf iv d) hs hpend hun' i v'
  rw [List.length_map] at this
  rw [this, getD_map_toOp, List.length_map, ← List.map_take]
  rfl

/-- **Clause 3 (remove), through the API**: after `RemoveTimer(k)` no later call hands `k` to a callback
(until `k` is set again). -/
theorem api_removeTimer_never_fires (iv n : Nat) (hn : 0 < n) (cs₀ cs : List Call)
    (hv₀ : ∀ c ∈ cs₀, validCall c = true) (hv : ∀ c ∈ cs, validCall c = true) (k : Nat)
    (hun : ∀ c ∈ cs, Spec.touches k (toOp iv c) = false) (i v' : Nat) :
    (k, v') ∉ (((Api.init iv n).run (cs₀ ++ .removeTimer (some k) :: cs)).map (·.2)).getD (cs₀.length + 1 + i) [] := by
  have hvall : ∀ c ∈ cs₀ ++ .removeTimer (some k) :: cs, validCall c = true := by
    intro c hc
    simp only [List.mem_append, List.mem_cons] at hc
    rcases hc with h | rfl | h
    · exact hv₀ c h
    · simp [validCall]
    · exact hv c h
  rw [(api_valid_calls_are_wheel_ops iv n _ hvall).1]
  simp only [List.map_append, List.map_cons, toOp]
  have hun' : ∀ op ∈ cs.map (toOp iv), Spec.touches k op = false := by
    intro op hop
    obtain ⟨c, hc, rfl⟩ := List.mem_map.mp hop
    exact hun c hc
  have := removed_never_fires n hn (cs₀.map (toOp iv)) (cs.map (toOp iv)) k hun' i v'
  rw [List.length_map] at this
  exact this

/-- **Clause 4 (Drain), through the API**: `Drain(fn)` after any history of valid calls returns nil and hands
`fn` exactly the pending timers, each key once, with its latest value; the wheel holds no entry afterwards. -/
theorem api_drain_delivers_each_once (iv n : Nat) (hn : 0 < n) (cs₀ : List Call)
    (hv₀ : ∀ c ∈ cs₀, validCall c = true) :
    let pending := (cs₀.map (toOp iv)).foldl (fun t op => (Spec.step t op).1) []
    (((Api.init iv n).run (cs₀ ++ [.drain])).map (·.2)).getD cs₀.length [] = pending.map (fun x => (x.key, x.value))
    ∧ (pending.map (·.key)).Nodup
    ∧ (∀ r ∈ (Api.init iv n).run (cs₀ ++ [.drain]), r.1 = .ok ∨ r.1 = .unit) := by
  intro pending
  have hvall : ∀ c ∈ cs₀ ++ [Call.drain], validCall c = true := by
    intro c hc
    simp only [List.mem_append, List.mem_cons, List.not_mem_nil, or_false] at hc
    rcases hc with h | rfl
    · exact hv₀ c h
    · rfl
  have hw := api_valid_calls_are_wheel_ops iv n _ hvall
  refine ⟨?_, ?_, hw.2⟩
  · rw [hw.1]
    simp only [List.map_append, List.map_cons, List.map_nil, toOp]
    have := (drain_each_once n hn (cs₀.map (toOp iv))).1
    rw [List.length_map] at this
    exact this
  · exact (drain_each_once n hn (cs₀.map (toOp iv))).2.1

/-! ### calls issued from inside a running callback -/

/-- **Callbacks that call back into the wheel**: for every interval, wheel size, callback behaviour `cb`
(any state machine issuing any calls — SetTimer, MoveTimer, RemoveTimer, Drain, Stop — from inside the execute
or Drain callback), and every sequence of calls and ticks, the API over the wheel and the API over the timer
table return the same errors, hand the same pairs to the callbacks, and log the same inner calls. -/
theorem callback_calls_refine_timer_table {σ : Type} (iv n : Nat) (hn : 0 < n) (cb : Cb σ) (fuel : Nat) (s : σ)
    (cs : List Call) :
    ApiG.runCb step cb fuel (Api.init iv n) s cs = ApiG.runCb Spec.step cb fuel (Spec.Api.init iv) s cs := by
  have := runCb_refines cb fuel cs (Api.init iv n) s (init_wf n hn)
  simpa [absApi, Api.init, Spec.Api.init, abs, TW.init] using this

/-- **A call issued from inside a callback is an ordinary call, executed after the operation that fired the
callback** (any timer mechanism, any callback behaviour): the state after the callbacks have run is the state
after executing the logged inner calls one after the other; what was handed to callbacks is the fired queue
followed by what those calls fired; the results are those of the sequential run. -/
theorem callback_calls_are_sequential_calls {T σ : Type} (ts : TStep T) (cb : Cb σ) (fuel : Nat) (a : ApiG T) (s : σ)
    (pend : List (Nat × Nat)) :
    let r := ApiG.settle ts cb fuel a s pend
    let calls := r.inner.map (·.2.1)
    r.api = ApiG.after ts a calls
    ∧ r.fired ++ r.left = pend ++ (ApiG.run ts a calls).flatMap (·.2)
    ∧ r.inner.map (·.2.2) = (ApiG.run ts a calls).map (·.1) :=
  settle_is_sequential ts cb fuel a s pend

/-- **A fired key is forgotten before its callback runs**: on every reachable wheel, a key the tick hands to
the execute callback is no longer in the wheel after the tick (the code: `timers.Del` before `runTasks`). -/
theorem fired_key_is_forgotten (n : Nat) (hn : 0 < n) (ops₀ : List Op) (k v : Nat)
    (hf : (k, v) ∈ (run (TW.init n) (ops₀ ++ [.tick])).getD ops₀.length []) :
    k ∉ Spec.keys ((ops₀ ++ [Op.tick]).foldl (fun t op => (Spec.step t op).1) [])
    ∧ hasKey ((ops₀ ++ [Op.tick]).foldl (fun tw op => (step tw op).1) (TW.init n)) k = false := by
  rw [tw_refines_timer_table n hn, Spec.run_append] at hf
  have hl : (Spec.run [] ops₀).length = ops₀.length := Spec.run_length _ _
  have e0 : ops₀.length = (Spec.run [] ops₀).length + 0 := by omega
  rw [e0, Spec.getD_append_len] at hf
  simp only [Spec.run, List.getD_cons_zero, Spec.step] at hf
  have hab := Spec.tick_fired_absent _ (Spec.reachable_keys_nodup ops₀) k v hf
  have hab' : k ∉ Spec.keys ((ops₀ ++ [Op.tick]).foldl (fun t op => (Spec.step t op).1) []) := by
    simpa [List.foldl_append, Spec.step] using hab
  refine ⟨hab', ?_⟩
  have hr := reachable_abs n hn (ops₀ ++ [Op.tick])
  rw [← hr.2, ← Spec.hasKey_iff, hasKey_abs] at hab'
  simpa using hab'

/-- **Re-arming from the callback with MoveTimer is lost** (what seeded change C06-4 does in cleaner.go): the
key that just fired is not pending, so a MoveTimer on it — any delay — runs nothing and changes nothing;
every later operation behaves as if the MoveTimer had not been issued. -/
theorem rearm_with_move_from_callback_is_lost (n : Nat) (hn : 0 < n) (ops₀ ops : List Op) (k v s : Nat)
    (hf : (k, v) ∈ (run (TW.init n) (ops₀ ++ [.tick])).getD ops₀.length []) :
    (run (TW.init n) ((ops₀ ++ [.tick]) ++ .move k s :: ops)).getD (ops₀ ++ [Op.tick]).length [] = []
    ∧ (run (TW.init n) ((ops₀ ++ [.tick]) ++ .move k s :: ops)).drop ((ops₀ ++ [Op.tick]).length + 1)
        = (run (TW.init n) ((ops₀ ++ [.tick]) ++ ops)).drop (ops₀ ++ [Op.tick]).length :=
  move_absent_is_noop n hn (ops₀ ++ [.tick]) ops k s (fired_key_is_forgotten n hn ops₀ k v hf).1

/-- **Re-arming from the callback with SetTimer works** (cleaner.go's `clean`): the key that just fired is set
again from inside its callback with `s = ⌊d/interval⌋ ≥ 1`; it fires exactly once, at the `s`-th tick after
the tick that fired it, with the new value. -/
theorem rearm_with_set_from_callback_fires_at_due (n : Nat) (hn : 0 < n) (ops₀ ops : List Op) (k v s : Nat)
    (hs : 1 ≤ s) (hun : ∀ op ∈ ops, Spec.touches k op = false) (i v' : Nat) :
    (k, v') ∈ (run (TW.init n) ((ops₀ ++ [.tick]) ++ .set k v s :: ops)).getD ((ops₀ ++ [Op.tick]).length + 1 + i) [] ↔
      (v' = v ∧ i < ops.length ∧ Spec.isTick (ops.getD i .drain) = true ∧ Spec.ticksIn (ops.take (i + 1)) = s) :=
  set_fires_exactly_at_due n hn (ops₀ ++ [.tick]) ops k v s hs hun i v'

/-! ### core/stores/cache/cleaner.go -/

/-- the retry schedule: every next delay is a whole number of wheel intervals (one second), at least five, so a
re-armed clean task is never clamped and never runs at once; the chain from `AddCleanTask`'s one second is
5 s, 1 min, 5 min, 1 h and then ends. -/
theorem cleaner_schedule :
    (∀ d, (nextDelay d).2 = true →
        stepsOf second (nextDelay d).1 ∈ [5, 60, 300, 3600] ∧ (nextDelay d).1 = (stepsOf second (nextDelay d).1 * second : Nat))
    ∧ nextDelay second = (((5 * second : Nat) : Int), true)
    ∧ nextDelay ((5 * second : Nat) : Int) = (((60 * second : Nat) : Int), true)
    ∧ nextDelay ((60 * second : Nat) : Int) = (((300 * second : Nat) : Int), true)
    ∧ nextDelay ((300 * second : Nat) : Int) = (((3600 * second : Nat) : Int), true)
    ∧ (nextDelay ((3600 * second : Nat) : Int)).2 = false := by
  refine ⟨?_, by decide, by decide, by decide, by decide, by decide⟩
  intro d h
  unfold nextDelay at h ⊢
  split at h
  · simp [*, stepsOf, second]
  · split at h
    · simp [*, stepsOf, second]
    · split at h
      · simp [*, stepsOf, second]
      · split at h
        · simp [*, stepsOf, second]
        · simp at h

/-- **what `clean` does on the wheel**: a task that fails with a delay that has a successor re-arms its own
key with SetTimer — one valid call, whose request to the run loop is `set k · ⌊next/1s⌋`; a task that succeeds,
or whose schedule is exhausted, issues nothing. -/
theorem cleaner_rearm_call (o : Outcomes) (k : Nat) (d : Nat) :
    (((o.next k).1 = true ∧ (nextDelay d).2 = true) →
        ∃ c, (cleanerCb o k d).2 = [c] ∧ validCall c = true
          ∧ toOp second c = .set k (nextDelay d).1.toNat (stepsOf second (nextDelay d).1)
          ∧ 5 ≤ stepsOf second (nextDelay d).1)
    ∧ (((o.next k).1 = false ∨ (nextDelay d).2 = false) → (cleanerCb o k d).2 = []) := by
  constructor
  · intro ⟨h1, h2⟩
    have hs := (cleaner_schedule.1 (d : Int) h2)
    refine ⟨.setTimer (some k) (nextDelay d).1.toNat (nextDelay d).1, by simp [cleanerCb, h1, h2], ?_, rfl, ?_⟩
    · have := hs.2
      simp only [validCall, decide_eq_true_eq]
      have h5 : 5 ≤ stepsOf second (nextDelay d).1 := by
        have := hs.1; simp at this; omega
      have : 0 < stepsOf second (nextDelay (d : Int)).1 * second := Nat.mul_pos (by omega) (by decide)
      omega
    · have := hs.1; simp at this; omega
  · intro h
    rcases h with h | h
    · simp [cleanerCb, h]
    · unfold cleanerCb
      split <;> simp [h]

/-! ### core/collection/cache.go -/

/-- **the expiry callback's `RemoveTimer` finds nothing**: `Cache.Del(key)`, called by the wheel's callback for
the key that just fired, calls RemoveTimer on a key the wheel has already forgotten — it changes nothing and
later operations behave as if it had not been issued (a key set again later is not disturbed). -/
theorem cache_expiry_remove_is_noop (n : Nat) (hn : 0 < n) (ops₀ ops : List Op) (k v : Nat)
    (hf : (k, v) ∈ (run (TW.init n) (ops₀ ++ [.tick])).getD ops₀.length []) :
    (run (TW.init n) ((ops₀ ++ [.tick]) ++ .remove k :: ops)).drop ((ops₀ ++ [Op.tick]).length + 1)
        = (run (TW.init n) ((ops₀ ++ [.tick]) ++ ops)).drop (ops₀ ++ [Op.tick]).length := by
  have habs := (fired_key_is_forgotten n hn ops₀ k v hf).1
  generalize ops₀ ++ [Op.tick] = P at habs ⊢
  rw [tw_refines_timer_table n hn, tw_refines_timer_table n hn, Spec.run_append, Spec.run_append]
  have hl : (Spec.run [] P).length = P.length := Spec.run_length _ _
  have e0 : P.length = (Spec.run [] P).length + 0 := by omega
  have e1 : P.length + 1 = (Spec.run [] P).length + 1 := by omega
  generalize P.foldl (fun t op => (Spec.step t op).1) [] = T at habs ⊢
  have hrm : Spec.remove T k = T := by
    unfold Spec.remove
    apply List.filter_eq_self.mpr
    intro x hx
    have : ¬ x.key = k := fun h => habs (List.mem_map.mpr ⟨x, hx, h⟩)
    simp [this]
  rw [e1, Spec.drop_append_len]
  conv => rhs; rw [e0, Spec.drop_append_len]
  simp only [Spec.run, List.drop_succ_cons, List.drop_zero, Spec.step, hrm]

/-! ### Drain's hand-off to the bounded worker pool, with callbacks that call back into the wheel -/

theorem runOnLoop_fills (w : Nat) (fuel b p : Nat) (hb : b ≤ w) (hp : w - b < p) (hf : w - b ≤ fuel) :
    runOnLoop w fuel ⟨p, b, 0⟩ = ⟨p - (w - b), w, 0⟩ := by
  induction fuel generalizing b p with
  | zero =>
    have : b = w := by omega
    subst this
    simp [runOnLoop]
  | succ f ih =>
    by_cases hlt : b < w
    · have hp0 : p > 0 := by omega
      simp only [runOnLoop, stepsOnLoop, hp0, hlt, if_true]
      rw [ih (b + 1) (p - 1) (by omega) (by omega) (by omega)]
      congr 1
      omega
    · have : b = w := by omega
      subst this
      have hp0 : p > 0 := by omega
      simp [runOnLoop, stepsOnLoop, hp0]

/-- **The hand-off on the run loop's own goroutine stalls** (the defect fixed by fixes/C12-drain-reentrant-stall.patch):
with more drained tasks than workers (`w < n`) whose callbacks call back into the wheel, after `w` steps all workers
are busy, `n - w > 0` tasks are still pending, no callback has returned, and no step is possible any more. -/
theorem handoff_on_loop_stalls (w n fuel : Nat) (hn : w < n) (hf : w ≤ fuel) :
    runOnLoop w fuel ⟨n, 0, 0⟩ = ⟨n - w, w, 0⟩ ∧ stepsOnLoop w ⟨n - w, w, 0⟩ = [] ∧ 0 < n - w := by
  refine ⟨?_, ?_, by omega⟩
  · have := runOnLoop_fills w fuel 0 n (by omega) (by omega) (by omega)
    simpa using this
  · have : n - w > 0 := by omega
    simp [stepsOnLoop, this]

/-- **The hand-off on a goroutine of its own never stalls** (the fixed code; `w ≥ 1` workers): while a task is pending
or a callback is running some step is possible, every step keeps the number of tasks and strictly decreases
`2·pending + busy` — so every run ends, and it ends with every task's callback returned. -/
theorem handoff_off_loop_never_stalls (w : Nat) (hw : 0 < w) (s : HS) :
    (0 < s.pending + s.busy → stepsOffLoop w s ≠ [])
    ∧ (∀ s' ∈ stepsOffLoop w s,
        2 * s'.pending + s'.busy < 2 * s.pending + s.busy
        ∧ s'.pending + s'.busy + s'.done = s.pending + s.busy + s.done)
    ∧ (stepsOffLoop w s = [] → s.pending = 0 ∧ s.busy = 0) := by
  refine ⟨?_, ?_, ?_⟩
  · intro h
    unfold stepsOffLoop
    by_cases hb : s.busy > 0
    · simp [hb]
    · have : s.pending > 0 ∧ s.busy < w := by omega
      simp [this]
  · intro s' hs'
    unfold stepsOffLoop at hs'
    simp only [List.mem_append] at hs'
    rcases hs' with h | h
    · split at h
      · simp only [List.mem_singleton] at h; subst h; simp only []; omega
      · cases h
    · split at h
      · simp only [List.mem_singleton] at h; subst h; simp only []; omega
      · cases h
  · intro h
    unfold stepsOffLoop at h
    by_cases hb : s.busy > 0
    · simp [hb] at h
    · by_cases hp : s.pending > 0
      · have : s.pending > 0 ∧ s.busy < w := by omega
        simp [this] at h
      · omega

/-! ### Non-vacuity -/

/-- clause 1 through the API on a wrapped wheel: interval 7, delay 59 = 8 intervals + 3. -/
example : (1, 7) ∈ (((Api.init 7 10).run (List.replicate 6 .tick ++ .setTimer (some 1) 7 59 :: List.replicate 8 .tick)).map (·.2)).getD (6 + 1 + 7) [] := by
  decide

example : ∀ c ∈ List.replicate 8 Call.tick, validCall c = true ∧ Spec.touches 1 (toOp 7 c) = false := by decide

/-- a callback that re-arms its own key from inside (fires at tick 2, re-armed for 3 more ticks → tick 5),
and a Drain callback that sets its key again from inside Drain. -/
example : (ApiG.runCb step armCb 100 (Api.init 1 10)
      [⟨1, [.setTimer (some 1) 8 3]⟩, ⟨2, [.setTimer (some 2) 9 1]⟩]
      [.setTimer (some 1) 7 2, .setTimer (some 2) 6 5, .tick, .tick, .drain, .tick, .tick, .tick]).map (fun o => (o.2.1, o.2.2.1.length))
    = [([], 0), ([], 0), ([], 0), ([(1, 7)], 1), ([(2, 6), (1, 8)], 1), ([(2, 9)], 0), ([], 0), ([], 0)] := by
  decide

/-- `fired_key_is_forgotten`'s hypothesis is satisfiable. -/
example : (1, 7) ∈ (run (TW.init 10) ([.set 1 7 1] ++ [.tick])).getD 1 [] := by decide

/-- the cleaner: a task that fails twice runs at tick 1, is re-armed for 5 s, runs at tick 6, is re-armed for
1 min; `cleanerCb` issues the SetTimer from inside the callback. -/
example : ((ApiG.runCb step cleanerCb 100 (Api.init second 300) [(1, [true, true])]
      (addCleanTask 1 :: List.replicate 7 .tick)).map (·.2.1))
    = [[], [(1, 1000000000)], [], [], [], [], [(1, 5000000000)], []] := by
  decide

example : Outcomes.next [(1, [true, false])] 1 = (true, [(1, [false])]) := by decide

/-- 9 drained tasks, 8 workers: the on-loop hand-off is stuck with one task pending and no callback returned; the
off-loop hand-off can always move from that very state. -/
example : runOnLoop 8 100 ⟨9, 0, 0⟩ = ⟨1, 8, 0⟩ ∧ stepsOnLoop 8 ⟨1, 8, 0⟩ = [] ∧ stepsOffLoop 8 ⟨1, 8, 0⟩ = [⟨1, 7, 1⟩] := by
  decide

end GoZero.C12
