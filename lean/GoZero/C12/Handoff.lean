/-
C12 — the hand-off of drained tasks to the bounded worker pool (`threading.NewTaskRunner(drainWorkers)`), for
callbacks that call back into the wheel (core Lean only).

  pending   tasks collected by drainAll that have not been given to a worker yet
  busy      workers inside a callback; the callback has issued a call on the wheel and waits for the run loop
  done      callbacks that have returned

`Schedule` hands a task to a worker only while fewer than `w` workers are busy, otherwise it blocks its caller.
A callback's call on the wheel is received only while the run loop sits in its `select`.
-/
namespace GoZero.C12

structure HS where
  pending : Nat
  busy    : Nat
  done    : Nat
  deriving Repr, DecidableEq

/-- hand-off ON the run loop's goroutine (the code before the fix): while tasks are pending the loop is inside
drainAll, so no callback's call is received; it can only schedule, and only while a worker is free. -/
def stepsOnLoop (w : Nat) (s : HS) : List HS :=
  if s.pending > 0 then
    (if s.busy < w then [{ s with pending := s.pending - 1, busy := s.busy + 1 }] else [])
  else (if s.busy > 0 then [{ s with busy := s.busy - 1, done := s.done + 1 }] else [])

/-- hand-off on a goroutine of its own (the fixed code): the run loop is always in its `select`, so a busy
callback can always finish; scheduling proceeds whenever a worker is free. -/
def stepsOffLoop (w : Nat) (s : HS) : List HS :=
  (if s.pending > 0 ∧ s.busy < w then [{ s with pending := s.pending - 1, busy := s.busy + 1 }] else []) ++
  (if s.busy > 0 then [{ s with busy := s.busy - 1, done := s.done + 1 }] else [])

/-- follow the (unique) successor of the on-loop hand-off for at most `fuel` steps. -/
def runOnLoop (w : Nat) : Nat → HS → HS
  | 0, s => s
  | f + 1, s => match stepsOnLoop w s with
    | [] => s
    | s' :: _ => runOnLoop w f s'

end GoZero.C12
