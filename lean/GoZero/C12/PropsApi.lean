/-
C12 — property theorems of round 2: the public API layer (argument validation, Stop), delays below one
interval (SetTimer clamps, MoveTimer runs the task at once and keeps the timer), Drain.
Only statements, their short proofs from the lemmas in ProofsApi.lean, and non-vacuity examples.
-/
import GoZero.C12.ProofsApi
import GoZero.C12.Props
namespace GoZero.C12

/-! ### the API layer -/

/-- **The public API over the wheel behaves like the public API over the timer table**: for every tick
interval, every wheel size `n ≥ 1` and every sequence of SetTimer / MoveTimer / RemoveTimer / Drain / Stop
calls and ticks (any key including nil, any delay including ≤ 0 and below one interval, calls after Stop),
every call returns the same error and hands the same (key,value) pairs to the callbacks. -/
theorem api_refines_timer_table (iv n : Nat) (hn : 0 < n) (cs : List Call) :
    (Api.init iv n).run cs = (Spec.Api.init iv).run cs := by
  have := api_run_refines (Api.init iv n) (init_wf n hn) cs
  simpa [absApi, Api.init, Spec.Api.init, abs, TW.init] using this

/-- **On a running wheel, calls with valid arguments are exactly the wheel's operations**: every such call
returns nil (ticks return nothing) and the callbacks get what the wheel model hands out for the operation
list `set k v ⌊d/interval⌋ / move k ⌊d/interval⌋ / remove k / drain / tick` — so `set_fires_exactly_at_due`,
`move_fires_exactly_at_due`, `removed_never_fires`, `drain_delivers_all_once_and_empties` speak about
SetTimer / MoveTimer / RemoveTimer / Drain as called through the public API. -/
theorem api_valid_calls_are_wheel_ops (iv n : Nat) (cs : List Call) (hv : ∀ c ∈ cs, validCall c = true) :
    ((Api.init iv n).run cs).map (·.2) = run (TW.init n) (cs.map (toOp iv))
    ∧ ∀ r ∈ (Api.init iv n).run cs, r.1 = .ok ∨ r.1 = .unit :=
  valid_run (Api.init iv n) rfl cs hv

/-- **Argument validation as a decision table** (any timer mechanism, any state):
SetTimer / MoveTimer return ErrArgument iff `delay ≤ 0` or the key is nil, else ErrClosed iff the wheel was
stopped, else nil; RemoveTimer the same without the delay; Drain has no argument check. -/
theorem api_validation_table {T : Type} (ts : TStep T) (a : ApiG T) :
    (∀ key v d,
        ((a.step ts (.setTimer key v d)).2.1 = .errArgument ↔ (d ≤ 0 ∨ key = none))
      ∧ ((a.step ts (.setTimer key v d)).2.1 = .errClosed ↔ (0 < d ∧ key ≠ none ∧ a.stopped = true))
      ∧ ((a.step ts (.setTimer key v d)).2.1 = .ok ↔ (0 < d ∧ key ≠ none ∧ a.stopped = false)))
    ∧ (∀ key d,
        ((a.step ts (.moveTimer key d)).2.1 = .errArgument ↔ (d ≤ 0 ∨ key = none))
      ∧ ((a.step ts (.moveTimer key d)).2.1 = .errClosed ↔ (0 < d ∧ key ≠ none ∧ a.stopped = true))
      ∧ ((a.step ts (.moveTimer key d)).2.1 = .ok ↔ (0 < d ∧ key ≠ none ∧ a.stopped = false)))
    ∧ (∀ key,
        ((a.step ts (.removeTimer key)).2.1 = .errArgument ↔ key = none)
      ∧ ((a.step ts (.removeTimer key)).2.1 = .errClosed ↔ (key ≠ none ∧ a.stopped = true))
      ∧ ((a.step ts (.removeTimer key)).2.1 = .ok ↔ (key ≠ none ∧ a.stopped = false)))
    ∧ ((a.step ts .drain).2.1 ≠ .errArgument
      ∧ ((a.step ts .drain).2.1 = .errClosed ↔ a.stopped = true)
      ∧ ((a.step ts .drain).2.1 = .ok ↔ a.stopped = false)) := by
  refine ⟨?_, ?_, ?_, ?_⟩
  · intro key v d
    by_cases hd : d ≤ 0 <;> cases key <;> cases hst : a.stopped <;>
      simp [ApiG.step, ApiG.submit, badDelayKey, hd, hst] <;> omega
  · intro key d
    by_cases hd : d ≤ 0 <;> cases key <;> cases hst : a.stopped <;>
      simp [ApiG.step, ApiG.submit, badDelayKey, hd, hst] <;> omega
  · intro key
    cases key <;> cases hst : a.stopped <;> simp [ApiG.step, ApiG.submit, hst]
  · cases hst : a.stopped <;> simp [ApiG.step, ApiG.submit, hst]

/-- a call that returns an error (or panics) changes nothing and runs no callback. -/
theorem api_rejected_call_has_no_effect {T : Type} (ts : TStep T) (a : ApiG T) (c : Call)
    (h : (a.step ts c).2.1 = .errArgument ∨ (a.step ts c).2.1 = .errClosed ∨ (a.step ts c).2.1 = .panic) :
    (a.step ts c).1 = a ∧ (a.step ts c).2.2 = [] := by
  cases c with
  | setTimer key v d =>
    revert h
    cases key with
    | none => simp [ApiG.step, badDelayKey]
    | some k =>
      by_cases hb : badDelayKey d false = true <;> cases hst : a.stopped <;>
        simp [ApiG.step, ApiG.submit, hb, hst]
  | moveTimer key d =>
    revert h
    cases key with
    | none => simp [ApiG.step, badDelayKey]
    | some k =>
      by_cases hb : badDelayKey d false = true <;> cases hst : a.stopped <;>
        simp [ApiG.step, ApiG.submit, hb, hst]
  | removeTimer key => revert h; cases key <;> cases hst : a.stopped <;> simp [ApiG.step, ApiG.submit, hst]
  | drain => revert h; cases hst : a.stopped <;> simp [ApiG.step, ApiG.submit, hst]
  | tick => revert h; cases hst : a.stopped <;> simp [ApiG.step, hst]
  | stop => revert h; cases hst : a.stopped <;> simp [ApiG.step, hst]

/-- **After Stop nothing happens any more**: Stop on a running wheel stops the ticker once, and whatever is
called afterwards (valid or not, ticks included) runs no callback, never returns nil, and leaves the
timers untouched. -/
theorem stop_then_silent {T : Type} (ts : TStep T) (a : ApiG T) (hrun : a.stopped = false) (cs : List Call) :
    (a.step ts .stop).1.tickerStops = a.tickerStops + 1
    ∧ (a.step ts .stop).2 = (.unit, [])
    ∧ ∀ out ∈ (a.step ts .stop).1.run ts cs, out.2 = [] ∧ out.1 ≠ .ok := by
  have hst : (a.step ts .stop).1.stopped = true := by simp [ApiG.step, hrun]
  refine ⟨by simp [ApiG.step, hrun], by simp [ApiG.step, hrun], stopped_run ts _ hst cs⟩

/-! ### delays below one interval (outside the property's quantifier; Cache (C16) relies on the clamp) -/

/-- **SetTimer with `0 < delay < interval` is SetTimer with `delay = interval`** (`setTask` clamps). -/
theorem setTimer_below_interval_clamps {T : Type} (ts : TStep T) (a : ApiG T) (key : Option Nat) (v : Nat)
    (d : Int) (hd : 0 < d) (hlt : d < a.interval) (hts : ∀ t k, ts t (.set k v 0) = ts t (.set k v 1)) :
    a.step ts (.setTimer key v d) = a.step ts (.setTimer key v a.interval) := by
  have hiv : 0 < a.interval := by omega
  have h0 : stepsOf a.interval d = 0 := by
    unfold stepsOf
    exact Nat.div_eq_of_lt (by omega)
  have h1 : stepsOf a.interval (a.interval : Int) = 1 := by
    unfold stepsOf
    simp [Nat.div_self hiv]
  cases key with
  | none => simp [ApiG.step, badDelayKey]
  | some k =>
    have hb1 : badDelayKey d (some k).isNone = false := by simp [badDelayKey]; omega
    have hb2 : badDelayKey (a.interval : Int) (some k).isNone = false := by simp [badDelayKey]; omega
    simp only [ApiG.step, hb1, hb2, Bool.false_eq_true, if_false, h0, h1, ApiG.submit, hts]

/-- the wheel and the table both satisfy the hypothesis of `setTimer_below_interval_clamps`. -/
theorem set_zero_steps_is_one_step (tw : TW) (t : Spec.Table) (k v : Nat) :
    step tw (.set k v 0) = step tw (.set k v 1) ∧ Spec.step t (.set k v 0) = Spec.step t (.set k v 1) :=
  ⟨rfl, rfl⟩

/-- **A timer set with a delay below one interval fires exactly once, at the next tick**, with the set
value (same form as `set_fires_exactly_at_due` with `s = 1`). -/
theorem set_below_interval_fires_at_next_tick (n : Nat) (hn : 0 < n) (ops₀ ops : List Op) (k v : Nat)
    (hun : ∀ op ∈ ops, Spec.touches k op = false) (i v' : Nat) :
    (k, v') ∈ (run (TW.init n) (ops₀ ++ .set k v 0 :: ops)).getD (ops₀.length + 1 + i) [] ↔
      (v' = v ∧ i < ops.length ∧ Spec.isTick (ops.getD i .drain) = true ∧ Spec.ticksIn (ops.take (i + 1)) = 1) := by
  have e : run (TW.init n) (ops₀ ++ .set k v 0 :: ops) = run (TW.init n) (ops₀ ++ .set k v 1 :: ops) := by
    rw [tw_refines_timer_table n hn, tw_refines_timer_table n hn, Spec.run_append, Spec.run_append]
    rfl
  rw [e]
  exact set_fires_exactly_at_due n hn ops₀ ops k v 1 (Nat.le_refl 1) hun i v'

/-- **MoveTimer with a delay below one interval runs the pending task at once, exactly once, and keeps the
timer**: the callback gets `(k, v)` at the move, and everything afterwards is as if the move had not been
issued (so the task is executed again at its old due tick). -/
theorem move_below_interval_runs_now_and_keeps_timer (n : Nat) (hn : 0 < n) (ops₀ ops : List Op) (k v s : Nat)
    (hpend : (⟨k, v, s⟩ : Spec.Timer) ∈ ops₀.foldl (fun t op => (Spec.step t op).1) []) :
    (run (TW.init n) (ops₀ ++ .move k 0 :: ops)).getD ops₀.length [] = [(k, v)]
    ∧ (run (TW.init n) (ops₀ ++ .move k 0 :: ops)).drop (ops₀.length + 1)
        = (run (TW.init n) (ops₀ ++ ops)).drop ops₀.length := by
  rw [tw_refines_timer_table n hn, tw_refines_timer_table n hn, Spec.run_append, Spec.run_append]
  have hl : (Spec.run [] ops₀).length = ops₀.length := Spec.run_length _ _
  have e0 : ops₀.length = (Spec.run [] ops₀).length + 0 := by omega
  have e1 : ops₀.length + 1 = (Spec.run [] ops₀).length + 1 := by omega
  constructor
  · rw [e0, Spec.getD_append_len]
    simp only [Spec.run, List.getD_cons_zero, Spec.step, if_true]
    exact Spec.filter_key_pending _ (Spec.reachable_keys_nodup ops₀) k v s hpend
  · rw [e1, Spec.drop_append_len]
    conv => rhs; rw [e0, Spec.drop_append_len]
    simp [Spec.run, Spec.step]

/-- MoveTimer (any delay) on a key that is not pending does nothing. -/
theorem move_absent_is_noop (n : Nat) (hn : 0 < n) (ops₀ ops : List Op) (k s : Nat)
    (habs : k ∉ Spec.keys (ops₀.foldl (fun t op => (Spec.step t op).1) [])) :
    (run (TW.init n) (ops₀ ++ .move k s :: ops)).getD ops₀.length [] = []
    ∧ (run (TW.init n) (ops₀ ++ .move k s :: ops)).drop (ops₀.length + 1)
        = (run (TW.init n) (ops₀ ++ ops)).drop ops₀.length := by
  rw [tw_refines_timer_table n hn, tw_refines_timer_table n hn, Spec.run_append, Spec.run_append]
  have hl : (Spec.run [] ops₀).length = ops₀.length := Spec.run_length _ _
  have e0 : ops₀.length = (Spec.run [] ops₀).length + 0 := by omega
  have e1 : ops₀.length + 1 = (Spec.run [] ops₀).length + 1 := by omega
  generalize ops₀.foldl (fun t op => (Spec.step t op).1) [] = T at habs ⊢
  have hmv : Spec.move T k s = T := by
    unfold Spec.move
    conv => rhs; rw [← List.map_id T]
    apply List.map_congr_left
    intro x hx
    have : ¬ x.key = k := fun h => habs (List.mem_map.mpr ⟨x, hx, h⟩)
    simp [this]
  constructor
  · rw [e0, Spec.getD_append_len]
    simp only [Spec.run, List.getD_cons_zero, Spec.step]
    split
    · exact Spec.filter_key_absent _ k habs
    · rfl
  · rw [e1, Spec.drop_append_len]
    conv => rhs; rw [e0, Spec.drop_append_len]
    simp only [Spec.run, List.drop_succ_cons, List.drop_zero, Spec.step]
    split
    · rfl
    · rw [hmv]

/-! ### Drain -/

/-- **Drain, for every reachable state of the wheel**: the callback is handed exactly the pending timers
(each key once, with its latest value), the wheel holds no entry afterwards, and nothing fires until a
timer is set again. -/
theorem drain_delivers_all_once_and_empties (n : Nat) (hn : 0 < n) (ops₀ ops : List Op)
    (hns : ∀ op ∈ ops, isSet op = false) :
    let pending := ops₀.foldl (fun t op => (Spec.step t op).1) []
    let tw := ops₀.foldl (fun tw op => (step tw op).1) (TW.init n)
    (step tw .drain).2 = pending.map (fun x => (x.key, x.value))
    ∧ ((step tw .drain).2.map (·.1)).Nodup
    ∧ (step tw .drain).1.entries = []
    ∧ ∀ out ∈ (run (TW.init n) (ops₀ ++ .drain :: ops)).drop (ops₀.length + 1), out = [] := by
  intro pending tw
  have hr := reachable_abs n hn ops₀
  have hs := step_refines tw hr.1 .drain
  have hab : abs tw = pending := hr.2
  refine ⟨?_, ?_, rfl, ?_⟩
  · rw [hs.2.2, hab]; rfl
  · rw [hs.2.2, hab]
    have : ((Spec.step pending .drain).2.map (·.1)) = Spec.keys pending := by
      simp [Spec.step, Spec.drain, Spec.keys, List.map_map, Function.comp_def]
    rw [this]
    exact Spec.reachable_keys_nodup ops₀
  · rw [tw_refines_timer_table n hn, Spec.run_append]
    have hl : (Spec.run [] ops₀).length = ops₀.length := Spec.run_length _ _
    have e1 : ops₀.length + 1 = (Spec.run [] ops₀).length + 1 := by omega
    rw [e1, Spec.drop_append_len]
    simp only [Spec.run, List.drop_succ_cons, List.drop_zero, Spec.step, Spec.drain]
    exact Spec.empty_silent ops hns

/-- **every reachable wheel holds at most one live entry per key** (what lets the code address a timer
through the `timers` map: key ↦ the one entry of that key). -/
theorem reachable_wheel_keys_nodup (n : Nat) (hn : 0 < n) (ops : List Op) :
    ((ops.foldl (fun tw op => (step tw op).1) (TW.init n)).entries.map (·.key)).Nodup := by
  have hr := reachable_abs n hn ops
  have hk := Spec.reachable_keys_nodup ops
  rw [← hr.2] at hk
  simpa [Spec.KeysNodup, Spec.keys, abs, absEntry, List.map_map, Function.comp_def] using hk

/-! ### Non-vacuity -/

/-- a concrete API history with every kind of result: bad delay, nil key, a timer firing, Stop, a call and
a tick after Stop, Stop twice. -/
example : (Api.init 7 10).run
      [.setTimer (some 1) 5 0, .setTimer none 5 14, .setTimer (some 1) 5 14, .tick, .tick, .stop,
       .setTimer (some 1) 5 14, .moveTimer none 14, .drain, .tick, .stop]
    = [(.errArgument, []), (.errArgument, []), (.ok, []), (.unit, []), (.unit, [(1, 5)]), (.unit, []),
       (.errClosed, []), (.errArgument, []), (.errClosed, []), (.unit, []), (.panic, [])] := by decide

/-- the hypothesis of `api_valid_calls_are_wheel_ops` is satisfiable. -/
example : ∀ c ∈ [Call.setTimer (some 1) 5 14, .tick, .moveTimer (some 1) 3, .removeTimer (some 2), .drain],
    validCall c = true := by decide

/-- delay 3 < interval 7: SetTimer fires at the next tick; MoveTimer runs the task now and it fires again. -/
example : (Api.init 7 10).run
      [.setTimer (some 1) 5 3, .tick, .setTimer (some 2) 6 21, .moveTimer (some 2) 3, .tick, .tick, .tick]
    = [(.ok, []), (.unit, [(1, 5)]), (.ok, []), (.ok, [(2, 6)]), (.unit, []), (.unit, []), (.unit, [(2, 6)])] := by
  decide

/-- the pending hypothesis of `move_below_interval_runs_now_and_keeps_timer` is satisfiable. -/
example : (⟨2, 6, 3⟩ : Spec.Timer) ∈ [Op.set 2 6 3].foldl (fun t op => (Spec.step t op).1) [] := by decide

/-- Drain on a wheel with a wrapped, lazily moved timer and a second key. -/
example : (run (TW.init 10) (List.replicate 6 .tick ++ [.set 1 7 8, .move 1 12, .set 2 9 3, .drain, .tick, .move 1 4, .tick])).drop 9
    = [[(1, 7), (2, 9)], [], [], []] := by decide

end GoZero.C12
