/-
C12 — round 5: (1) what is handed to the callbacks when callbacks stay inside the callback over later ticks
(`scanAndRunTasks` → `runTasks`, Deliver.lean); (2) core/collection/cache.go with `WithLimit` as a client of the
wheel: for EVERY configuration (limit absent / ≤ 0 / positive, any LRU state, any data) the requests of
SetWithExpire / Set / Take / Del reach the wheel in program order and end with the request that decides the key.
-/
import GoZero.C12.ProofsSchedW
import GoZero.C12.Props
namespace GoZero.C12

/-! ### (1) one goroutine per tick, each walking a slice of its own -/

/-- At ANY moment of ANY interleaving of ticks and callback goroutines, no pair was handed to a callback more often
than the ticks found it due (no double delivery, nothing that was not due). -/
theorem deliver_fresh_never_more (evs : List DEv) (p : Pair) :
    ((Dl.run {} evs).out).count p ≤ ((batches evs).flatten).count p := by
  have := batches_count p evs {}
  simp only [List.count_nil, List.flatten_nil, Nat.zero_add] at this
  omega

/-- [exactly once] when every goroutine has walked its slice, each pair was handed to a callback exactly as often as
the ticks found it due — whatever the interleaving (callbacks blocked over any number of later ticks). -/
theorem deliver_fresh_exactly_once (evs : List DEv) (p : Pair) (hfin : (Dl.run {} evs).finished = true) :
    ((Dl.run {} evs).out).count p = ((batches evs).flatten).count p := by
  have := batches_count p evs {}
  rw [finished_flatten _ hfin] at this
  simp only [List.count_nil, List.flatten_nil, Nat.zero_add, Nat.add_zero] at this
  exact this

example : (Dl.run {} [.spawn [(2, 769), (0, 460)], .run 0, .spawn [(53, 240), (55, 885)], .run 1, .run 1, .run 0]).out
    = [(2, 769), (53, 240), (55, 885), (0, 460)] := by decide

/-- witness of seeded change C12-8 (a buffer kept on the wheel and reused by every tick): the callback of the first
due task of tick 1 blocks, tick 2 finds two tasks due and overwrites the buffer, the goroutine of tick 1 goes on:
`0:460` is never delivered and `55:885` is delivered twice (the replay the harness finds, mode=sched `hold`). -/
theorem deliver_shared_buffer_loses_and_duplicates :
    (DlShared.run {} [.spawn [(2, 769), (0, 460)], .run 0, .spawn [(53, 240), (55, 885)], .run 1, .run 1, .run 0]).out
      = [(2, 769), (53, 240), (55, 885), (55, 885)] := by decide

/-! ### (1b) callbacks that panic or call runtime.Goexit; where the recovery sits -/

/-- [for every recover scope, every behaviour of the callbacks, every interleaving]  when all goroutines are done,
what was handed to callbacks is, batch by batch, that batch's own prefix up to its first fatal task: what a
callback does can only affect LATER tasks of ITS OWN tick, never another tick (earlier, later, or concurrent). -/
theorem deliver_each_batch_on_its_own (sc : Scope) (oc : Pair → Outcome) (evs : List DEv) (p : Pair)
    (hfin : (Dl.runO sc oc {} evs).finished = true) :
    ((Dl.runO sc oc {} evs).out).count p
      = (((batches evs).map (deliveredOf fun q => survives sc (oc q))).flatten).count p := by
  have := runO_count sc oc p evs {}
  rw [finished_map_flatten _ rfl _ hfin] at this
  simp only [List.count_nil, List.map_nil, List.flatten_nil, Nat.zero_add, Nat.add_zero] at this
  exact this

/-- [per-task recovery, the code that exists]  callbacks that PANIC (with an error value or anything else) affect
the delivery of no other timer, in their tick or any other: every due pair is handed to a callback exactly once. -/
theorem panicking_callback_affects_no_other_timer (oc : Pair → Outcome) (hno : ∀ q, oc q ≠ .goexit)
    (evs : List DEv) (p : Pair) (hfin : (Dl.runO .perTask oc {} evs).finished = true) :
    ((Dl.runO .perTask oc {} evs).out).count p = ((batches evs).flatten).count p := by
  rw [deliver_each_batch_on_its_own .perTask oc evs p hfin]
  have hk : ∀ q, survives .perTask (oc q) = true := by
    intro q; cases h : oc q <;> simp [survives]; exact hno q h
  have : (batches evs).map (deliveredOf fun q => survives .perTask (oc q)) = batches evs := by
    rw [List.map_congr_left (fun b _ => deliveredOf_all _ hk b)]; simp
  rw [this]

/-- [Goexit, modelled as the code behaves]  a tick none of whose callbacks calls Goexit is delivered completely,
whatever the callbacks of other ticks do (panic, Goexit, block). -/
theorem goexit_affects_no_other_tick (oc : Pair → Outcome) (b : List Pair) (hb : ∀ x ∈ b, oc x ≠ .goexit) :
    deliveredOf (fun q => survives .perTask (oc q)) b = b := by
  apply deliveredOf_all_mem
  intro x hx
  cases h : oc x <;> simp [survives]
  exact hb x hx h

/-- witness (the real code, mode=sched `boom 2 goexit`): keys 1, 2, 3 due at one tick, the callback of key 2 calls
Goexit: 3:30 is never delivered; key 4, due at the next tick, is. -/
theorem goexit_loses_the_rest_of_its_tick :
    (Dl.runO .perTask (fun p => if p.1 = 2 then .goexit else .ret) {}
      [.spawn [(1, 10), (2, 20), (3, 30)], .run 0, .run 0, .run 0, .spawn [(4, 40)], .run 1, .run 0]).out
      = [(1, 10), (2, 20), (4, 40)] := by decide

/-- witness of seeded change C12-9 (one GoSafe around the loop instead of RunSafe per task): a PANIC then loses
the rest of the tick as well. -/
theorem recover_around_the_loop_loses_the_rest_on_panic :
    (Dl.runO .aroundLoop (fun p => if p.1 = 2 then .panic else .ret) {}
      [.spawn [(1, 10), (2, 20), (3, 30)], .run 0, .run 0, .run 0]).out = [(1, 10), (2, 20)]
    ∧ (Dl.runO .perTask (fun p => if p.1 = 2 then .panic else .ret) {}
      [.spawn [(1, 10), (2, 20), (3, 30)], .run 0, .run 0, .run 0]).out = [(1, 10), (2, 20), (3, 30)] := by decide

/-- [wheel + delivery composed: every wheel size, every history, every interleaving of ticks and callback goroutines,
callbacks that return or panic]  if the batches handed to runTasks are what the wheel's operations produce, then,
once the callback goroutines are done, every pair has reached a callback exactly as often as the TIMER TABLE says it
was due (at its floor(d/interval)-th tick, with the most recently set value), and never more often at any moment. -/
theorem every_due_pair_reaches_a_callback_exactly_once (n : Nat) (hn : 0 < n) (ops : List Op) (oc : Pair → Outcome)
    (hno : ∀ q, oc q ≠ .goexit) (evs : List DEv) (hb : batches evs = run (TW.init n) ops) (p : Pair) :
    (((Dl.runO .perTask oc {} evs).finished = true →
        ((Dl.runO .perTask oc {} evs).out).count p = ((Spec.run [] ops).flatten).count p))
    ∧ ((Dl.run {} evs).out).count p ≤ ((Spec.run [] ops).flatten).count p := by
  rw [← tw_refines_timer_table n hn ops, ← hb]
  exact ⟨fun hfin => panicking_callback_affects_no_other_timer oc hno evs p hfin, deliver_fresh_never_more evs p⟩

example : batches [.spawn [], .spawn [(1, 7)], .run 1] = run (TW.init 3) [.set 1 7 1, .tick] := by decide

/-! ### (2) the Cache with `WithLimit` -/

/-- `WithLimit(limit)` configures an LRU list exactly for `limit > 0`; 0 and negative limits are no limit. -/
theorem cache_withLimit_config (limit expire : Int) :
    ((CacheL.init limit expire).limit = 0 ↔ limit ≤ 0) ∧ (0 < limit → ((CacheL.init limit expire).limit : Int) = limit) := by
  unfold CacheL.init
  constructor
  · split <;> simp <;> omega
  · intro h; simp [h]; omega

/-- SetWithExpire issues, in this order: at most one RemoveTimer, for ANOTHER key (the evicted one), then the
SetTimer of its own key with the value and the expiry it was given — for every cache state and limit. -/
theorem cache_set_requests (c : CacheL) (k v : Nat) (e : Int) :
    (c.setWithExpire k v e).2 = [.setTimer (some k) v e]
    ∨ ∃ old, old ≠ k ∧ (c.setWithExpire k v e).2 = [.removeTimer (some old), .setTimer (some k) v e] := by
  unfold CacheL.setWithExpire
  rcases lruAdd_calls { c with data := upsert c.data k v } k with h | ⟨old, hne, h⟩
  · left; simp [h]
  · right; exact ⟨old, hne, by simp [h]⟩

/-- [clause 1 through the Cache, every configuration] after SetWithExpire / Set / a fetching Take with an expiry
> 0 on a running wheel the key is pending with the stored value, due floor(e/interval) ticks ahead (1 when the
expiry is below one interval) — whatever was evicted on the way.  With `api_refines_timer_table` and
`api_setTimer_fires_exactly_at_due` the wheel fires it at exactly that tick. -/
theorem cache_set_arms_timer (c : CacheL) (a : Spec.Api) (k v : Nat) (e : Int)
    (hrun : a.stopped = false) (he : 0 < e) :
    (⟨k, v, if stepsOf a.interval e = 0 then 1 else stepsOf a.interval e⟩ : Spec.Timer)
      ∈ (ApiG.issue Spec.step 0 a (c.setWithExpire k v e).2).1.inner := by
  rcases cache_set_requests c k v e with h | ⟨old, _, h⟩
  · rw [h]; exact issue_set_last a k v e [] 0 (by simp) hrun he
  · rw [h]; exact issue_set_last a k v e [.removeTimer (some old)] 0 (by simp) hrun he

example : (⟨1, 7, 2⟩ : Spec.Timer) ∈
    (ApiG.issue Spec.step 0 (Spec.Api.init 1000000000)
      (({ limit := 1, expire := 5, data := [(0, 3)], lru := [0] } : CacheL).setWithExpire 1 7 2000000000).2).1.inner := by
  decide

/-- every outcome kind of Take's fetch: a value is stored with `Set` (the cache's own expire); an error (typed nil
included), a panic or Goexit stores nothing and issues no request; a hit only touches the LRU order. -/
theorem cache_take_outcomes (c : CacheL) (k v : Nat) :
    (c.lookup k = none → (c.take k v .ok = ((c.set k v).1, (c.set k v).2, some v))
      ∧ c.take k v .err = (c, [], none) ∧ c.take k v .noReturn = (c, [], none))
    ∧ (∀ f w, c.lookup k = some w → c.take k v f = c.doGet k) := by
  constructor
  · intro h; simp [CacheL.take, h]
  · intro f w h; simp [CacheL.take, h]

/-- [clause 3 through the Cache] after Del on a running wheel no timer is pending for the key (one RemoveTimer, or
two when the key was listed in the LRU list: `onEvict` issues the first). -/
theorem cache_del_removes_timer (c : CacheL) (a : Spec.Api) (k : Nat) (hrun : a.stopped = false) :
    Spec.hasKey (ApiG.issue Spec.step 0 a (c.del k).2).1.inner k = false := by
  unfold CacheL.del CacheL.lruRemove CacheL.onEvict
  split <;> simp [ApiG.issue, ApiG.step, ApiG.submit, hrun, Spec.step, spec_remove_not_hasKey]

/-- why the ORDER of the requests is part of the property (witness of seeded change C12-7, `go RemoveTimer` in
onEvict): the removal of an evicted key followed by a new Set of that key leaves the timer pending in program
order, and leaves NO timer when the removal reaches the wheel after the SetTimer. -/
theorem requests_out_of_program_order_lose_the_timer (t : Spec.Table) (k v s : Nat) :
    Spec.hasKey (Spec.set (Spec.remove t k) k v s) k = true
    ∧ Spec.hasKey (Spec.remove (Spec.set t k v s) k) k = false :=
  ⟨spec_set_hasKey _ _ _ _, spec_remove_not_hasKey _ _⟩

example : Spec.hasKey (Spec.remove (Spec.set [⟨3, 1, 4⟩] 3 9 2) 3) 3 = false := by decide

/-! ### end to end: every configuration, every history of client operations -/

/-- [every entry expires, no timer without an entry — for EVERY limit (absent, ≤ 0, positive), every positive
expire, every wheel interval and every sequence of SetWithExpire / Set / Del / Get / Take (every outcome of fetch) /
tick, the expiry callbacks (Del from inside the execute callback) included]  the keys in `data` are exactly the keys
with a pending timer, and the wheel is never stopped.  (An expiry ≤ 0 is rejected by SetTimer and the error is
dropped: that entry never expires — modelled as the code behaves and excluded here by `hpos` / `hexp`.) -/
theorem cache_entry_iff_pending_timer (limit expire : Int) (interval : Nat) (hexp : 0 < expire) (ops : List COp)
    (hpos : ∀ k v e, COp.set k v e ∈ ops → 0 < e) :
    (ops.foldl cacheStep (Spec.Api.init interval, CacheL.init limit expire)).1.stopped = false
    ∧ ∀ j, j ∈ (ops.foldl cacheStep (Spec.Api.init interval, CacheL.init limit expire)).2.data.map (·.1)
        ↔ Spec.hasKey (ops.foldl cacheStep (Spec.Api.init interval, CacheL.init limit expire)).1.inner j = true := by
  have h0 : CInv expire (Spec.Api.init interval, CacheL.init limit expire) := by
    refine ⟨rfl, rfl, ?_⟩
    intro j; simp [keysOf, CacheL.init, Spec.hasKey, Spec.Api.init]
  obtain ⟨h1, _, h3⟩ := cacheRun_inv expire hexp ops _ hpos h0
  exact ⟨h1, h3⟩

/-- limit 1: the second Set evicts key 0 (its timer goes with it), the tick after two seconds expires key 1. -/
example : ((([.put 0 5, .put 1 6, .get 0, .tick] : List COp).foldl cacheStep
      (Spec.Api.init 1000000000, CacheL.init 1 2000000000)).2.data,
    (([.put 0 5, .put 1 6, .get 0, .tick] : List COp).foldl cacheStep
      (Spec.Api.init 1000000000, CacheL.init 1 2000000000)).1.inner,
    (([.put 0 5, .put 1 6, .tick, .tick] : List COp).foldl cacheStep
      (Spec.Api.init 1000000000, CacheL.init 1 2000000000)).2.data)
    = ([(1, 6)], [⟨1, 6, 1⟩], []) := by decide

/-- [the same, on the WHEEL: every wheel size, every limit, every history]  the keys in the cache's `data` are
exactly the keys with a live entry in the wheel, and what the cache over the wheel does is what the cache over the
timer table does (same data, same LRU order after every operation). -/
theorem cache_entry_iff_live_timer_on_the_wheel (n : Nat) (hn : 0 < n) (limit expire : Int) (interval : Nat)
    (hexp : 0 < expire) (ops : List COp) (hpos : ∀ k v e, COp.set k v e ∈ ops → 0 < e) :
    (ops.foldl cacheStepW (Api.init interval n, CacheL.init limit expire)).1.stopped = false
    ∧ (∀ j, j ∈ (ops.foldl cacheStepW (Api.init interval n, CacheL.init limit expire)).2.data.map (·.1)
        ↔ hasKey (ops.foldl cacheStepW (Api.init interval n, CacheL.init limit expire)).1.inner j = true)
    ∧ (ops.foldl cacheStepW (Api.init interval n, CacheL.init limit expire)).2
        = (ops.foldl cacheStep (Spec.Api.init interval, CacheL.init limit expire)).2 := by
  have hr := cacheRunW_refines ops (Api.init interval n, CacheL.init limit expire) (init_wf n hn)
  have h0 : absApi (Api.init interval n) = Spec.Api.init interval := by
    simp [absApi, Api.init, Spec.Api.init, abs, TW.init]
  rw [h0] at hr
  have hs := cache_entry_iff_pending_timer limit expire interval hexp ops hpos
  have e1 := congrArg Prod.fst hr.2
  have e2 := congrArg Prod.snd hr.2
  simp only at e1 e2
  refine ⟨?_, ?_, e2⟩
  · have := hs.1; rw [← e1] at this; exact this
  · intro j
    have := hs.2 j
    rw [← e1, ← e2] at this
    simp only [absApi, hasKey_abs] at this
    exact this


example : ((([.put 0 5, .put 1 6, .get 0, .tick] : List COp).foldl cacheStepW
      (Api.init 1000000000 300, CacheL.init 1 2000000000)).2.data,
    (([.put 0 5, .put 1 6, .get 0, .tick] : List COp).foldl cacheStepW
      (Api.init 1000000000 300, CacheL.init 1 2000000000)).1.inner.entries.map (·.key))
    = ([(1, 6)], [1]) := by decide

end GoZero.C12
