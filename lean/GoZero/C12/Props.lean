/-
C12 — property theorems (nothing but statements, their short proofs from the lemmas, and
non-vacuity examples).  Helper lemmas live in Proofs.lean / Refine.lean / SpecFacts.lean.
-/
import GoZero.C12.Refine
namespace GoZero.C12

/-- **C12, main theorem.**  For every wheel size `n ≥ 1` and every sequence of
set / move / remove / tick / drain operations (delays given as `steps = ⌊d/interval⌋`, shorter or longer
than a revolution, issued at any wheel position), the (key,value) pairs the wheel hands to the execute
callback at every operation are exactly those of the timer table `Spec`. -/
theorem tw_refines_timer_table (n : Nat) (hn : 0 < n) (ops : List Op) :
    run (TW.init n) ops = Spec.run [] ops := by
  have := run_refines (TW.init n) (init_wf n hn) ops
  simpa [abs, TW.init] using this

/-- every reachable wheel state is well formed and represents the spec's table (invariant form). -/
theorem reachable_abs (n : Nat) (hn : 0 < n) (ops : List Op) :
    WF (ops.foldl (fun tw op => (step tw op).1) (TW.init n))
    ∧ abs (ops.foldl (fun tw op => (step tw op).1) (TW.init n))
        = ops.foldl (fun t op => (Spec.step t op).1) [] := by
  have key : ∀ (tw : TW), WF tw →
      WF (ops.foldl (fun tw op => (step tw op).1) tw)
      ∧ abs (ops.foldl (fun tw op => (step tw op).1) tw)
          = ops.foldl (fun t op => (Spec.step t op).1) (abs tw) := by
    induction ops with
    | nil => intro tw h; exact ⟨h, rfl⟩
    | cons op ops ih =>
      intro tw h
      have hs := step_refines tw h op
      simp only [List.foldl_cons]
      have := ih (step tw op).1 hs.1
      rw [hs.2.1] at this
      exact this
  have := key (TW.init n) (init_wf n hn)
  simpa [abs, TW.init] using this

/-! ### The defect of the pinned commit (kept as machine-checked witnesses)

`moveTask` compared absolute slot indices.  Both witnesses were replayed on the real code
(known_findings.json: C12/move-wrapped-slot, status fixed). -/

/-- n = 10, six ticks (tickedPos = 5), timer set 8 ticks ahead (slot 3, behind tickedPos), moved to
2 ticks: the old code fires it at tick 12 instead of tick 2. -/
theorem buggy_move_late :
    runWith moveCaseBuggy (TW.init 10)
      (List.replicate 6 .tick ++ [.set 1 7 8, .move 1 2] ++ List.replicate 12 .tick)
    ≠ Spec.run [] (List.replicate 6 .tick ++ [.set 1 7 8, .move 1 2] ++ List.replicate 12 .tick) := by
  decide

/-- n = 10, tickedPos = 5, timer set 3 ticks ahead (slot 8), moved to 17 ticks: fires after 7. -/
theorem buggy_move_early :
    runWith moveCaseBuggy (TW.init 10)
      (List.replicate 6 .tick ++ [.set 1 7 3, .move 1 17] ++ List.replicate 17 .tick)
    ≠ Spec.run [] (List.replicate 6 .tick ++ [.set 1 7 3, .move 1 17] ++ List.replicate 17 .tick) := by
  decide

/-! ### Non-vacuity -/

/-- a reachable, well-formed wheel whose timer's slot has wrapped behind `tickedPos` and carries a
pending lazy move (circle and diff both non-zero). -/
example : WF { n := 10, tickedPos := 5, entries := [{ key := 1, value := 7, slot := 3, circle := 1, diff := 4 }] } :=
  ⟨by decide, by decide, by simp⟩

example : (run (TW.init 10) (List.replicate 6 .tick ++ [.set 1 7 8, .move 1 2, .tick, .tick])).getLast? = some [(1, 7)] := by
  decide

end GoZero.C12
