/-
C12 — property theorems (nothing but statements, their short proofs from the lemmas, and
non-vacuity examples).  Helper lemmas live in Proofs.lean / Refine.lean / SpecFacts.lean.
-/
import GoZero.C12.Refine
import GoZero.C12.SpecFacts
namespace GoZero.C12

/-- **C12, main theorem.**  For every wheel size `n ≥ 1` and every sequence of
set / move / remove / tick / drain operations (delays given as `steps = ⌊d/interval⌋`, shorter or longer
than a revolution, issued at any wheel position), the (key,value) pairs the wheel hands to the execute
callback at every operation are exactly those of the timer table `Spec`. -/
theorem tw_refines_timer_table (n : Nat) (hn : 0 < n) (ops : List Op) :
    run (TW.init n) ops = Spec.run [] ops := by
  have := run_refines (TW.init n) (init_wf n hn) ops
  simpa [abs, TW.init] using this

/-- every reachable wheel state is well formed and represents the spec's table (invariant form). -/
theorem reachable_abs (n : Nat) (hn : 0 < n) (ops : List Op) :
    WF (ops.foldl (fun tw op => (step tw op).1) (TW.init n))
    ∧ abs (ops.foldl (fun tw op => (step tw op).1) (TW.init n))
        = ops.foldl (fun t op => (Spec.step t op).1) [] := by
  have key : ∀ (tw : TW), WF tw →
      WF (ops.foldl (fun tw op => (step tw op).1) tw)
      ∧ abs (ops.foldl (fun tw op => (step tw op).1) tw)
          = ops.foldl (fun t op => (Spec.step t op).1) (abs tw) := by
    induction ops with
    | nil => intro tw h; exact ⟨h, rfl⟩
    | cons op ops ih =>
      intro tw h
      have hs := step_refines tw h op
      simp only [List.foldl_cons]
      have := ih (step tw op).1 hs.1
      rw [hs.2.1] at this
      exact this
  have := key (TW.init n) (init_wf n hn)
  simpa [abs, TW.init] using this

/-! ### The property in its own words, for the wheel itself

`ops₀` is an arbitrary history (any sets, moves, removes, ticks, drains; the wheel position may have
wrapped any number of times); then the timer is set / moved; `ops` are the following operations, none of
which sets, moves or removes `k` (and no drain). -/

/-- **Set timers fire exactly once, at the ⌊d/interval⌋-th following tick, with the set value.** -/
theorem set_fires_exactly_at_due (n : Nat) (hn : 0 < n) (ops₀ ops : List Op) (k v s : Nat) (hs : 1 ≤ s)
    (hun : ∀ op ∈ ops, Spec.touches k op = false) (i v' : Nat) :
    (k, v') ∈ (run (TW.init n) (ops₀ ++ .set k v s :: ops)).getD (ops₀.length + 1 + i) [] ↔
      (v' = v ∧ i < ops.length ∧ Spec.isTick (ops.getD i .drain) = true ∧ Spec.ticksIn (ops.take (i + 1)) = s) := by
  rw [tw_refines_timer_table n hn, Spec.run_append]
  have hl : (Spec.run [] ops₀).length = ops₀.length := Spec.run_length _ _
  have e : ops₀.length + 1 + i = (Spec.run [] ops₀).length + (i + 1) := by omega
  rw [e, Spec.getD_append_len]
  simp only [Spec.run, List.getD_cons_succ]
  have hnd := Spec.step_keys_nodup _ (Spec.reachable_keys_nodup ops₀) (.set k v s)
  have hm : (⟨k, v, s⟩ : Spec.Timer) ∈ (Spec.step (ops₀.foldl (fun t op => (Spec.step t op).1) []) (.set k v s)).1 := by
    simp only [Spec.step]
    have : (if s = 0 then 1 else s) = s := by split <;> omega
    rw [this]
    exact Spec.set_pending _ k v s
  exact Spec.pending_fires_exactly_at_due _ hnd k v s hm hs ops hun i v'

/-- **Moved timers fire exactly once, at the ⌊d/interval⌋-th tick after the move, with their latest
value** (`hpend`: the key was pending with value `v` when it was moved). -/
theorem move_fires_exactly_at_due (n : Nat) (hn : 0 < n) (ops₀ ops : List Op) (k v s0 s : Nat) (hs : 1 ≤ s)
    (hpend : (⟨k, v, s0⟩ : Spec.Timer) ∈ ops₀.foldl (fun t op => (Spec.step t op).1) [])
    (hun : ∀ op ∈ ops, Spec.touches k op = false) (i v' : Nat) :
    (k, v') ∈ (run (TW.init n) (ops₀ ++ .move k s :: ops)).getD (ops₀.length + 1 + i) [] ↔
      (v' = v ∧ i < ops.length ∧ Spec.isTick (ops.getD i .drain) = true ∧ Spec.ticksIn (ops.take (i + 1)) = s) := by
  rw [tw_refines_timer_table n hn, Spec.run_append]
  have hl : (Spec.run [] ops₀).length = ops₀.length := Spec.run_length _ _
  have e : ops₀.length + 1 + i = (Spec.run [] ops₀).length + (i + 1) := by omega
  rw [e, Spec.getD_append_len]
  simp only [Spec.run, List.getD_cons_succ]
  have hnd := Spec.step_keys_nodup _ (Spec.reachable_keys_nodup ops₀) (.move k s)
  have hm : (⟨k, v, s⟩ : Spec.Timer) ∈ (Spec.step (ops₀.foldl (fun t op => (Spec.step t op).1) []) (.move k s)).1 := by
    simp only [Spec.step]
    have : ¬ s = 0 := by omega
    simp only [this, if_false]
    exact Spec.move_pending _ k v s0 s hpend
  exact Spec.pending_fires_exactly_at_due _ hnd k v s hm hs ops hun i v'

/-- **A removed timer never fires** (until the key is set again). -/
theorem removed_never_fires (n : Nat) (hn : 0 < n) (ops₀ ops : List Op) (k : Nat)
    (hun : ∀ op ∈ ops, Spec.touches k op = false) (i v' : Nat) :
    (k, v') ∉ (run (TW.init n) (ops₀ ++ .remove k :: ops)).getD (ops₀.length + 1 + i) [] := by
  rw [tw_refines_timer_table n hn, Spec.run_append]
  have hl : (Spec.run [] ops₀).length = ops₀.length := Spec.run_length _ _
  have e : ops₀.length + 1 + i = (Spec.run [] ops₀).length + (i + 1) := by omega
  rw [e, Spec.getD_append_len]
  simp only [Spec.run, List.getD_cons_succ]
  have hab : k ∉ Spec.keys (Spec.step (ops₀.foldl (fun t op => (Spec.step t op).1) []) (.remove k)).1 :=
    Spec.remove_absent _ k
  intro h
  rcases Spec.getD_mem_or_nil (Spec.run _ ops) i with hmem | hnil
  · exact Spec.absent_never_fires _ k hab ops hun _ hmem v' h
  · rw [hnil] at h; cases h

/-- **Drain delivers each pending timer exactly once** (and nothing stays pending): the callback gets
exactly the pending table, whose keys are pairwise distinct. -/
theorem drain_each_once (n : Nat) (hn : 0 < n) (ops₀ : List Op) :
    let pending := ops₀.foldl (fun t op => (Spec.step t op).1) []
    (run (TW.init n) (ops₀ ++ [Op.drain])).getD ops₀.length [] = pending.map (fun x => (x.key, x.value))
    ∧ (pending.map (·.key)).Nodup
    ∧ (ops₀ ++ [Op.drain]).foldl (fun t op => (Spec.step t op).1) [] = [] := by
  intro pending
  rw [tw_refines_timer_table n hn, Spec.run_append]
  have hl : (Spec.run [] ops₀).length = ops₀.length := Spec.run_length _ _
  have e : ops₀.length = (Spec.run [] ops₀).length + 0 := by omega
  rw [e, Spec.getD_append_len]
  refine ⟨by simp [Spec.run, Spec.step, Spec.drain, pending], Spec.reachable_keys_nodup ops₀, ?_⟩
  simp [List.foldl_append, Spec.step, Spec.drain]

/-! ### The defect of the pinned commit (kept as machine-checked witnesses)

`moveTask` compared absolute slot indices.  Both witnesses were replayed on the real code
(known_findings.json: C12/move-wrapped-slot, status fixed). -/

/-- n = 10, six ticks (tickedPos = 5), timer set 8 ticks ahead (slot 3, behind tickedPos), moved to
2 ticks: the old code fires it at tick 12 instead of tick 2. -/
theorem buggy_move_late :
    runWith moveCaseBuggy (TW.init 10)
      (List.replicate 6 .tick ++ [.set 1 7 8, .move 1 2] ++ List.replicate 12 .tick)
    ≠ Spec.run [] (List.replicate 6 .tick ++ [.set 1 7 8, .move 1 2] ++ List.replicate 12 .tick) := by
  decide

/-- n = 10, tickedPos = 5, timer set 3 ticks ahead (slot 8), moved to 17 ticks: fires after 7. -/
theorem buggy_move_early :
    runWith moveCaseBuggy (TW.init 10)
      (List.replicate 6 .tick ++ [.set 1 7 3, .move 1 17] ++ List.replicate 17 .tick)
    ≠ Spec.run [] (List.replicate 6 .tick ++ [.set 1 7 3, .move 1 17] ++ List.replicate 17 .tick) := by
  decide

/-! ### Non-vacuity -/

/-- a reachable, well-formed wheel whose timer's slot has wrapped behind `tickedPos` and carries a
pending lazy move (circle and diff both non-zero). -/
example : WF { n := 10, tickedPos := 5, entries := [{ key := 1, value := 7, slot := 3, circle := 1, diff := 4 }] } :=
  ⟨by decide, by decide, by simp⟩

example : (run (TW.init 10) (List.replicate 6 .tick ++ [.set 1 7 8, .move 1 2, .tick, .tick])).getLast? = some [(1, 7)] := by
  decide

/-- the hypotheses of `set_fires_exactly_at_due` are met by a concrete wrapped-position history, and its
right-hand side is true there (i = 7 is the 8th tick after the set). -/
example : (1, 7) ∈ (run (TW.init 10) (List.replicate 6 .tick ++ .set 1 7 8 :: List.replicate 8 .tick)).getD (6 + 1 + 7) [] := by
  decide

example : ∀ op ∈ List.replicate 8 Op.tick, Spec.touches 1 op = false := by decide

/-- `move_fires_exactly_at_due`'s pending hypothesis is satisfiable. -/
example : (⟨1, 7, 8⟩ : Spec.Timer) ∈ (List.replicate 6 Op.tick ++ [Op.set 1 7 8]).foldl (fun t op => (Spec.step t op).1) [] := by
  decide

end GoZero.C12
