/-
C12 — helper lemmas for the refinement wheel ⊑ timer table.
-/
import GoZero.C12.Spec
namespace GoZero.C12

/-- ticks until `slot` is next scanned, written without `%` so that `omega` applies. -/
def r (n p q : Nat) : Nat := if p < q then q - p else q + n - p

theorem off_eq (n p q : Nat) (hp : p < n) (hq : q < n) : off n p q + 1 = r n p q := by
  unfold off r
  split
  · have : q + n - p - 1 = (q - p - 1) + n := by omega
    rw [this, Nat.add_mod_right, Nat.mod_eq_of_lt (by omega)]; omega
  · rw [Nat.mod_eq_of_lt (by omega)]; omega

theorem off_lt (n p q : Nat) (hn : 0 < n) : off n p q < n := Nat.mod_lt _ hn

/-- the slot chosen by `getPositionAndCircle` is `(steps-1) % n` past the next-scanned slot. -/
theorem off_pos (n p s : Nat) (hp : p < n) (hs : 1 ≤ s) :
    off n p ((p + s) % n) = (s - 1) % n := by
  have hn : 0 < n := by omega
  obtain ⟨t, rfl⟩ : ∃ t, s = t + 1 := ⟨s - 1, by omega⟩
  simp only [Nat.add_sub_cancel]
  have h1 : t = n * (t / n) + t % n := (Nat.div_add_mod t n).symm
  have h2 : t % n < n := Nat.mod_lt _ hn
  generalize t / n = c at h1
  generalize t % n = o at h1 h2
  subst h1
  have h3 : (p + (n * c + o + 1)) % n = (p + o + 1) % n := by
    have : p + (n * c + o + 1) = (p + o + 1) + n * c := by omega
    rw [this, Nat.add_mul_mod_self_left]
  rw [h3]
  unfold off
  by_cases h : p + o + 1 < n
  · rw [Nat.mod_eq_of_lt h]
    have : p + o + 1 + n - p - 1 = o + n := by omega
    rw [this, Nat.add_mod_right, Nat.mod_eq_of_lt h2]
  · have h4 : (p + o + 1) % n = p + o + 1 - n := by
      rw [Nat.mod_eq_sub_mod (by omega), Nat.mod_eq_of_lt (by omega)]
    rw [h4]
    have : p + o + 1 - n + n - p - 1 = o := by omega
    rw [this, Nat.mod_eq_of_lt h2]

/-- ticks until the entry fires. -/
def remaining (n p : Nat) (e : Entry) : Nat := off n p e.slot + 1 + e.circle * n + e.diff

def absEntry (n p : Nat) (e : Entry) : Spec.Timer :=
  { key := e.key, value := e.value, rem := remaining n p e }

/-- abstraction map. -/
def abs (tw : TW) : Spec.Table := tw.entries.map (absEntry tw.n tw.tickedPos)

structure WF (tw : TW) : Prop where
  npos : 0 < tw.n
  tp   : tw.tickedPos < tw.n
  ent  : ∀ e ∈ tw.entries, e.slot < tw.n ∧ e.diff < tw.n

theorem divmod_steps (n s : Nat) (hs : 1 ≤ s) : (s - 1) % n + 1 + (s - 1) / n * n = s := by
  have := Nat.div_add_mod (s - 1) n
  rw [Nat.mul_comm] at this
  omega

/-- a fresh entry placed by `getPositionAndCircle` fires after exactly `steps` ticks. -/
theorem remaining_fresh (n p s k v : Nat) (hp : p < n) (hs : 1 ≤ s) :
    remaining n p { key := k, value := v, slot := (posCircle n p s).1, circle := (posCircle n p s).2, diff := 0 } = s := by
  simp only [remaining, posCircle, off_pos n p s hp hs, Nat.add_zero]
  exact divmod_steps n s hs

/-- `moveTask` (fixed) re-schedules the entry to fire after exactly `steps` ticks, and keeps it well formed. -/
theorem applyMove_spec (tw : TW) (h : WF tw) (e : Entry) (he : e.slot < tw.n) (s : Nat) (hs : 1 ≤ s) :
    remaining tw.n tw.tickedPos (applyMove moveCase tw e s) = s
    ∧ (applyMove moveCase tw e s).slot < tw.n ∧ (applyMove moveCase tw e s).diff < tw.n
    ∧ (applyMove moveCase tw e s).key = e.key ∧ (applyMove moveCase tw e s).value = e.value := by
  have hn := h.npos
  have hp := h.tp
  have hnew := off_pos tw.n tw.tickedPos s hp hs
  have hold : off tw.n tw.tickedPos e.slot < tw.n := off_lt _ _ _ hn
  have hdm := divmod_steps tw.n s hs
  have hmod : (s - 1) % tw.n < tw.n := Nat.mod_lt _ hn
  have hposlt : (tw.tickedPos + s) % tw.n < tw.n := Nat.mod_lt _ hn
  unfold applyMove moveCase
  simp only [posCircle, hnew]
  generalize hO : off tw.n tw.tickedPos e.slot = oldOff at *
  generalize hN : (s - 1) % tw.n = newOff at *
  generalize hC : (s - 1) / tw.n = c at *
  by_cases h1 : newOff ≥ oldOff
  · simp only [h1, if_true, remaining, hO]
    refine ⟨by omega, he, by omega, trivial, trivial⟩
  · by_cases h2 : c > 0
    · simp only [h1, h2, if_true, if_false, remaining, hO]
      obtain ⟨c', rfl⟩ : ∃ c', c = c' + 1 := ⟨c - 1, by omega⟩
      have : (c' + 1) * tw.n = c' * tw.n + tw.n := Nat.succ_mul _ _
      simp only [Nat.add_sub_cancel]
      refine ⟨by omega, he, by omega, trivial, trivial⟩
    · simp only [h1, h2, if_false, remaining, hnew]
      have : c = 0 := by omega
      subst this
      refine ⟨by omega, hposlt, hn, trivial, trivial⟩

theorem succ_mod (n p : Nat) (hp : p < n) : (p + 1) % n = if p + 1 < n then p + 1 else 0 := by
  split
  · rename_i h; exact Nat.mod_eq_of_lt h
  · have : p + 1 = n := by omega
    rw [this, Nat.mod_self]

/-- One tick seen by one live entry: it fires iff it had exactly one tick remaining; otherwise it
stays well formed with one tick less. -/
theorem scan_spec (n p : Nat) (hp : p < n) (e : Entry) (hs : e.slot < n) (hd : e.diff < n) :
    match scanEntry n ((p + 1) % n) e with
    | .fire => remaining n p e = 1
    | .stay e' => remaining n p e ≠ 1 ∧ remaining n ((p + 1) % n) e' + 1 = remaining n p e
        ∧ e'.key = e.key ∧ e'.value = e.value ∧ e'.slot < n ∧ e'.diff < n := by
  have hn : 0 < n := by omega
  have hp' : (p + 1) % n < n := Nat.mod_lt _ hn
  have h0 := off_eq n p e.slot hp hs
  have h1 := off_eq n ((p + 1) % n) e.slot hp' hs
  have hsm := succ_mod n p hp
  unfold scanEntry
  by_cases c1 : e.slot ≠ (p + 1) % n
  · rw [if_pos c1]
    simp only [remaining]
    unfold r at h0 h1
    generalize (p + 1) % n = p' at *
    and_intros <;> first | trivial | assumption | (split at hsm <;> split at h0 <;> split at h1 <;> omega)
  · have c1' : e.slot = (p + 1) % n := by omega
    by_cases c2 : e.circle > 0
    · rw [if_neg c1, if_pos c2]
      simp only [remaining]
      obtain ⟨c', hc'⟩ : ∃ c', e.circle = c' + 1 := ⟨e.circle - 1, by omega⟩
      have hm : (c' + 1) * n = c' * n + n := Nat.succ_mul _ _
      rw [hc'] at *
      simp only [Nat.add_sub_cancel]
      unfold r at h0 h1
      generalize (p + 1) % n = p' at *
      and_intros <;> first | trivial | assumption | (split at hsm <;> split at h0 <;> split at h1 <;> omega)
    · have c2' : e.circle = 0 := by omega
      by_cases c3 : e.diff > 0
      · rw [if_neg c1, if_neg c2, if_pos c3]
        simp only [remaining]
        have hop := off_pos n ((p + 1) % n) e.diff hp' (by omega)
        rw [Nat.mod_eq_of_lt (by omega : e.diff - 1 < n)] at hop
        rw [hop, c2']
        have hml := Nat.mod_lt ((p + 1) % n + e.diff) hn
        unfold r at h0
        generalize (p + 1) % n = p' at *
        and_intros <;> first | trivial | assumption | (split at hsm <;> split at h0 <;> omega)
      · rw [if_neg c1, if_neg c2, if_neg c3]
        simp only [remaining]
        rw [c2']
        unfold r at h0
        generalize (p + 1) % n = p' at *
        split at hsm <;> split at h0 <;> omega

end GoZero.C12
