/-
C12 — what the timer table `Spec` means, in the property's own words: a pending timer fires at
exactly the tick at which its remaining count runs out, once, with its latest value; a key that is
not pending never fires.
-/
import GoZero.C12.Spec
namespace GoZero.C12.Spec

/-- operations that concern key `k` (or everything: drain). -/
def touches (k : Nat) : Op → Bool
  | .set k' _ _ => k' = k
  | .move k' _ => k' = k
  | .remove k' => k' = k
  | .drain => true
  | .tick => false

def isTick : Op → Bool
  | .tick => true
  | _ => false

/-- number of ticks among `ops`. -/
def ticksIn (ops : List Op) : Nat := (ops.filter isTick).length

def keys (t : Table) : List Nat := t.map (·.key)

def KeysNodup (t : Table) : Prop := (keys t).Nodup

theorem hasKey_iff (t : Table) (k : Nat) : hasKey t k = true ↔ k ∈ keys t := by
  unfold hasKey keys
  induction t with
  | nil => simp
  | cons a t ih =>
    simp only [List.any_cons, Bool.or_eq_true, decide_eq_true_eq, ih, List.map_cons, List.mem_cons]
    constructor
    · rintro (h | h)
      · exact Or.inl h.symm
      · exact Or.inr h
    · rintro (h | h)
      · exact Or.inl h.symm
      · exact Or.inr h

theorem keys_map_same (t : Table) (f : Timer → Timer) (hf : ∀ x, (f x).key = x.key) :
    keys (t.map f) = keys t := by
  simp [keys, List.map_map, Function.comp_def, hf]

theorem step_keys_nodup (t : Table) (h : KeysNodup t) (op : Op) : KeysNodup (step t op).1 := by
  unfold KeysNodup at *
  cases op with
  | set k v s =>
    simp only [step, set]
    split
    · rw [keys_map_same]; exact h
      intro x; split <;> rfl
    · rename_i hk
      have : k ∉ keys t := by rw [← hasKey_iff]; exact hk
      simp only [keys, List.map_append, List.map_cons, List.map_nil]
      exact List.nodup_append.mpr ⟨h, by simp, by
        intro a ha b hb
        simp only [List.mem_singleton] at hb
        subst hb
        intro hab; subst hab; exact this ha⟩
  | move k s =>
    simp only [step]
    split
    · exact h
    · simp only [move]; rw [keys_map_same]; exact h
      intro x; split <;> rfl
  | remove k =>
    simp only [step, remove, keys]
    exact List.Nodup.sublist (List.Sublist.map _ List.filter_sublist) h
  | tick =>
    simp only [step, tick]
    rw [keys_map_same (f := fun x => { x with rem := x.rem - 1 }) (hf := fun _ => rfl)]
    exact List.Nodup.sublist (List.Sublist.map _ List.filter_sublist) h
  | drain => simp [step, drain, keys]

/-- every reachable table has at most one pending timer per key. -/
theorem reachable_keys_nodup (ops : List Op) :
    KeysNodup (ops.foldl (fun t op => (step t op).1) []) := by
  have : ∀ t, KeysNodup t → KeysNodup (ops.foldl (fun t op => (step t op).1) t) := by
    induction ops with
    | nil => intro t h; exact h
    | cons op ops ih => intro t h; exact ih _ (step_keys_nodup t h op)
  exact this [] (by simp [KeysNodup, keys])

/-- the unique timer of a key. -/
theorem unique_of_nodup (t : Table) (h : KeysNodup t) (x y : Timer) (hx : x ∈ t) (hy : y ∈ t)
    (hk : x.key = y.key) : x = y := by
  induction t with
  | nil => cases hx
  | cons a t ih =>
    simp only [KeysNodup, keys, List.map_cons, List.nodup_cons] at h
    simp only [List.mem_cons] at hx hy
    rcases hx with rfl | hx <;> rcases hy with rfl | hy
    · rfl
    · exact absurd (List.mem_map.mpr ⟨y, hy, hk.symm⟩) h.1
    · exact absurd (List.mem_map.mpr ⟨x, hx, hk⟩) h.1
    · exact ih h.2 hx hy

/-- a key that is not pending is not handed to the callback by an operation that does not set it,
and stays not pending. -/
theorem absent_step (t : Table) (k : Nat) (hk : k ∉ keys t) (op : Op) (hop : touches k op = false) :
    (∀ v, (k, v) ∉ (step t op).2) ∧ k ∉ keys (step t op).1 := by
  cases op with
  | set k' v s =>
    simp only [touches, decide_eq_false_iff_not] at hop
    refine ⟨by simp [step], ?_⟩
    simp only [step, set]
    split
    · rw [keys_map_same]; exact hk
      intro x; split <;> rfl
    · simp only [keys, List.map_append, List.map_cons, List.map_nil, List.mem_append, List.mem_singleton]
      intro h; rcases h with h | h
      · exact hk h
      · exact hop h.symm
  | move k' s =>
    simp only [touches, decide_eq_false_iff_not] at hop
    simp only [step]
    split
    · refine ⟨?_, hk⟩
      intro v hv
      simp only [List.mem_map, List.mem_filter, Prod.mk.injEq] at hv
      obtain ⟨x, ⟨hx, _⟩, hxk, _⟩ := hv
      exact hk (List.mem_map.mpr ⟨x, hx, hxk⟩)
    · refine ⟨by simp, ?_⟩
      simp only [move]; rw [keys_map_same]; exact hk
      intro x; split <;> rfl
  | remove k' =>
    refine ⟨by simp [step], ?_⟩
    simp only [step, remove, keys, List.mem_map, List.mem_filter]
    rintro ⟨x, ⟨hx, _⟩, hxk⟩
    exact hk (List.mem_map.mpr ⟨x, hx, hxk⟩)
  | tick =>
    simp only [step, tick]
    constructor
    · intro v hv
      simp only [List.mem_map, List.mem_filter, Prod.mk.injEq] at hv
      obtain ⟨x, ⟨hx, _⟩, hxk, _⟩ := hv
      exact hk (List.mem_map.mpr ⟨x, hx, hxk⟩)
    · rw [keys_map_same (f := fun x => { x with rem := x.rem - 1 }) (hf := fun _ => rfl)]
      simp only [keys, List.mem_map, List.mem_filter]
      rintro ⟨x, ⟨hx, _⟩, hxk⟩
      exact hk (List.mem_map.mpr ⟨x, hx, hxk⟩)
  | drain => simp [touches] at hop

/-- **a key that is not pending never fires** until it is set again (covers removed timers and
timers that already fired). -/
theorem absent_never_fires (t : Table) (k : Nat) (hk : k ∉ keys t) (ops : List Op)
    (hun : ∀ op ∈ ops, touches k op = false) :
    ∀ out ∈ run t ops, ∀ v, (k, v) ∉ out := by
  induction ops generalizing t with
  | nil => simp [run]
  | cons op ops ih =>
    have h1 := absent_step t k hk op (hun op (by simp))
    intro out hout v
    simp only [run, List.mem_cons] at hout
    rcases hout with rfl | hout
    · exact h1.1 v
    · exact ih _ h1.2 (fun o ho => hun o (by simp [ho])) out hout v

/-- one operation not concerning `k`, seen by `k`'s pending timer `(k, v, s)`. -/
theorem pending_step (t : Table) (hnd : KeysNodup t) (k v s : Nat) (hm : (⟨k, v, s⟩ : Timer) ∈ t)
    (op : Op) (hop : touches k op = false) :
    (isTick op = true ∧ s = 1 → (∀ v', (k, v') ∈ (step t op).2 ↔ v' = v) ∧ k ∉ keys (step t op).1)
    ∧ (isTick op = true ∧ s ≠ 1 → (∀ v', (k, v') ∉ (step t op).2) ∧ (⟨k, v, s - 1⟩ : Timer) ∈ (step t op).1)
    ∧ (isTick op = false → (∀ v', (k, v') ∉ (step t op).2) ∧ (⟨k, v, s⟩ : Timer) ∈ (step t op).1) := by
  have uniq : ∀ x ∈ t, x.key = k → x = ⟨k, v, s⟩ := fun x hx hxk =>
    unique_of_nodup t hnd x ⟨k, v, s⟩ hx hm hxk
  cases op with
  | tick =>
    simp only [isTick, step, tick, true_and, Bool.true_eq_false, false_implies, and_true]
    constructor
    · intro hs
      subst hs
      constructor
      · intro v'
        simp only [List.mem_map, List.mem_filter, Prod.mk.injEq, decide_eq_true_eq]
        constructor
        · rintro ⟨x, ⟨hx, _⟩, hxk, hxv⟩
          have := uniq x hx hxk
          subst this; exact hxv.symm
        · intro h; subst h
          exact ⟨⟨k, v', 1⟩, ⟨hm, rfl⟩, rfl, rfl⟩
      · rw [keys_map_same (f := fun x => { x with rem := x.rem - 1 }) (hf := fun _ => rfl)]
        simp only [keys, List.mem_map, List.mem_filter, decide_eq_true_eq]
        rintro ⟨x, ⟨hx, hne⟩, hxk⟩
        have := uniq x hx hxk
        subst this; exact hne rfl
    · intro hs
      constructor
      · intro v'
        simp only [List.mem_map, List.mem_filter, Prod.mk.injEq, decide_eq_true_eq]
        rintro ⟨x, ⟨hx, hx1⟩, hxk, _⟩
        have := uniq x hx hxk
        subst this; exact hs hx1
      · simp only [List.mem_map, List.mem_filter, decide_eq_true_eq]
        exact ⟨⟨k, v, s⟩, ⟨hm, hs⟩, rfl⟩
  | set k' v' s' =>
    simp only [touches, decide_eq_false_iff_not] at hop
    simp only [isTick, Bool.false_eq_true, false_and, false_implies, true_and, true_implies, step, set]
    refine ⟨by simp, ?_⟩
    split
    · simp only [List.mem_map]
      exact ⟨⟨k, v, s⟩, hm, by simp [show ¬ k = k' from fun h => hop h.symm]⟩
    · simp [hm]
  | move k' s' =>
    simp only [touches, decide_eq_false_iff_not] at hop
    simp only [isTick, Bool.false_eq_true, false_and, false_implies, true_and, true_implies, step]
    split
    · refine ⟨?_, hm⟩
      intro v'
      simp only [List.mem_map, List.mem_filter, Prod.mk.injEq, decide_eq_true_eq]
      rintro ⟨x, ⟨_, hxk'⟩, hxk, _⟩
      exact hop (hxk' ▸ hxk)
    · refine ⟨by simp, ?_⟩
      simp only [move, List.mem_map]
      exact ⟨⟨k, v, s⟩, hm, by simp [show ¬ k = k' from fun h => hop h.symm]⟩
  | remove k' =>
    simp only [touches, decide_eq_false_iff_not] at hop
    simp only [isTick, Bool.false_eq_true, false_and, false_implies, true_and, true_implies, step, remove]
    refine ⟨by simp, ?_⟩
    simp only [List.mem_filter, decide_eq_true_eq]
    exact ⟨hm, fun h => hop h.symm⟩
  | drain => simp [touches] at hop

theorem ticksIn_cons (op : Op) (ops : List Op) :
    ticksIn (op :: ops) = (if isTick op then 1 else 0) + ticksIn ops := by
  unfold ticksIn
  simp only [List.filter_cons]
  split <;> simp <;> omega

theorem tick_counted (ops : List Op) (i : Nat) (hi : i < ops.length) (ht : isTick (ops.getD i .drain) = true) :
    1 ≤ ticksIn (ops.take (i + 1)) := by
  induction ops generalizing i with
  | nil => simp at hi
  | cons op ops ih =>
    rw [List.take_succ_cons, ticksIn_cons]
    cases i with
    | zero =>
      simp only [List.getD_cons_zero] at ht
      simp [ht]
    | succ i =>
      simp only [List.getD_cons_succ] at ht
      have := ih i (by simpa using hi) ht
      omega

theorem getD_mem_or_nil {α} (l : List (List α)) (i : Nat) : l.getD i [] ∈ l ∨ l.getD i [] = [] := by
  induction l generalizing i with
  | nil => right; rfl
  | cons a l ih =>
    cases i with
    | zero => left; simp
    | succ i =>
      simp only [List.getD_cons_succ]
      rcases ih i with h | h
      · left; exact List.mem_cons_of_mem _ h
      · right; exact h

/-- **A pending timer fires exactly at its due tick, exactly once, with its value.**
If `(k, v)` is pending with `s ≥ 1` ticks remaining and the following operations do not set, move or
remove `k` (and do not drain), then `(k, v')` is handed to the callback by the `i`-th of them iff
`v' = v`, that operation is a tick, and it is the `s`-th tick. -/
theorem pending_fires_exactly_at_due (t : Table) (hnd : KeysNodup t) (k v s : Nat)
    (hm : (⟨k, v, s⟩ : Timer) ∈ t) (hs : 1 ≤ s) (ops : List Op)
    (hun : ∀ op ∈ ops, touches k op = false) (i : Nat) (v' : Nat) :
    (k, v') ∈ (run t ops).getD i [] ↔
      (v' = v ∧ i < ops.length ∧ isTick (ops.getD i .drain) = true ∧ ticksIn (ops.take (i + 1)) = s) := by
  induction ops generalizing t s i with
  | nil => simp [run]
  | cons op ops ih =>
    have hop := hun op (by simp)
    have hun' : ∀ o ∈ ops, touches k o = false := fun o ho => hun o (by simp [ho])
    have hp := pending_step t hnd k v s hm op hop
    have hnd' := step_keys_nodup t hnd op
    rw [List.take_succ_cons, ticksIn_cons]
    cases i with
    | zero =>
      simp only [run, List.getD_cons_zero, List.length_cons, Nat.zero_lt_succ, true_and, List.take_zero]
      have h0 : ticksIn [] = 0 := rfl
      rw [h0]
      by_cases ht : isTick op = true
      · by_cases h1 : s = 1
        · have := (hp.1 ⟨ht, h1⟩).1 v'
          simp [this, ht, h1]
        · have := (hp.2.1 ⟨ht, h1⟩).1 v'
          simp only [ht, if_true]
          constructor
          · intro h; exact absurd h this
          · rintro ⟨_, _, h⟩; omega
      · have hf : isTick op = false := by simpa using ht
        have := (hp.2.2 hf).1 v'
        simp only [hf, Bool.false_eq_true, false_and, and_false, iff_false]
        exact this
    | succ i =>
      simp only [run, List.getD_cons_succ, List.length_cons, Nat.succ_lt_succ_iff]
      by_cases ht : isTick op = true
      · by_cases h1 : s = 1
        · have hab := (hp.1 ⟨ht, h1⟩).2
          have hnf := absent_never_fires _ k hab ops hun'
          constructor
          · intro h
            rcases getD_mem_or_nil (run (step t op).1 ops) i with hmem | hnil
            · exact absurd h (hnf _ hmem v')
            · rw [hnil] at h; cases h
          · rintro ⟨_, hi, hti, hc⟩
            have := tick_counted ops i hi hti
            simp only [ht, if_true] at hc
            omega
        · have hm' := (hp.2.1 ⟨ht, h1⟩).2
          have := ih (step t op).1 hnd' (s - 1) hm' (by omega) hun' i
          rw [this]
          simp only [ht, if_true]
          constructor
          · rintro ⟨a, b, c, d⟩; exact ⟨a, b, c, by omega⟩
          · rintro ⟨a, b, c, d⟩; exact ⟨a, b, c, by omega⟩
      · have hf : isTick op = false := by simpa using ht
        have hm' := (hp.2.2 hf).2
        have := ih (step t op).1 hnd' s hm' hs hun' i
        rw [this]
        simp [hf]

theorem getD_append_len {α} (a b : List α) (j : Nat) (d : α) : (a ++ b).getD (a.length + j) d = b.getD j d := by
  induction a with
  | nil => simp
  | cons x a ih =>
    have : (x :: a).length + j = (a.length + j) + 1 := by simp; omega
    rw [this, List.cons_append, List.getD_cons_succ, ih]

theorem run_append (t : Table) (a b : List Op) :
    run t (a ++ b) = run t a ++ run (a.foldl (fun t op => (step t op).1) t) b := by
  induction a generalizing t with
  | nil => rfl
  | cons op a ih => simp only [List.cons_append, run, List.foldl_cons, ih]

theorem run_length (t : Table) (ops : List Op) : (run t ops).length = ops.length := by
  induction ops generalizing t with
  | nil => rfl
  | cons op ops ih => simp [run, ih]

/-- after `set k v s` the timer `(k, v, s)` is pending (s ≥ 1). -/
theorem set_pending (t : Table) (k v s : Nat) : (⟨k, v, s⟩ : Timer) ∈ set t k v s := by
  unfold set
  split
  · rename_i h
    have hk := (hasKey_iff t k).mp h
    simp only [keys, List.mem_map] at hk
    obtain ⟨x, hx, hxk⟩ := hk
    exact List.mem_map.mpr ⟨x, hx, by simp [hxk]⟩
  · simp

/-- after `move k s` a pending timer of `k` keeps its value and has `s` ticks remaining. -/
theorem move_pending (t : Table) (k v s0 s : Nat) (hm : (⟨k, v, s0⟩ : Timer) ∈ t) :
    (⟨k, v, s⟩ : Timer) ∈ move t k s :=
  List.mem_map.mpr ⟨⟨k, v, s0⟩, hm, by simp⟩

theorem remove_absent (t : Table) (k : Nat) : k ∉ keys (remove t k) := by
  simp [remove, keys]

end GoZero.C12.Spec
