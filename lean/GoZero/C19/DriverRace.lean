/-
C19 — driver for the concurrent (-race) harness: real goroutines, several keys, several instances.

cfg:  n=<instances> keys=<distinct keys>      instance i uses key "k{i % keys}", printed owner "id{i}"
ops:  ft <ms> | setexpire <i> <seconds>
      par <prog> <prog> …     one goroutine per prog; prog = a.<i> / r.<i> steps joined by ","
obs:  ft / setexpire => ok <store>
      par => <g>.<k>+ (goroutine g starts its k-th call)   <g>.<k>=T|F|E (it returned)   in stamp order,
             then "|" and the store

The history of a phase is totally ordered by the harness' atomic stamp.  The Redis clock stands still inside a
phase, every instance is driven by one goroutine, and all calls have returned at the end of a phase.  The
monitor works from the RESULTS only (`Spec.Belief`: after Acquire = true at time t "mine until
t + seconds·1000+500 or until I release"):

  * an instance *definitely holds* its key from the return of an Acquire = true until the start of its next
    Release (or the expiry of the lease, which can only happen between phases).  Two instances that
    definitely hold the same key at the same stamp → "two holders".
  * an instance's own calls are sequential: Release = true without a belief, Release = false or Acquire = false
    with an unexpired belief contradict the property whatever the interleaving was.
  * at the end of a phase the store must be exactly the table of beliefs (owner and remaining lease per key).
-/
import GoZero.Base.Trace
import GoZero.C19.Driver
namespace GoZero.C19.Race
open GoZero GoZero.C19

structure RSt where
  now  : Nat := 0
  secs : Nat → Nat := fun _ => 0
  bel  : Spec.Belief := Spec.Belief.none

inductive Step where
  | acq (i : Nat)
  | rel (i : Nat)
  deriving Repr, DecidableEq

def parseStep (n : Nat) (s : String) : Option Step :=
  match s.splitOn "." with
  | ["a", i] => (parseInst n i).map .acq
  | ["r", i] => (parseInst n i).map .rel
  | _ => none

def Step.inst : Step → Nat
  | .acq i => i
  | .rel i => i

def parseProg (n : Nat) (s : String) : Option (List Step) := (s.splitOn ",").mapM (parseStep n)

/-- event token `g.k+` / `g.k=R` -/
def parseEvent (tok : String) : Option (Nat × Nat × Option String) :=
  if tok.endsWith "+" then
    match tok.splitOn "+" with
    | [gk, ""] =>
      match gk.splitOn "." with
      | [g, k] => do pure (← g.toNat?, ← k.toNat?, none)
      | _ => none
    | _ => none
  else
    match tok.splitOn "=" with
    | [gk, r] =>
      match gk.splitOn "." with
      | [g, k] => do pure (← g.toNat?, ← k.toNat?, some r)
      | _ => none
    | _ => none

def believesNow (s : RSt) (i : Nat) : Bool := Spec.believes s.bel s.now i

/-- what the beliefs say the store must look like when nothing is in flight -/
def beliefDump (n nkeys : Nat) (s : RSt) : String :=
  joinSp ((List.range nkeys).map fun k =>
    match (List.range n).filter (fun i => i % nkeys = k ∧ believesNow s i) with
    | [i] =>
      match s.bel i with
      | some u => s!"k{k}=id{i}:{u - s.now}"
      | none => s!"k{k}=-"
    | [] => s!"k{k}=-"
    | l => s!"k{k}=?several-believers:{l}")

def runSection (r : Report) (sec : Section) : Report := Id.run do
  let n := kvNat sec.cfg "n" 0
  let nkeys := kvNat sec.cfg "keys" 0
  let mut r := r
  if n = 0 ∨ nkeys = 0 then
    return r.mismatch sec.idx 0 "bad-cfg" (joinSp sec.cfg)
  let mut s : RSt := {}
  for l in sec.lines do
    let impl := joinSp l.obs
    r := { r with ops := r.ops + 1 }
    match l.op with
    | ["ft", ms] =>
      match ms.toNat? with
      | none => r := r.mismatch sec.idx l.idx "bad-op" (joinSp l.op)
      | some ms =>
        r := r.addCover "ft"
        if (List.range n).any (fun i => believesNow s i ∧ !Spec.believes s.bel (s.now + ms) i) then
          r := r.addCover "ft-expires-a-belief"
        s := { s with now := s.now + ms }
        let want := "ok " ++ beliefDump n nkeys s
        if want ≠ impl then
          r := r.violation sec.idx l.idx s!"lease did not run down with the clock: results imply [{want}] impl=[{impl}] op=[{joinSp l.op}]"
    | ["setexpire", i, v] =>
      match parseInst n i, v.toInt? with
      | some i, some v =>
        r := r.addCover "setexpire"
        s := { s with secs := updN s.secs i (toUint32 v) }
        let want := "ok " ++ beliefDump n nkeys s
        if want ≠ impl then
          r := r.violation sec.idx l.idx s!"SetExpire changed the lock: results imply [{want}] impl=[{impl}]"
      | _, _ => r := r.mismatch sec.idx l.idx "bad-op" (joinSp l.op)
    | "par" :: progToks =>
      match progToks.mapM (parseProg n) with
      | none => r := r.mismatch sec.idx l.idx "bad-op" (joinSp l.op)
      | some progs =>
        -- an instance belongs to one goroutine
        let owners := progs.zipIdx.flatMap fun (p, g) => (p.map (·.inst)).eraseDups.map fun i => (i, g)
        if (owners.map (·.1)).eraseDups.length ≠ owners.length then
          r := r.mismatch sec.idx l.idx "bad-op (instance in two goroutines)" (joinSp l.op)
        else
        let evToks := l.obs.takeWhile (· ≠ "|")
        let dump := joinSp ((l.obs.dropWhile (· ≠ "|")).drop 1)
        r := r.addCover s!"par-{progs.length}-goroutines"
        let mut definite : List Nat := (List.range n).filter (believesNow s)
        let mut next : List Nat := progs.map fun _ => 0       -- next call index per goroutine
        let mut inflight : List Bool := progs.map fun _ => false
        let mut malformed := false
        let mut overlap := false
        for tok in evToks do
          match parseEvent tok with
          | none => malformed := true
          | some (g, k, res) =>
            match progs[g]? with
            | none => malformed := true
            | some prog =>
              match prog[k]?, res with
              | none, _ => malformed := true
              | some st, none =>
                if next[g]? ≠ some k ∨ inflight[g]? ≠ some false then malformed := true
                inflight := inflight.set g true
                if inflight.count true ≥ 2 then overlap := true
                match st with
                | .rel i => definite := definite.filter (· ≠ i)    -- from here on it may have let go
                | .acq _ => pure ()
              | some st, some res =>
                if next[g]? ≠ some k ∨ inflight[g]? ≠ some true then malformed := true
                inflight := inflight.set g false
                next := next.set g (k + 1)
                match st, res with
                | .acq i, "T" =>
                  r := r.addCover (if believesNow s i then "par-acquire-refresh" else "par-acquire-granted")
                  s := { s with bel := Spec.updB s.bel i (some (s.now + (s.secs i * 1000 + 500))) }
                  match definite.find? fun j => j ≠ i ∧ j % nkeys = i % nkeys with
                  | some j =>
                    r := r.violation sec.idx l.idx s!"two holders: instance {i} was granted k{i % nkeys} (call {tok}) while instance {j} holds it — its Acquire had returned true and it has not started a Release op=[{joinSp l.op}] history=[{joinSp evToks}]"
                  | none => pure ()
                  if !definite.contains i then definite := i :: definite
                | .acq i, "F" =>
                  r := r.addCover "par-acquire-refused"
                  if believesNow s i then
                    r := r.violation sec.idx l.idx s!"Acquire by the holder (instance {i}) did not refresh its own lease (call {tok}) op=[{joinSp l.op}] history=[{joinSp evToks}]"
                    s := { s with bel := Spec.updB s.bel i none }
                | .rel i, "T" =>
                  r := r.addCover "par-release-by-holder"
                  if !believesNow s i then
                    r := r.violation sec.idx l.idx s!"Release by instance {i} reported true but it does not hold k{i % nkeys}: never granted, already released or expired (call {tok}) op=[{joinSp l.op}] history=[{joinSp evToks}]"
                  s := { s with bel := Spec.updB s.bel i none }
                | .rel i, "F" =>
                  r := r.addCover "par-release-by-non-holder"
                  if believesNow s i then
                    r := r.violation sec.idx l.idx s!"Release by the current holder (instance {i}) reported false (call {tok}) op=[{joinSp l.op}] history=[{joinSp evToks}]"
                  s := { s with bel := Spec.updB s.bel i none }
                | _, other =>
                  r := r.addCover s!"par-result-{other}"
                  r := r.mismatch sec.idx l.idx "T|F" tok
        if malformed ∨ next ≠ progs.map (·.length) then
          r := r.mismatch sec.idx l.idx "a well-formed history (every call started and returned once, in program order)" impl
        else
          if overlap then r := r.addCover "par-calls-overlapped-in-time"
          let want := beliefDump n nkeys s
          if want ≠ dump then
            r := r.violation sec.idx l.idx s!"store after the concurrent phase is not what the calls' results imply: results imply [{want}] impl=[{dump}] op=[{joinSp l.op}] history=[{joinSp evToks}]"
    | _ => r := r.mismatch sec.idx l.idx "bad-op" (joinSp l.op)
  return r

def driver (secs : List Section) : Report := secs.foldl runSection {}

end GoZero.C19.Race
