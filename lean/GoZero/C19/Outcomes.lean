/-
C19 — every outcome kind at the entry points (core Lean only; used by the driver).

Round 5.  Two dimensions the earlier model had only on the Tie side or not at all:

  * `Handed` — everything go-redis (or a hook around it) can hand back to `AcquireCtx` / `ReleaseCtx` for the
    ONE script run of a call: a Redis reply (also replies the scripts of the tree never send), `resp == nil`
    without an error, or an error that is not `red.Nil` (connection lost, context cancelled, a typed-nil error
    value, …).  `red.Nil` itself and `red.Nil` wrapped with `%w` are both `reply .nil` (`errors.Is`).
    `acquireHanded` / `releaseHanded` are what the two functions return: (result, an error is returned).
    Tie: `tie_acquireHanded` / `tie_releaseHanded` (the translated statements of the tree, for EVERY `Handed`).

  * a caller's context that is cancelled (or whose deadline passes) before the call's `p`-th round trip:
    go-redis sends nothing from then on and the call returns the context's error.  `runCancel` is that
    schedule in the command-level semantics of Cmds.lean; for the code that exists it has no effect when the
    cancellation comes before the script run and is the model's atomic step otherwise
    (`OutcomeProofs.runCancel_real`).
-/
import GoZero.C19.Cmds
namespace GoZero.C19

/-- what the Go code is handed for one script run -/
inductive Handed where
  | reply (r : Reply)   -- a Redis reply; `.nil` = the error `red.Nil` (bare or wrapped: `errors.Is`)
  | nilNoErr            -- `resp == nil`, `err == nil`
  | err                 -- an error that is not `red.Nil`
  deriving Repr, DecidableEq

/-- `AcquireCtx` after the script run: (result, an error is returned) -/
def acquireHanded : Handed → Bool × Bool
  | .reply r => (acquireReply r, false)
  | .nilNoErr => (false, false)
  | .err => (false, true)

/-- `ReleaseCtx` after the script run: a nil reply is the error `red.Nil` and is returned as an error -/
def releaseHanded : Handed → Bool × Bool
  | .reply .nil => (false, true)
  | .reply r => (releaseReply r, false)
  | .nilNoErr => (false, false)
  | .err => (false, true)

def handedOf : Op → Handed → Bool × Bool
  | .release _ => releaseHanded
  | _ => acquireHanded

/-- the reply that grants: the only thing on which the call may report true -/
def grants : Op → Handed → Bool
  | .release _, .reply (.int n) => n == 1
  | .release _, _ => false
  | _, .reply (.status s) => s == "OK"
  | _, .reply (.bulk s) => s == "OK"
  | _, _ => false

/-- a harness kind token: `nil` `wrapnil` (red.Nil bare / wrapped), `nilval`, `err` `typednil`, `s:<text>`, `i:<int>` -/
def parseHanded (tok : String) : Option Handed :=
  if tok = "nil" ∨ tok = "wrapnil" then some (.reply .nil)
  else if tok = "nilval" then some .nilNoErr
  else if tok = "err" ∨ tok = "typednil" then some .err
  else if tok.startsWith "s:" then some (.reply (.bulk (tok.drop 2).toString))
  else if tok.startsWith "i:" then (tok.drop 2).toString.toInt?.map fun n => .reply (.int n)
  else none

/-! ### a context cancelled before the `p`-th round trip -/

structure CancelResult where
  st     : St
  result : Option Bool   -- `none`: the call returned the context's error
  sent   : Nat           -- round trips that reached Redis


/-- thread 0 enters `outer`; immediately before its `p`-th round trip the context is cancelled (`p = 0`: it was
cancelled before the call).  A call that still has a round trip to make at that moment returns an error
without making it. -/
def runCancel (impl : Impl) (cfg : Nat → LockCfg) (st : St) (outer : Op) (cached : Bool) (p : Nat) : CancelResult :=
  let c0 : CConc := { st := st, thr := fun _ => none }
  let entered : Option (CConc × Option Ret) :=
    match outer with
    | .acquire i => cstep impl cfg c0 (.acquire 0 i cached)
    | .release i => cstep impl cfg c0 (.release 0 i cached)
    | _ => none
  match entered with
  | none => { st := st, result := none, sent := 0 }
  | some r =>
    let a := cmdsUpTo impl cfg 0 (p - 1) r.1
    if a.2 = p - 1 ∧ pending a.1 0 then
      { st := a.1.st, result := none, sent := a.2 }
    else
      let f := cmdsUpTo impl cfg 0 8 a.1
      let z := retOf impl cfg f.1 0
      { st := z.1.st, result := z.2, sent := a.2 + f.2 }

end GoZero.C19
