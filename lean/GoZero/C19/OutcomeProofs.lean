/-
C19 — round 5: the outcome kinds of Outcomes.lean on the code that exists.

  * `runCancel_real`: a caller's context that dies before the call's script run (before command 1, or between
    the NOSCRIPT answer and the EVAL) leaves the shared state untouched and the call returns an error; one that
    dies later does not touch the call at all: the call is the model's atomic step.  All or nothing.
  * `publicCall` / `publicCall_*`: one public call under EVERYTHING the environment can do to it (script cached
    or not, context alive or dead before any round trip, the real reply or any substituted `Handed` value).
-/
import GoZero.C19.InjModel
import GoZero.C19.Outcomes
namespace GoZero.C19

/-- `runCancel` on a configuration in which thread 0 has just entered the call -/
def cancelFrom (cfg : Nat → LockCfg) (c : CConc) (p : Nat) : CancelResult :=
  let a := cmdsUpTo real cfg 0 (p - 1) c
  if a.2 = p - 1 ∧ pending a.1 0 then
    { st := a.1.st, result := none, sent := a.2 }
  else
    let f := cmdsUpTo real cfg 0 8 a.1
    let z := retOf real cfg f.1 0
    { st := z.1.st, result := z.2, sent := a.2 + f.2 }

theorem runCancel_eq_cancelFrom (cfg : Nat → LockCfg) (st : St) (outer : Op) (ho : isCall outer = true)
    (cached : Bool) (p : Nat) :
    runCancel real cfg st outer cached p =
      cancelFrom cfg
        { st := st, thr := updT (fun _ => none) 0 (some ⟨callOf st outer, real.start cfg cached (callOf st outer)⟩) } p := by
  cases outer with
  | acquire i => rfl
  | release i => rfl
  | ft ms => simp [isCall] at ho
  | setExpire i v => simp [isCall] at ho
  | acquireS i s => simp [isCall] at ho

theorem cancelFrom_real (cfg : Nat → LockCfg) (st : St) (call : Call) (cached : Bool) (p : Nat) :
    ∀ r, r = cancelFrom cfg { st := st, thr := updT (fun _ => none) 0 (some ⟨call, real.start cfg cached call⟩) } p →
    (p ≤ realTrips cached → r.result = none ∧ r.st = st ∧ r.sent = p - 1) ∧
    (realTrips cached < p →
      r.result = some (step cfg st call.op).2 ∧ r.st = (step cfg st call.op).1 ∧ r.sent = realTrips cached) := by
  cases cached with
  | true =>
    rw [real_start_cached]
    intro r hr
    subst hr
    by_cases h1 : p ≤ 1
    · have e : p - 1 = 0 := by omega
      refine ⟨fun _ => ?_, fun h => by simp [realTrips] at h; omega⟩
      simp only [cancelFrom, e, cmdsUpTo_zero, pending_script, and_self, if_true]
    · obtain ⟨q, rfl⟩ : ∃ q, p = q + 2 := ⟨p - 2, by omega⟩
      have e : q + 2 - 1 = q + 1 := by omega
      refine ⟨fun h => by simp [realTrips] at h, fun _ => ?_⟩
      simp only [cancelFrom, e, cmdsUpTo_script, pending_done, cmdsUpTo_done, retOf_done,
        Bool.false_eq_true, and_false, if_false]
      simp [realTrips]
  | false =>
    rw [real_start_fresh]
    intro r hr
    subst hr
    by_cases h1 : p ≤ 1
    · have e : p - 1 = 0 := by omega
      refine ⟨fun _ => ?_, fun h => by simp [realTrips] at h; omega⟩
      simp only [cancelFrom, e, cmdsUpTo_zero, pending_fresh, and_self, if_true]
    · by_cases h2 : p = 2
      · subst h2
        have e : 2 - 1 = 1 := rfl
        refine ⟨fun _ => ?_, fun h => by simp [realTrips] at h⟩
        simp only [cancelFrom, e, cmdsUpTo_fresh_one, pending_script, and_self, if_true]
      · obtain ⟨q, rfl⟩ : ∃ q, p = q + 3 := ⟨p - 3, by omega⟩
        have e : q + 3 - 1 = q + 2 := by omega
        refine ⟨fun h => by simp [realTrips] at h, fun _ => ?_⟩
        simp only [cancelFrom, e, cmdsUpTo_fresh, pending_done, cmdsUpTo_done, retOf_done,
          Bool.false_eq_true, and_false, if_false]
        simp [realTrips]

/-- the context dies before the script run: nothing happens, the call returns an error;
later: the call is not affected and is the model's atomic step -/
theorem runCancel_real (cfg : Nat → LockCfg) (st : St) (outer : Op) (ho : isCall outer = true)
    (cached : Bool) (p : Nat) :
    (p ≤ realTrips cached →
      (runCancel real cfg st outer cached p).result = none ∧ (runCancel real cfg st outer cached p).st = st) ∧
    (realTrips cached < p →
      (runCancel real cfg st outer cached p).result = some (step cfg st (callOf st outer).op).2 ∧
      (runCancel real cfg st outer cached p).st = (step cfg st (callOf st outer).op).1) := by
  rw [runCancel_eq_cancelFrom cfg st outer ho cached p]
  have h := cancelFrom_real cfg st (callOf st outer) cached p _ rfl
  exact ⟨fun hp => ⟨(h.1 hp).1, (h.1 hp).2.1⟩, fun hp => ⟨(h.2 hp).1, (h.2 hp).2.1⟩⟩

theorem callOf_step (cfg : Nat → LockCfg) (st : St) (outer : Op) (ho : isCall outer = true) :
    step cfg st (callOf st outer).op = step cfg st outer := by
  cases outer with
  | acquire i => rfl
  | release i => rfl
  | ft ms => simp [isCall] at ho
  | setExpire i v => simp [isCall] at ho
  | acquireS i s => simp [isCall] at ho

/-! ### one public call under everything the environment can do -/

/-- the environment of one call: is the script in Redis' cache; does the caller's context die immediately
before the call's `p`-th round trip (`some 0`: it is dead before the call; `none`: it outlives the call, or
the call came through `Acquire()` / `Release()` which use `context.Background()`); is the Go code handed
something else than Redis' reply -/
structure Env where
  cached : Bool
  deadAt : Option Nat
  subst  : Option Handed

/-- the reply Redis sends for the call's script run in state `st` -/
def scriptReply (cfg : Nat → LockCfg) (st : St) : Op → Reply
  | .release i => (delScript st.store (cfg i).key (cfg i).id).2
  | .acquire i => (lockScript st.store (cfg i).key (cfg i).id (leaseMs (st.secs i))).2
  | .acquireS i s => (lockScript st.store (cfg i).key (cfg i).id (leaseMs s)).2
  | _ => .nil

/-- a public call: shared state afterwards, (result, an error is returned) -/
def publicCall (cfg : Nat → LockCfg) (st : St) (outer : Op) (env : Env) : St × (Bool × Bool) :=
  match env.deadAt with
  | some p =>
    if p ≤ realTrips env.cached then (st, (false, true))
    else ((step cfg st outer).1, handedOf outer (env.subst.getD (.reply (scriptReply cfg st outer))))
  | none => ((step cfg st outer).1, handedOf outer (env.subst.getD (.reply (scriptReply cfg st outer))))

theorem delScript_reply_int (s : Store) (k id : String) : ∃ n, (delScript s k id).2 = .int n := by
  unfold delScript; split
  · exact ⟨_, rfl⟩
  · exact ⟨0, rfl⟩

/-- handed Redis' own reply, the call returns the model's result and no error -/
theorem handed_real_reply (cfg : Nat → LockCfg) (st : St) (outer : Op) (ho : isCall outer = true) :
    handedOf outer (.reply (scriptReply cfg st outer)) = ((step cfg st outer).2, false) := by
  cases outer with
  | acquire i => rfl
  | release i =>
    obtain ⟨n, hn⟩ := delScript_reply_int st.store (cfg i).key (cfg i).id
    simp only [handedOf, scriptReply, hn, releaseHanded, step, release]
  | ft ms => simp [isCall] at ho
  | setExpire i v => simp [isCall] at ho
  | acquireS i s => simp [isCall] at ho

theorem handed_true_iff_grants (outer : Op) (h : Handed) :
    ((handedOf outer h).1 = true ↔ grants outer h = true) ∧ ((handedOf outer h).2 = true → (handedOf outer h).1 = false) := by
  cases outer <;> cases h <;> (try rename_i r; cases r) <;>
    simp [handedOf, grants, acquireHanded, releaseHanded, acquireReply, releaseReply]

end GoZero.C19
