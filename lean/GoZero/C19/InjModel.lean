/-
C19 — the schedule of an `inj` line (`runInj`, Cmds.lean) on the code that exists is a sequential history:
the operations placed before a round trip the call really makes all precede the call's single atomic step,
otherwise they all follow it.  This is what the driver's correspondence for `inj` lines computes, and the two
placements (first / last) are among those the linearizability monitor tries.
-/
import GoZero.C19.Atomic
namespace GoZero.C19

theorem updT_updT (f : Nat → Option Thread) (t : Nat) (a b : Option Thread) :
    updT (updT f t a) t b = updT f t b := by
  funext u; simp only [updT]; split <;> rfl

theorem updT_self (f : Nat → Option Thread) (t : Nat) (v : Option Thread) (h : f t = v) : updT f t v = f := by
  funext u; simp only [updT]; split
  · next hu => rw [hu, h]
  · rfl

def isSimple : Op → Bool
  | .acquireS _ _ => false
  | _ => true

theorem wholeOp_real (cfg : Nat → LockCfg) (t : Nat) (c : CConc) (h : c.thr t = none) (op : Op)
    (hs : isSimple op = true) :
    wholeOp real cfg t c op = ({ c with st := (step cfg c.st op).1 }, (step cfg c.st op).2) := by
  cases op with
  | ft ms => rfl
  | setExpire i v => rfl
  | acquireS i s => simp [isSimple] at hs
  | acquire i =>
    simp only [wholeOp, cstep, enter, h, cmdsUpTo, Impl.start, real, scriptRun, if_true, updT_same,
      retOf, updT_updT]
    rw [updT_self _ _ _ h]
    rfl
  | release i =>
    simp only [wholeOp, cstep, enter, h, cmdsUpTo, Impl.start, real, scriptRun, if_true, updT_same,
      retOf, updT_updT]
    rw [updT_self _ _ _ h]
    rfl

theorem wholeOps_real (cfg : Nat → LockCfg) (t : Nat) (ops : List Op) :
    ∀ c : CConc, c.thr t = none → (∀ op ∈ ops, isSimple op = true) →
      wholeOps real cfg t c ops = ({ c with st := run cfg c.st ops }, results cfg c.st ops) := by
  induction ops with
  | nil => intro c _ _; rfl
  | cons op ops ih =>
    intro c h hs
    have h1 := wholeOp_real cfg t c h op (hs op List.mem_cons_self)
    have h2 := ih { c with st := (step cfg c.st op).1 } h (fun o ho => hs o (List.mem_cons_of_mem _ ho))
    simp only [wholeOps, h1, h2, run, results, List.foldl_cons]

/-- the call under observation as an operation of the history: an Acquire with the `seconds` loaded at entry -/
def outerOp (st : St) : Op → Op
  | .acquire i => .acquireS i (st.secs i)
  | o => o

def isCall : Op → Bool
  | .acquire _ => true
  | .release _ => true
  | _ => false

/-- round trips a call of the code that exists makes -/
def realTrips (cached : Bool) : Nat := if cached then 1 else 2

def scriptProg (cfg : Nat → LockCfg) (call : Call) : Prog :=
  .cmd (scriptCmd cfg call) (fun r => .done (decodeOf call r))

def freshProg (cfg : Nat → LockCfg) (call : Call) : Prog := .cmd .failed (fun _ => scriptProg cfg call)

theorem real_start_cached (cfg : Nat → LockCfg) (call : Call) : real.start cfg true call = scriptProg cfg call := by
  cases call <;> rfl

theorem real_start_fresh (cfg : Nat → LockCfg) (call : Call) : real.start cfg false call = freshProg cfg call := by
  cases call <;> rfl

theorem cstep_script (cfg : Nat → LockCfg) (s : St) (f : Nat → Option Thread) (t : Nat) (call : Call) :
    cstep real cfg { st := s, thr := updT f t (some ⟨call, scriptProg cfg call⟩) } (.cmd t) =
      some ({ st := (step cfg s call.op).1, thr := updT f t (some ⟨call, .done (step cfg s call.op).2⟩) }, none) := by
  have he := scriptCmd_exec cfg s call
  simp only [cstep, updT_same, scriptProg, updT_updT]
  rw [← he.1, ← he.2]

theorem cstep_fresh (cfg : Nat → LockCfg) (s : St) (f : Nat → Option Thread) (t : Nat) (call : Call) :
    cstep real cfg { st := s, thr := updT f t (some ⟨call, freshProg cfg call⟩) } (.cmd t) =
      some ({ st := s, thr := updT f t (some ⟨call, scriptProg cfg call⟩) }, none) := by
  simp [cstep, updT_same, freshProg, updT_updT, Cmd.exec]

theorem cstep_done (cfg : Nat → LockCfg) (s : St) (f : Nat → Option Thread) (t : Nat) (call : Call) (b : Bool) :
    cstep real cfg { st := s, thr := updT f t (some ⟨call, .done b⟩) } (.cmd t) = none := by
  simp [cstep, updT_same]

theorem cstep_ret (cfg : Nat → LockCfg) (s : St) (f : Nat → Option Thread) (t : Nat) (call : Call) (b : Bool) :
    cstep real cfg { st := s, thr := updT f t (some ⟨call, .done b⟩) } (.ret t) =
      some ({ st := s, thr := updT f t none }, some ⟨t, call, b⟩) := by
  simp [cstep, updT_same, updT_updT]

theorem pending_script (cfg : Nat → LockCfg) (s : St) (f : Nat → Option Thread) (t : Nat) (call : Call) :
    pending { st := s, thr := updT f t (some ⟨call, scriptProg cfg call⟩) } t = true := by
  simp [pending, updT_same, scriptProg]

theorem pending_fresh (cfg : Nat → LockCfg) (s : St) (f : Nat → Option Thread) (t : Nat) (call : Call) :
    pending { st := s, thr := updT f t (some ⟨call, freshProg cfg call⟩) } t = true := by
  simp [pending, updT_same, freshProg]

theorem pending_done (s : St) (f : Nat → Option Thread) (t : Nat) (call : Call) (b : Bool) :
    pending { st := s, thr := updT f t (some ⟨call, .done b⟩) } t = false := by
  simp [pending, updT_same]

theorem cmdsUpTo_done (cfg : Nat → LockCfg) (s : St) (f : Nat → Option Thread) (t : Nat) (call : Call) (b : Bool)
    (m : Nat) :
    cmdsUpTo real cfg t m { st := s, thr := updT f t (some ⟨call, .done b⟩) } =
      ({ st := s, thr := updT f t (some ⟨call, .done b⟩) }, 0) := by
  cases m with
  | zero => rfl
  | succ m => simp only [cmdsUpTo, cstep_done]

theorem cmdsUpTo_script (cfg : Nat → LockCfg) (s : St) (f : Nat → Option Thread) (t : Nat) (call : Call) (m : Nat) :
    cmdsUpTo real cfg t (m + 1) { st := s, thr := updT f t (some ⟨call, scriptProg cfg call⟩) } =
      ({ st := (step cfg s call.op).1, thr := updT f t (some ⟨call, .done (step cfg s call.op).2⟩) }, 1) := by
  simp only [cmdsUpTo, cstep_script, cmdsUpTo_done]

theorem cmdsUpTo_fresh (cfg : Nat → LockCfg) (s : St) (f : Nat → Option Thread) (t : Nat) (call : Call) (m : Nat) :
    cmdsUpTo real cfg t (m + 2) { st := s, thr := updT f t (some ⟨call, freshProg cfg call⟩) } =
      ({ st := (step cfg s call.op).1, thr := updT f t (some ⟨call, .done (step cfg s call.op).2⟩) }, 2) := by
  simp only [cmdsUpTo, cstep_fresh, cstep_script, cmdsUpTo_done]

theorem cmdsUpTo_fresh_one (cfg : Nat → LockCfg) (s : St) (f : Nat → Option Thread) (t : Nat) (call : Call) :
    cmdsUpTo real cfg t 1 { st := s, thr := updT f t (some ⟨call, freshProg cfg call⟩) } =
      ({ st := s, thr := updT f t (some ⟨call, scriptProg cfg call⟩) }, 1) := by
  simp only [cmdsUpTo, cstep_fresh]

theorem cmdsUpTo_zero (cfg : Nat → LockCfg) (t : Nat) (c : CConc) : cmdsUpTo real cfg t 0 c = (c, 0) := rfl

theorem cmdsUpTo_script8 (cfg : Nat → LockCfg) (s : St) (f : Nat → Option Thread) (t : Nat) (call : Call) :
    cmdsUpTo real cfg t 8 { st := s, thr := updT f t (some ⟨call, scriptProg cfg call⟩) } =
      ({ st := (step cfg s call.op).1, thr := updT f t (some ⟨call, .done (step cfg s call.op).2⟩) }, 1) :=
  cmdsUpTo_script cfg s f t call 7

theorem cmdsUpTo_fresh8 (cfg : Nat → LockCfg) (s : St) (f : Nat → Option Thread) (t : Nat) (call : Call) :
    cmdsUpTo real cfg t 8 { st := s, thr := updT f t (some ⟨call, freshProg cfg call⟩) } =
      ({ st := (step cfg s call.op).1, thr := updT f t (some ⟨call, .done (step cfg s call.op).2⟩) }, 2) :=
  cmdsUpTo_fresh cfg s f t call 6

theorem retOf_done (cfg : Nat → LockCfg) (s : St) (f : Nat → Option Thread) (t : Nat) (call : Call) (b : Bool) :
    retOf real cfg { st := s, thr := updT f t (some ⟨call, .done b⟩) } t = ({ st := s, thr := updT f t none }, some b) := by
  simp only [retOf, cstep_ret]; rfl

/-- the schedule of an `inj` line on a configuration in which thread 0 has just entered `call` -/
def injFrom (cfg : Nat → LockCfg) (c : CConc) (p : Nat) (inner : List Op) : InjResult :=
  let a := cmdsUpTo real cfg 0 (p - 1) c
  if p ≥ 1 ∧ a.2 = p - 1 ∧ pending a.1 0 then
    let b := wholeOps real cfg 1 a.1 inner
    let f := cmdsUpTo real cfg 0 8 b.1
    let z := retOf real cfg f.1 0
    { st := z.1.st, outer := z.2.getD false, inner := b.2, ncmds := a.2 + f.2, fired := some p }
  else
    let f := cmdsUpTo real cfg 0 8 a.1
    let z := retOf real cfg f.1 0
    let b := wholeOps real cfg 1 z.1 inner
    { st := b.1.st, outer := z.2.getD false, inner := b.2, ncmds := a.2 + f.2, fired := none }

theorem wholeOps_real0 (cfg : Nat → LockCfg) (s : St) (th : Option Thread) (inner : List Op)
    (hs : ∀ op ∈ inner, isSimple op = true) :
    wholeOps real cfg 1 { st := s, thr := updT (fun _ => none) 0 th } inner =
      ({ st := run cfg s inner, thr := updT (fun _ => none) 0 th }, results cfg s inner) :=
  wholeOps_real cfg 1 inner _ (by simp [updT]) hs

theorem thr1 (th : Option Thread) : updT (fun _ => none) 0 th 1 = none := by simp [updT]

theorem injFrom_real (cfg : Nat → LockCfg) (st : St) (call : Call) (cached : Bool)
    (p : Nat) (hp : 1 ≤ p) (inner : List Op) (hs : ∀ op ∈ inner, isSimple op = true) :
    ∀ r, r = injFrom cfg { st := st, thr := updT (fun _ => none) 0 (some ⟨call, real.start cfg cached call⟩) } p inner →
    (p ≤ realTrips cached →
      r.fired = some p ∧ r.inner = results cfg st inner ∧
      r.outer = (step cfg (run cfg st inner) call.op).2 ∧
      r.st = (step cfg (run cfg st inner) call.op).1) ∧
    (realTrips cached < p →
      r.fired = none ∧ r.outer = (step cfg st call.op).2 ∧
      r.inner = results cfg (step cfg st call.op).1 inner ∧
      r.st = run cfg (step cfg st call.op).1 inner) := by
  cases cached with
  | true =>
    rw [real_start_cached]
    intro r hr
    subst hr
    by_cases h1 : p = 1
    · subst h1
      refine ⟨fun _ => ?_, fun h => by simp [realTrips] at h⟩
      simp only [injFrom, Nat.sub_self, cmdsUpTo_zero, pending_script, ge_iff_le, Nat.le_refl, and_self, if_true]
      rw [wholeOps_real0 cfg _ _ inner hs]
      simp only [cmdsUpTo_script8, retOf_done, Option.getD_some, and_self]
    · obtain ⟨q, rfl⟩ : ∃ q, p = q + 2 := ⟨p - 2, by omega⟩
      have e : q + 2 - 1 = q + 1 := by omega
      refine ⟨fun h => by simp [realTrips] at h, fun _ => ?_⟩
      simp only [injFrom, e, cmdsUpTo_script, pending_done, cmdsUpTo_done, retOf_done,
        Bool.false_eq_true, and_false, if_false]
      rw [wholeOps_real0 cfg _ _ inner hs]
      simp
  | false =>
    rw [real_start_fresh]
    intro r hr
    subst hr
    by_cases h1 : p = 1
    · subst h1
      refine ⟨fun _ => ?_, fun h => by simp [realTrips] at h⟩
      simp only [injFrom, Nat.sub_self, cmdsUpTo_zero, pending_fresh, ge_iff_le, Nat.le_refl, and_self, if_true]
      rw [wholeOps_real0 cfg _ _ inner hs]
      simp only [cmdsUpTo_fresh8, retOf_done, Option.getD_some, and_self]
    · by_cases h2 : p = 2
      · subst h2
        have e : 2 - 1 = 1 := rfl
        refine ⟨fun _ => ?_, fun h => by simp [realTrips] at h⟩
        simp only [injFrom, e, cmdsUpTo_fresh_one, pending_script, ge_iff_le, and_self, if_true,
          show (1 ≤ 2) = True from by simp]
        rw [wholeOps_real0 cfg _ _ inner hs]
        simp only [cmdsUpTo_script8, retOf_done, Option.getD_some, and_self]
      · obtain ⟨q, rfl⟩ : ∃ q, p = q + 3 := ⟨p - 3, by omega⟩
        have e : q + 3 - 1 = q + 2 := by omega
        refine ⟨fun h => by simp [realTrips] at h, fun _ => ?_⟩
        simp only [injFrom, e, cmdsUpTo_fresh, pending_done, cmdsUpTo_done, retOf_done,
          Bool.false_eq_true, and_false, if_false]
        rw [wholeOps_real0 cfg _ _ inner hs]
        simp
/-- the call an `inj` line observes, as thread 0 holds it after entering (Acquire has loaded `seconds`) -/
def callOf (st : St) : Op → Call
  | .acquire i => .acq i (st.secs i)
  | .release i => .rel i
  | _ => .rel 0

theorem runInj_eq_injFrom (cfg : Nat → LockCfg) (st : St) (outer : Op) (ho : isCall outer = true) (cached : Bool)
    (p : Nat) (inner : List Op) :
    runInj real cfg st outer cached p inner =
      injFrom cfg { st := st, thr := updT (fun _ => none) 0 (some ⟨callOf st outer, real.start cfg cached (callOf st outer)⟩) }
        p inner := by
  cases outer with
  | acquire i => rfl
  | release i => rfl
  | ft ms => simp [isCall] at ho
  | setExpire i v => simp [isCall] at ho
  | acquireS i s => simp [isCall] at ho

end GoZero.C19
