/-
C19 — helper lemmas: what the two scripts do to the store, in terms of `get`.
-/
import GoZero.C19.Model
import GoZero.C19.Spec
namespace GoZero.C19

/-- the key is free for `id`: not visible, or visible with `id`'s own value -/
def freeFor (s : Store) (key id : String) : Prop := s.get key = none ∨ s.get key = some id

instance (s : Store) (key id : String) : Decidable (freeFor s key id) := by unfold freeFor; infer_instance

theorem get_none_iff (s : Store) (k : String) : s.get k = none ↔ s.live k = none := by
  unfold Store.get; cases s.live k <;> simp

theorem lockScript_store (s : Store) (key id : String) (px : Nat) :
    (lockScript s key id px).1 = if freeFor s key id then s.setPX key id px else s := by
  unfold lockScript freeFor Store.setNXPX
  by_cases h : s.get key = some id
  · simp [h]
  · cases hl : s.live key with
    | none => have : s.get key = none := (get_none_iff s key).2 hl
              simp [h, hl, this]
    | some e => have : s.get key ≠ none := fun c => by rw [get_none_iff] at c; simp [hl] at c
                simp [h, hl, this]

theorem lockScript_reply (s : Store) (key id : String) (px : Nat) :
    acquireReply (lockScript s key id px).2 = decide (freeFor s key id) := by
  unfold lockScript freeFor Store.setNXPX
  by_cases h : s.get key = some id
  · simp [h, acquireReply]
  · cases hl : s.live key with
    | none => have : s.get key = none := (get_none_iff s key).2 hl
              simp [h, hl, this, acquireReply]
    | some e => have : s.get key ≠ none := fun c => by rw [get_none_iff] at c; simp [hl] at c
                simp [h, hl, this, acquireReply]

theorem delScript_store (s : Store) (key id : String) :
    (delScript s key id).1 = if s.get key = some id then { s with ent := upd s.ent key none } else s := by
  unfold delScript Store.del
  by_cases h : s.get key = some id
  · have : (s.live key).isSome = true := by
      unfold Store.get at h; cases hl : s.live key <;> simp [hl] at h ⊢
    simp [h, this]
  · simp [h]

theorem delScript_reply (s : Store) (key id : String) :
    releaseReply (delScript s key id).2 = decide (s.get key = some id) := by
  unfold delScript Store.del
  by_cases h : s.get key = some id
  · have : (s.live key).isSome = true := by
      unfold Store.get at h; cases hl : s.live key <;> simp [hl] at h ⊢
    simp [h, this, releaseReply]
  · simp [h, releaseReply]

/-! ### store facts in terms of `ent` / `now` -/

theorem get_eq (s : Store) (k : String) :
    s.get k = match s.ent k with
      | some e => if e.liveAt s.now then some e.val else none
      | none => none := by
  unfold Store.get Store.live
  cases s.ent k with
  | none => rfl
  | some e => by_cases h : e.liveAt s.now <;> simp [h]

theorem get_of_ent_live {s : Store} {k v : String} {u : Nat} (h : s.ent k = some ⟨v, some u⟩) (hl : s.now < u) :
    s.get k = some v := by
  rw [get_eq, h]; simp [Entry.liveAt, hl]

theorem get_of_ent_dead {s : Store} {k v : String} {u : Nat} (h : s.ent k = some ⟨v, some u⟩) (hl : u ≤ s.now) :
    s.get k = none := by
  rw [get_eq, h]; simp [Entry.liveAt]; omega

theorem get_of_ent_none {s : Store} {k : String} (h : s.ent k = none) : s.get k = none := by
  rw [get_eq, h]

theorem get_some_ent {s : Store} {k v : String} (h : s.get k = some v) :
    ∃ e, s.ent k = some e ∧ e.val = v ∧ e.liveAt s.now = true := by
  rw [get_eq] at h
  cases he : s.ent k with
  | none => simp [he] at h
  | some e =>
    by_cases hl : e.liveAt s.now
    · simp [he, hl] at h; exact ⟨e, rfl, h, hl⟩
    · simp [he, hl] at h

theorem leaseMs_pos (s : Nat) : 0 < leaseMs s := by unfold leaseMs tolerance; omega

/-! ### what one call does to `ent`, `now`, `secs` -/

theorem acquireWith_ent (cfg : Nat → LockCfg) (st : St) (i secs : Nat) (k : String) :
    (acquireWith cfg st i secs).1.store.ent k =
      if freeFor st.store (cfg i).key (cfg i).id ∧ k = (cfg i).key
      then some ⟨(cfg i).id, some (st.store.now + leaseMs secs + st.store.grace)⟩ else st.store.ent k := by
  simp only [acquireWith, lockScript_store]
  by_cases hf : freeFor st.store (cfg i).key (cfg i).id
  · by_cases hk : k = (cfg i).key <;> simp [hf, hk, Store.setPX, upd]
  · simp [hf]

theorem acquireWith_now (cfg : Nat → LockCfg) (st : St) (i secs : Nat) :
    (acquireWith cfg st i secs).1.store.now = st.store.now := by
  simp only [acquireWith, lockScript_store]
  split <;> simp [Store.setPX]

theorem acquireWith_grace (cfg : Nat → LockCfg) (st : St) (i secs : Nat) :
    (acquireWith cfg st i secs).1.store.grace = st.store.grace := by
  simp only [acquireWith, lockScript_store]
  split <;> simp [Store.setPX]

theorem acquireWith_secs (cfg : Nat → LockCfg) (st : St) (i secs : Nat) :
    (acquireWith cfg st i secs).1.secs = st.secs := rfl

theorem acquireWith_result (cfg : Nat → LockCfg) (st : St) (i secs : Nat) :
    (acquireWith cfg st i secs).2 = true ↔ freeFor st.store (cfg i).key (cfg i).id := by
  simp only [acquireWith, lockScript_reply]; exact decide_eq_true_iff

theorem release_ent (cfg : Nat → LockCfg) (st : St) (i : Nat) (k : String) :
    (release cfg st i).1.store.ent k =
      if holds cfg st i ∧ k = (cfg i).key then none else st.store.ent k := by
  simp only [release, delScript_store, holds]
  by_cases hf : st.store.get (cfg i).key = some (cfg i).id
  · by_cases hk : k = (cfg i).key <;> simp [hf, hk, upd]
  · simp [hf]

theorem release_now (cfg : Nat → LockCfg) (st : St) (i : Nat) :
    (release cfg st i).1.store.now = st.store.now := by
  simp only [release, delScript_store]; split <;> rfl

theorem release_grace (cfg : Nat → LockCfg) (st : St) (i : Nat) :
    (release cfg st i).1.store.grace = st.store.grace := by
  simp only [release, delScript_store]; split <;> rfl

theorem release_secs (cfg : Nat → LockCfg) (st : St) (i : Nat) : (release cfg st i).1.secs = st.secs := rfl

theorem release_result (cfg : Nat → LockCfg) (st : St) (i : Nat) :
    (release cfg st i).2 = true ↔ holds cfg st i := by
  simp only [release, delScript_reply, holds]; exact decide_eq_true_iff

theorem release_unchanged (cfg : Nat → LockCfg) (st : St) (i : Nat) (h : ¬ holds cfg st i) :
    (release cfg st i).1 = st := by
  unfold holds at h
  simp [release, delScript_store, h]

theorem acquireWith_unchanged (cfg : Nat → LockCfg) (st : St) (i secs : Nat)
    (h : ¬ freeFor st.store (cfg i).key (cfg i).id) : (acquireWith cfg st i secs).1 = st := by
  simp [acquireWith, lockScript_store, h]

end GoZero.C19
