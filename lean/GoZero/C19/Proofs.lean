/-
C19 — helper lemmas: what the two scripts do to the store, in terms of `get`.
-/
import GoZero.C19.Model
import GoZero.C19.Spec
namespace GoZero.C19

/-- the key is free for `id`: not visible, or visible with `id`'s own value -/
def freeFor (s : Store) (key id : String) : Prop := s.get key = none ∨ s.get key = some id

instance (s : Store) (key id : String) : Decidable (freeFor s key id) := by unfold freeFor; infer_instance

theorem get_none_iff (s : Store) (k : String) : s.get k = none ↔ s.live k = none := by
  unfold Store.get; cases s.live k <;> simp

theorem lockScript_store (s : Store) (key id : String) (px : Nat) :
    (lockScript s key id px).1 = if freeFor s key id then s.setPX key id px else s := by
  unfold lockScript freeFor Store.setNXPX
  by_cases h : s.get key = some id
  · simp [h]
  · cases hl : s.live key with
    | none => have : s.get key = none := (get_none_iff s key).2 hl
              simp [h, hl, this]
    | some e => have : s.get key ≠ none := fun c => by rw [get_none_iff] at c; simp [hl] at c
                simp [h, hl, this]

theorem lockScript_reply (s : Store) (key id : String) (px : Nat) :
    acquireReply (lockScript s key id px).2 = decide (freeFor s key id) := by
  unfold lockScript freeFor Store.setNXPX
  by_cases h : s.get key = some id
  · simp [h, acquireReply]
  · cases hl : s.live key with
    | none => have : s.get key = none := (get_none_iff s key).2 hl
              simp [h, hl, this, acquireReply]
    | some e => have : s.get key ≠ none := fun c => by rw [get_none_iff] at c; simp [hl] at c
                simp [h, hl, this, acquireReply]

theorem delScript_store (s : Store) (key id : String) :
    (delScript s key id).1 = if s.get key = some id then { s with ent := upd s.ent key none } else s := by
  unfold delScript Store.del
  by_cases h : s.get key = some id
  · have : (s.live key).isSome = true := by
      unfold Store.get at h; cases hl : s.live key <;> simp [hl] at h ⊢
    simp [h, this]
  · simp [h]

theorem delScript_reply (s : Store) (key id : String) :
    releaseReply (delScript s key id).2 = decide (s.get key = some id) := by
  unfold delScript Store.del
  by_cases h : s.get key = some id
  · have : (s.live key).isSome = true := by
      unfold Store.get at h; cases hl : s.live key <;> simp [hl] at h ⊢
    simp [h, this, releaseReply]
  · simp [h, releaseReply]

end GoZero.C19
