/-
C19 — round 5c: the COMMAND TRACE of a call (core Lean only; used by the driver).

Which commands does one `Acquire` / `AcquireCtx` / `Release` / `ReleaseCtx` put on the wire — for every value the Go
code can be handed, every fate of the caller's context and every state of go-zero's breaker?  The model here is
at the level of the Go control flow:

  * `Row` / `realRows` — the table of every call in redislock.go that is not pure (conversions, formatting,
    logging, error inspection): per function and per BRANCH (the chain of if-conditions it sits under).  The
    extractor regenerates this table from the tree on every run (`Extracted.C19.callTable`); Tie proves it equal
    to `realRows` (`tie_callTable`).  A `rl.store.Del` on an error path, a helper that hides one, a second
    script run — each is a new row and breaks that theorem.
  * `progOfRows` — the table interpreted as a program `GProg`: it sends a wire command, gets an answer from the
    environment, and continues; rows under a condition fire when the condition holds for the value handed back
    (`condHolds`), helper methods of the same file are inlined.  `realG = progOfRows realRows`.
  * the environment is ARBITRARY (`env : Nat → Wire → Answer`): per command it decides whether go-zero's hooks let
    the command through (`breakerGate`: the breaker hook answers a context that is already done with its error,
    an open breaker with ErrServiceUnavailable — neither reaches the connection) and what comes back (NOSCRIPT,
    or any `Handed` value).  `gexec` runs a program against an environment and returns the wires attempted, with
    the gate's verdict, and the call's result.

Props.lean: `command_trace_is_the_own_script_only` — for every call, every environment: the trace is
`[EVALSHA own-script]` or `[EVALSHA own-script, EVAL own-script]` (the latter exactly when the first answer
seen was NOSCRIPT), nothing else, in particular nothing after an error.
-/
import GoZero.C19.Outcomes
namespace GoZero.C19

inductive Verb where
  | evalsha
  | eval
  | other (method : String)     -- any other method of the store client (GET, DEL, …)
  deriving Repr, DecidableEq

/-- one command a call tries to put on the wire -/
structure Wire where
  verb : Verb
  cmd  : Cmd
  deriving Repr, DecidableEq

/-- go-zero's hook chain in front of the connection (duration hook → breaker hook → user hooks → go-redis) -/
inductive GateOut where
  | pass          -- the command goes on to go-redis (pool, connection)
  | ctxErr        -- breaker hook: `case <-ctx.Done(): return ctx.Err()`
  | unavailable   -- the breaker is open: ErrServiceUnavailable
  deriving Repr, DecidableEq

/-- `breakerHook.ProcessHook` → `DoWithAcceptableCtx`: a done context first, then the breaker's own verdict -/
def breakerGate (ctxDone brkOpen : Bool) : GateOut :=
  if ctxDone then .ctxErr else if brkOpen then .unavailable else .pass

/-- what comes back for one command -/
inductive Got where
  | noscript               -- Redis' error reply NOSCRIPT (nothing executed)
  | handed (h : Handed)
  deriving Repr, DecidableEq

structure Answer where
  gate : GateOut
  got  : Got          -- only looked at when the gate lets the command pass

/-- what `Script.Run` / the Go code see: a command stopped at the gate is an error that is not NOSCRIPT -/
def Answer.seen (a : Answer) : Got :=
  match a.gate with
  | .pass => a.got
  | _ => .handed .err

/-- a call as a program over the wire; the result is (bool, an error is returned) -/
inductive GProg where
  | done (res : Bool × Bool)
  | send (w : Wire) (k : Got → GProg)

/-- run against an environment (`n` = number of the command, from 0): wires attempted with the gate's verdict, result -/
def gexec (env : Nat → Wire → Answer) : GProg → Nat → List (Wire × GateOut) × (Bool × Bool)
  | .done r, _ => ([], r)
  | .send w k, n =>
    (((w, (env n w).gate)) :: (gexec env (k (env n w).seen) (n + 1)).1, (gexec env (k (env n w).seen) (n + 1)).2)

/-- an error with the NOSCRIPT prefix answering an EVAL is just an error for the Go code -/
def Got.toHanded : Got → Handed
  | .handed h => h
  | .noscript => .err

/-- go-redis `Script.Run` + what the caller does with the final value -/
def scriptRunG (c : Cmd) (after : Handed → GProg) : GProg :=
  .send ⟨.evalsha, c⟩ fun g =>
    match g with
    | .noscript => .send ⟨.eval, c⟩ fun g' => after g'.toHanded
    | .handed h => after h

/-! ### the table of calls and its interpretation -/

structure Row where
  fn     : String                  -- function of redislock.go
  cond   : List (Bool × String)    -- if-conditions the call sits under, outermost first; `(true, c)` = the else side of `c`
  kind   : Nat                     -- 0 other (atomic, stringx, …) | 1 method of the store client `rl.store.<name>` |
                                   -- 2 method of the same receiver `rl.<m>`: `name` is the function `RedisLock.<m>`
  name   : String
  args   : List String
  deriving Repr, DecidableEq

/-- every non-pure call of redislock.go, per function and branch — what the model was written against -/
def realRows : List Row := [
  ⟨"init", [], 0, "rand.NewSource", ["time.Now().UnixNano()"]⟩,
  ⟨"init", [], 0, "time.Now().UnixNano", []⟩,
  ⟨"init", [], 0, "time.Now", []⟩,
  ⟨"NewRedisLock", [], 0, "stringx.Randn", ["randomLen"]⟩,
  ⟨"RedisLock.Acquire", [], 2, "RedisLock.AcquireCtx", ["context.Background()"]⟩,
  ⟨"RedisLock.AcquireCtx", [], 0, "atomic.LoadUint32", ["&rl.seconds"]⟩,
  ⟨"RedisLock.AcquireCtx", [], 1, "ScriptRunCtx", ["ctx", "lockScript", "[]string{rl.key}"]⟩,
  ⟨"RedisLock.Release", [], 2, "RedisLock.ReleaseCtx", ["context.Background()"]⟩,
  ⟨"RedisLock.ReleaseCtx", [], 1, "ScriptRunCtx", ["ctx", "delScript", "[]string{rl.key}"]⟩,
  ⟨"RedisLock.SetExpire", [], 0, "atomic.StoreUint32", ["&rl.seconds", "uint32(seconds)"]⟩]

/-- does an if-condition of AcquireCtx / ReleaseCtx hold for the value handed back (`none`: not understood) -/
def condHolds (h : Handed) (c : Bool × String) : Option Bool :=
  let base : Option Bool :=
    if c.2 = "errors.Is(err, red.Nil)" then some (h == .reply .nil)
    else if c.2 = "err != nil" then some (h == .err || h == .reply .nil)
    else if c.2 = "resp == nil" then some (h == .nilNoErr || h == .err || h == .reply .nil)
    else none
  if c.1 then base.map not else base

/-- a condition the model does not understand counts as holding (the call is assumed to happen) -/
def condsHold (h : Handed) (cs : List (Bool × String)) : Bool := cs.all fun c => (condHolds h c).getD true

/-- rows of `fn` with helper methods of the same receiver inlined (the rows of `RedisLock.m` under the caller's
conditions); `fuel` bounds the nesting -/
def flatRows (rows : List Row) : Nat → String → List (Bool × String) → List Row
  | 0, _, _ => []
  | fuel + 1, fn, pre =>
    (rows.filter fun r => r.fn = fn).flatMap fun r =>
      if r.kind = 2 then { r with cond := pre ++ r.cond } :: flatRows rows fuel r.name (pre ++ r.cond)
      else [{ r with cond := pre ++ r.cond }]

/-- the wire command of a store call that is not the script run -/
def otherWire (c : LockCfg) (r : Row) : Wire :=
  ⟨.other r.name,
    if r.name = "Del" ∨ r.name = "DelCtx" then .del c.key
    else if r.name = "Get" ∨ r.name = "GetCtx" then .get c.key
    else .failed⟩

/-- the store calls under a condition that fire for `h`, one after the other, then the result -/
def extras (c : LockCfg) (h : Handed) (res : Bool × Bool) : List Row → GProg
  | [] => .done res
  | r :: rs => if condsHold h r.cond then .send (otherWire c r) (fun _ => extras c h res rs) else extras c h res rs

def scriptVar : Call → String
  | .acq _ _ => "lockScript"
  | .rel _ => "delScript"

def decodeG : Call → Handed → Bool × Bool
  | .acq _ _ => acquireHanded
  | .rel _ => releaseHanded

def scriptCmdOf (c : LockCfg) : Call → Cmd
  | .acq _ s => .evalLock c.key c.id (leaseMs s)
  | .rel _ => .evalDel c.key c.id

/-- the function a call enters: the Ctx variant, or the wrapper `Acquire()` / `Release()` that delegates to it -/
def entryFn (wrapper : Bool) : Call → String
  | .acq _ _ => if wrapper then "RedisLock.Acquire" else "RedisLock.AcquireCtx"
  | .rel _ => if wrapper then "RedisLock.Release" else "RedisLock.ReleaseCtx"

/-- the rows reachable from the entry point interpreted (methods of the receiver inlined): the unconditional
script run, then the conditional store calls; `none` if the first store call is not the unconditional
`ScriptRunCtx(ctx, <own script>, []string{rl.key}, …)` -/
def progOfRows (rows : List Row) (wrapper : Bool) (c : LockCfg) (call : Call) : Option GProg :=
  match (flatRows rows 4 (entryFn wrapper call) []).filter fun r => r.kind = 1 with
  | main :: rest =>
    if main.cond = [] ∧ main.name = "ScriptRunCtx" ∧ main.args = ["ctx", scriptVar call, "[]string{rl.key}"] then
      some (scriptRunG (scriptCmdOf c call) fun h => extras c h (decodeG call h) rest)
    else none
  | [] => none

/-- the code that exists -/
def realG (cfg : Nat → LockCfg) (call : Call) : GProg :=
  scriptRunG (scriptCmd cfg call) fun h => .done (decodeG call h)

def callInst : Call → Nat
  | .acq i _ => i
  | .rel i => i

/-- the table of seeded C19-6 (a witness that the interpretation can exhibit a command on an error path):
AcquireCtx calls `rl.discard()` under `!errors.Is(err, red.Nil)`, `err != nil`; `discard` does `rl.store.Del(rl.key)` -/
def discardRows : List Row := realRows ++ [
  ⟨"RedisLock.AcquireCtx", [(true, "errors.Is(err, red.Nil)"), (false, "err != nil")], 2, "RedisLock.discard", []⟩,
  ⟨"RedisLock.discard", [], 1, "Del", ["rl.key"]⟩]

/-! ### the harness' environment and the tokens its hook prints -/

/-- the environment of the correspondence run: Redis down or up, script cached or not, the caller's context
dying immediately before command `p` (`some 0`: dead before the call — go-zero's breaker hook answers; `p ≥ 1`:
cancelled by the innermost hook after the gate, go-redis' pool refuses), the value handed for the executed script -/
def harnessEnv (down cached : Bool) (deadAt : Option Nat) (h : Handed) (n : Nat) (w : Wire) : Answer :=
  match deadAt with
  | some 0 => ⟨breakerGate true false, .handed .err⟩
  | some p =>
    if p ≤ n + 1 then ⟨.pass, .handed .err⟩
    else if down then ⟨.pass, .handed .err⟩
    else if w.verb = .evalsha ∧ ¬ cached then ⟨.pass, .noscript⟩ else ⟨.pass, .handed h⟩
  | none =>
    if down then ⟨.pass, .handed .err⟩
    else if w.verb = .evalsha ∧ ¬ cached then ⟨.pass, .noscript⟩ else ⟨.pass, .handed h⟩

/-- `cmds=` as the innermost hook prints it: commands that passed the gate, `!` = answered with an error -/
def cmdsTokens (env : Nat → Wire → Answer) : List (Wire × GateOut) → Nat → List String
  | [], _ => []
  | (w, g) :: rest, n =>
    (if g = .pass then
      [(match w.verb with
        | .evalsha => "evalsha"
        | .eval => "eval"
        | .other m => m.toLower) ++
       (match (env n w).got with
        | .noscript => "!"
        | .handed .err => "!"
        | _ => "")]
     else []) ++ cmdsTokens env rest (n + 1)

/-- the model's `cmds=` text of one call in the harness -/
def modelCmds (cfg : Nat → LockCfg) (call : Call) (down cached : Bool) (deadAt : Option Nat) (h : Handed) : String :=
  let env := harnessEnv down cached deadAt h
  let t := cmdsTokens env (gexec env (realG cfg call) 0).1 0
  if t.isEmpty then "-" else ",".intercalate t

end GoZero.C19
