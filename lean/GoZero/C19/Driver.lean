/-
C19 — driver: replays an implementation trace through the model (correspondence) and the spec (monitor).

cfg:  n=<instances> keys=<distinct keys>      instance i uses key "k{i % keys}", model id "id{i}"
ops:  ft <ms> | acquire <i> | release <i> | setexpire <i> <seconds> | ids
      race <i> <j> …      concurrent Acquire calls of distinct instances (real goroutines)
      down | up           miniredis answers every command with an error / normally again
obs:  <true|false|ok|err>  then the store as seen directly in miniredis, one token per key:
      k<j>=-  (absent)   or   k<j>=<owner>:<pttl ms>   (owner printed as id<i> of the instance whose id it is)
      race … => won=<i,j,…|-> <store>       ids => distinct len=<n>  |  dup

A race is explained as *some* order of the atomic script runs: the observed winners first, then the
others (if any order explains the outcome, this one does — theorems concurrent_acquires_*).
After a disagreement model and spec are re-synchronised to the observed store, so that every reported
line is an independent one-step disagreement (and shrinks well).
Three monitors run on the implementation's observations: results against the lease table (`Spec.explain`),
the store against the lease table, and — independent of any store reading — the exclusivity of the
callers' beliefs (`Spec.Belief`, fed with the implementation's results only).
-/
import GoZero.Base.Trace
import GoZero.C19.Spec
namespace GoZero.C19

open GoZero

inductive DOp where
  | op (o : Op)
  | race (js : List Nat)
  | ids
  | down
  | up
  deriving Repr

def parseInst (n : Nat) (s : String) : Option Nat := do
  let i ← s.toNat?
  if i < n then pure i else none

def parseOp (n : Nat) : List String → Option DOp
  | ["ft", ms] => do pure (.op (.ft (← ms.toNat?)))
  | ["acquire", i] => do pure (.op (.acquire (← parseInst n i)))
  | ["release", i] => do pure (.op (.release (← parseInst n i)))
  | ["setexpire", i, s] => do pure (.op (.setExpire (← parseInst n i) (← s.toInt?)))
  | ["ids"] => some .ids
  | ["down"] => some .down
  | ["up"] => some .up
  | "race" :: js => do
    let js ← js.mapM (parseInst n)
    if js.length ≥ 2 ∧ js.eraseDups.length = js.length then pure (.race js) else none
  | _ => none

def mkCfg (nkeys : Nat) (i : Nat) : LockCfg := { key := s!"k{i % nkeys}", id := s!"id{i}" }

def keyNames (nkeys : Nat) : List String := (List.range nkeys).map fun j => s!"k{j}"

def viewTok (k : String) : Option (String × Int) → String
  | none => s!"{k}=-"
  | some (v, t) => s!"{k}={v}:{t}"

def modelDump (st : St) (keys : List String) : String := joinSp (keys.map fun k => viewTok k (st.view k))
def specDump (a : Spec.ASt) (keys : List String) : String := joinSp (keys.map fun k => viewTok k (a.view k))

/-- parse `k=owner:pttl` / `k=-` -/
def parseView (tok : String) : Option (String × Option (String × Int)) :=
  match tok.splitOn "=" with
  | [k, "-"] => some (k, none)
  | [k, rest] =>
    match rest.splitOn ":" with
    | [v, t] => t.toInt?.map fun t => (k, some (v, t))
    | _ => none
  | _ => none

def parseDump (toks : List String) : Option (List (String × Option (String × Int))) := toks.mapM parseView

def resyncStore (now : Nat) (d : List (String × Option (String × Int))) : Store :=
  { now := now,
    ent := fun k =>
      match d.lookup k with
      | some (some (v, t)) => some { val := v, exp := if t < 0 then none else some (now + t.toNat) }
      | _ => none }

def resyncSpec (a : Spec.ASt) (d : List (String × Option (String × Int))) : Spec.ASt :=
  { a with lease := fun k =>
      match d.lookup k with
      | some (some (v, t)) => some { holder := v, till := if t < 0 then a.now + 1000000000000000000 else a.now + t.toNat }
      | _ => none }

def branchOf (cfg : Nat → LockCfg) (st : St) (won : List Nat) : Op → List String
  | .ft ms =>
    let now := st.store.now
    let exps := (won.filterMap fun i => (st.store.live (cfg i).key).bind (·.exp)).filter (· > now)
    ["ft"] ++
    (if exps.any (fun x => now + ms = x) then ["ft-lands-on-expiry"] else []) ++
    (if exps.any (fun x => now + ms + 1 = x) then ["ft-1ms-before-expiry"] else []) ++
    (if exps.any (fun x => now + ms = x + 1) then ["ft-1ms-after-expiry"] else []) ++
    (if exps.any (fun x => now + ms ≥ x) then ["ft-expires-a-lease"] else [])
  | .acquire i | .acquireS i _ =>
    match st.store.live (cfg i).key with
    | some e => if e.val = (cfg i).id then ["acquire-own-refresh"] else ["acquire-held-by-other"]
    | none =>
      match st.store.ent (cfg i).key with
      | some e => if e.val = (cfg i).id then ["acquire-free-after-own-expiry"] else ["acquire-free-after-other-expired"]
      | none => ["acquire-free"]
  | .release i =>
    match st.store.live (cfg i).key with
    | some e =>
      if e.val = (cfg i).id then ["release-by-holder"]
      else if won.contains i then ["release-late-other-holds"] else ["release-never-held-other-holds"]
    | none =>
      match st.store.ent (cfg i).key with
      | some e => if e.val = (cfg i).id then ["release-late-own-lease-expired-key-free"] else ["release-key-free"]
      | none => ["release-key-free"]
  | .setExpire _ s =>
    if s < 0 ∨ s ≥ 4294967296 then ["setexpire-wraps-uint32"] else if s = 0 then ["setexpire-0"] else ["setexpire"]

def resTok : Op → Bool → String
  | .ft _, _ => "ok"
  | .setExpire _ _, _ => "ok"
  | _, b => if b then "true" else "false"

structure DSt where
  st   : St
  sp   : Spec.ASt
  bel  : Spec.Belief := Spec.Belief.none   -- beliefs from the implementation's results
  won  : List Nat := []   -- instances that acquired successfully at least once (coverage only)
  down : Bool := false

structure Ctx where
  n     : Nat
  nkeys : Nat
  cfg   : Nat → LockCfg
  keys  : List String
  sec   : Nat
  line  : Nat
  opTxt : String
  impl  : String

/-- another instance on `i`'s key that believes (by the implementation's own answers) to hold it now -/
def otherBeliever (c : Ctx) (bel : Spec.Belief) (now : Nat) (i : Nat) : Option Nat :=
  (List.range c.n).find? fun j => j ≠ i ∧ (c.cfg j).key = (c.cfg i).key ∧ Spec.believes bel now j

/-- runs a sequence of operations that the implementation executed between two store observations:
per operation the implementation's result (`none` = the call failed with an error: nothing may change),
then the observed store. -/
def checkOps (c : Ctx) (r : Report) (d : DSt) (ops : List (Op × Option Bool)) (dump : List String)
    (modelHead : List Bool → String) : Report × DSt := Id.run do
  let mut r := r
  let mut st := d.st
  let mut sp := d.sp
  let mut bel := d.bel
  let mut won := d.won
  let mut mres : List Bool := []
  let mut flagged := false
  for (op, implB) in ops do
    match implB with
    | none => r := r.addCover "call-failed-with-error"
    | some b =>
      for br in branchOf c.cfg st won op do r := r.addCover br
      let (st', m) := step c.cfg st op
      mres := mres ++ [m]
      -- monitor 1: the result, in the property's words
      match Spec.explain c.cfg sp op b with
      | some msg =>
        r := r.violation c.sec c.line s!"{msg} op=[{c.opTxt}] impl=[{c.impl}]"
        flagged := true
      | none => pure ()
      -- monitor 3: beliefs (results and clock only)
      bel := bel.step sp.now sp.secs op b
      match op with
      | .acquire i =>
        if b then
          match otherBeliever c bel sp.now i with
          | some j =>
            if !flagged then
              r := r.violation c.sec c.line s!"two holders: instance {i} was granted {(c.cfg i).key} while instance {j} still holds an unexpired lease it was granted earlier op=[{c.opTxt}] impl=[{c.impl}]"
              flagged := true
          | none => pure ()
          if !won.contains i then won := i :: won
      | _ => pure ()
      sp := (Spec.step c.cfg sp op).1
      st := st'
  -- correspondence: results + store
  let model := joinSp [modelHead mres, modelDump st c.keys]
  let pd := parseDump dump
  if model ≠ c.impl then
    r := r.mismatch c.sec c.line model c.impl
    match pd with
    | some pd => st := { st with store := resyncStore st.store.now pd }
    | none => pure ()
  -- monitor 2: the store
  let want := specDump sp c.keys
  if want ≠ joinSp dump then
    if !flagged then
      let what :=
        match ops with
        | [(.acquire _, some true)] => "lease after a successful Acquire is not seconds*1000+500 ms for this holder"
        | [(.acquire _, some false)] => "a refused Acquire changed the lock"
        | [(.release _, some true)] => "Release by the holder did not free exactly its key"
        | [(.release _, some false)] => "a Release that reported false changed the lock (late or foreign release must be harmless)"
        | [(.ft _, _)] => "lease did not run down with the clock"
        | [(_, none)] => "a call that failed with an error changed the lock"
        | _ => "store after the operation is not what the lease table says"
      r := r.violation c.sec c.line s!"{what}: spec=[{want}] impl=[{joinSp dump}] op=[{c.opTxt}]"
    match pd with
    | some pd => sp := resyncSpec sp pd
    | none => pure ()
  return (r, { d with st := st, sp := sp, bel := bel, won := won })

def parseWon (n : Nat) (tok : String) : Option (List Nat) :=
  match tok.splitOn "=" with
  | ["won", "-"] => some []
  | ["won", l] => (l.splitOn ",").mapM (parseInst n)
  | _ => none

def wonTok (l : List Nat) : String :=
  if l.isEmpty then "won=-" else "won=" ++ ",".intercalate ((sortNat l).map toString)

def runSection (r : Report) (s : Section) : Report := Id.run do
  let n := kvNat s.cfg "n" 0
  let nkeys := kvNat s.cfg "keys" 0
  let mut r := r
  if n = 0 ∨ nkeys = 0 then
    return r.mismatch s.idx 0 "bad-cfg" (joinSp s.cfg)
  let cfg := mkCfg nkeys
  let keys := keyNames nkeys
  let mut d : DSt := { st := St.init, sp := Spec.ASt.init }
  for l in s.lines do
    let impl := joinSp l.obs
    let c : Ctx := { n := n, nkeys := nkeys, cfg := cfg, keys := keys, sec := s.idx, line := l.idx,
                     opTxt := joinSp l.op, impl := impl }
    match parseOp n l.op with
    | none => r := r.mismatch s.idx l.idx "bad-op" (joinSp l.op)
    | some .ids =>
      r := { r with ops := r.ops + 1 }
      r := r.addCover "ids"
      if impl ≠ "distinct len=16" then
        r := r.mismatch s.idx l.idx "distinct len=16" impl
        if impl = "dup" then
          r := r.violation s.idx l.idx "two RedisLock instances got the same id: they can hold the key at the same time"
    | some .down =>
      r := { r with ops := r.ops + 1 }
      r := r.addCover "down"
      d := { d with down := true }
      if impl ≠ "ok" then r := r.mismatch s.idx l.idx "ok" impl
    | some .up =>
      r := { r with ops := r.ops + 1 }
      r := r.addCover "up"
      d := { d with down := false }
      if impl ≠ "ok" then r := r.mismatch s.idx l.idx "ok" impl
    | some (.race js) =>
      r := { r with ops := r.ops + 1 }
      match l.obs with
      | wt :: dump =>
        if wt = "err" ∧ d.down then
          let (r', d') := checkOps c r d (js.map fun j => (Op.acquire j, none)) dump (fun _ => "err")
          r := r'; d := d'
          r := r.addCover "race-while-down"
        else
        match parseWon n wt with
        | none => r := r.mismatch s.idx l.idx "won=…" impl
        | some ws =>
          let ws := ws.filter js.contains
          let losers := js.filter fun j => !ws.contains j
          let order := (ws.map fun j => (Op.acquire j, some true)) ++ (losers.map fun j => (Op.acquire j, some false))
          r := r.addCover s!"race-{js.length}"
          r := r.addCover (if ws.length = 0 then "race-no-winner" else if ws.length = 1 then "race-one-winner" else "race-several-winners(keys)")
          -- the model's answer: winners among `order` when the scripts run in this order
          let head := fun (m : List Bool) => wonTok ((order.zip m).filterMap fun ((op, _), b) =>
            match op with
            | .acquire j => if b then some j else none
            | _ => none)
          let (r', d') := checkOps c r d order dump head
          r := r'; d := d'
      | [] => r := r.mismatch s.idx l.idx "won=…" impl
    | some (.op op) =>
      r := { r with ops := r.ops + 1 }
      match l.obs with
      | [] => r := r.mismatch s.idx l.idx "<result> <store>" impl
      | res :: dump =>
        let isCall : Bool := match op with
          | .acquire _ => true
          | .release _ => true
          | _ => false
        if d.down && isCall then
          -- the round trip fails: AcquireCtx / ReleaseCtx return (false, err); nothing reaches the store
          let (r', d') := checkOps c r d [(op, none)] dump (fun _ => "err")
          r := r'; d := d'
        else
          let implB : Option Bool :=
            match res with
            | "true" => some true
            | "false" => some false
            | "ok" => some true
            | _ => none
          match implB with
          | none =>
            r := r.addCover s!"result-{res}"
            r := r.mismatch s.idx l.idx "<true|false|ok>" impl
          | some b =>
            let (r', d') := checkOps c r d [(op, some b)] dump (fun m => resTok op (m.headD true))
            r := r'; d := d'
  return r

def driver (secs : List Section) : Report := secs.foldl runSection {}

end GoZero.C19
