/-
C19 — driver: replays an implementation trace through the model (correspondence) and the spec (monitor).

cfg:  n=<instances> keys=<distinct keys>      instance i uses key "k{i % keys}", model id "id{i}"
ops:  ft <ms> | acquire <i> | release <i> | setexpire <i> <seconds> | ids
obs:  <true|false|ok|err>  then the store as seen directly in miniredis, one token per key:
      k<j>=-  (absent)   or   k<j>=<owner>:<pttl ms>   (owner printed as id<i> of the instance whose id it is)
      ids => distinct len=<n>  |  dup
After a disagreement model and spec are re-synchronised to the observed store, so that every reported
line is an independent one-step disagreement (and shrinks well).
-/
import GoZero.Base.Trace
import GoZero.C19.Spec
namespace GoZero.C19

open GoZero

inductive DOp where
  | op (o : Op)
  | ids
  deriving Repr

def parseOp (n : Nat) : List String → Option DOp
  | ["ft", ms] => do pure (.op (.ft (← ms.toNat?)))
  | ["acquire", i] => do let i ← i.toNat?; if i < n then pure (.op (.acquire i)) else none
  | ["release", i] => do let i ← i.toNat?; if i < n then pure (.op (.release i)) else none
  | ["setexpire", i, s] => do let i ← i.toNat?; if i < n then pure (.op (.setExpire i (← s.toInt?))) else none
  | ["ids"] => some .ids
  | _ => none

def mkCfg (nkeys : Nat) (i : Nat) : LockCfg := { key := s!"k{i % nkeys}", id := s!"id{i}" }

def keyNames (nkeys : Nat) : List String := (List.range nkeys).map fun j => s!"k{j}"

def viewTok (k : String) : Option (String × Int) → String
  | none => s!"{k}=-"
  | some (v, t) => s!"{k}={v}:{t}"

def modelDump (st : St) (keys : List String) : String := joinSp (keys.map fun k => viewTok k (st.view k))
def specDump (a : Spec.ASt) (keys : List String) : String := joinSp (keys.map fun k => viewTok k (a.view k))

/-- parse `k=owner:pttl` / `k=-` -/
def parseView (tok : String) : Option (String × Option (String × Int)) :=
  match tok.splitOn "=" with
  | [k, "-"] => some (k, none)
  | [k, rest] =>
    match rest.splitOn ":" with
    | [v, t] => t.toInt?.map fun t => (k, some (v, t))
    | _ => none
  | _ => none

def parseDump (toks : List String) : Option (List (String × Option (String × Int))) := toks.mapM parseView

def resyncStore (now : Nat) (d : List (String × Option (String × Int))) : Store :=
  { now := now,
    ent := fun k =>
      match d.lookup k with
      | some (some (v, t)) => some { val := v, exp := if t < 0 then none else some (now + t.toNat) }
      | _ => none }

def resyncSpec (a : Spec.ASt) (d : List (String × Option (String × Int))) : Spec.ASt :=
  { a with lease := fun k =>
      match d.lookup k with
      | some (some (v, t)) => some { holder := v, till := if t < 0 then a.now + 1000000000000000000 else a.now + t.toNat }
      | _ => none }

def branchOf (cfg : Nat → LockCfg) (st : St) (won : List Nat) : Op → List String
  | .ft ms =>
    let now := st.store.now
    let exps := (won.filterMap fun i => (st.store.live (cfg i).key).bind (·.exp)).filter (· > now)
    ["ft"] ++
    (if exps.any (fun x => now + ms = x) then ["ft-lands-on-expiry"] else []) ++
    (if exps.any (fun x => now + ms + 1 = x) then ["ft-1ms-before-expiry"] else []) ++
    (if exps.any (fun x => now + ms = x + 1) then ["ft-1ms-after-expiry"] else []) ++
    (if exps.any (fun x => now + ms ≥ x) then ["ft-expires-a-lease"] else [])
  | .acquire i =>
    match st.store.live (cfg i).key with
    | some e => if e.val = (cfg i).id then ["acquire-own-refresh"] else ["acquire-held-by-other"]
    | none =>
      match st.store.ent (cfg i).key with
      | some e => if e.val = (cfg i).id then ["acquire-free-after-own-expiry"] else ["acquire-free-after-other-expired"]
      | none => ["acquire-free"]
  | .release i =>
    match st.store.live (cfg i).key with
    | some e =>
      if e.val = (cfg i).id then ["release-by-holder"]
      else if won.contains i then ["release-late-other-holds"] else ["release-never-held-other-holds"]
    | none =>
      match st.store.ent (cfg i).key with
      | some e => if e.val = (cfg i).id then ["release-late-own-lease-expired-key-free"] else ["release-key-free"]
      | none => ["release-key-free"]
  | .setExpire _ s =>
    if s < 0 ∨ s ≥ 4294967296 then ["setexpire-wraps-uint32"] else if s = 0 then ["setexpire-0"] else ["setexpire"]

def resTok : Op → Bool → String
  | .ft _, _ => "ok"
  | .setExpire _ _, _ => "ok"
  | _, b => if b then "true" else "false"

structure DSt where
  st  : St
  sp  : Spec.ASt
  won : List Nat          -- instances that acquired successfully at least once (coverage only)

def runSection (r : Report) (s : Section) : Report := Id.run do
  let n := kvNat s.cfg "n" 0
  let nkeys := kvNat s.cfg "keys" 0
  let mut r := r
  if n = 0 ∨ nkeys = 0 then
    return r.mismatch s.idx 0 "bad-cfg" (joinSp s.cfg)
  let cfg := mkCfg nkeys
  let keys := keyNames nkeys
  let mut d : DSt := { st := St.init, sp := Spec.ASt.init, won := [] }
  for l in s.lines do
    match parseOp n l.op with
    | none => r := r.mismatch s.idx l.idx "bad-op" (joinSp l.op)
    | some .ids =>
      r := { r with ops := r.ops + 1 }
      r := r.addCover "ids"
      let impl := joinSp l.obs
      if impl ≠ "distinct len=16" then
        r := r.mismatch s.idx l.idx "distinct len=16" impl
        if impl = "dup" then
          r := r.violation s.idx l.idx "two RedisLock instances got the same id: they can hold the key at the same time"
    | some (.op op) =>
      r := { r with ops := r.ops + 1 }
      for b in branchOf cfg d.st d.won op do r := r.addCover b
      let (st', mres) := step cfg d.st op
      let (sp', _) := Spec.step cfg d.sp op
      let impl := joinSp l.obs
      let model := joinSp [resTok op mres, modelDump st' keys]
      let mut st' := st'
      let mut sp' := sp'
      -- monitor: result, then resulting store, against the spec
      match l.obs with
      | [] =>
        r := r.mismatch s.idx l.idx model impl
        d := { d with st := st', sp := sp' }
      | res :: dump =>
        let pd := parseDump dump
        if model ≠ impl then
          r := r.mismatch s.idx l.idx model impl
          match pd with
          | some pd => st' := { st' with store := resyncStore st'.store.now pd }
          | none => pure ()
        let implB : Option Bool :=
          match res with
          | "true" => some true | "false" => some false | "ok" => some true | _ => none
        match implB with
        | none => r := r.addCover s!"result-{res}"
        | some b =>
          let mut bad := false
          match Spec.explain cfg d.sp op b with
          | some msg =>
            r := r.violation s.idx l.idx s!"{msg} op=[{joinSp l.op}] impl=[{impl}]"
            bad := true
          | none =>
            let want := specDump sp' keys
            if want ≠ joinSp dump then
              let what :=
                match op with
                | .acquire _ => if b then "lease after a successful Acquire is not seconds*1000+500 ms for this holder"
                                else "a refused Acquire changed the lock"
                | .release _ => if b then "Release by the holder did not free exactly its key"
                                else "a Release that reported false changed the lock (late or foreign release must be harmless)"
                | .ft _ => "lease did not run down with the clock"
                | .setExpire _ _ => "SetExpire touched the store"
              r := r.violation s.idx l.idx s!"{what}: spec=[{want}] impl=[{joinSp dump}] op=[{joinSp l.op}]"
              bad := true
          if bad then
            match pd with
            | some pd => sp' := resyncSpec sp' pd
            | none => pure ()
        let won := match op with
          | .acquire i => if mres ∧ !d.won.contains i then i :: d.won else d.won
          | _ => d.won
        d := { st := st', sp := sp', won := won }
  return r

def driver (secs : List Section) : Report := secs.foldl runSection {}

end GoZero.C19
