/-
C19 — driver: replays an implementation trace through the model (correspondence) and the spec (monitor).

cfg:  n=<instances> keys=<distinct keys> [lazy=<m>]   instance i uses key "k{i % keys}", model id "id{i}"; the last
                          m instances are constructed by `new <i>` in the middle of the history
ops:  ft <ms> | acquire <i> | release <i> | setexpire <i> <seconds> | ids
      acquirectx <i> | releasectx <i>    the same calls entered through AcquireCtx / ReleaseCtx (same model step)
      mass <m>            m further NewRedisLock calls: ids pairwise distinct? => <distinct|dup> len=<16|other> <store>
      new <i>             NewRedisLock of a lazy instance => distinct len=16 <store> | dup <store>
                          (the model's instance i has `seconds = 0` until its own SetExpire: nothing is inherited)
      race <i> <j> …      concurrent Acquire calls of distinct instances (real goroutines)
      scriptflush         Redis drops its script cache (next script run: EVALSHA→NOSCRIPT, then EVAL)
      down | up           miniredis answers every command with an error / normally again
      inj <p> <acquire i|release i> [ <op> ; <op> … ]
                          the bracketed operations were executed immediately before the p-th Redis command of
                          the call (after the call if it sent fewer): other instances' operations and clock
                          advances BETWEEN the round trips of one call (go-redis hook in the harness)
      lost <acquire i|release i>   the reply of the executed command was dropped: the caller saw an error
      reply <kind> <acquire i|release i|acquirectx i|releasectx i>
                          Redis executed the call's script; the hook then handed the Go code <kind> instead of the
                          real reply: nil | wrapnil (red.Nil bare / wrapped with %w) | nilval (resp == nil, no error) |
                          err | typednil (errors that are not red.Nil) | s:<text> | i:<int>     => <res> cmds=… <store>
      ctx <cancel|expired|far> <p> <acquire i|release i>
                          the call entered through AcquireCtx / ReleaseCtx with a caller's context: cancelled
                          immediately before the call's p-th Redis command (p = 0: before the call), a deadline
                          that has already passed, or a deadline far in the future           => <res> cmds=… <store>
      a result `err+true` = the call returned an error AND true (never allowed: "reports false otherwise")
obs:  <true|false|ok|err>  then the store as seen directly in miniredis, one token per key:
      k<j>=-  (absent)   or   k<j>=<owner>:<pttl ms>   (owner printed as id<i> of the instance whose id it is)
      race … => won=<i,j,…|-> <store>       ids => distinct len=<n>  |  dup
      inj … => <res> cmds=<sent commands, `!` = answered with an error> at=<p|after> inner=<res,…> <store>
      lost … => err cmds=<…> <store>

An `inj` line is checked twice.  Correspondence: the model runs the same schedule in the command-level
semantics (`runInj real`, Cmds.lean): the code that exists sends ONE executing command per call (EVALSHA, or
EVAL after a NOSCRIPT answer — which of the two is an observed environment input), so the operations
placed before it precede the call's single atomic step and everything else follows it.  Monitor
(model-independent): the implementation's results and final store must be explained by the lease table of
the specification with the call taking effect atomically at SOME point among the operations that ran
during it (linearizability); if no placement explains them, the disagreement at the call's last command is
reported in the property's words (e.g. "Release … reported true but k0 is held by id1").

A race is explained as *some* order of the atomic script runs: the observed winners first, then the
others (if any order explains the outcome, this one does — theorems concurrent_acquires_*).
After a disagreement model and spec are re-synchronised to the observed store, so that every reported
line is an independent one-step disagreement (and shrinks well).
Three monitors run on the implementation's observations: results against the lease table (`Spec.explain`),
the store against the lease table, and — independent of any store reading — the exclusivity of the
callers' beliefs (`Spec.Belief`, fed with the implementation's results only).
-/
import GoZero.Base.Trace
import GoZero.C19.Spec
import GoZero.C19.Cmds
import GoZero.C19.Outcomes
import GoZero.C19.CmdTrace
namespace GoZero.C19

open GoZero

inductive DOp where
  | op (o : Op)
  | race (js : List Nat)
  | ids
  | down
  | up
  | scriptflush
  | inj (p : Nat) (outer : Op) (inner : List Op)
  | lost (outer : Op)
  | new (i : Nat)
  | mass (m : Nat)
  | reply (kind : String) (h : Handed) (outer : Op)
  | ctx (kind : String) (p : Nat) (outer : Op)
  deriving Repr

def parseInst (n : Nat) (s : String) : Option Nat := do
  let i ← s.toNat?
  if i < n then pure i else none

def parseSimple (n : Nat) : List String → Option Op
  | ["ft", ms] => do pure (.ft (← ms.toNat?))
  | ["acquire", i] => do pure (.acquire (← parseInst n i))
  | ["release", i] => do pure (.release (← parseInst n i))
  | ["acquirectx", i] => do pure (.acquire (← parseInst n i))
  | ["releasectx", i] => do pure (.release (← parseInst n i))
  | ["setexpire", i, s] => do pure (.setExpire (← parseInst n i) (← s.toInt?))
  | _ => none

def parseCall (n : Nat) : List String → Option Op
  | ["acquire", i] => do pure (.acquire (← parseInst n i))
  | ["release", i] => do pure (.release (← parseInst n i))
  | ["acquirectx", i] => do pure (.acquire (← parseInst n i))
  | ["releasectx", i] => do pure (.release (← parseInst n i))
  | _ => none

/-- split a token list at `;` -/
def splitSemi (toks : List String) : List (List String) :=
  let r := toks.foldl (fun (acc : List (List String) × List String) t =>
    if t = ";" then (acc.1 ++ [acc.2], []) else (acc.1, acc.2 ++ [t])) ([], [])
  r.1 ++ [r.2]

def parseOp (n : Nat) : List String → Option DOp
  | "inj" :: p :: call :: i :: "[" :: rest => do
    let p ← p.toNat?
    let outer ← parseCall n [call, i]
    if p = 0 ∨ rest.getLast? ≠ some "]" then none
    let inner ← (splitSemi rest.dropLast).mapM (parseSimple n)
    pure (.inj p outer inner)
  | ["lost", call, i] => do pure (.lost (← parseCall n [call, i]))
  | ["reply", kind, call, i] => do pure (.reply kind (← parseHanded kind) (← parseCall n [call, i]))
  | ["ctx", kind, p, call, i] => do
    if kind ≠ "cancel" ∧ kind ≠ "expired" ∧ kind ≠ "far" then none
    pure (.ctx kind (← p.toNat?) (← parseCall n [call, i]))
  | ["ft", ms] => do pure (.op (.ft (← ms.toNat?)))
  | ["acquire", i] => do pure (.op (.acquire (← parseInst n i)))
  | ["release", i] => do pure (.op (.release (← parseInst n i)))
  | ["acquirectx", i] => do pure (.op (.acquire (← parseInst n i)))
  | ["releasectx", i] => do pure (.op (.release (← parseInst n i)))
  | ["new", i] => do pure (.new (← parseInst n i))
  | ["mass", m] => do
    let m ← m.toNat?
    if 1 ≤ m ∧ m ≤ 100000 then pure (.mass m) else none
  | ["setexpire", i, s] => do pure (.op (.setExpire (← parseInst n i) (← s.toInt?)))
  | ["ids"] => some .ids
  | ["down"] => some .down
  | ["scriptflush"] => some .scriptflush
  | ["up"] => some .up
  | "race" :: js => do
    let js ← js.mapM (parseInst n)
    if js.length ≥ 2 ∧ js.eraseDups.length = js.length then pure (.race js) else none
  | _ => none

def mkCfg (nkeys : Nat) (i : Nat) : LockCfg := { key := s!"k{i % nkeys}", id := s!"id{i}" }

def keyNames (nkeys : Nat) : List String := (List.range nkeys).map fun j => s!"k{j}"

def viewTok (k : String) : Option (String × Int) → String
  | none => s!"{k}=-"
  | some (v, t) => s!"{k}={v}:{t}"

def modelDump (st : St) (keys : List String) : String := joinSp (keys.map fun k => viewTok k (st.view k))
def specDump (a : Spec.ASt) (keys : List String) : String := joinSp (keys.map fun k => viewTok k (a.view k))

/-- parse `k=owner:pttl` / `k=-` -/
def parseView (tok : String) : Option (String × Option (String × Int)) :=
  match tok.splitOn "=" with
  | [k, "-"] => some (k, none)
  | [k, rest] =>
    match rest.splitOn ":" with
    | [v, t] => t.toInt?.map fun t => (k, some (v, t))
    | _ => none
  | _ => none

def parseDump (toks : List String) : Option (List (String × Option (String × Int))) := toks.mapM parseView

def resyncStore (now : Nat) (d : List (String × Option (String × Int))) : Store :=
  { now := now,
    ent := fun k =>
      match d.lookup k with
      | some (some (v, t)) => some { val := v, exp := if t < 0 then none else some (now + t.toNat) }
      | _ => none }

def resyncSpec (a : Spec.ASt) (d : List (String × Option (String × Int))) : Spec.ASt :=
  { a with lease := fun k =>
      match d.lookup k with
      | some (some (v, t)) => some { holder := v, till := if t < 0 then a.now + 1000000000000000000 else a.now + t.toNat }
      | _ => none }

def branchOf (cfg : Nat → LockCfg) (st : St) (won : List Nat) : Op → List String
  | .ft ms =>
    let now := st.store.now
    let exps := (won.filterMap fun i => (st.store.live (cfg i).key).bind (·.exp)).filter (· > now)
    ["ft"] ++
    (if exps.any (fun x => now + ms = x) then ["ft-lands-on-expiry"] else []) ++
    (if exps.any (fun x => now + ms + 1 = x) then ["ft-1ms-before-expiry"] else []) ++
    (if exps.any (fun x => now + ms = x + 1) then ["ft-1ms-after-expiry"] else []) ++
    (if exps.any (fun x => now + ms ≥ x) then ["ft-expires-a-lease"] else [])
  | .acquire i | .acquireS i _ =>
    (match st.store.live (cfg i).key with
    | some e => if e.val = (cfg i).id then ["acquire-own-refresh"] else ["acquire-held-by-other"]
    | none =>
      match st.store.ent (cfg i).key with
      | some e => if e.val = (cfg i).id then ["acquire-free-after-own-expiry"] else ["acquire-free-after-other-expired"]
      | none => ["acquire-free"]) ++
    (if leaseMs (st.secs i) ≥ 4294967296 then ["acquire-lease-ms-beyond-uint32"]
     else if leaseMs (st.secs i) ≥ 2147483648 then ["acquire-lease-ms-beyond-int32"] else [])
  | .release i =>
    match st.store.live (cfg i).key with
    | some e =>
      if e.val = (cfg i).id then ["release-by-holder"]
      else if won.contains i then ["release-late-other-holds"] else ["release-never-held-other-holds"]
    | none =>
      match st.store.ent (cfg i).key with
      | some e => if e.val = (cfg i).id then ["release-late-own-lease-expired-key-free"] else ["release-key-free"]
      | none => ["release-key-free"]
  | .setExpire _ s =>
    (if s < 0 ∨ s ≥ 4294967296 then ["setexpire-wraps-uint32"] else if s = 0 then ["setexpire-0"] else ["setexpire"]) ++
    (if [0, 1, 65535, 65536, 2147483, 2147484, 4294967, 4294968, 2147483647, 2147483648, 4294967295].contains s
       then [s!"setexpire-boundary-{s}"] else [])

def resTok : Op → Bool → String
  | .ft _, _ => "ok"
  | .setExpire _ _, _ => "ok"
  | _, b => if b then "true" else "false"

structure DSt where
  st   : St
  sp   : Spec.ASt
  bel  : Spec.Belief := Spec.Belief.none   -- beliefs from the implementation's results
  won  : List Nat := []   -- instances that acquired successfully at least once (coverage only)
  down : Bool := false
  made : List Nat := []   -- lazy instances constructed so far (`new`)

structure Ctx where
  n     : Nat
  nkeys : Nat
  cfg   : Nat → LockCfg
  keys  : List String
  sec   : Nat
  line  : Nat
  opTxt : String
  impl  : String

/-- another instance on `i`'s key that believes (by the implementation's own answers) to hold it now -/
def otherBeliever (c : Ctx) (bel : Spec.Belief) (now : Nat) (i : Nat) : Option Nat :=
  (List.range c.n).find? fun j => j ≠ i ∧ (c.cfg j).key = (c.cfg i).key ∧ Spec.believes bel now j

/-- runs a sequence of operations that the implementation executed between two store observations:
per operation the implementation's result (`none` = the call failed with an error: nothing may change),
then the observed store. -/
def checkOps (c : Ctx) (r : Report) (d : DSt) (ops : List (Op × Option Bool)) (dump : List String)
    (modelHead : List Bool → String) : Report × DSt := Id.run do
  let mut r := r
  let mut st := d.st
  let mut sp := d.sp
  let mut bel := d.bel
  let mut won := d.won
  let mut mres : List Bool := []
  let mut flagged := false
  for (op, implB) in ops do
    match implB with
    | none => r := r.addCover "call-failed-with-error"
    | some b =>
      for br in branchOf c.cfg st won op do r := r.addCover br
      let (st', m) := step c.cfg st op
      mres := mres ++ [m]
      -- monitor 1: the result, in the property's words
      match Spec.explain c.cfg sp op b with
      | some msg =>
        r := r.violation c.sec c.line s!"{msg} op=[{c.opTxt}] impl=[{c.impl}]"
        flagged := true
      | none => pure ()
      -- monitor 3: beliefs (results and clock only)
      bel := bel.step sp.now sp.secs op b
      match op with
      | .acquire i =>
        if b then
          match otherBeliever c bel sp.now i with
          | some j =>
            if !flagged then
              r := r.violation c.sec c.line s!"two holders: instance {i} was granted {(c.cfg i).key} while instance {j} still holds an unexpired lease it was granted earlier op=[{c.opTxt}] impl=[{c.impl}]"
              flagged := true
          | none => pure ()
          if !won.contains i then won := i :: won
      | _ => pure ()
      sp := (Spec.step c.cfg sp op).1
      st := st'
  -- correspondence: results + store
  let model := joinSp [modelHead mres, modelDump st c.keys]
  let pd := parseDump dump
  if model ≠ c.impl then
    r := r.mismatch c.sec c.line model c.impl
    match pd with
    | some pd => st := { st with store := resyncStore st.store.now pd }
    | none => pure ()
  -- monitor 2: the store
  let want := specDump sp c.keys
  if want ≠ joinSp dump then
    if !flagged then
      let what :=
        match ops with
        | [(.acquire _, some true)] => "lease after a successful Acquire is not seconds*1000+500 ms for this holder"
        | [(.acquire _, some false)] => "a refused Acquire changed the lock"
        | [(.release _, some true)] => "Release by the holder did not free exactly its key"
        | [(.release _, some false)] => "a Release that reported false changed the lock (late or foreign release must be harmless)"
        | [(.ft _, _)] => "lease did not run down with the clock"
        | [(_, none)] => "a call that failed with an error changed the lock"
        | _ => "store after the operation is not what the lease table says"
      r := r.violation c.sec c.line s!"{what}: spec=[{want}] impl=[{joinSp dump}] op=[{c.opTxt}]"
    match pd with
    | some pd => sp := resyncSpec sp pd
    | none => pure ()
  return (r, { d with st := st, sp := sp, bel := bel, won := won })

/-! ### `inj` and `lost` lines -/

/-- a printed result: `some (some b)`, `some none` = failed with an error, `none` = unparsable -/
def resOfTok : String → Option (Option Bool)
  | "true" => some (some true)
  | "false" => some (some false)
  | "ok" => some (some true)
  | "err" => some none
  | _ => none

def tokOfRes (op : Op) : Option Bool → String
  | none => "err"
  | some b => resTok op b

def afterPrefix (pre tok : String) : Option String :=
  if tok.startsWith pre then some ((tok.drop pre.length).toString) else none

def listTok (s : String) : List String := if s = "-" ∨ s = "" then [] else s.splitOn ","

def isCallOp : Op → Bool
  | .acquire _ => true
  | .release _ => true
  | .acquireS _ _ => true
  | _ => false

/-- the lease table replayed over operations with the implementation's results (`none` = the call failed
with an error: it must not have had an effect); the first disagreement, in the property's words -/
def specSeq (cfg : Nat → LockCfg) : Spec.ASt → List (Op × Option Bool) → Option String × Spec.ASt
  | a, [] => (none, a)
  | a, (_, none) :: rest => specSeq cfg a rest
  | a, (op, some b) :: rest =>
    match Spec.explain cfg a op b with
    | some msg => (some msg, a)
    | none => specSeq cfg (Spec.step cfg a op).1 rest

/-- does the lease table explain these results and the store seen afterwards? `none` = yes -/
def specExplains (cfg : Nat → LockCfg) (keys : List String) (a : Spec.ASt) (ops : List (Op × Option Bool))
    (dump : String) : Option String :=
  match specSeq cfg a ops with
  | (some msg, _) => some msg
  | (none, a') =>
    if specDump a' keys = dump then none
    else some s!"the lock afterwards is not what the lease table says: spec=[{specDump a' keys}] impl=[{dump}]"

/-- the call under observation as it appears in a history: an Acquire with the `seconds` it loaded -/
def placeOuter (outer : Op) (s : Nat) : Op :=
  match outer with
  | .acquire i => .acquireS i s
  | o => o

/-- `seconds` values an Acquire taking effect after `before` may legitimately have loaded: the value at the
start of the call or any value a SetExpire on the same instance stored since -/
def secsCands (a : Spec.ASt) (outer : Op) (before : List Op) : List Nat :=
  match outer with
  | .acquire i =>
    (a.secs i :: before.filterMap fun o =>
      match o with
      | .setExpire j v => if j = i then some (toUint32 v) else none
      | _ => none).eraseDups
  | _ => [0]

def placed (outer : Op) (ob : Option Bool) (inner : List (Op × Option Bool)) (pos s : Nat) :
    List (Op × Option Bool) :=
  inner.take pos ++ [(placeOuter outer s, ob)] ++ inner.drop pos

/-- all atomic placements of the call among the operations that ran during it -/
def placements (a : Spec.ASt) (outer : Op) (inner : List Op) : List (Nat × Nat) :=
  (List.range (inner.length + 1)).flatMap fun pos => (secsCands a outer (inner.take pos)).map fun s => (pos, s)

/-- **linearizability monitor**: some placement explains results and store -/
def linearize (cfg : Nat → LockCfg) (keys : List String) (a : Spec.ASt) (outer : Op) (ob : Option Bool)
    (inner : List (Op × Option Bool)) (dump : String) : Option (Nat × Nat) :=
  (placements a outer (inner.map (·.1))).find? fun ps =>
    (specExplains cfg keys a (placed outer ob inner ps.1 ps.2) dump).isNone

/-- replays a placed sequence for the beliefs monitor and the spec state.  The observed call's belief is
counted from the START of the call (`now0`): the caller cannot know when inside the call the script ran. -/
def beliefSeq (c : Ctx) (r : Report) (sp : Spec.ASt) (bel : Spec.Belief) (won : List Nat) (outerPos : Nat)
    (seq : List (Op × Option Bool)) (flagged : Bool) : Report × Spec.ASt × Spec.Belief × List Nat := Id.run do
  let mut r := r
  let mut sp := sp
  let mut bel := bel
  let mut won := won
  let mut flagged := flagged
  let now0 := sp.now
  let mut idx := 0
  for (op, ob) in seq do
    match ob with
    | none =>
      -- failed call: whatever the caller believed about this lock it can no longer rely on
      match op with
      | .acquire i | .acquireS i _ | .release i => bel := Spec.updB bel i none
      | _ => pure ()
    | some b =>
      bel := bel.step (if idx = outerPos then now0 else sp.now) sp.secs op b
      let who : Option Nat := match op with
        | .acquire i => some i
        | .acquireS i _ => some i
        | _ => none
      match who with
      | some i =>
        if b then
          match otherBeliever c bel sp.now i with
          | some j =>
            if !flagged then
              r := r.violation c.sec c.line s!"two holders: instance {i} was granted {(c.cfg i).key} while instance {j} still holds an unexpired lease it was granted earlier op=[{c.opTxt}] impl=[{c.impl}]"
              flagged := true
          | none => pure ()
          if !won.contains i then won := i :: won
      | none => pure ()
      sp := (Spec.step c.cfg sp op).1
    idx := idx + 1
  return (r, sp, bel, won)

def cmdsText (cached : Bool) : String := if cached then "evalsha" else "evalsha!,eval"

/-- an `inj` line -/
def checkInj (c : Ctx) (r : Report) (d : DSt) (p : Nat) (outer : Op) (inner : List Op) (obs : List String) :
    Report × DSt := Id.run do
  let mut r := r
  let bad := (r.mismatch c.sec c.line "<res> cmds=… at=… inner=… <store>" c.impl, d)
  match obs with
  | resT :: cmdsT :: atT :: innerT :: dump =>
    let some cmdsS := afterPrefix "cmds=" cmdsT | return bad
    let some atS := afterPrefix "at=" atT | return bad
    let some innerS := afterPrefix "inner=" innerT | return bad
    let some ob := resOfTok resT | return bad
    let some innerRes := (listTok innerS).mapM resOfTok | return bad
    if innerRes.length ≠ inner.length then return bad
    let cmds := listTok cmdsS
    let innerObs := inner.zip innerRes
    let dumpS := joinSp dump
    let pd := parseDump dump
    r := r.addCover (match outer with
      | .acquire _ => "inj-acquire"
      | _ => "inj-release")
    r := r.addCover s!"inj-at-{atS}"
    for br in branchOf c.cfg d.st d.won outer do r := r.addCover s!"inj-{br}"
    for o in inner do
      r := r.addCover (match o with
        | .ft _ => "inj-inner-ft"
        | .acquire _ => "inj-inner-acquire"
        | .release _ => "inj-inner-release"
        | .setExpire _ _ => "inj-inner-setexpire"
        | _ => "inj-inner-other")
    -- ---------------- correspondence: the command-level model on the same schedule
    let mut st := d.st
    if d.down then
      -- every round trip fails: no call has an effect; clock and SetExpire still act
      let mAt := if p = 1 then "1" else "after"
      let mInner := inner.map fun o => if isCallOp o then "err" else "ok"
      for o in inner do
        if !isCallOp o then st := (step c.cfg st o).1
      let model := joinSp [s!"err cmds=evalsha! at={mAt} inner={",".intercalate mInner}", modelDump st c.keys]
      r := r.addCover "inj-while-down"
      if model ≠ c.impl then
        r := r.mismatch c.sec c.line model c.impl
        match pd with
        | some pd => st := { st with store := resyncStore st.store.now pd }
        | none => pure ()
    else
      -- observed environment: was the script in Redis' cache (EVALSHA answered) or not (NOSCRIPT, then EVAL)
      let cached := cmds.head? ≠ some "evalsha!"
      let m := runInj real c.cfg st outer cached p inner
      let mAt := match m.fired with
        | some q => toString q
        | none => "after"
      let mInner := ",".intercalate ((inner.zip m.inner).map fun (o, b) => resTok o b)
      let model := joinSp [s!"{resTok outer m.outer} cmds={cmdsText cached} at={mAt} inner={mInner}", modelDump m.st c.keys]
      st := m.st
      if !cached then r := r.addCover "inj-script-not-cached(evalsha!+eval)"
      if m.fired = some 2 ∧ !cached then r := r.addCover "inj-between-noscript-and-eval"
      if model ≠ c.impl then
        r := r.mismatch c.sec c.line model c.impl
        if cmds.filter (fun x => !x.endsWith "!") ≠ [if cached then "evalsha" else "eval"] then
          r := r.addCover "inj-call-is-not-one-script-run"
        match pd with
        | some pd => st := { st with store := resyncStore st.store.now pd }
        | none => pure ()
    -- ---------------- monitor: linearizability against the lease table
    let mut sp := d.sp
    let mut bel := d.bel
    let mut won := d.won
    match linearize c.cfg c.keys sp outer ob innerObs dumpS with
    | some (pos, s) =>
      r := r.addCover (if inner.length = 0 then "inj-explained" else if pos = 0 then "inj-explained-call-first"
        else if pos = inner.length then "inj-explained-call-last" else "inj-explained-call-in-the-middle")
      let (r', sp', bel', won') := beliefSeq c r sp bel won pos (placed outer ob innerObs pos s) false
      r := r'; sp := sp'; bel := bel'; won := won'
    | none =>
      -- report the disagreement at the call's last executed command
      let executed := (cmds.zipIdx.filter fun (x, _) => !x.endsWith "!").map fun (_, k) => k + 1
      let last := executed.foldl max 0
      let pos := match atS.toNat? with
        | some q => if q ≤ last then inner.length else 0
        | none => 0
      let s := (secsCands sp outer []).headD 0
      let seq := placed outer ob innerObs pos s
      let why0 := (specExplains c.cfg c.keys sp seq dumpS).getD "results not explained"
      -- when every result is explained and only the lock differs, name the clause of the property by the call
      let clause : String :=
        match (specSeq c.cfg sp seq).1, outer, ob with
        | none, .release _, some false => "a Release that reported false changed the lock (late or foreign release must be harmless) — or an operation that ran during it did: "
        | none, .release _, some true => "Release by the holder did not free exactly its key — or an operation that ran during it changed the lock: "
        | none, .acquire _, some true => "lease after a successful Acquire is not seconds*1000+500 ms for this holder — or an operation that ran during it changed the lock: "
        | none, .acquire _, some false => "a refused Acquire changed the lock — or an operation that ran during it did: "
        | none, _, none => "a call that failed with an error changed the lock — or an operation that ran during it did: "
        | _, _, _ => ""
      let why := clause ++ why0
      r := r.violation c.sec c.line s!"{why} — no atomic placement of the call among the operations that ran during it explains the results (call sent [{cmdsS}], operations ran before its command {atS}) op=[{c.opTxt}] impl=[{c.impl}]"
      r := r.addCover "inj-not-linearizable"
      let (r', sp', bel', won') := beliefSeq c r sp bel won pos seq true
      r := r'; bel := bel'; won := won'
      sp := match pd with
        | some pd => resyncSpec sp' pd
        | none => sp'
    return (r, { d with st := st, sp := sp, bel := bel, won := won })
  | _ => return bad

/-- a `lost` line: Redis executed the call's command but the caller got an error -/
def checkLost (c : Ctx) (r : Report) (d : DSt) (outer : Op) (obs : List String) : Report × DSt := Id.run do
  let mut r := r
  let bad := (r.mismatch c.sec c.line "err cmds=… <store>" c.impl, d)
  match obs with
  | resT :: cmdsT :: dump =>
    let some cmdsS := afterPrefix "cmds=" cmdsT | return bad
    let cmds := listTok cmdsS
    let dumpS := joinSp dump
    let pd := parseDump dump
    let who := match outer with
      | .acquire i => i
      | .release i => i
      | _ => 0
    r := r.addCover (match outer with
      | .acquire _ => "lost-reply-acquire"
      | _ => "lost-reply-release")
    for br in branchOf c.cfg d.st d.won outer do r := r.addCover s!"lost-{br}"
    let mut st := d.st
    let cached := cmds.head? ≠ some "evalsha!"
    -- the model: the script ran (unless Redis is down); the caller sees an error
    let model :=
      if d.down then joinSp ["err cmds=evalsha!", modelDump st c.keys]
      else joinSp [s!"err cmds={cmdsText cached}", modelDump (step c.cfg st outer).1 c.keys]
    if !d.down then st := (step c.cfg st outer).1
    if model ≠ c.impl then
      r := r.mismatch c.sec c.line model c.impl
      match pd with
      | some pd => st := { st with store := resyncStore st.store.now pd }
      | none => pure ()
    -- monitor: the lock is in the state of "executed" or of "not executed", nothing else
    let mut sp := d.sp
    let spYes := (Spec.step c.cfg sp outer).1
    if resT ≠ "err" then r := r.addCover "lost-reply-not-lost"   -- reported by the correspondence above
    if specDump spYes c.keys = dumpS then
      r := r.addCover "lost-reply-call-took-effect"
      sp := spYes
    else if specDump sp c.keys = dumpS then
      r := r.addCover "lost-reply-call-had-no-effect"
    else
      r := r.violation c.sec c.line s!"a call that failed with an error left the lock neither as before nor as after the call: before=[{specDump sp c.keys}] after=[{specDump spYes c.keys}] impl=[{dumpS}] op=[{c.opTxt}]"
      sp := match pd with
        | some pd => resyncSpec sp pd
        | none => sp
    -- the caller saw an error: it can rely on nothing about this lock
    return (r, { d with st := st, sp := sp, bel := Spec.updB d.bel who none })
  | _ => return bad

/-! ### `reply` and `ctx` lines: every outcome kind at the entry points -/

def callName : Op → String
  | .release _ => "Release"
  | _ => "Acquire"

def whoOf : Op → Nat
  | .acquire i => i
  | .release i => i
  | .acquireS i _ => i
  | _ => 0

/-- command-trace clause on the commands the hook saw during one call -/
def traceClause (c : Ctx) (r : Report) (outer : Op) (cmds : List String) : Report :=
  if cmds.any (fun x => x ≠ "evalsha" ∧ x ≠ "evalsha!" ∧ x ≠ "eval" ∧ x ≠ "eval!" ∧ x ≠ "nosubst") then
    r.violation c.sec c.line s!"command trace: {callName outer} by instance {whoOf outer} sent [{",".intercalate cmds}] — a call must put its own script run (EVALSHA, EVAL after NOSCRIPT) on the wire and nothing else, also on its error paths; any other command is outside the one atomic step the property rests on (an unconditional DEL / SET frees or takes another instance's lock) op=[{c.opTxt}] impl=[{c.impl}]"
  else r

/-- a `reply` line: Redis executed the script, the Go code was handed `h` instead of the real reply -/
def checkReply (c : Ctx) (r : Report) (d : DSt) (kind : String) (h : Handed) (outer : Op) (obs : List String) :
    Report × DSt := Id.run do
  let mut r := r
  let bad := (r.mismatch c.sec c.line "<res> cmds=… <store>" c.impl, d)
  match obs with
  | resT :: cmdsT :: dump =>
    let some cmdsS := afterPrefix "cmds=" cmdsT | return bad
    let some ob := resOfTok resT | return bad
    let cmds := listTok cmdsS
    let cached := cmds.head? ≠ some "evalsha!"
    r := traceClause c r outer cmds
    let cls := if kind.startsWith "s:" then (if kind = "s:OK" then "string-OK" else "string-other")
      else if kind.startsWith "i:" then (if kind = "i:1" then "int-1" else "int-other") else kind
    r := r.addCover s!"reply-{callName outer}-{cls}"
    if cmds.contains "nosubst" then
      -- the call's first executed command is not a script run: nothing could be substituted; the results are
      -- checked as those of a plain call
      r := r.mismatch c.sec c.line s!"<res> cmds={cmdsText cached} <store>" c.impl
      r := r.addCover "reply-call-is-not-a-script-run"
      let (r', d') := checkOps c r d [(outer, ob)] dump (fun m => s!"{resTok outer (m.headD true)} cmds={cmdsText cached}")
      return (r', d')
    let want := handedOf outer h
    let head :=
      if d.down then "err cmds=evalsha!"
      else s!"{if want.2 then "err" else resTok outer want.1} cmds={cmdsText cached}"
    if !d.down then
      -- monitor: the call may report true on the granting reply only, and must report it then
      match ob with
      | some true =>
        if !grants outer h then
          r := r.violation c.sec c.line s!"{callName outer} by instance {whoOf outer} reported true on a reply that does not say so (it was handed {kind}): only {if callName outer = "Release" then "the integer 1 (one key deleted)" else "the string OK"} means success op=[{c.opTxt}] impl=[{c.impl}]"
      | _ =>
        if grants outer h then
          r := r.violation c.sec c.line s!"{callName outer} by instance {whoOf outer} did not report true although the reply it was handed ({kind}) says the script succeeded op=[{c.opTxt}] impl=[{c.impl}]"
    -- the lock itself: the script ran for real (spec and model make the step); beliefs follow the truth
    let truth := (Spec.step c.cfg d.sp outer).2
    let (r', d') := checkOps c r d [(outer, if d.down then none else some truth)] dump (fun _ => head)
    return (r', d')
  | _ => return bad

def callOfOp (st : St) : Op → Call
  | .acquire i => .acq i (st.secs i)
  | .acquireS i s => .acq i s
  | .release i => .rel i
  | _ => .rel 0

/-- a `ctx` line: the call entered through the Ctx variant with a caller's context -/
def checkCtx (c : Ctx) (r : Report) (d : DSt) (kind : String) (p : Nat) (outer : Op) (obs : List String) :
    Report × DSt := Id.run do
  let mut r := r
  let bad := (r.mismatch c.sec c.line "<res> cmds=… <store>" c.impl, d)
  match obs with
  | resT :: cmdsT :: dump =>
    let some cmdsS := afterPrefix "cmds=" cmdsT | return bad
    let some ob := resOfTok resT | return bad
    let cmds := listTok cmdsS
    let cached := cmds.head? ≠ some "evalsha!"
    r := traceClause c r outer cmds
    -- the round trip before which the context is dead: 0/1 = nothing is ever sent; `far` never fires
    let pEff := if kind = "expired" then 0 else if kind = "far" then 1000 else p
    let m := runCancel real c.cfg d.st outer cached pEff
    -- the commands the innermost hook sees: the model's command trace (CmdTrace.lean) in the harness' environment
    let mc := modelCmds c.cfg (callOfOp d.st outer) d.down cached (if kind = "far" then none else some pEff) .nilNoErr
    let head :=
      if d.down then s!"err cmds={mc}"
      else match m.result with
        | some b => s!"{resTok outer b} cmds={mc}"
        | none => s!"err cmds={mc}"
    r := r.addCover s!"ctx-{kind}-{callName outer}"
    if kind = "cancel" then r := r.addCover s!"ctx-cancel-before-command-{p}"
    if !d.down then
      r := r.addCover (match m.result with
        | none => if pEff ≤ 1 then "ctx-dead-before-the-call-sent-anything" else "ctx-dead-between-noscript-and-eval"
        | some _ => if kind = "far" then "ctx-deadline-later-than-the-call" else "ctx-dead-after-the-script-run(call-unaffected)")
    let (r', d') := checkOps c r d [(outer, ob)] dump (fun _ => head)
    return (r', d')
  | _ => return bad

def parseWon (n : Nat) (tok : String) : Option (List Nat) :=
  match tok.splitOn "=" with
  | ["won", "-"] => some []
  | ["won", l] => (l.splitOn ",").mapM (parseInst n)
  | _ => none

def wonTok (l : List Nat) : String :=
  if l.isEmpty then "won=-" else "won=" ++ ",".intercalate ((sortNat l).map toString)

def runSection (r : Report) (s : Section) : Report := Id.run do
  let n := kvNat s.cfg "n" 0
  let nkeys := kvNat s.cfg "keys" 0
  let lazy := kvNat s.cfg "lazy" 0
  let mut r := r
  if n = 0 ∨ nkeys = 0 ∨ lazy > n then
    return r.mismatch s.idx 0 "bad-cfg" (joinSp s.cfg)
  let cfg := mkCfg nkeys
  let keys := keyNames nkeys
  let mut d : DSt := { st := St.init, sp := Spec.ASt.init }
  for l0 in s.lines do
    -- `err+true`: a call returned an error AND true — never allowed; afterwards treated as the error it is
    let errTrue := l0.obs.any fun t => (t.splitOn "err+true").length > 1
    let l : Line := if errTrue then { l0 with obs := l0.obs.map fun t => t.replace "err+true" "err" } else l0
    if errTrue then
      r := r.violation s.idx l.idx s!"a call that failed with an error reported true (the property: 'reports false otherwise'; a caller that looks at the result believes it holds, or has freed, the lock) op=[{joinSp l.op}] impl=[{joinSp l0.obs}]"
    let impl := joinSp l.obs
    let c : Ctx := { n := n, nkeys := nkeys, cfg := cfg, keys := keys, sec := s.idx, line := l.idx,
                     opTxt := joinSp l.op, impl := impl }
    if l.op.any (fun t => t = "acquirectx") then r := r.addCover "entry-AcquireCtx-direct"
    if l.op.any (fun t => t = "releasectx") then r := r.addCover "entry-ReleaseCtx-direct"
    match parseOp n l.op with
    | none => r := r.mismatch s.idx l.idx "bad-op" (joinSp l.op)
    | some .ids =>
      r := { r with ops := r.ops + 1 }
      r := r.addCover "ids"
      if impl ≠ "distinct len=16" then
        r := r.mismatch s.idx l.idx "distinct len=16" impl
        if impl = "dup" then
          r := r.violation s.idx l.idx "two RedisLock instances got the same id: they can hold the key at the same time"
    | some (.mass m) =>
      r := { r with ops := r.ops + 1 }
      r := r.addCover "ids-mass"
      match l.obs with
      | res :: shape :: dump =>
        if res = "dup" then
          r := r.violation s.idx l.idx s!"two RedisLock instances got the same id (among {m} instances constructed on one key): they can hold the key at the same time op=[{joinSp l.op}]"
        if shape ≠ "len=16" then r := r.addCover "mass-id-not-16-alphanumerics"
        let (r', d') := checkOps c r d [] dump (fun _ => "distinct len=16")
        r := r'; d := d'
      | _ => r := r.mismatch s.idx l.idx "distinct len=16 <store>" impl
    | some (.new i) =>
      r := { r with ops := r.ops + 1 }
      r := r.addCover "new-instance-mid-history"
      if i + lazy < n ∨ d.made.contains i then
        r := r.mismatch s.idx l.idx "bad-op" impl
      else
        if (List.range n).any (fun j => j ≠ i ∧ d.st.secs j ≠ 0) then r := r.addCover "new-after-setexpire-on-another-instance"
        if (List.range n).any (fun j => j ≠ i ∧ (cfg j).key = (cfg i).key ∧ decide (holds cfg d.st j)) then
          r := r.addCover "new-while-another-instance-holds-its-key"
        match l.obs with
        | "dup" :: dump =>
          r := r.violation s.idx l.idx s!"two RedisLock instances got the same id: instance {i}, constructed in the middle of the history, carries the id of an existing instance — both can hold the key at the same time op=[{joinSp l.op}]"
          let (r', d') := checkOps c r d [] dump (fun _ => "distinct len=16")
          r := r'; d := { d' with made := i :: d.made }
        | "distinct" :: ln :: dump =>
          -- the store must be untouched by a construction; the instance's `seconds` is 0 in model and spec
          let (r', d') := checkOps c r d [] dump (fun _ => s!"distinct len=16")
          r := r'; d := { d' with made := i :: d.made }
          if ln ≠ "len=16" then r := r.addCover "new-id-not-16-chars"
        | _ => r := r.mismatch s.idx l.idx "distinct len=16 <store>" impl
    | some .down =>
      r := { r with ops := r.ops + 1 }
      r := r.addCover "down"
      d := { d with down := true }
      if impl ≠ "ok" then r := r.mismatch s.idx l.idx "ok" impl
    | some .up =>
      r := { r with ops := r.ops + 1 }
      r := r.addCover "up"
      d := { d with down := false }
      if impl ≠ "ok" then r := r.mismatch s.idx l.idx "ok" impl
    | some .scriptflush =>
      -- no effect on the lock; whether the next script run needs two round trips is observed (`cmds=`)
      r := { r with ops := r.ops + 1 }
      r := r.addCover "scriptflush"
      let want := if d.down then "err" else "ok"
      if impl ≠ want then r := r.mismatch s.idx l.idx want impl
    | some (.inj p outer inner) =>
      r := { r with ops := r.ops + 1 + inner.length }
      let (r', d') := checkInj c r d p outer inner l.obs
      r := r'; d := d'
    | some (.lost outer) =>
      r := { r with ops := r.ops + 1 }
      let (r', d') := checkLost c r d outer l.obs
      r := r'; d := d'
    | some (.reply kind h outer) =>
      r := { r with ops := r.ops + 1 }
      let (r', d') := checkReply c r d kind h outer l.obs
      r := r'; d := d'
    | some (.ctx kind p outer) =>
      r := { r with ops := r.ops + 1 }
      let (r', d') := checkCtx c r d kind p outer l.obs
      r := r'; d := d'
    | some (.race js) =>
      r := { r with ops := r.ops + 1 }
      match l.obs with
      | wt :: dump =>
        if wt = "err" ∧ d.down then
          let (r', d') := checkOps c r d (js.map fun j => (Op.acquire j, none)) dump (fun _ => "err")
          r := r'; d := d'
          r := r.addCover "race-while-down"
        else
        match parseWon n wt with
        | none => r := r.mismatch s.idx l.idx "won=…" impl
        | some ws =>
          let ws := ws.filter js.contains
          let losers := js.filter fun j => !ws.contains j
          let order := (ws.map fun j => (Op.acquire j, some true)) ++ (losers.map fun j => (Op.acquire j, some false))
          r := r.addCover s!"race-{js.length}"
          r := r.addCover (if ws.length = 0 then "race-no-winner" else if ws.length = 1 then "race-one-winner" else "race-several-winners(keys)")
          -- the model's answer: winners among `order` when the scripts run in this order
          let head := fun (m : List Bool) => wonTok ((order.zip m).filterMap fun ((op, _), b) =>
            match op with
            | .acquire j => if b then some j else none
            | _ => none)
          let (r', d') := checkOps c r d order dump head
          r := r'; d := d'
      | [] => r := r.mismatch s.idx l.idx "won=…" impl
    | some (.op op) =>
      r := { r with ops := r.ops + 1 }
      match l.obs with
      | [] => r := r.mismatch s.idx l.idx "<result> <store>" impl
      | res :: dump0 =>
        let isCall : Bool := match op with
          | .acquire _ => true
          | .release _ => true
          | _ => false
        -- command trace of a plain call (`cmds=` right after the result): its own script run and nothing else
        let (cmdsT, dump) : Option String × List String := match dump0 with
          | t :: rest => if t.startsWith "cmds=" then (some ((t.drop 5).toString), rest) else (none, dump0)
          | [] => (none, dump0)
        let impl := if cmdsT.isSome then joinSp (res :: dump) else impl
        let c := { c with impl := impl }
        if isCall then
          match cmdsT with
          | none => r := r.mismatch s.idx l.idx "<res> cmds=… <store>" impl
          | some ct =>
            let sent := listTok ct
            let cached := sent.head? ≠ some "evalsha!"
            let want := modelCmds cfg (callOfOp d.st op) d.down cached none .nilNoErr
            r := r.addCover (if cached then "trace-evalsha" else if d.down then "trace-evalsha-failed" else "trace-evalsha-noscript-eval")
            if sent.isEmpty then
              r := r.violation s.idx l.idx s!"command trace: {callName op} by instance {whoOf op} answered {res} WITHOUT asking Redis (no command was sent): who holds the lock is decided by the script in Redis alone, a client-side guess about the lease tells a holder false or a non-holder true op=[{joinSp l.op}] impl=[{joinSp l.obs}]"
            else if sent.any (fun x => x ≠ "evalsha" ∧ x ≠ "evalsha!" ∧ x ≠ "eval" ∧ x ≠ "eval!") then
              r := r.violation s.idx l.idx s!"command trace: {callName op} by instance {whoOf op} sent [{ct}] — a call must put its own script run (EVALSHA, EVAL after NOSCRIPT) on the wire and nothing else; any other command is outside the one atomic step the property rests on (an unconditional DEL / SET frees or takes another instance's lock) op=[{joinSp l.op}] impl=[{joinSp l.obs}]"
            else if ct ≠ want then
              r := r.mismatch s.idx l.idx s!"cmds={want}" s!"cmds={ct}"
        if d.down && isCall then
          -- the round trip fails: AcquireCtx / ReleaseCtx return (false, err); nothing reaches the store
          let (r', d') := checkOps c r d [(op, none)] dump (fun _ => "err")
          r := r'; d := d'
        else
          let implB : Option Bool :=
            match res with
            | "true" => some true
            | "false" => some false
            | "ok" => some true
            | _ => none
          match implB with
          | none =>
            r := r.addCover s!"result-{res}"
            if res = "err" ∧ isCall then
              -- an error on a plain call while Redis answers and no context is involved: the lock can neither be
              -- taken nor freed through this entry point
              r := r.violation s.idx l.idx s!"{callName op} by instance {whoOf op} failed with an error although Redis is reachable and no context was cancelled: through this entry point the lock can {if callName op = "Release" then "never be freed by its holder" else "never be acquired"} op=[{joinSp l.op}] impl=[{impl}]"
              let (r', d') := checkOps c r d [(op, none)] dump (fun _ => resTok op (step cfg d.st op).2)
              r := r'; d := d'
            else
              r := r.mismatch s.idx l.idx "<true|false|ok>" impl
          | some b =>
            let (r', d') := checkOps c r d [(op, some b)] dump (fun m => resTok op (m.headD true))
            r := r'; d := d'
  return r

def driver (secs : List Section) : Report := secs.foldl runSection {}

end GoZero.C19
