/-
C19 — the Lua subset of lockscript.lua / delscript.lua: token list → AST → meaning over `Store`.

The extractor only *lexes* the current .lua files (Extracted.C19.lockLua / delLua : raw token triples).  Parsing
and interpretation happen here, in Lean, so that Tie.lean can prove — for every store and all arguments —
that the script as it is written now means exactly the model's `lockScript` / `delScript`.

Subset: `if <e> then <stmts> [else <stmts>] end`, `return <e>`, expression statements; expressions are
string / integer literals, `KEYS[n]`, `ARGV[n]`, `redis.call(e, …)` and `e == e`.  Anything else does not
parse (`none`), which breaks the Tie obligation rather than being guessed at.

Semantics written against Redis' scripting documentation (trusted; validated by the correspondence run,
where miniredis' gopher-lua executes the real files):
  * `redis.call` converts a nil bulk reply to Lua `false`, a status reply to a table `{ok=…}` (`status`),
    an integer reply to a number; commands: `GET k`, `SET k v PX n`, `SET k v NX PX n`, `DEL k`
    (upper case as written in the scripts; an unknown command or a bad PX argument is a script error);
  * `==` is Lua equality (same type and same value);
  * the script's return value converts back: string → bulk, number → integer, status table → status,
    `false`/nil → nil reply, `true` → integer 1.
-/
import GoZero.C19.Model
namespace GoZero.C19.Lua
open GoZero.C19

/-- a lexed token: word (keyword, identifier, punctuation), string literal (content), number -/
inductive Tok where
  | w (s : String)
  | s (s : String)
  | n (n : Nat)
  deriving Repr, DecidableEq

/-- the extractor emits (kind, text, value) triples: 0 word, 1 string literal, 2 number -/
def Tok.ofRaw : Nat × String × Nat → Option Tok
  | (0, t, _) => some (.w t)
  | (1, t, _) => some (.s t)
  | (2, _, v) => some (.n v)
  | _ => none

inductive Expr where
  | str (s : String)
  | num (n : Int)
  | keys (i : Nat)
  | argv (i : Nat)
  | call (args : List Expr)
  | eq (a b : Expr)
  deriving Repr

inductive Stmt where
  | ifte (c : Expr) (t e : List Stmt)
  | ret (e : Expr)
  | expr (e : Expr)
  deriving Repr

/-! ### parser (fuel = number of tokens; every call consumes fuel) -/

mutual
  /-- primary expression -/
  def parsePrimary : Nat → List Tok → Option (Expr × List Tok)
    | 0, _ => none
    | fuel + 1, toks =>
      match toks with
      | .w "KEYS" :: .w "[" :: .n n :: .w "]" :: rest => some (.keys n, rest)
      | .w "ARGV" :: .w "[" :: .n n :: .w "]" :: rest => some (.argv n, rest)
      | .w "redis" :: .w "." :: .w "call" :: .w "(" :: rest =>
        match parseArgs fuel rest with
        | some (args, rest) => some (.call args, rest)
        | none => none
      | .s x :: rest => some (.str x, rest)
      | .n v :: rest => some (.num v, rest)
      | _ => none

  /-- `e , e , … )` -/
  def parseArgs : Nat → List Tok → Option (List Expr × List Tok)
    | 0, _ => none
    | fuel + 1, toks =>
      match parseExpr fuel toks with
      | some (e, .w "," :: rest) =>
        match parseArgs fuel rest with
        | some (es, rest) => some (e :: es, rest)
        | none => none
      | some (e, .w ")" :: rest) => some ([e], rest)
      | _ => none

  /-- `primary [== primary]` -/
  def parseExpr : Nat → List Tok → Option (Expr × List Tok)
    | 0, _ => none
    | fuel + 1, toks =>
      match parsePrimary fuel toks with
      | some (a, .w "==" :: rest) =>
        match parsePrimary fuel rest with
        | some (b, rest) => some (.eq a b, rest)
        | none => none
      | r => r
end

mutual
  /-- statements up to (not including) `else` / `end` / end of input -/
  def parseBlock : Nat → List Tok → Option (List Stmt × List Tok)
    | 0, _ => none
    | fuel + 1, toks =>
      match toks with
      | [] => some ([], [])
      | .w "else" :: _ => some ([], toks)
      | .w "end" :: _ => some ([], toks)
      | _ =>
        match parseStmt fuel toks with
        | some (s, rest) =>
          match parseBlock fuel rest with
          | some (ss, rest) => some (s :: ss, rest)
          | none => none
        | none => none

  def parseStmt : Nat → List Tok → Option (Stmt × List Tok)
    | 0, _ => none
    | fuel + 1, toks =>
      match toks with
      | .w "if" :: rest =>
        match parseExpr fuel rest with
        | some (c, .w "then" :: rest) =>
          match parseBlock fuel rest with
          | some (t, .w "else" :: rest) =>
            match parseBlock fuel rest with
            | some (e, .w "end" :: rest) => some (.ifte c t e, rest)
            | _ => none
          | some (t, .w "end" :: rest) => some (.ifte c t [], rest)
          | _ => none
        | _ => none
      | .w "return" :: rest =>
        match parseExpr fuel rest with
        | some (e, rest) =>
          -- `return` must be the last statement of its block
          match rest with
          | [] => some (.ret e, rest)
          | .w "else" :: _ => some (.ret e, rest)
          | .w "end" :: _ => some (.ret e, rest)
          | _ => none
        | none => none
      | _ =>
        match parseExpr fuel toks with
        | some (e, rest) => some (.expr e, rest)
        | none => none
end

def parse (toks : List Tok) : Option (List Stmt) :=
  match parseBlock (2 * toks.length + 2) toks with
  | some (ss, []) => some ss
  | _ => none

/-! ### meaning -/

inductive Val where
  | nil
  | bool (b : Bool)
  | str (s : String)
  | num (n : Int)
  | status (s : String)
  deriving Repr, DecidableEq

/-- Lua `==` -/
def Val.luaEq : Val → Val → Bool
  | .nil, .nil => true
  | .bool a, .bool b => a == b
  | .str a, .str b => a == b
  | .num a, .num b => a == b
  | _, _ => false          -- different types; two distinct tables are never equal

def Val.truthy : Val → Bool
  | .nil => false
  | .bool b => b
  | _ => true

/-- argument of `redis.call`: strings, and numbers as their decimal text -/
def Val.arg : Val → Option String
  | .str s => some s
  | .num n => some (toString n)
  | _ => none

/-- one Redis command issued from a script -/
def command (s : Store) : List String → Option (Store × Val)
  | ["GET", k] =>
    match s.get k with
    | some v => some (s, .str v)
    | none => some (s, .bool false)
  | ["SET", k, v, "PX", n] =>
    match n.toNat? with
    | some px => if px = 0 then none else some (s.setPX k v px, .status "OK")
    | none => none
  | ["SET", k, v, "NX", "PX", n] =>
    match n.toNat? with
    | some px =>
      if px = 0 then none
      else some ((s.setNXPX k v px).1, if (s.setNXPX k v px).2 then .status "OK" else .bool false)
    | none => none
  | ["DEL", k] => some ((s.del k).1, .num (s.del k).2)
  | _ => none

structure Env where
  keys : List String
  argv : List String

mutual
  def evalExpr (env : Env) : Nat → Store → Expr → Option (Store × Val)
    | 0, _, _ => none
    | fuel + 1, s, e =>
      match e with
      | .str x => some (s, .str x)
      | .num n => some (s, .num n)
      | .keys i => if i = 0 then none else (env.keys[i - 1]?).map fun k => (s, .str k)
      | .argv i => if i = 0 then none else (env.argv[i - 1]?).map fun k => (s, .str k)
      | .eq a b =>
        match evalExpr env fuel s a with
        | some (s, va) =>
          match evalExpr env fuel s b with
          | some (s, vb) => some (s, .bool (va.luaEq vb))
          | none => none
        | none => none
      | .call args =>
        match evalArgs env fuel s args with
        | some (s, vs) => command s vs
        | none => none

  def evalArgs (env : Env) : Nat → Store → List Expr → Option (Store × List String)
    | 0, _, _ => none
    | fuel + 1, s, es =>
      match es with
      | [] => some (s, [])
      | e :: es =>
        match evalExpr env fuel s e with
        | some (s, v) =>
          match v.arg with
          | some a =>
            match evalArgs env fuel s es with
            | some (s, as) => some (s, a :: as)
            | none => none
          | none => none
        | none => none
end

/-- executes a block; `some v` in the second component = the script returned `v` -/
def execBlock (env : Env) : Nat → Store → List Stmt → Option (Store × Option Val)
  | 0, _, _ => none
  | fuel + 1, s, ss =>
    match ss with
    | [] => some (s, none)
    | .ret e :: _ =>
      match evalExpr env fuel s e with
      | some (s, v) => some (s, some v)
      | none => none
    | .expr e :: rest =>
      match evalExpr env fuel s e with
      | some (s, _) => execBlock env fuel s rest
      | none => none
    | .ifte c t e :: rest =>
      match evalExpr env fuel s c with
      | some (s, v) =>
        match execBlock env fuel s (if v.truthy then t else e) with
        | some (s, some r) => some (s, some r)
        | some (s, none) => execBlock env fuel s rest
        | none => none
      | none => none

/-- Lua return value → Redis reply -/
def toReply : Option Val → Reply
  | some (.str s) => .bulk s
  | some (.num n) => .int n
  | some (.status s) => .status s
  | some (.bool true) => .int 1
  | _ => .nil

/-- run a script given as tokens: `none` = does not parse or raises an error -/
def runScript (raw : List (Nat × String × Nat)) (keys argv : List String) (s : Store) : Option (Store × Reply) :=
  match (raw.mapM Tok.ofRaw).bind parse with
  | some prog =>
    match execBlock { keys := keys, argv := argv } 64 s prog with
    | some (s, r) => some (s, toReply r)
    | none => none
  | none => none

end GoZero.C19.Lua
