/-
C19 — a small model of the part of Redis the lock scripts use (core Lean only; own copy, not shared).

A store is a clock (milliseconds) and a map key ↦ (value, optional absolute expiry).  Expiry is lazy, as
in Redis: an entry whose expiry time has been reached is simply not visible to any command (`live`).
Boundary convention: an entry written with `PX px` at time `t` is visible while `now < t + px` and gone
from `now = t + px` on.  This is what miniredis does (`FastForward` deletes keys whose remaining TTL is
≤ 0) and it is the convention the correspondence harness validates; real Redis keeps the key for the
one millisecond `now = t + px` as well (documented in props/C19.json as an assumption).

Every command is one atomic step of the store; a Lua script is an atomic composition of commands
(Redis executes scripts without interleaving other commands — trusted, see DESIGN.md section 5).
-/
namespace GoZero.C19

structure Entry where
  val : String
  exp : Option Nat      -- absolute time (ms) from which the key is gone; `none` = no TTL
  deriving Repr, DecidableEq

structure Store where
  now : Nat
  ent : String → Option Entry

def Store.empty : Store := { now := 0, ent := fun _ => none }

def Entry.liveAt (e : Entry) (now : Nat) : Bool :=
  match e.exp with
  | none => true
  | some x => decide (now < x)

/-- the entry a command sees under key `k` (expired entries are invisible). -/
def Store.live (s : Store) (k : String) : Option Entry :=
  match s.ent k with
  | some e => if e.liveAt s.now then some e else none
  | none => none

def upd (f : String → Option Entry) (k : String) (v : Option Entry) : String → Option Entry :=
  fun k' => if k' = k then v else f k'

/-- `GET k` -/
def Store.get (s : Store) (k : String) : Option String := (s.live k).map (·.val)

/-- `SET k v PX px` (unconditional; replaces value and TTL) -/
def Store.setPX (s : Store) (k v : String) (px : Nat) : Store :=
  { s with ent := upd s.ent k (some { val := v, exp := some (s.now + px) }) }

/-- `SET k v NX PX px`: only if no live entry; `true` = written (status OK), `false` = nil reply -/
def Store.setNXPX (s : Store) (k v : String) (px : Nat) : Store × Bool :=
  if (s.live k).isSome then (s, false) else (s.setPX k v px, true)

/-- `DEL k`: number of keys removed -/
def Store.del (s : Store) (k : String) : Store × Nat :=
  if (s.live k).isSome then ({ s with ent := upd s.ent k none }, 1) else (s, 0)

/-- the clock moves on by `d` ms (miniredis `FastForward`) -/
def Store.advance (s : Store) (d : Nat) : Store := { s with now := s.now + d }

/-- `PTTL k`: -2 no key, -1 no TTL, else remaining milliseconds -/
def Store.pttl (s : Store) (k : String) : Int :=
  match s.live k with
  | none => -2
  | some e =>
    match e.exp with
    | none => -1
    | some x => (x : Int) - (s.now : Int)

end GoZero.C19
