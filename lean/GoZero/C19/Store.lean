/-
C19 — a small model of the part of Redis the lock scripts use (core Lean only; own copy, not shared).

A store is a clock (milliseconds) and a map key ↦ (value, optional absolute expiry).  Expiry is lazy, as
in Redis: an entry whose expiry time has been reached is simply not visible to any command (`live`).
`Entry.exp` is the first instant at which the key is gone.

Boundary convention — a parameter of the store (`grace`, never changed by any command):
  * `grace = 0` (miniredis): an entry written with `PX px` at time `t` is visible while `now < t + px` and gone
    from `now = t + px` on (`FastForward` deletes keys whose remaining TTL is ≤ 0).  This is the convention the
    correspondence harness validates.
  * `grace = 1` (real Redis): `keyIsExpired` tests `now > when`, so the key is still visible during the
    millisecond `now = t + px` itself and gone from `t + px + 1` on.
Every theorem is proved for an arbitrary `grace`; Props.lean instantiates both conventions.

Every command is one atomic step of the store; a Lua script is an atomic composition of commands
(Redis executes scripts without interleaving other commands — trusted, see DESIGN.md section 5).
-/
namespace GoZero.C19

structure Entry where
  val : String
  exp : Option Nat      -- absolute time (ms) from which the key is gone; `none` = no TTL
  deriving Repr, DecidableEq

structure Store where
  now : Nat
  ent : String → Option Entry
  grace : Nat := 0      -- milliseconds a key outlives `t + px` (0 miniredis, 1 real Redis); constant

def Store.emptyG (g : Nat) : Store := { now := 0, ent := fun _ => none, grace := g }

def Store.empty : Store := Store.emptyG 0

def Entry.liveAt (e : Entry) (now : Nat) : Bool :=
  match e.exp with
  | none => true
  | some x => decide (now < x)

/-- the entry a command sees under key `k` (expired entries are invisible). -/
def Store.live (s : Store) (k : String) : Option Entry :=
  match s.ent k with
  | some e => if e.liveAt s.now then some e else none
  | none => none

def upd (f : String → Option Entry) (k : String) (v : Option Entry) : String → Option Entry :=
  fun k' => if k' = k then v else f k'

/-- `GET k` -/
def Store.get (s : Store) (k : String) : Option String := (s.live k).map (·.val)

/-- `SET k v PX px` (unconditional; replaces value and TTL) -/
def Store.setPX (s : Store) (k v : String) (px : Nat) : Store :=
  { s with ent := upd s.ent k (some { val := v, exp := some (s.now + px + s.grace) }) }

/-- `SET k v NX PX px`: only if no live entry; `true` = written (status OK), `false` = nil reply -/
def Store.setNXPX (s : Store) (k v : String) (px : Nat) : Store × Bool :=
  if (s.live k).isSome then (s, false) else (s.setPX k v px, true)

/-- `DEL k`: number of keys removed -/
def Store.del (s : Store) (k : String) : Store × Nat :=
  if (s.live k).isSome then ({ s with ent := upd s.ent k none }, 1) else (s, 0)

/-- the clock moves on by `d` ms (miniredis `FastForward`) -/
def Store.advance (s : Store) (d : Nat) : Store := { s with now := s.now + d }

/-- `PTTL k`: -2 no key, -1 no TTL, else remaining milliseconds (of the `px` that was set) -/
def Store.pttl (s : Store) (k : String) : Int :=
  match s.live k with
  | none => -2
  | some e =>
    match e.exp with
    | none => -1
    | some x => (x : Int) - (s.grace : Int) - (s.now : Int)

end GoZero.C19
