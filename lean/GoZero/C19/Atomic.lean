/-
C19 — the code that exists under the command-level schedule semantics of Cmds.lean:
every Acquire / Release performs exactly ONE executing round trip (one script run), that round trip is
exactly the model's atomic `step`, and therefore every schedule — other threads' round trips, SetExpire
stores and clock advances anywhere between the round trips of a call — leaves a history of atomic steps.
-/
import GoZero.C19.Cmds
import GoZero.C19.Invariants
namespace GoZero.C19

/-- a program that executes exactly one command on the store, possibly after round trips that Redis
answered with an error without executing anything, and then returns what it decodes from that one reply -/
inductive OneStoreStep : Prog → Prop where
  | script (c : Cmd) (f : Reply → Bool) (h : c.isStoreStep = true) : OneStoreStep (.cmd c (fun r => .done (f r)))
  | retry (k : Reply → Prog) (h : ∀ r, OneStoreStep (k r)) : OneStoreStep (.cmd .failed k)

/-- the states a call of the code that exists goes through -/
inductive RealProg (cfg : Nat → LockCfg) (call : Call) : Prog → Prop where
  | fresh : RealProg cfg call (.cmd .failed (fun _ => .cmd (scriptCmd cfg call) (fun r => .done (decodeOf call r))))
  | script : RealProg cfg call (.cmd (scriptCmd cfg call) (fun r => .done (decodeOf call r)))
  | done (b : Bool) : RealProg cfg call (.done b)

def RealInv (cfg : Nat → LockCfg) (c : CConc) : Prop :=
  ∀ t th, c.thr t = some th → RealProg cfg th.call th.prog

theorem realInv_init (cfg : Nat → LockCfg) (st : St) : RealInv cfg { st := st, thr := fun _ => none } := by
  intro t th h; simp at h

theorem scriptCmd_isStoreStep (cfg : Nat → LockCfg) (call : Call) : (scriptCmd cfg call).isStoreStep = true := by
  cases call <;> rfl

theorem real_start (cfg : Nat → LockCfg) (cached : Bool) (call : Call) :
    RealProg cfg call (real.start cfg cached call) := by
  cases call <;> cases cached
  · exact .fresh
  · exact .script
  · exact .fresh
  · exact .script

theorem real_start_oneStoreStep (cfg : Nat → LockCfg) (cached : Bool) (call : Call) :
    OneStoreStep (real.start cfg cached call) := by
  cases call <;> cases cached
  · exact .retry _ (fun _ => .script _ _ rfl)
  · exact .script _ _ rfl
  · exact .retry _ (fun _ => .script _ _ rfl)
  · exact .script _ _ rfl

/-- the script run of a call *is* the model's atomic operation: same store, and the decoded reply is the
model's result -/
theorem scriptCmd_exec (cfg : Nat → LockCfg) (st : St) (call : Call) :
    ({ st with store := ((scriptCmd cfg call).exec st.store).1 } : St) = (step cfg st call.op).1 ∧
    decodeOf call ((scriptCmd cfg call).exec st.store).2 = (step cfg st call.op).2 := by
  cases call <;> exact ⟨rfl, rfl⟩

theorem updT_same (f : Nat → Option Thread) (t : Nat) (v : Option Thread) : updT f t v t = v := by
  simp [updT]

theorem realInv_updT (cfg : Nat → LockCfg) (c : CConc) (st' : St) (t : Nat) (v : Option Thread)
    (hinv : RealInv cfg c) (hv : ∀ th, v = some th → RealProg cfg th.call th.prog) :
    RealInv cfg { st := st', thr := updT c.thr t v } := by
  intro u th h
  simp only [updT] at h
  by_cases hu : u = t
  · simp [hu] at h; exact hv th h
  · simp [hu] at h; exact hinv u th h

/-- **the executing round trip of a call is one atomic step of the model**: in any configuration the code
that exists can be in, when thread `t` performs a round trip that Redis executes, the shared state makes
exactly `step … call.op`, and what the call will return is fixed right there to the model's result. -/
theorem real_store_step (cfg : Nat → LockCfg) (c : CConc) (hinv : RealInv cfg c) (t : Nat) (th : Thread)
    (hth : c.thr t = some th) (cm : Cmd) (k : Reply → Prog) (hp : th.prog = .cmd cm k)
    (hs : cm.isStoreStep = true) :
    cstep real cfg c (.cmd t) =
      some ({ st := (step cfg c.st th.call.op).1,
              thr := updT c.thr t (some { th with prog := .done (step cfg c.st th.call.op).2 }) }, none) := by
  have hr := hinv t th hth
  rw [hp] at hr
  cases hr with
  | fresh => simp [Cmd.isStoreStep] at hs
  | script =>
    have he := scriptCmd_exec cfg c.st th.call
    simp only [cstep, hth, hp]
    rw [← he.1, ← he.2]

/-- a round trip Redis answers with an error (NOSCRIPT) changes nothing -/
theorem real_failed_step (cfg : Nat → LockCfg) (c : CConc) (t : Nat) (th : Thread)
    (hth : c.thr t = some th) (k : Reply → Prog) (hp : th.prog = .cmd .failed k) :
    cstep real cfg c (.cmd t) = some ({ st := c.st, thr := updT c.thr t (some { th with prog := k .nil }) }, none) := by
  simp [cstep, hth, hp, Cmd.exec]

/-- one scheduler step of the code that exists: the invariant is kept and the shared state moves by the
step's label (nothing for entering / returning / a failed round trip). -/
theorem real_step_history (cfg : Nat → LockCfg) (c c' : CConc) (a : Act) (o : Option Ret)
    (hinv : RealInv cfg c) (h : cstep real cfg c a = some (c', o)) :
    RealInv cfg c' ∧ c'.st = run cfg c.st (label c a).toList := by
  cases a with
  | acquire t i cached =>
    simp only [cstep, enter] at h
    cases hth : c.thr t with
    | some th => simp [hth] at h
    | none =>
      simp only [hth, Option.some.injEq, Prod.mk.injEq] at h
      rw [← h.1]
      exact ⟨realInv_updT cfg c c.st t _ hinv (fun th hv => by
        simp at hv; rw [← hv]; exact real_start cfg cached _), rfl⟩
  | release t i cached =>
    simp only [cstep, enter] at h
    cases hth : c.thr t with
    | some th => simp [hth] at h
    | none =>
      simp only [hth, Option.some.injEq, Prod.mk.injEq] at h
      rw [← h.1]
      exact ⟨realInv_updT cfg c c.st t _ hinv (fun th hv => by
        simp at hv; rw [← hv]; exact real_start cfg cached _), rfl⟩
  | cmd t =>
    cases hth : c.thr t with
    | none => simp [cstep, hth] at h
    | some th =>
      have hr := hinv t th hth
      cases hp : th.prog with
      | done b => simp [cstep, hth, hp] at h
      | cmd cm k =>
        rw [hp] at hr
        cases hr with
        | fresh =>
          rw [real_failed_step cfg c t th hth _ hp] at h
          simp only [Option.some.injEq, Prod.mk.injEq] at h
          rw [← h.1]
          refine ⟨realInv_updT cfg c c.st t _ hinv (fun th' hv => ?_), ?_⟩
          · simp at hv; rw [← hv]; exact .script
          · simp [label, hth, hp, Cmd.isStoreStep, run]
        | script =>
          rw [real_store_step cfg c hinv t th hth _ _ hp (scriptCmd_isStoreStep cfg th.call)] at h
          simp only [Option.some.injEq, Prod.mk.injEq] at h
          rw [← h.1]
          refine ⟨realInv_updT cfg c _ t _ hinv (fun th' hv => ?_), ?_⟩
          · simp at hv; rw [← hv]; exact .done _
          · simp [label, hth, hp, scriptCmd_isStoreStep, run]
  | ret t =>
    cases hth : c.thr t with
    | none => simp [cstep, hth] at h
    | some th =>
      cases hp : th.prog with
      | cmd cm k => simp [cstep, hth, hp] at h
      | done b =>
        simp only [cstep, hth, hp, Option.some.injEq, Prod.mk.injEq] at h
        rw [← h.1]
        exact ⟨realInv_updT cfg c c.st t none hinv (fun th hv => by simp at hv), rfl⟩
  | ft ms =>
    simp only [cstep, Option.some.injEq, Prod.mk.injEq] at h
    rw [← h.1]
    exact ⟨fun t th hth => hinv t th hth, rfl⟩
  | setExpire i v =>
    simp only [cstep, Option.some.injEq, Prod.mk.injEq] at h
    rw [← h.1]
    exact ⟨fun t th hth => hinv t th hth, rfl⟩

theorem run_append (cfg : Nat → LockCfg) (st : St) (a b : List Op) :
    run cfg st (a ++ b) = run cfg (run cfg st a) b := by
  simp [run, List.foldl_append]

/-- every schedule of round trips of the code that exists leaves a history of atomic operations -/
theorem real_exec_history (cfg : Nat → LockCfg) (acts : List Act) :
    ∀ c c', RealInv cfg c → crun real cfg c acts = some c' →
      RealInv cfg c' ∧ c'.st = run cfg c.st (chist real cfg c acts) := by
  induction acts with
  | nil =>
    intro c c' hinv h
    simp only [crun, Option.some.injEq] at h
    rw [← h]; exact ⟨hinv, rfl⟩
  | cons a as ih =>
    intro c c' hinv h
    simp only [crun] at h
    cases hs : cstep real cfg c a with
    | none => simp [hs] at h
    | some r =>
      simp only [hs] at h
      have h1 := real_step_history cfg c r.1 a r.2 hinv (by rw [hs])
      have h2 := ih r.1 c' h1.1 h
      refine ⟨h2.1, ?_⟩
      simp only [chist, hs]
      rw [run_append, ← h1.2]
      exact h2.2

end GoZero.C19
