/-
C19 — schedules at the granularity of Redis round trips (core Lean only; used by the driver).

Round 1 interleaved whole script runs.  Here a call is a *program*: a tree of Redis round trips (`Cmd`),
each continuation deciding from the reply what to send next or what to return.  Threads (any number,
`Nat`-indexed goroutines) run calls on any instances; between any two round trips of one call every other
thread may perform round trips of its own calls, `SetExpire` may store, and the Redis clock may advance.

  atomic        = ONE round trip (one script execution is one `Cmd`);
  a call that issues several commands is several steps, and everything can happen in between.

`Impl` says which program `Acquire` / `Release` run.  `real` is the code that exists: one `ScriptRunCtx`
each — go-redis sends EVALSHA, and only if Redis answers NOSCRIPT (nothing executed: `Cmd.failed`) the same
script again with EVAL.  `getThenDel` / `getThenSet` are the non-atomic class (ownership check and write in
separate round trips); they are here so that the semantics can *exhibit* the property's failure
(`Props.lean`: witnesses) and so that the driver's monitor is exercised on something that fails.

`runInj` is the schedule the correspondence harness executes for an `inj` line: the call under observation on
thread 0, the operations placed before its `p`-th round trip as complete calls of thread 1.
-/
import GoZero.C19.Model
namespace GoZero.C19

/-- one Redis round trip -/
inductive Cmd where
  | failed                                   -- answered with an error, nothing executed (EVALSHA → NOSCRIPT)
  | evalLock (key id : String) (px : Nat)    -- one execution of lockscript.lua
  | evalDel (key id : String)                -- one execution of delscript.lua
  | get (key : String)
  | del (key : String)
  | setPX (key val : String) (px : Nat)
  | setNXPX (key val : String) (px : Nat)
  deriving Repr, DecidableEq

def Cmd.exec (s : Store) : Cmd → Store × Reply
  | .failed => (s, .nil)
  | .evalLock k id px => lockScript s k id px
  | .evalDel k id => delScript s k id
  | .get k => (s, match s.get k with
      | some v => .bulk v
      | none => .nil)
  | .del k => ((s.del k).1, .int (s.del k).2)
  | .setPX k v px => (s.setPX k v px, .status "OK")
  | .setNXPX k v px => ((s.setNXPX k v px).1, if (s.setNXPX k v px).2 then .status "OK" else .nil)

/-- does Redis execute anything for this round trip? -/
def Cmd.isStoreStep : Cmd → Bool
  | .failed => false
  | _ => true

/-- what a call still has to do: return, or send a command and continue with the reply -/
inductive Prog where
  | done (result : Bool)
  | cmd (c : Cmd) (k : Reply → Prog)

/-- a call in progress: which instance, and for Acquire the `seconds` its `atomic.LoadUint32` returned -/
inductive Call where
  | acq (i : Nat) (seconds : Nat)
  | rel (i : Nat)
  deriving Repr, DecidableEq

/-- the operation a call contributes to the history of the shared state when its store step executes -/
def Call.op : Call → Op
  | .acq i s => .acquireS i s
  | .rel i => .release i

structure Impl where
  acq : LockCfg → Nat → Bool → Prog     -- instance, loaded seconds, "is the script already in Redis' cache"
  rel : LockCfg → Bool → Prog

def Impl.start (impl : Impl) (cfg : Nat → LockCfg) (cached : Bool) : Call → Prog
  | .acq i s => impl.acq (cfg i) s cached
  | .rel i => impl.rel (cfg i) cached

/-- `script.Run` of go-redis: EVALSHA; on NOSCRIPT (nothing executed) EVAL.  Then decode locally. -/
def scriptRun (cached : Bool) (c : Cmd) (decode : Reply → Bool) : Prog :=
  if cached then .cmd c (fun r => .done (decode r))
  else .cmd .failed (fun _ => .cmd c (fun r => .done (decode r)))

/-- the script execution of a call of the code that exists -/
def scriptCmd (cfg : Nat → LockCfg) : Call → Cmd
  | .acq i s => .evalLock (cfg i).key (cfg i).id (leaseMs s)
  | .rel i => .evalDel (cfg i).key (cfg i).id

def decodeOf : Call → Reply → Bool
  | .acq _ _ => acquireReply
  | .rel _ => releaseReply

/-- **the code that exists**: `AcquireCtx` = one `ScriptRunCtx(lockScript)`, `ReleaseCtx` = one `ScriptRunCtx(delScript)` -/
def real : Impl :=
  { acq := fun c s cached => scriptRun cached (.evalLock c.key c.id (leaseMs s)) acquireReply,
    rel := fun c cached => scriptRun cached (.evalDel c.key c.id) releaseReply }

/-- the non-atomic class, release side: `GET key`; if it is my id `DEL key` — two round trips -/
def releaseGetThenDel (c : LockCfg) : Prog :=
  .cmd (.get c.key) fun r =>
    if r = .bulk c.id then .cmd (.del c.key) (fun r' => .done (r' == .int 1)) else .done false

/-- the non-atomic class, acquire side: `GET key`; if absent or mine `SET key id PX lease` — two round trips -/
def acquireGetThenSet (c : LockCfg) (seconds : Nat) : Prog :=
  .cmd (.get c.key) fun r =>
    if r = .nil ∨ r = .bulk c.id then .cmd (.setPX c.key c.id (leaseMs seconds)) (fun _ => .done true) else .done false

def getThenDel : Impl := { real with rel := fun c _ => releaseGetThenDel c }
def getThenSet : Impl := { real with acq := fun c s _ => acquireGetThenSet c s }

structure Thread where
  call : Call
  prog : Prog

structure CConc where
  st  : St
  thr : Nat → Option Thread

def CConc.initG (g : Nat) : CConc := { st := St.initG g, thr := fun _ => none }

def CConc.init : CConc := CConc.initG 0

def updT (f : Nat → Option Thread) (t : Nat) (v : Option Thread) : Nat → Option Thread :=
  fun u => if u = t then v else f u

/-- what the scheduler can pick next -/
inductive Act where
  | acquire (t i : Nat) (cached : Bool)   -- idle thread t enters locks[i].Acquire(): atomic.LoadUint32(&seconds)
  | release (t i : Nat) (cached : Bool)   -- idle thread t enters locks[i].Release()
  | cmd (t : Nat)                         -- thread t's next Redis round trip
  | ret (t : Nat)                         -- thread t's call returns
  | ft (ms : Nat)                         -- the Redis clock advances
  | setExpire (i : Nat) (v : Int)         -- some goroutine runs locks[i].SetExpire(v): one atomic store
  deriving Repr, DecidableEq

/-- a returned call -/
structure Ret where
  t : Nat
  call : Call
  result : Bool
  deriving Repr, DecidableEq

def enter (impl : Impl) (cfg : Nat → LockCfg) (c : CConc) (t : Nat) (call : Call) (cached : Bool) :
    Option (CConc × Option Ret) :=
  match c.thr t with
  | none => some ({ c with thr := updT c.thr t (some { call := call, prog := impl.start cfg cached call }) }, none)
  | some _ => none

/-- one scheduler step; `none` = the action is not enabled -/
def cstep (impl : Impl) (cfg : Nat → LockCfg) (c : CConc) : Act → Option (CConc × Option Ret)
  | .acquire t i cached => enter impl cfg c t (.acq i (c.st.secs i)) cached
  | .release t i cached => enter impl cfg c t (.rel i) cached
  | .cmd t =>
    match c.thr t with
    | none => none
    | some th =>
      match th.prog with
      | .done _ => none
      | .cmd cm k =>
        some ({ st := { c.st with store := (cm.exec c.st.store).1 },
                thr := updT c.thr t (some { th with prog := k (cm.exec c.st.store).2 }) }, none)
  | .ret t =>
    match c.thr t with
    | none => none
    | some th =>
      match th.prog with
      | .done b => some ({ c with thr := updT c.thr t none }, some { t := t, call := th.call, result := b })
      | .cmd _ _ => none
  | .ft ms => some ({ c with st := (step cfg c.st (.ft ms)).1 }, none)
  | .setExpire i v => some ({ c with st := (step cfg c.st (.setExpire i v)).1 }, none)

/-- what a step contributes to the history of the shared state -/
def label (c : CConc) : Act → Option Op
  | .cmd t =>
    match c.thr t with
    | none => none
    | some th =>
      match th.prog with
      | .done _ => none
      | .cmd cm _ => if cm.isStoreStep then some th.call.op else none
  | .ft ms => some (.ft ms)
  | .setExpire i v => some (.setExpire i v)
  | _ => none

/-- run a schedule; `none` if it picks a disabled action -/
def crun (impl : Impl) (cfg : Nat → LockCfg) : CConc → List Act → Option CConc
  | c, [] => some c
  | c, a :: as =>
    match cstep impl cfg c a with
    | some r => crun impl cfg r.1 as
    | none => none

/-- the history a schedule leaves on the shared state -/
def chist (impl : Impl) (cfg : Nat → LockCfg) : CConc → List Act → List Op
  | _, [] => []
  | c, a :: as =>
    match cstep impl cfg c a with
    | some r => (label c a).toList ++ chist impl cfg r.1 as
    | none => []

/-- the calls that returned, in order -/
def crets (impl : Impl) (cfg : Nat → LockCfg) : CConc → List Act → List Ret
  | _, [] => []
  | c, a :: as =>
    match cstep impl cfg c a with
    | some r => r.2.toList ++ crets impl cfg r.1 as
    | none => []

/-! ### the schedule of an `inj` line -/

/-- perform up to `n` round trips of thread `t` (stops when the call has nothing more to send); returns the
number performed -/
def cmdsUpTo (impl : Impl) (cfg : Nat → LockCfg) (t : Nat) : Nat → CConc → CConc × Nat
  | 0, c => (c, 0)
  | n + 1, c =>
    match cstep impl cfg c (.cmd t) with
    | some r => ((cmdsUpTo impl cfg t n r.1).1, (cmdsUpTo impl cfg t n r.1).2 + 1)
    | none => (c, 0)

/-- the call of thread `t` returns (if it is at `done`) -/
def retOf (impl : Impl) (cfg : Nat → LockCfg) (c : CConc) (t : Nat) : CConc × Option Bool :=
  match cstep impl cfg c (.ret t) with
  | some r => (r.1, r.2.map (·.result))
  | none => (c, none)

def pending (c : CConc) (t : Nat) : Bool :=
  match c.thr t with
  | none => false
  | some th =>
    match th.prog with
    | .done _ => false
    | .cmd _ _ => true

/-- a complete call / clock advance / SetExpire by thread `t` (its round trips back to back) -/
def wholeOp (impl : Impl) (cfg : Nat → LockCfg) (t : Nat) (c : CConc) : Op → CConc × Bool
  | .ft ms => ({ c with st := (step cfg c.st (.ft ms)).1 }, true)
  | .setExpire i v => ({ c with st := (step cfg c.st (.setExpire i v)).1 }, true)
  | .acquire i =>
    match cstep impl cfg c (.acquire t i true) with
    | some r => let c' := (cmdsUpTo impl cfg t 8 r.1).1
                ((retOf impl cfg c' t).1, ((retOf impl cfg c' t).2).getD false)
    | none => (c, false)
  | .release i =>
    match cstep impl cfg c (.release t i true) with
    | some r => let c' := (cmdsUpTo impl cfg t 8 r.1).1
                ((retOf impl cfg c' t).1, ((retOf impl cfg c' t).2).getD false)
    | none => (c, false)
  | .acquireS _ _ => (c, false)

def wholeOps (impl : Impl) (cfg : Nat → LockCfg) (t : Nat) : CConc → List Op → CConc × List Bool
  | c, [] => (c, [])
  | c, op :: ops =>
    ((wholeOps impl cfg t (wholeOp impl cfg t c op).1 ops).1,
     (wholeOp impl cfg t c op).2 :: (wholeOps impl cfg t (wholeOp impl cfg t c op).1 ops).2)

structure InjResult where
  st     : St
  outer  : Bool          -- result of the call under observation
  inner  : List Bool     -- results of the operations placed inside it
  ncmds  : Nat           -- round trips the call made
  fired  : Option Nat    -- `some p`: the operations ran before its p-th round trip; `none`: after it returned

/-- `inj p <outer> [inner…]`: thread 0 enters `outer`; before its `p`-th round trip (if it makes one) thread 1
runs `inner`; otherwise `inner` runs after `outer` has returned. -/
def runInj (impl : Impl) (cfg : Nat → LockCfg) (st : St) (outer : Op) (cached : Bool) (p : Nat) (inner : List Op) :
    InjResult :=
  let c0 : CConc := { st := st, thr := fun _ => none }
  let entered : Option (CConc × Option Ret) :=
    match outer with
    | .acquire i => cstep impl cfg c0 (.acquire 0 i cached)
    | .release i => cstep impl cfg c0 (.release 0 i cached)
    | _ => none
  match entered with
  | none => { st := st, outer := false, inner := [], ncmds := 0, fired := none }
  | some r =>
    let a := cmdsUpTo impl cfg 0 (p - 1) r.1
    if p ≥ 1 ∧ a.2 = p - 1 ∧ pending a.1 0 then
      let b := wholeOps impl cfg 1 a.1 inner
      let f := cmdsUpTo impl cfg 0 8 b.1
      let z := retOf impl cfg f.1 0
      { st := z.1.st, outer := z.2.getD false, inner := b.2, ncmds := a.2 + f.2, fired := some p }
    else
      let f := cmdsUpTo impl cfg 0 8 a.1
      let z := retOf impl cfg f.1 0
      let b := wholeOps impl cfg 1 z.1 inner
      { st := b.1.st, outer := z.2.getD false, inner := b.2, ncmds := a.2 + f.2, fired := none }

end GoZero.C19
