/-
C19 — the ids (round 4): a model of `stringx.Randn` as a function of the successive 6-bit draws it takes from its
random source (core Lean only).  `NewRedisLock` sets `id := stringx.Randn(randomLen)`.
-/
namespace GoZero.C19

/-- `letterBytes` of core/stringx/random.go -/
def idAlphabet : List Char := "abcdefghijklmnopqrstuvwxyzABCDEFGHIJKLMNOPQRSTUVWXYZ0123456789".toList

/-- the 6-bit indices `stringx.Randn` reads from one `src.Int63()` value: `letterIdxMax = 10` of them, low bits first
(`idx := cache & letterIdxMask`, then `cache >>= letterIdxBits`) -/
def drawsOfInt63 (v : Nat) : List Nat := (List.range 10).map fun j => (v >>> (6 * j)) &&& 63

def drawsOf (vs : List Nat) : List Nat := vs.flatMap drawsOfInt63

/-- `stringx.Randn(n)` as a function of the successive draws: a draw is used iff `idx < len(letterBytes) = 62`
(rejection), the used draws fill `b[n-1], b[n-2], …, b[0]`; `none` = the draws ran out before `n` were accepted
(the Go loop would ask the source for more). -/
def randnFrom (n : Nat) (draws : List Nat) : Option (List Char) :=
  if ((draws.filter (· < 62)).take n).length = n then
    some ((((draws.filter (· < 62)).take n).map fun i => idAlphabet.getD i 'a').reverse)
  else none

theorem idAlphabet_length : idAlphabet.length = 62 := by decide
theorem idAlphabet_nodup : idAlphabet.Nodup := by decide

theorem drawsOfInt63_lt (v : Nat) : ∀ d ∈ drawsOfInt63 v, d < 64 := by
  intro d hd
  simp only [drawsOfInt63, List.mem_map] at hd
  obtain ⟨j, _, rfl⟩ := hd
  exact Nat.lt_of_le_of_lt Nat.and_le_right (by decide)

theorem randnFrom_length (n : Nat) (draws : List Nat) (id : List Char) (h : randnFrom n draws = some id) :
    id.length = n := by
  unfold randnFrom at h
  split at h
  · rename_i hl
    cases h
    simpa using hl
  · cases h

theorem getD_mem_alphabet (i : Nat) (h : i < 62) : idAlphabet.getD i 'a' ∈ idAlphabet := by
  have key : ∀ i, i < 62 → idAlphabet.getD i 'a' ∈ idAlphabet := by decide
  exact key i h

theorem randnFrom_alphabet (n : Nat) (draws : List Nat) (id : List Char) (h : randnFrom n draws = some id) :
    ∀ c ∈ id, c ∈ idAlphabet := by
  unfold randnFrom at h
  split at h
  · cases h
    intro c hc
    simp only [List.mem_reverse, List.mem_map] at hc
    obtain ⟨i, hi, rfl⟩ := hc
    have hi2 := List.mem_of_mem_take hi
    simp only [List.mem_filter, decide_eq_true_eq] at hi2
    exact getD_mem_alphabet i hi2.2
  · cases h

theorem alphabet_getD_inj (i j : Nat) (hi : i < 62) (hj : j < 62) (h : idAlphabet.getD i 'a' = idAlphabet.getD j 'a') :
    i = j := by
  have key : ∀ i, i < 62 → idAlphabet.idxOf (idAlphabet.getD i 'a') = i := by decide
  have := congrArg idAlphabet.idxOf h
  rw [key i hi, key j hj] at this
  exact this

theorem map_getD_inj : ∀ (a b : List Nat), (∀ i ∈ a, i < 62) → (∀ i ∈ b, i < 62) →
    a.map (fun i => idAlphabet.getD i 'a') = b.map (fun i => idAlphabet.getD i 'a') → a = b := by
  intro a
  induction a with
  | nil => intro b _ _ h; cases b <;> simp_all
  | cons x a ih =>
    intro b ha hb h
    cases b with
    | nil => simp at h
    | cons y b =>
      simp only [List.map_cons, List.cons.injEq] at h
      have hx := alphabet_getD_inj x y (ha x List.mem_cons_self) (hb y List.mem_cons_self) h.1
      have := ih b (fun i hi => ha i (List.mem_cons_of_mem _ hi)) (fun i hi => hb i (List.mem_cons_of_mem _ hi)) h.2
      rw [hx, this]

end GoZero.C19
