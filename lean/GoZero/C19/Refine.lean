/-
C19 — refinement: the Redis-level model (scripts over the store) implements the lease table of Spec.lean,
step for step, with the same results and the same observable view, from every state in which all
entries carry a TTL (true initially and preserved: the scripts only ever write with PX).
-/
import GoZero.C19.Invariants
namespace GoZero.C19
open Spec

def HasTTL (st : St) : Prop := ∀ k e, st.store.ent k = some e → ∃ x, e.exp = some x

/-- abstraction: entry (value, expiry) ↦ lease (holder, till) -/
def abs (st : St) : ASt :=
  { now := st.store.now,
    lease := fun k =>
      match st.store.ent k with
      | some e => match e.exp with
        | some x => some { holder := e.val, till := x }
        | none => none
      | none => none,
    secs := st.secs,
    grace := st.store.grace }

theorem ASt.ext' {a b : ASt} (h1 : a.now = b.now) (h2 : ∀ k, a.lease k = b.lease k)
    (h3 : ∀ i, a.secs i = b.secs i) (h4 : a.grace = b.grace) : a = b := by
  cases a; cases b; simp at *; exact ⟨h1, funext h2, funext h3, h4⟩

theorem abs_holder (st : St) (h : HasTTL st) (k : String) :
    (abs st).holder k = (st.store.live k).map (fun e => { holder := e.val, till := e.exp.getD 0 }) := by
  unfold ASt.holder abs Store.live
  cases he : st.store.ent k with
  | none => simp [he]
  | some e =>
    obtain ⟨x, hx⟩ := h k e he
    by_cases hl : st.store.now < x <;> simp [he, hx, hl, Entry.liveAt, abs]

theorem abs_freeFor (st : St) (h : HasTTL st) (k id : String) :
    (abs st).freeFor k id = true ↔ freeFor st.store k id := by
  unfold ASt.freeFor freeFor Store.get
  rw [abs_holder st h]
  cases st.store.live k <;> simp

theorem abs_heldBy (st : St) (h : HasTTL st) (k id : String) :
    (abs st).heldBy k id = true ↔ st.store.get k = some id := by
  unfold ASt.heldBy Store.get
  rw [abs_holder st h]
  cases st.store.live k <;> simp

theorem abs_view (st : St) (h : HasTTL st) (k : String) : (abs st).view k = st.view k := by
  unfold ASt.view St.view
  rw [abs_holder st h]
  unfold Store.pttl Store.live
  cases he : st.store.ent k with
  | none => simp [he]
  | some e =>
    obtain ⟨x, hx⟩ := h k e he
    by_cases hl : st.store.now < x <;> simp [he, hx, hl, Entry.liveAt, abs]

theorem hasTTL_initG (g : Nat) : HasTTL (St.initG g) := by
  intro k e he; simp [St.initG, Store.emptyG] at he

theorem hasTTL_init : HasTTL St.init := hasTTL_initG 0

theorem abs_initG (g : Nat) : abs (St.initG g) = ASt.initG g := by
  apply ASt.ext' <;> intros <;> rfl

theorem hasTTL_step (cfg : Nat → LockCfg) (st : St) (op : Op) (h : HasTTL st) : HasTTL (step cfg st op).1 := by
  cases op with
  | ft ms => exact h
  | setExpire j s => exact h
  | acquire j =>
    intro k e he
    simp only [step, acquire, acquireWith_ent] at he
    split at he
    · simp at he; exact ⟨_, by rw [← he]⟩
    · exact h k e he
  | acquireS j secs =>
    intro k e he
    simp only [step, acquireWith_ent] at he
    split at he
    · simp at he; exact ⟨_, by rw [← he]⟩
    · exact h k e he
  | release j =>
    intro k e he
    simp only [step, release_ent] at he
    split at he
    · simp at he
    · exact h k e he

theorem acquireWith_refines (cfg : Nat → LockCfg) (st : St) (j secs : Nat) (h : HasTTL st) :
    (if (abs st).freeFor (cfg j).key (cfg j).id then ((abs st).grant (cfg j).key (cfg j).id secs, true)
     else (abs st, false)) = (abs (acquireWith cfg st j secs).1, (acquireWith cfg st j secs).2) := by
  by_cases hf : freeFor st.store (cfg j).key (cfg j).id
  · have h1 := (abs_freeFor st h (cfg j).key (cfg j).id).2 hf
    have h2 := (acquireWith_result cfg st j secs).2 hf
    rw [if_pos h1, h2]
    congr 1
    apply ASt.ext'
    · simp [ASt.grant, abs, acquireWith_now]
    · intro k
      simp only [ASt.grant, abs, acquireWith_ent, updL]
      by_cases hk : k = (cfg j).key
      · simp [hk, hf]; rfl
      · simp [hk]
    · intro i; rfl
    · simp [ASt.grant, abs, acquireWith_grace]
  · have h1 : ¬ (abs st).freeFor (cfg j).key (cfg j).id = true := fun c => hf ((abs_freeFor st h _ _).1 c)
    have h2 : (acquireWith cfg st j secs).2 = false := by
      cases hc : (acquireWith cfg st j secs).2 with
      | false => rfl
      | true => exact absurd ((acquireWith_result _ _ _ _).1 hc) hf
    rw [if_neg h1, h2, acquireWith_unchanged cfg st j _ hf]

theorem step_refines (cfg : Nat → LockCfg) (st : St) (op : Op) (h : HasTTL st) :
    Spec.step cfg (abs st) op = (abs (step cfg st op).1, (step cfg st op).2) := by
  cases op with
  | ft ms => simp [Spec.step, step, abs, Store.advance]
  | setExpire j s => simp [Spec.step, step, abs]
  | acquire j => exact acquireWith_refines cfg st j (st.secs j) h
  | acquireS j secs => exact acquireWith_refines cfg st j secs h
  | release j =>
    simp only [Spec.step, step]
    by_cases hf : holds cfg st j
    · have h1 := (abs_heldBy st h (cfg j).key (cfg j).id).2 hf
      have h2 := (release_result cfg st j).2 hf
      rw [if_pos h1, h2]
      congr 1
      apply ASt.ext'
      · simp [abs, release_now]
      · intro k
        simp only [abs, release_ent, updL]
        by_cases hk : k = (cfg j).key
        · simp [hk, hf]
        · simp [hk]
      · intro i; rfl
      · simp [abs, release_grace]
    · have h1 : ¬ (abs st).heldBy (cfg j).key (cfg j).id = true := fun c => hf ((abs_heldBy st h _ _).1 c)
      have h2 : (release cfg st j).2 = false := by
        cases hc : (release cfg st j).2 with
        | false => rfl
        | true => exact absurd ((release_result _ _ _).1 hc) hf
      rw [if_neg h1, h2, release_unchanged cfg st j hf]

theorem results_refine (cfg : Nat → LockCfg) (ops : List Op) :
    ∀ st, HasTTL st → Spec.results cfg (abs st) ops = results cfg st ops := by
  induction ops with
  | nil => intro st _; rfl
  | cons op ops ih =>
    intro st h
    simp only [Spec.results, results, step_refines cfg st op h]
    rw [ih _ (hasTTL_step cfg st op h)]

def Spec.run (cfg : Nat → LockCfg) (a : ASt) (ops : List Op) : ASt := ops.foldl (fun a op => (Spec.step cfg a op).1) a

theorem run_refines (cfg : Nat → LockCfg) (ops : List Op) :
    ∀ st, HasTTL st → Spec.run cfg (abs st) ops = abs (run cfg st ops) ∧ HasTTL (run cfg st ops) := by
  induction ops with
  | nil => intro st h; exact ⟨rfl, h⟩
  | cons op ops ih =>
    intro st h
    simp only [Spec.run, run, List.foldl_cons, step_refines cfg st op h]
    exact ih _ (hasTTL_step cfg st op h)

end GoZero.C19
