/-
C19 — abstract specification: the property read literally, in terms of leases (no Redis commands).

State: a clock, per key at most one lease (holder id, time until which it is held), per instance its
configured seconds, and the boundary convention `grace` (0: the lease ends exactly at its length, 1: real
Redis, one millisecond later).
  * Acquire by `id` on key `k` succeeds iff no *other* id holds `k` unexpired; then `id` holds `k` until
    now + seconds·1000 + 500 (+ grace) (a re-acquire by the holder refreshes the lease).  Otherwise nothing changes.
  * Release by `id` frees `k` and reports true iff `id` is the current unexpired holder; otherwise it
    reports false and nothing changes.
`explain` words a disagreement between this spec and an observed result in the property's terms; the
driver uses it as the executable monitor on the implementation's trace.
-/
import GoZero.C19.Model
namespace GoZero.C19.Spec
open GoZero.C19

structure Lease where
  holder : String
  till   : Nat          -- held while now < till
  deriving Repr, DecidableEq

structure ASt where
  now   : Nat
  lease : String → Option Lease
  secs  : Nat → Nat
  grace : Nat := 0     -- boundary convention of the store (see Store.lean): a lease outlives its length by `grace` ms

def ASt.initG (g : Nat) : ASt := { now := 0, lease := fun _ => none, secs := fun _ => 0, grace := g }

def ASt.init : ASt := ASt.initG 0

/-- the unexpired lease on `k`, if any -/
def ASt.holder (a : ASt) (k : String) : Option Lease :=
  match a.lease k with
  | some l => if a.now < l.till then some l else none
  | none => none

def updL (f : String → Option Lease) (k : String) (v : Option Lease) : String → Option Lease :=
  fun k' => if k' = k then v else f k'

/-- may `id` take (or refresh) the lock on `k` now? -/
def ASt.freeFor (a : ASt) (k id : String) : Bool :=
  match a.holder k with
  | none => true
  | some l => l.holder == id

def ASt.grant (a : ASt) (k id : String) (seconds : Nat) : ASt :=
  { a with lease := updL a.lease k (some { holder := id, till := a.now + (seconds * 1000 + 500) + a.grace }) }

def ASt.heldBy (a : ASt) (k id : String) : Bool :=
  match a.holder k with
  | none => false
  | some l => l.holder == id

def step (cfg : Nat → LockCfg) (a : ASt) : Op → ASt × Bool
  | .ft ms => ({ a with now := a.now + ms }, true)
  | .acquire i =>
    if a.freeFor (cfg i).key (cfg i).id then (a.grant (cfg i).key (cfg i).id (a.secs i), true) else (a, false)
  | .release i =>
    if a.heldBy (cfg i).key (cfg i).id then ({ a with lease := updL a.lease (cfg i).key none }, true) else (a, false)
  | .setExpire i s => ({ a with secs := updN a.secs i (toUint32 s) }, true)
  | .acquireS i seconds =>
    if a.freeFor (cfg i).key (cfg i).id then (a.grant (cfg i).key (cfg i).id seconds, true) else (a, false)

def results (cfg : Nat → LockCfg) : ASt → List Op → List Bool
  | _, [] => []
  | a, op :: ops => (step cfg a op).2 :: results cfg (step cfg a op).1 ops

/-- observable view of a key: (holder id, remaining ms) -/
def ASt.view (a : ASt) (k : String) : Option (String × Int) :=
  (a.holder k).map fun l => (l.holder, (l.till : Int) - (a.grace : Int) - (a.now : Int))

/-- the property's wording for a result that differs from the spec's (monitor message). -/
def explain (cfg : Nat → LockCfg) (a : ASt) (op : Op) (impl : Bool) : Option String :=
  if (step cfg a op).2 = impl then none else
  match op with
  | .acquire i | .acquireS i _ =>
    match a.holder (cfg i).key with
    | some l =>
      if impl then some s!"two holders: Acquire by instance {i} succeeded while {l.holder} holds {(cfg i).key} for another {l.till - a.now} ms"
      else some s!"Acquire by the holder (instance {i}) did not refresh its own lease on {(cfg i).key}"
    | none => some s!"Acquire by instance {i} refused although {(cfg i).key} is free"
  | .release i =>
    if impl then
      match a.holder (cfg i).key with
      | some l => some s!"Release by instance {i} reported true but {(cfg i).key} is held by {l.holder}"
      | none => some s!"Release by instance {i} reported true but {(cfg i).key} is not held (lease expired or never taken)"
    else some s!"Release by the current holder (instance {i}) reported false"
  | _ => some "operation without result reported failure"

/-! ### what the callers believe

A caller whose `Acquire` returned true at time `t` with `seconds = s` believes it holds the lock until
`t + s·1000 + 500` (the lease the property promises) or until it calls `Release`.  A refused `Acquire`
leaves an earlier belief alone.  `Belief.step` is fed with *results* (the model's in the theorems, the
implementation's in the driver's monitor), never with the store. -/

abbrev Belief := Nat → Option Nat

def updB (b : Belief) (i : Nat) (v : Option Nat) : Belief := fun j => if j = i then v else b j

def Belief.none : Belief := fun _ => Option.none

def Belief.step (b : Belief) (now : Nat) (secs : Nat → Nat) (op : Op) (res : Bool) : Belief :=
  match op with
  | .acquire i => if res then updB b i (some (now + (secs i * 1000 + 500))) else b
  | .acquireS i seconds => if res then updB b i (some (now + (seconds * 1000 + 500))) else b
  | .release i => updB b i Option.none
  | _ => b

/-- `i` believes it holds its key at time `now` -/
def believes (b : Belief) (now : Nat) (i : Nat) : Bool :=
  match b i with
  | some u => decide (now < u)
  | Option.none => false

end GoZero.C19.Spec
