/-
C19 — property theorems (statements, short proofs from the lemmas, non-vacuity examples).

Boundary convention.  The store carries `grace` (Store.lean): 0 = miniredis (a key written with PX px at t is
gone from t+px on), 1 = real Redis (gone from t+px+1 on).  Everything below is proved for every `grace`
(`St.initG g` is the empty store with convention `g`); `lease_exact_miniredis_boundary` and
`lease_exact_redis_boundary` spell the two instances out.

Setting.  `cfg : Nat → LockCfg` gives every `RedisLock` instance (any number of them, `Nat` is unbounded)
its key and its id.  `DistinctIds cfg` is the one assumption on the random 16-character ids: instances on
the same key carry different ids.  A history is any list of `Op`s (`ft ms` clock advance, `acquire i`,
`release i`, `setExpire i s`, `acquireS i seconds`) — every theorem below quantifies over *all* states or
*all* histories.

Schedules.  A call is made of atomic steps: Acquire = `atomic.LoadUint32(&seconds)`, then one script run
(atomic in Redis), then local decoding of the reply; Release = one script run; SetExpire = one
`atomic.StoreUint32`.  The only shared state is the Redis store and the `seconds` words.  So a concurrent
execution of any number of goroutines is a sequence of such steps, and its effect on the shared state is
the history that lists the stores and the script runs in the order they happened, an Acquire's script run
written `acquireS i s` with `s` the value its load returned (`acquire i` is the special case where nothing
happened in between, `acquire_is_load_then_run`).  All history theorems range over these histories, i.e.
over every schedule; what is trusted is that Redis runs a script atomically.
-/
import Std.Data.String.ToNat
import GoZero.C19.Refine
import GoZero.C19.Schedule
import GoZero.C19.Atomic
import GoZero.C19.InjModel
import GoZero.C19.Driver
import GoZero.C19.LinProofs
import GoZero.C19.Ids
import GoZero.C19.OutcomeProofs
import GoZero.C19.CmdTrace
namespace GoZero.C19
open Spec

/-- three and more instances on one key, ids "a", "aa", "aaa", … -/
def exCfg (i : Nat) : LockCfg := { key := "k", id := String.ofList (List.replicate (i + 1) 'a') }

/-! ### Acquire -/

/-- a whole `Acquire()` call with nothing in between = load `seconds`, then run the script with it. -/
theorem acquire_is_load_then_run (cfg : Nat → LockCfg) (st : St) (i : Nat) :
    step cfg st (.acquire i) = step cfg st (.acquireS i (st.secs i)) := rfl

/-- **Acquire succeeds iff nobody else holds the key unexpired**: the key is absent/expired, or it already
carries this instance's id (in every state whatsoever). -/
theorem acquire_iff_free_or_own (cfg : Nat → LockCfg) (st : St) (i : Nat) :
    (acquire cfg st i).2 = true ↔
      (st.store.get (cfg i).key = none ∨ st.store.get (cfg i).key = some (cfg i).id) :=
  acquireWith_result cfg st i (st.secs i)

/-- a successful Acquire (first or refreshing) makes the instance the holder with a lease of exactly
`seconds·1000 + 500` ms; a refused Acquire changes nothing at all. -/
theorem acquire_effect (cfg : Nat → LockCfg) (st : St) (i : Nat) :
    ((acquire cfg st i).2 = true →
        (acquire cfg st i).1.view (cfg i).key = some ((cfg i).id, ((st.secs i * 1000 + 500 : Nat) : Int))) ∧
    ((acquire cfg st i).2 = false → (acquire cfg st i).1 = st) := by
  constructor
  · intro h
    have hf := (acquireWith_result cfg st i (st.secs i)).1 h
    have he := acquireWith_ent cfg st i (st.secs i) (cfg i).key
    simp only [hf, and_self, if_true] at he
    have hn := acquireWith_now cfg st i (st.secs i)
    have hg := acquireWith_grace cfg st i (st.secs i)
    have hp := leaseMs_pos (st.secs i)
    have hl : leaseMs (st.secs i) = st.secs i * 1000 + 500 := rfl
    rw [hl] at he
    simp only [acquire, St.view, Store.pttl, Store.live, he, hn, hg, Entry.liveAt]
    have : st.store.now < st.store.now + (st.secs i * 1000 + 500) + st.store.grace := by omega
    simp [this]
    omega
  · intro h
    have hf : ¬ freeFor st.store (cfg i).key (cfg i).id := fun c => by
      have := (acquireWith_result cfg st i (st.secs i)).2 c
      simp [acquire] at h; rw [h] at this; cases this
    exact acquireWith_unchanged cfg st i _ hf

/-- `SetExpire(s)` with `0 ≤ s < 2³²` is what the next Acquire uses as `seconds`. -/
theorem setExpire_configures_seconds (cfg : Nat → LockCfg) (st : St) (i : Nat) (s : Int)
    (h0 : 0 ≤ s) (h1 : s < 4294967296) :
    (((step cfg st (.setExpire i s)).1.secs i : Nat) : Int) = s := by
  simp only [step, updN, if_true, toUint32]
  omega

/-- **The lease lasts the configured seconds plus 500 ms — exactly** (plus the store's boundary
millisecond `grace`: 0 for miniredis, 1 for real Redis).  After a successful Acquire by `i` with
`seconds = secs`, let the other instances do anything (acquire, release, set their expiry — on this key or
others) and let the clock advance arbitrarily, `i` itself making no call: `i` is the holder of its key as
long as the total advance is `< secs·1000 + 500 + grace`, and no longer from then on. -/
theorem lease_is_seconds_plus_500ms (cfg : Nat → LockCfg) (hd : DistinctIds cfg) (st : St) (i secs : Nat)
    (h : (acquireWith cfg st i secs).2 = true) (ops : List Op) (hq : ∀ op ∈ ops, quietFor i op = true) :
    holds cfg (run cfg (acquireWith cfg st i secs).1 ops) i ↔ elapsed ops < secs * 1000 + 500 + st.store.grace := by
  have hinv := leaseInv_run cfg hd i _ ops _ hq (leaseInv_after_acquire cfg st i secs h)
  rw [leaseInv_holds_iff cfg i _ _ hinv, run_now, acquireWith_now]
  have : leaseMs secs = secs * 1000 + 500 := rfl
  omega

/-- the miniredis convention (`grace = 0`, the one the correspondence run validates): exactly `seconds·1000+500` ms -/
theorem lease_exact_miniredis_boundary (cfg : Nat → LockCfg) (hd : DistinctIds cfg) (st : St) (i secs : Nat)
    (hg : st.store.grace = 0)
    (h : (acquireWith cfg st i secs).2 = true) (ops : List Op) (hq : ∀ op ∈ ops, quietFor i op = true) :
    holds cfg (run cfg (acquireWith cfg st i secs).1 ops) i ↔ elapsed ops < secs * 1000 + 500 := by
  rw [lease_is_seconds_plus_500ms cfg hd st i secs h ops hq, hg]

/-- the real-Redis convention (`grace = 1`: a key is still there in the millisecond its TTL reaches 0): the
holder keeps the key for `seconds·1000+500` ms *and* the boundary millisecond — never less than promised. -/
theorem lease_exact_redis_boundary (cfg : Nat → LockCfg) (hd : DistinctIds cfg) (st : St) (i secs : Nat)
    (hg : st.store.grace = 1)
    (h : (acquireWith cfg st i secs).2 = true) (ops : List Op) (hq : ∀ op ∈ ops, quietFor i op = true) :
    holds cfg (run cfg (acquireWith cfg st i secs).1 ops) i ↔ elapsed ops ≤ secs * 1000 + 500 := by
  rw [lease_is_seconds_plus_500ms cfg hd st i secs h ops hq, hg]; omega

/-- while an instance holds a key, every other instance's Acquire on that key is refused and every other
instance's Release reports false — and neither changes anything (state equality). -/
theorem others_refused_while_held (cfg : Nat → LockCfg) (hd : DistinctIds cfg) (st : St) (i j : Nat)
    (hij : i ≠ j) (hk : (cfg i).key = (cfg j).key) (hh : holds cfg st i) :
    (acquire cfg st j).2 = false ∧ (acquire cfg st j).1 = st ∧
    (release cfg st j).2 = false ∧ (release cfg st j).1 = st := by
  have hid : (cfg i).id ≠ (cfg j).id := fun c => hij (hd i j hk c)
  unfold holds at hh
  rw [hk] at hh
  have hf : ¬ freeFor st.store (cfg j).key (cfg j).id := by
    intro c; rcases c with c | c <;> simp [hh] at c; exact hid c
  have hnh : ¬ holds cfg st j := by unfold holds; rw [hh]; simpa using hid
  refine ⟨?_, acquireWith_unchanged cfg st j _ hf, ?_, release_unchanged cfg st j hnh⟩
  · cases hc : (acquire cfg st j).2 with
    | false => rfl
    | true => exact absurd ((acquireWith_result _ _ _ _).1 hc) hf
  · cases hc : (release cfg st j).2 with
    | false => rfl
    | true => exact absurd ((release_result _ _ _).1 hc) hnh

/-! ### One holder at a time -/

/-- **At most one holder at any moment, until lease expiry.**  Run any history from the empty store and
give every caller the belief the property promises (after `Acquire = true` at time `t`: "the lock is mine
until `t + seconds·1000 + 500`", dropped on `Release`).  At every moment, two different instances on the
same key never both believe to hold it. -/
theorem at_most_one_holder (g : Nat) (cfg : Nat → LockCfg) (hd : DistinctIds cfg) (ops : List Op) (i j : Nat)
    (hij : i ≠ j) (hk : (cfg i).key = (cfg j).key) :
    ¬ (believes (grun cfg (St.initG g) Belief.none ops).2 (grun cfg (St.initG g) Belief.none ops).1.store.now i = true ∧
       believes (grun cfg (St.initG g) Belief.none ops).2 (grun cfg (St.initG g) Belief.none ops).1.store.now j = true) := by
  have hinv := beliefInv_grun cfg hd ops (St.initG g) Belief.none (by intro i u hb; simp [Belief.none] at hb)
  intro ⟨h1, h2⟩
  have g1 := believes_holds cfg _ _ hinv i h1
  have g2 := believes_holds cfg _ _ hinv j h2
  unfold holds at g1 g2
  rw [hk, g2] at g1
  simp at g1
  exact hij (hd i j hk g1.symm)

/-- the belief is sound: whoever believes to hold the key is the holder in Redis (same histories). -/
theorem believer_is_holder (g : Nat) (cfg : Nat → LockCfg) (hd : DistinctIds cfg) (ops : List Op) (i : Nat)
    (hb : believes (grun cfg (St.initG g) Belief.none ops).2 (grun cfg (St.initG g) Belief.none ops).1.store.now i = true) :
    holds cfg (run cfg (St.initG g) ops) i := by
  have hinv := beliefInv_grun cfg hd ops (St.initG g) Belief.none (by intro i u hb; simp [Belief.none] at hb)
  have := believes_holds cfg _ _ hinv i hb
  rwa [grun_fst] at this

/-- in Redis itself two different instances on one key are never both the holder (any state). -/
theorem holders_unique (cfg : Nat → LockCfg) (hd : DistinctIds cfg) (st : St) (i j : Nat)
    (hk : (cfg i).key = (cfg j).key) (hi : holds cfg st i) (hj : holds cfg st j) : i = j := by
  unfold holds at hi hj
  rw [hk, hj] at hi
  simp at hi
  exact hd i j hk hi.symm

/-! ### Release -/

/-- **Release frees the key only when called by the current holder and reports false otherwise**:
the result is true iff the caller is the holder; if it is not, the whole state is unchanged; if it is,
its key is free afterwards and every other key is untouched. -/
theorem release_only_by_holder (cfg : Nat → LockCfg) (st : St) (i : Nat) :
    ((release cfg st i).2 = true ↔ holds cfg st i) ∧
    (¬ holds cfg st i → (release cfg st i).1 = st) ∧
    (holds cfg st i → (release cfg st i).1.store.get (cfg i).key = none ∧
        ∀ k, k ≠ (cfg i).key → (release cfg st i).1.store.ent k = st.store.ent k) := by
  refine ⟨release_result cfg st i, release_unchanged cfg st i, ?_⟩
  intro hh
  constructor
  · apply get_of_ent_none
    rw [release_ent]; simp [hh]
  · intro k hk
    rw [release_ent]; simp [hk]

/-- **A late release by an expired holder never frees a lock that has since been taken by someone else.**
`a` acquires; the clock runs past `a`'s lease (`d ≥ seconds_a·1000 + 500 + grace`); `b` acquires — and gets the
lock; `a` releases: reports false, and `b` still holds the key with its full lease. -/
theorem late_release_harmless (cfg : Nat → LockCfg) (hd : DistinctIds cfg) (st : St) (a b d : Nat)
    (hab : a ≠ b) (hk : (cfg a).key = (cfg b).key) (ha : (acquire cfg st a).2 = true)
    (hd' : st.secs a * 1000 + 500 + st.store.grace ≤ d) :
    let st1 := (acquire cfg st a).1
    let st2 := (step cfg st1 (.ft d)).1
    let st3 := (acquire cfg st2 b).1
    (acquire cfg st2 b).2 = true ∧ (release cfg st3 a).2 = false ∧ (release cfg st3 a).1 = st3 ∧
      st3.view (cfg b).key = some ((cfg b).id, ((st.secs b * 1000 + 500 : Nat) : Int)) := by
  intro st1 st2 st3
  have hf := (acquireWith_result cfg st a (st.secs a)).1 ha
  have he : st1.store.ent (cfg a).key = some ⟨(cfg a).id, some (st.store.now + leaseMs (st.secs a) + st.store.grace)⟩ := by
    have := acquireWith_ent cfg st a (st.secs a) (cfg a).key
    simp only [hf, and_self, if_true] at this
    exact this
  have hn1 : st1.store.now = st.store.now := acquireWith_now cfg st a _
  have hl : leaseMs (st.secs a) = st.secs a * 1000 + 500 := rfl
  have hg2 : st2.store.get (cfg b).key = none := by
    rw [← hk]
    have he2 : st2.store.ent (cfg a).key = some ⟨(cfg a).id, some (st.store.now + leaseMs (st.secs a) + st.store.grace)⟩ := he
    exact get_of_ent_dead he2 (by show _ ≤ st1.store.now + d; omega)
  have hw := acquire_free_wins cfg st2 b hg2
  have hsecs : st2.secs b = st.secs b := rfl
  have hb : holds cfg st3 b := hw.2
  have ho := others_refused_while_held cfg hd st3 b a (Ne.symm hab) hk.symm hb
  refine ⟨hw.1, ho.2.2.1, ho.2.2.2, ?_⟩
  have := (acquire_effect cfg st2 b).1 hw.1
  rw [hsecs] at this
  exact this

/-- the general form: whenever somebody else holds the key (for whatever reason the caller's own lease is
gone), the caller's Release reports false and leaves the store as it is. -/
theorem release_by_non_holder_harmless (cfg : Nat → LockCfg) (hd : DistinctIds cfg) (st : St) (a b : Nat)
    (hab : a ≠ b) (hk : (cfg a).key = (cfg b).key) (hb : holds cfg st b) :
    (release cfg st a).2 = false ∧ (release cfg st a).1 = st :=
  let h := others_refused_while_held cfg hd st b a (Ne.symm hab) hk.symm hb
  ⟨h.2.2.1, h.2.2.2⟩

/-! ### Concurrent Acquire attempts -/

/-- **Of any number of concurrent Acquire attempts on one key, at most one instance succeeds**, whatever
the order `js` in which their (atomic) script runs reach Redis, from every state. -/
theorem concurrent_acquires_one_winner (cfg : Nat → LockCfg) (hd : DistinctIds cfg) (k : String)
    (js : List Nat) (hk : ∀ j ∈ js, (cfg j).key = k) (st : St) :
    ∀ x ∈ winners cfg st js, ∀ y ∈ winners cfg st js, x = y := by
  intro x hx y hy
  have hxk : (cfg x).key = k := hk x (winners_subset cfg x js st hx)
  have hyk : (cfg y).key = k := hk y (winners_subset cfg y js st hy)
  exact hd x y (by rw [hxk, hyk]) (winners_same_id cfg k js st hk x hx y hy)

/-- … and if the key is free, the first script run wins (so exactly one instance succeeds). -/
theorem concurrent_acquires_free_key (cfg : Nat → LockCfg) (st : St) (j : Nat) (js : List Nat)
    (hfree : st.store.get (cfg j).key = none) : j ∈ winners cfg st (j :: js) := by
  simp [winners, (acquire_free_wins cfg st j hfree).1]

/-! ### Schedules -/

/-- **Every schedule is a history.**  Let any number of goroutines run Acquire / Release / SetExpire calls,
interleaved at their atomic steps (load of `seconds`, script run, store of `seconds`; clock moving in
between): the shared state reached is the state of the history of its script runs and stores. -/
theorem every_schedule_is_a_history (g : Nat) (cfg : Nat → LockCfg) (ops : List Op) (c : Conc)
    (h : Exec cfg (Conc.initG g) ops c) : c.st = run cfg (St.initG g) ops :=
  exec_is_history cfg h

/-- the lease theorem read over schedules: once `i`'s script run has succeeded, whatever any other
goroutines do in whatever interleaving, `i` holds exactly while less than `seconds·1000+500` ms elapsed. -/
theorem lease_under_every_schedule (cfg : Nat → LockCfg) (hd : DistinctIds cfg) (st0 : St) (i secs : Nat)
    (h : (acquireWith cfg st0 i secs).2 = true) (c c' : Conc) (hc : c.st = (acquireWith cfg st0 i secs).1)
    (ops : List Op) (he : Exec cfg c ops c') (hq : ∀ op ∈ ops, quietFor i op = true) :
    holds cfg c'.st i ↔ elapsed ops < secs * 1000 + 500 + st0.store.grace := by
  rw [exec_is_history cfg he, hc]
  exact lease_is_seconds_plus_500ms cfg hd st0 i secs h ops hq

/-- in every configuration any schedule can reach, the callers' beliefs are exclusive. -/
theorem at_most_one_holder_under_every_schedule (g : Nat) (cfg : Nat → LockCfg) (hd : DistinctIds cfg) (ops : List Op)
    (c : Conc) (h : Exec cfg (Conc.initG g) ops c) (i j : Nat) (hij : i ≠ j) (hk : (cfg i).key = (cfg j).key) :
    ¬ (believes (grun cfg (St.initG g) Belief.none ops).2 c.st.store.now i = true ∧
       believes (grun cfg (St.initG g) Belief.none ops).2 c.st.store.now j = true) := by
  have := at_most_one_holder g cfg hd ops i j hij hk
  rw [grun_fst] at this
  rw [every_schedule_is_a_history g cfg ops c h]
  exact this

/-! ### Schedules at the granularity of Redis round trips (Cmds.lean / Atomic.lean)

A call is a program of round trips; between any two round trips of one call, any other goroutine may
perform round trips of its own calls, `SetExpire` may store and the Redis clock may move (`Act`, `cstep`).
Atomic = one round trip: one script execution.  A call that sends several commands is several steps. -/

/-- **Every Acquire / Release of the code that exists is ONE atomic store step**: whichever instance,
whatever `seconds` it loaded, whether or not the script is cached in Redis, the call executes exactly one
command on the store — the script — (possibly after an EVALSHA that Redis refused with NOSCRIPT without
executing anything) and returns what it decodes from that single reply.  (Tie: `tie_acquireStoreCalls`,
`tie_releaseStoreCalls`, `tie_scriptRunCtx` — exactly one `ScriptRunCtx` and no other store call in each.) -/
theorem every_call_is_one_atomic_store_step (cfg : Nat → LockCfg) (cached : Bool) (call : Call) :
    OneStoreStep (real.start cfg cached call) :=
  real_start_oneStoreStep cfg cached call

/-- … and that one round trip *is* the model's atomic operation: in every configuration reachable by any
schedule, when a thread's executing round trip happens the shared state makes exactly `step … call.op` and
the value the call will return is the model's result of that step. -/
theorem call_takes_effect_at_its_store_step (g : Nat) (cfg : Nat → LockCfg) (acts : List Act) (c : CConc)
    (h : crun real cfg (CConc.initG g) acts = some c) (t : Nat) (th : Thread) (hth : c.thr t = some th)
    (cm : Cmd) (k : Reply → Prog) (hp : th.prog = .cmd cm k) (hs : cm.isStoreStep = true) :
    cstep real cfg c (.cmd t) =
      some ({ st := (step cfg c.st th.call.op).1,
              thr := updT c.thr t (some { th with prog := .done (step cfg c.st th.call.op).2 }) }, none) :=
  real_store_step cfg c (real_exec_history cfg acts _ _ (realInv_init cfg (St.initG g)) h).1 t th hth cm k hp hs

/-- **Every schedule of round trips is a history of atomic operations.**  Any number of goroutines, their
calls interleaved round trip by round trip with clock advances and SetExpire stores in between: the shared
state reached is `run` of the history `chist` (script runs as `acquireS i loaded` / `release i`, stores, clock). -/
theorem every_command_schedule_is_a_history (g : Nat) (cfg : Nat → LockCfg) (acts : List Act) (c : CConc)
    (h : crun real cfg (CConc.initG g) acts = some c) :
    c.st = run cfg (St.initG g) (chist real cfg (CConc.initG g) acts) :=
  (real_exec_history cfg acts _ _ (realInv_init cfg (St.initG g)) h).2

/-- so the exclusivity of beliefs holds in every configuration any round-trip schedule can reach -/
theorem at_most_one_holder_under_every_command_schedule (g : Nat) (cfg : Nat → LockCfg) (hd : DistinctIds cfg)
    (acts : List Act) (c : CConc) (h : crun real cfg (CConc.initG g) acts = some c) (i j : Nat) (hij : i ≠ j)
    (hk : (cfg i).key = (cfg j).key) :
    ¬ (believes (grun cfg (St.initG g) Belief.none (chist real cfg (CConc.initG g) acts)).2 c.st.store.now i = true ∧
       believes (grun cfg (St.initG g) Belief.none (chist real cfg (CConc.initG g) acts)).2 c.st.store.now j = true) := by
  have := at_most_one_holder g cfg hd (chist real cfg (CConc.initG g) acts) i j hij hk
  rw [grun_fst] at this
  rw [every_command_schedule_is_a_history g cfg acts c h]
  exact this

/-- **Release by a non-holder, under every schedule**: whatever happened between the moment goroutine `t`
entered `Release` of instance `a` and the moment its round trip reaches Redis — `a`'s lease ran out, `b`
acquired — if `b` holds the key at that moment the round trip changes nothing and the call returns false. -/
theorem release_in_any_schedule_never_frees_anothers_lock (g : Nat) (cfg : Nat → LockCfg) (hd : DistinctIds cfg)
    (acts : List Act) (c : CConc) (h : crun real cfg (CConc.initG g) acts = some c) (t a b : Nat) (th : Thread)
    (hth : c.thr t = some th) (hcall : th.call = .rel a) (cm : Cmd) (k : Reply → Prog)
    (hp : th.prog = .cmd cm k) (hs : cm.isStoreStep = true)
    (hab : a ≠ b) (hk : (cfg a).key = (cfg b).key) (hb : holds cfg c.st b) :
    cstep real cfg c (.cmd t) =
      some ({ st := c.st, thr := updT c.thr t (some { th with prog := .done false }) }, none) := by
  rw [call_takes_effect_at_its_store_step g cfg acts c h t th hth cm k hp hs, hcall]
  have hh := release_by_non_holder_harmless cfg hd c.st a b hab hk hb
  have e : step cfg c.st (Call.rel a).op = release cfg c.st a := rfl
  rw [e, hh.1, hh.2]

/-- **what the driver computes for an `inj` line is a sequential history.**  `runInj real` — thread 0 enters the
call (Acquire loads `seconds`), thread 1 runs the bracketed operations before thread 0's `p`-th round trip —
equals: all bracketed operations, then the call's one atomic step (if the call really makes a `p`-th round
trip: `p ≤ 1`, or `p ≤ 2` when the script is not cached), otherwise the call's step first and the bracketed
operations after it.  These are the placements "call last" / "call first" of the linearizability monitor. -/
theorem inj_schedule_of_real_code_is_sequential (cfg : Nat → LockCfg) (st : St) (outer : Op)
    (ho : isCall outer = true) (cached : Bool) (p : Nat) (hp : 1 ≤ p) (inner : List Op)
    (hs : ∀ op ∈ inner, isSimple op = true) :
    (p ≤ realTrips cached →
      (runInj real cfg st outer cached p inner).fired = some p ∧
      (runInj real cfg st outer cached p inner).inner = results cfg st inner ∧
      (runInj real cfg st outer cached p inner).outer = (step cfg (run cfg st inner) (callOf st outer).op).2 ∧
      (runInj real cfg st outer cached p inner).st = (step cfg (run cfg st inner) (callOf st outer).op).1) ∧
    (realTrips cached < p →
      (runInj real cfg st outer cached p inner).fired = none ∧
      (runInj real cfg st outer cached p inner).outer = (step cfg st (callOf st outer).op).2 ∧
      (runInj real cfg st outer cached p inner).inner = results cfg (step cfg st (callOf st outer).op).1 inner ∧
      (runInj real cfg st outer cached p inner).st = run cfg (step cfg st (callOf st outer).op).1 inner) := by
  rw [runInj_eq_injFrom cfg st outer ho cached p inner]
  exact injFrom_real cfg st (callOf st outer) cached p hp inner hs _ rfl

/-- the schedule the property's last sentence is about, against a Release that checks (GET) and deletes
(DEL) in two round trips: 0 acquires at time 0 (lease 500 ms); 0 enters Release, its GET sees its own id;
the clock reaches 500, the lease is gone; 1 acquires — granted until 1000; 0's DEL arrives. -/
def lateDelSchedule : List Act :=
  [.acquire 0 0 true, .cmd 0, .ret 0, .release 0 0 true, .cmd 0, .ft 500, .acquire 1 1 true, .cmd 1, .ret 1,
   .cmd 0, .ret 0]

/-- **the semantics exhibits the failure of the non-atomic class** (witness): with Release = GET then DEL,
in `lateDelSchedule` instance 1 is granted the lock at time 500 for 500 ms, instance 0's Release then
reports true, and at time 500 the key is free although 1's lease runs until 1000. -/
theorem get_then_del_release_frees_anothers_lock :
    crets getThenDel exCfg CConc.init lateDelSchedule =
      [⟨0, .acq 0 0, true⟩, ⟨1, .acq 1 0, true⟩, ⟨0, .rel 0, true⟩] ∧
    (crun getThenDel exCfg CConc.init lateDelSchedule).map (fun c => (c.st.store.now, c.st.store.get "k")) =
      some (500, none) := by
  decide

/-- the corresponding schedule of the code that exists (Release has a single round trip, so the expiry and
1's Acquire fall between entering Release and that round trip) -/
def lateScriptSchedule : List Act :=
  [.acquire 0 0 true, .cmd 0, .ret 0, .release 0 0 true, .ft 500, .acquire 1 1 true, .cmd 1, .ret 1, .cmd 0, .ret 0]

/-- … there 0's Release reports false and 1 keeps the lock. -/
theorem script_release_late_schedule_is_harmless :
    crets real exCfg CConc.init lateScriptSchedule =
      [⟨0, .acq 0 0, true⟩, ⟨1, .acq 1 0, true⟩, ⟨0, .rel 0, false⟩] ∧
    (crun real exCfg CConc.init lateScriptSchedule).map (fun c => (c.st.store.now, c.st.store.get "k")) =
      some (500, some "aa") := by
  decide

/-- witness for the acquire side of the class (GET, then SET if absent or mine): two goroutines both read
"absent" and both write — both Acquire calls report true at the same instant. -/
theorem get_then_set_acquire_two_holders :
    crets getThenSet exCfg CConc.init
      [.acquire 0 0 true, .acquire 1 1 true, .cmd 0, .cmd 1, .cmd 0, .cmd 1, .ret 0, .ret 1] =
      [⟨0, .acq 0 0, true⟩, ⟨1, .acq 1 0, true⟩] := by
  decide

/-! ### Lost replies and the caller's clock -/

/-- **a reply lost after the script ran**: the caller saw an error, but Redis holds its id.  Whatever the
caller thinks, its next calls act on what Redis has: its Release frees the key (true) and its Acquire
refreshes the lease (true). -/
theorem after_lost_reply_own_calls_work (cfg : Nat → LockCfg) (st : St) (i secs : Nat)
    (h : (acquireWith cfg st i secs).2 = true) :
    (release cfg (acquireWith cfg st i secs).1 i).2 = true ∧ (acquire cfg (acquireWith cfg st i secs).1 i).2 = true := by
  have hinv := leaseInv_after_acquire cfg st i secs h
  have hh : holds cfg (acquireWith cfg st i secs).1 i := by
    rw [leaseInv_holds_iff cfg i _ _ hinv, acquireWith_now]
    have := leaseMs_pos secs; omega
  exact ⟨(release_result cfg _ i).2 hh, (acquire_iff_free_or_own cfg _ i).2 (Or.inr hh)⟩

/-- **the lease is measured on Redis' clock from the script run; a caller that counts from the moment it
STARTED the call is safe.**  If the call was entered at Redis time `t0` (so `t0 ≤` the time of the script
run, the clock never goes back) then, whatever the others do, as long as the Redis clock is before
`t0 + seconds·1000 + 500` the caller is the holder. -/
theorem lease_counted_from_call_start (cfg : Nat → LockCfg) (hd : DistinctIds cfg) (st : St) (i secs t0 : Nat)
    (h : (acquireWith cfg st i secs).2 = true) (ht0 : t0 ≤ st.store.now) (ops : List Op)
    (hq : ∀ op ∈ ops, quietFor i op = true)
    (hnow : (run cfg (acquireWith cfg st i secs).1 ops).store.now < t0 + (secs * 1000 + 500)) :
    holds cfg (run cfg (acquireWith cfg st i secs).1 ops) i := by
  rw [lease_is_seconds_plus_500ms cfg hd st i secs h ops hq]
  rw [run_now, acquireWith_now] at hnow
  omega

/-! ### Round 4: the clauses of the property, each end to end (see props/C19.json, clause map) -/

/-- **Acquire succeeds only if no other instance holds the key unexpired** (the clause, literally). -/
theorem acquire_succeeds_only_if_no_other_holder (cfg : Nat → LockCfg) (hd : DistinctIds cfg) (st : St) (i : Nat)
    (h : (acquire cfg st i).2 = true) (j : Nat) (hij : j ≠ i) (hk : (cfg j).key = (cfg i).key) :
    ¬ holds cfg st j := by
  intro hh
  have := (others_refused_while_held cfg hd st j i hij hk hh).1
  rw [h] at this; cases this

/-- … and if nobody else holds it, it does succeed. -/
theorem acquire_succeeds_if_no_other_holder (cfg : Nat → LockCfg) (st : St) (i : Nat)
    (h : ∀ v, st.store.get (cfg i).key = some v → v = (cfg i).id) : (acquire cfg st i).2 = true := by
  apply (acquire_iff_free_or_own cfg st i).2
  cases hg : st.store.get (cfg i).key with
  | none => exact Or.inl rfl
  | some v => exact Or.inr (by rw [h v hg])

/-- **Re-acquiring by the holder refreshes its lease**: if `i` is the holder, its Acquire succeeds, and from
that moment the full lease `seconds·1000+500` runs again. -/
theorem reacquire_by_holder_refreshes (cfg : Nat → LockCfg) (hd : DistinctIds cfg) (st : St) (i : Nat)
    (hh : holds cfg st i) :
    (acquire cfg st i).2 = true ∧
    (acquire cfg st i).1.view (cfg i).key = some ((cfg i).id, ((st.secs i * 1000 + 500 : Nat) : Int)) ∧
    ∀ ops : List Op, (∀ op ∈ ops, quietFor i op = true) →
      (holds cfg (run cfg (acquire cfg st i).1 ops) i ↔ elapsed ops < st.secs i * 1000 + 500 + st.store.grace) := by
  have h : (acquire cfg st i).2 = true := (acquire_iff_free_or_own cfg st i).2 (Or.inr hh)
  exact ⟨h, (acquire_effect cfg st i).1 h, fun ops hq => lease_is_seconds_plus_500ms cfg hd st i (st.secs i) h ops hq⟩

/-- **The lease lasts the CONFIGURED seconds plus 500 ms, end to end** (SetExpire → … → Acquire → lease):
`SetExpire(s)` with any `s` in the `uint32` range; then any history `mid` in which nobody reconfigures `i`;
then a successful Acquire by `i`; then anything by the others: `i` holds exactly while less than
`s·1000 + 500 (+ grace)` ms have elapsed since that Acquire. -/
theorem configured_lease_end_to_end (cfg : Nat → LockCfg) (hd : DistinctIds cfg) (st : St) (i s : Nat)
    (hs : s < 4294967296) (mid : List Op) (hmid : ∀ op ∈ mid, keepsSeconds i op = true)
    (h : (acquire cfg (run cfg (step cfg st (.setExpire i (s : Int))).1 mid) i).2 = true)
    (ops : List Op) (hq : ∀ op ∈ ops, quietFor i op = true) :
    holds cfg (run cfg (acquire cfg (run cfg (step cfg st (.setExpire i (s : Int))).1 mid) i).1 ops) i ↔
      elapsed ops < s * 1000 + 500 + st.store.grace := by
  have hsec : (run cfg (step cfg st (.setExpire i (s : Int))).1 mid).secs i = s := by
    rw [run_secs_keep cfg i mid _ hmid]
    have := setExpire_configures_seconds cfg st i (s : Int) (by omega) (by omega)
    omega
  have hg : (run cfg (step cfg st (.setExpire i (s : Int))).1 mid).store.grace = st.store.grace := by
    rw [run_grace, step_grace]
  have e : acquire cfg (run cfg (step cfg st (.setExpire i (s : Int))).1 mid) i =
      acquireWith cfg (run cfg (step cfg st (.setExpire i (s : Int))).1 mid) i s := by
    unfold acquire; rw [hsec]
  rw [e] at h ⊢
  rw [lease_is_seconds_plus_500ms cfg hd _ i s h ops hq, hg]

/-- **Acquire under every schedule of round trips**: whatever happened between goroutine `t` entering
`Acquire` of instance `a` and its script reaching Redis, if another instance `b` holds the key at that moment
the round trip changes nothing and the call returns false. -/
theorem acquire_in_any_schedule_refused_while_another_holds (g : Nat) (cfg : Nat → LockCfg) (hd : DistinctIds cfg)
    (acts : List Act) (c : CConc) (h : crun real cfg (CConc.initG g) acts = some c) (t a b secs : Nat) (th : Thread)
    (hth : c.thr t = some th) (hcall : th.call = .acq a secs) (cm : Cmd) (k : Reply → Prog)
    (hp : th.prog = .cmd cm k) (hs : cm.isStoreStep = true)
    (hab : a ≠ b) (hk : (cfg a).key = (cfg b).key) (hb : holds cfg c.st b) :
    cstep real cfg c (.cmd t) =
      some ({ st := c.st, thr := updT c.thr t (some { th with prog := .done false }) }, none) := by
  rw [call_takes_effect_at_its_store_step g cfg acts c h t th hth cm k hp hs, hcall]
  have hid : (cfg b).id ≠ (cfg a).id := fun e => hab (hd a b hk e.symm)
  have hf : ¬ freeFor c.st.store (cfg a).key (cfg a).id := by
    unfold holds at hb; rw [← hk] at hb
    intro x; rcases x with x | x <;> simp [hb] at x; exact hid x
  have e : step cfg c.st (Call.acq a secs).op = acquireWith cfg c.st a secs := rfl
  have h1 : (acquireWith cfg c.st a secs).2 = false := by
    cases hc : (acquireWith cfg c.st a secs).2 with
    | false => rfl
    | true => exact absurd ((acquireWith_result _ _ _ _).1 hc) hf
  rw [e, h1, acquireWith_unchanged cfg c.st a secs hf]

/-- **Release under every schedule reports true exactly for the holder** — holder at the moment the script
runs, whatever happened since the call was entered: the call's result is `true` iff the caller is then the
holder; if it is not, the shared state is untouched; if it is, its key is free afterwards. -/
theorem release_in_any_schedule_true_iff_holder (g : Nat) (cfg : Nat → LockCfg)
    (acts : List Act) (c : CConc) (h : crun real cfg (CConc.initG g) acts = some c) (t a : Nat) (th : Thread)
    (hth : c.thr t = some th) (hcall : th.call = .rel a) (cm : Cmd) (k : Reply → Prog)
    (hp : th.prog = .cmd cm k) (hs : cm.isStoreStep = true) :
    cstep real cfg c (.cmd t) =
      some ({ st := (release cfg c.st a).1,
              thr := updT c.thr t (some { th with prog := .done (decide (holds cfg c.st a)) }) }, none) ∧
    (¬ holds cfg c.st a → (release cfg c.st a).1 = c.st) ∧
    (holds cfg c.st a → (release cfg c.st a).1.store.get (cfg a).key = none) := by
  have hr := release_only_by_holder cfg c.st a
  refine ⟨?_, hr.2.1, fun hh => (hr.2.2 hh).1⟩
  rw [call_takes_effect_at_its_store_step g cfg acts c h t th hth cm k hp hs, hcall]
  have e : step cfg c.st (Call.rel a).op = release cfg c.st a := rfl
  rw [e]
  by_cases hh : holds cfg c.st a
  · simp [hh, hr.1.2 hh]
  · have : (release cfg c.st a).2 = false := by
      cases hc : (release cfg c.st a).2 with
      | false => rfl
      | true => exact absurd (hr.1.1 hc) hh
    simp [hh, this]

/-- **A whole call of the code that exists, entered through the public wrappers** (`Acquire()` →
`AcquireCtx` → `ScriptRunCtx` → one script execution → decoding; likewise `Release()`), run by an idle
goroutine without interference, is exactly one step of the model: same shared state, same result. -/
theorem whole_call_is_one_model_step (cfg : Nat → LockCfg) (t : Nat) (c : CConc) (h : c.thr t = none) (op : Op)
    (hs : isSimple op = true) :
    wholeOp real cfg t c op = ({ c with st := (step cfg c.st op).1 }, (step cfg c.st op).2) :=
  wholeOp_real cfg t c h op hs

/-! ### How much `DistinctIds` assumes

`NewRedisLock` draws the id with `stringx.Randn(16)`: 16 characters, each one of 62 (Tie: `tie_randomLen`,
`tie_idAlphabet`, `tie_randnBody`).  If the characters are uniform and independent, two given instances carry
the same id with probability `62⁻¹⁶`, and among `n` instances some pair collides with probability at most
`n(n-1)/2 · 62⁻¹⁶` (union bound).  The two theorems evaluate that: the id space, and "up to a million
instances: below 10⁻¹⁶".  What is *not* covered: `stringx` seeds `math/rand` with the start time in
nanoseconds — two processes started in the same nanosecond draw the same ids (assumption, props/C19.json). -/

/-- **shape of an id**: whatever the random source delivers, `Randn(n)` (if it returns) is `n` characters of the
62-letter alphabet. -/
theorem randn_id_shape (n : Nat) (draws : List Nat) (id : List Char) (h : randnFrom n draws = some id) :
    id.length = n ∧ ∀ c ∈ id, c ∈ idAlphabet :=
  ⟨randnFrom_length n draws id h, randnFrom_alphabet n draws id h⟩

/-- **different accepted draws give different ids** (the map from the `n` accepted 6-bit indices to the id is
injective, and an index is accepted iff it is `< 62`): if the draws are uniform and independent, every one of the
`62ⁿ` ids is equally likely — the hypothesis under which `id_collision_union_bound` is read. -/
theorem randn_injective_on_accepted_draws (n : Nat) (d1 d2 : List Nat) (id : List Char)
    (h1 : randnFrom n d1 = some id) (h2 : randnFrom n d2 = some id) :
    (d1.filter (· < 62)).take n = (d2.filter (· < 62)).take n := by
  have hm : ∀ (d : List Nat), ∀ i ∈ (d.filter (· < 62)).take n, i < 62 := by
    intro d i hi
    have := List.mem_of_mem_take hi
    simp only [List.mem_filter, decide_eq_true_eq] at this
    exact this.2
  unfold randnFrom at h1 h2
  split at h1
  · split at h2
    · cases h1
      simp only [Option.some.injEq, List.reverse_inj] at h2
      exact (map_getD_inj _ _ (hm d2) (hm d1) h2).symm
    · cases h2
  · cases h1

/-- one `Int63` yields 10 draws, each `< 64`; 62 of the 64 values are accepted -/
theorem randn_draws_of_int63 (v : Nat) : (drawsOfInt63 v).length = 10 ∧ ∀ d ∈ drawsOfInt63 v, d < 64 :=
  ⟨by simp [drawsOfInt63], drawsOfInt63_lt v⟩

theorem id_space : 62 ^ 16 = 47672401706823533450263330816 := by decide

/-- `n ≤ 10⁶` instances: (number of pairs) · 10¹⁶ ≤ 62¹⁶, i.e. collision probability ≤ 10⁻¹⁶ -/
theorem id_collision_union_bound (n : Nat) (hn : n ≤ 1000000) : n * (n - 1) / 2 * 10 ^ 16 ≤ 62 ^ 16 := by
  have h1 : n * (n - 1) ≤ 1000000 * 1000000 := Nat.mul_le_mul hn (by omega)
  have h2 : n * (n - 1) / 2 ≤ 1000000 * 1000000 / 2 := Nat.div_le_div_right h1
  calc n * (n - 1) / 2 * 10 ^ 16 ≤ 1000000 * 1000000 / 2 * 10 ^ 16 := Nat.mul_le_mul_right _ h2
    _ ≤ 62 ^ 16 := by decide

/-! ### The whole model is the lease table of the specification -/

/-- for every history from the empty store, the Redis-level model (Lua scripts over the store) returns
the same results as the abstract lease table of `Spec` and shows the same (holder, remaining ms) per key. -/
theorem model_refines_lease_table (g : Nat) (cfg : Nat → LockCfg) (ops : List Op) :
    Spec.results cfg (ASt.initG g) ops = results cfg (St.initG g) ops ∧
    ∀ k, (Spec.run cfg (ASt.initG g) ops).view k = (run cfg (St.initG g) ops).view k := by
  have h0 : abs (St.initG g) = (ASt.initG g) := by
    apply ASt.ext' <;> intros <;> rfl
  have hr := run_refines cfg ops (St.initG g) (hasTTL_initG g)
  rw [h0] at hr
  refine ⟨by rw [← h0]; exact results_refine cfg ops (St.initG g) (hasTTL_initG g), ?_⟩
  intro k
  rw [hr.1]
  exact abs_view _ hr.2 k

/-! ### the driver's monitors are sound for the model -/

/-- the result monitor (`Spec.explain`, the property's wording of a wrong result) never fires on a result
the model produces, from any state reachable by lock operations: a MONITOR line can only come from the
implementation deviating from the model. -/
theorem monitor_silent_on_model (g : Nat) (cfg : Nat → LockCfg) (ops : List Op) (op : Op) :
    Spec.explain cfg (Spec.run cfg (ASt.initG g) ops) op (step cfg (run cfg (St.initG g) ops) op).2 = none := by
  have h0 : abs (St.initG g) = (ASt.initG g) := by
    apply ASt.ext' <;> intros <;> rfl
  have hr := run_refines cfg ops (St.initG g) (hasTTL_initG g)
  rw [h0] at hr
  unfold Spec.explain
  rw [hr.1, step_refines cfg _ op hr.2]
  simp

/-- the configuration the driver uses (instance `i` ↦ key `k{i % keys}`, id `id{i}`) satisfies the
assumption of the theorems: ids are distinct. -/
theorem driver_cfg_distinct_ids (nkeys : Nat) : DistinctIds (mkCfg nkeys) := by
  intro i j _ h
  have e : ∀ i, (mkCfg nkeys i).id = "id" ++ Nat.repr i := by intro i; simp [mkCfg, toString]
  rw [e, e] at h
  exact Nat.repr_injective ((String.append_right_inj "id").mp h)

/-- **the linearizability monitor never raises a false alarm on the model**: for the outcome the
command-level model computes for an `inj` line (`runInj real`: results of the call and of the bracketed
operations, final store), from any state with TTLs on all keys, `linearize` finds an atomic placement. -/
theorem linearize_finds_model_placement (cfg : Nat → LockCfg) (keys : List String) (st : St) (h : HasTTL st)
    (outer : Op) (ho : isCall outer = true) (cached : Bool) (p : Nat) (hp : 1 ≤ p) (inner : List Op)
    (hs : ∀ op ∈ inner, isSimple op = true) :
    (linearize cfg keys (abs st) outer (some (runInj real cfg st outer cached p inner).outer)
      (inner.zip ((runInj real cfg st outer cached p inner).inner.map some))
      (modelDump (runInj real cfg st outer cached p inner).st keys)).isSome = true := by
  have hm := injFrom_real cfg st (callOf st outer) cached p hp inner hs _ (runInj_eq_injFrom cfg st outer ho cached p inner)
  unfold linearize
  rw [List.find?_isSome]
  rcases Nat.lt_or_ge (realTrips cached) p with hlt | hge
  · obtain ⟨_, h2, h3, h4⟩ := hm.2 hlt
    refine ⟨(0, secOf st outer), ?_, ?_⟩
    · rw [h3, map_fst_modelZip _ _ (results_length cfg inner _)]
      exact mem_placements st outer inner 0 (by omega)
    · rw [h2, h3, h4, placed_first cfg st outer ho inner]
      have := specExplains_model cfg keys st h ((callOf st outer).op :: inner)
      simp only [run, List.foldl_cons] at this
      simp only [run]
      rw [this]; rfl
  · obtain ⟨_, h2, h3, h4⟩ := hm.1 hge
    refine ⟨(inner.length, secOf st outer), ?_, ?_⟩
    · rw [h2, map_fst_modelZip _ _ (results_length cfg inner _)]
      exact mem_placements st outer inner inner.length (by omega)
    · rw [h2, h3, h4, placed_last cfg st outer ho inner]
      have := specExplains_model cfg keys st h (inner ++ [(callOf st outer).op])
      rw [run_append] at this
      simp only [run, List.foldl_cons, List.foldl_nil] at this
      simp only [run]
      rw [this]; rfl


/-- … in particular in every state reachable from the empty store (where the driver starts), with the spec
state the driver carries along (`Spec.run`). -/
theorem linearizability_monitor_silent_on_model (g : Nat) (cfg : Nat → LockCfg) (keys : List String) (ops : List Op)
    (outer : Op) (ho : isCall outer = true) (cached : Bool) (p : Nat) (hp : 1 ≤ p) (inner : List Op)
    (hs : ∀ op ∈ inner, isSimple op = true) :
    (linearize cfg keys (Spec.run cfg (ASt.initG g) ops) outer
      (some (runInj real cfg (run cfg (St.initG g) ops) outer cached p inner).outer)
      (inner.zip ((runInj real cfg (run cfg (St.initG g) ops) outer cached p inner).inner.map some))
      (modelDump (runInj real cfg (run cfg (St.initG g) ops) outer cached p inner).st keys)).isSome = true := by
  have hr := run_refines cfg ops (St.initG g) (hasTTL_initG g)
  rw [abs_initG] at hr
  rw [hr.1]
  exact linearize_finds_model_placement cfg keys _ hr.2 outer ho cached p hp inner hs

/-- **the store monitor never fires on the model**: the lease table's view of every key is what the Redis-level
model shows, after every history (so a `spec=[…] impl=[…]` line can only come from the implementation). -/
theorem store_monitor_silent_on_model (g : Nat) (cfg : Nat → LockCfg) (keys : List String) (ops : List Op) :
    specDump (Spec.run cfg (ASt.initG g) ops) keys = modelDump (run cfg (St.initG g) ops) keys := by
  have hr := run_refines cfg ops (St.initG g) (hasTTL_initG g)
  rw [abs_initG] at hr
  rw [hr.1]
  exact specDump_abs _ hr.2 keys

/-- **the beliefs monitor never fires on the model** ("two holders: instance i was granted … while instance j still
holds an unexpired lease"): in every state reachable from the empty store, with the beliefs derived from the
model's own results, after a successful Acquire by `i` no other instance on its key believes to hold it. -/
theorem belief_monitor_silent_on_model (g : Nat) (cfg : Nat → LockCfg) (hd : DistinctIds cfg) (ops : List Op)
    (c : Ctx) (hc : c.cfg = cfg) (i : Nat)
    (hres : (step cfg (run cfg (St.initG g) ops) (.acquire i)).2 = true) :
    otherBeliever c
      (((grun cfg (St.initG g) Belief.none ops).2).step (run cfg (St.initG g) ops).store.now
        (run cfg (St.initG g) ops).secs (.acquire i) true)
      (run cfg (St.initG g) ops).store.now i = none := by
  have hinv := beliefInv_grun cfg hd ops (St.initG g) Belief.none (by intro i u hb; simp [Belief.none] at hb)
  rw [grun_fst] at hinv
  unfold otherBeliever
  rw [List.find?_eq_none]
  intro j _ hj
  simp only [decide_eq_true_eq, Bool.and_eq_true, Bool.decide_and] at hj
  obtain ⟨hji, hk, hb⟩ := hj
  rw [hc] at hk
  have hb' : believes (grun cfg (St.initG g) Belief.none ops).2 (run cfg (St.initG g) ops).store.now j = true := by
    simpa [Belief.step, updB, believes, hji] using hb
  have hh := believes_holds cfg _ _ hinv j hb'
  exact acquire_succeeds_only_if_no_other_holder cfg hd _ i hres j hji hk hh

/-- two instances on one key that drew the SAME id (what `DistinctIds` excludes; `NewRedisLock` draws ids from a
`math/rand` source seeded with the start time in ns) -/
def sameIdCfg (_ : Nat) : LockCfg := { key := "k", id := "same" }

/-- **`DistinctIds` is necessary** (witness): with a shared id the second instance's Acquire is taken for a refresh
by the holder — both calls report true at the same instant — and its Release frees the first one's lock. -/
theorem same_id_two_holders :
    results sameIdCfg St.init [.acquire 0, .acquire 1, .release 1, .release 0] = [true, true, true, false] := by
  decide

/-! ### non-vacuity: concrete instances of the hypotheses and of the scenarios -/


example : DistinctIds exCfg := by
  intro i j _ h
  simp only [exCfg] at h
  have h2 := congrArg String.toList h
  simpa using h2

-- seconds = 2: lease 2500 ms; competitor refused at 2499 ms, granted at 2500 ms; late release false.
example : results exCfg St.init
    [.setExpire 0 2, .acquire 0, .acquire 1, .ft 2499, .acquire 1, .ft 1, .acquire 1, .release 0, .release 1]
    = [true, true, false, true, false, true, true, false, true] := by decide

example : (run exCfg St.init [.setExpire 0 2, .acquire 0, .ft 100]).view "k" = some ("a", 2400) := by decide

-- the real-Redis boundary (`grace = 1`): the competitor is still refused at 2500 ms and granted at 2501 ms;
-- PTTL shows the same numbers
example : results exCfg (St.initG 1)
    [.setExpire 0 2, .acquire 0, .acquire 1, .ft 2500, .acquire 1, .ft 1, .acquire 1, .release 0, .release 1]
    = [true, true, false, true, false, true, true, false, true] := by decide

example : (run exCfg (St.initG 1) [.setExpire 0 2, .acquire 0, .ft 100]).view "k" = some ("a", 2400) := by decide

example : (St.initG 1).store.grace = 1 ∧ (acquireWith exCfg (St.initG 1) 0 3).2 = true := by decide

-- hypotheses of `lease_is_seconds_plus_500ms` / `late_release_harmless` are satisfiable
example : (acquireWith exCfg St.init 0 3).2 = true ∧
    (∀ op ∈ [Op.acquire 1, .ft 3499, .release 2, .setExpire 0 9], quietFor 0 op = true) := by decide

example : (acquire exCfg St.init 0).2 = true ∧ St.init.secs 0 * 1000 + 500 ≤ 500 := by decide

-- hypotheses of `others_refused_while_held`
example : holds exCfg (run exCfg St.init [.acquire 1]) 1 := by decide

-- a schedule in which SetExpire(0) slips in between the load (seconds = 2) and the script run of an Acquire:
-- the lease is the loaded 2·1000+500 ms
example : (run exCfg St.init [.setExpire 0 2, .setExpire 0 0, .acquireS 0 2]).view "k" = some ("a", 2500) := by
  decide

-- … and the same as an execution of two goroutines (thread 7 acquires on instance 0, thread 9 sets expiry)
example : Exec exCfg
    { st := (run exCfg St.init [.setExpire 0 2]), pc := fun _ => .idle }
    [.setExpire 0 0, .acquireS 0 2]
    { st := run exCfg (run exCfg St.init [.setExpire 0 2]) [.setExpire 0 0, .acquireS 0 2],
      pc := updPc (updPc (fun _ => .idle) 7 (.loaded 0 2)) 7 .idle } :=
  .tau (.load _ 7 0 rfl) (.vis (.setExpire _ 9 0 0 (by decide)) (.vis (.script _ 7 0 2 (by decide)) (.nil _)))

-- a burst of five attempts (instance 2 twice): only instance 2, whose script ran first, wins
example : winners exCfg St.init [2, 0, 1, 2, 3] = [2, 2] := by decide

-- `inj 2 release 0 [ft 500 ; acquire 1]` on the code that exists, script not cached (EVALSHA→NOSCRIPT, EVAL): the
-- block falls between the two round trips, i.e. before the script run — Release reports false, 1 holds
example : let r := runInj real exCfg (run exCfg St.init [.acquire 0]) (.release 0) false 2 [.ft 500, .acquire 1]
    (r.fired, r.outer, r.inner, r.ncmds, r.st.store.get "k") = (some 2, false, [true, true], 2, some "aa") := by decide

-- counting the lease from the moment the call RETURNED is unsound: the script ran at time 0, the reply
-- arrived at 400; "mine until 400+500" is wrong from 500 on
example : ¬ holds exCfg (run exCfg St.init [.acquireS 0 0, .ft 400, .ft 100]) 0 := by decide

-- hypotheses of `release_in_any_schedule_never_frees_anothers_lock` are satisfiable: after the first eight
-- steps of `lateScriptSchedule` thread 0 is inside Release with its script run pending and instance 1 holds
example : (crun real exCfg CConc.init (lateScriptSchedule.take 8)).map (fun c => (pending c 0, decide (holds exCfg c.st 1)))
    = some (true, true) := by decide

-- beliefs: after A's lease ran out and B acquired, only B believes
example : (believes (grun exCfg St.init Belief.none [.acquire 0, .ft 500, .acquire 1]).2 500 0,
           believes (grun exCfg St.init Belief.none [.acquire 0, .ft 500, .acquire 1]).2 500 1) = (false, true) := by
  decide

-- round 4
example : keepsSeconds 0 (.setExpire 1 5) = true ∧ keepsSeconds 0 (.acquire 0) = true ∧ keepsSeconds 0 (.setExpire 0 5) = false := by decide

example : (acquire exCfg (run exCfg (step exCfg St.init (.setExpire 0 4294967295)).1 [.setExpire 1 7, .acquire 1, .ft 7500]) 0).2 = true := by decide

example : holds exCfg (run exCfg St.init [.setExpire 0 2, .acquire 0, .ft 2000]) 0 ∧
    (run exCfg St.init [.setExpire 0 2, .acquire 0, .ft 2000, .acquire 0]).view "k" = some ("a", 2500) := by decide

-- hypotheses of `acquire_in_any_schedule_refused_while_another_holds`: thread 1 has entered Acquire of instance 1
-- (script run pending) while instance 0 holds
example : (crun real exCfg CConc.init [.acquire 0 0 true, .cmd 0, .ret 0, .acquire 1 1 true]).map
    (fun c => (pending c 1, decide (holds exCfg c.st 0))) = some (true, true) := by decide

-- a placement found for the property's scenario (lease runs out inside Release, then the competitor acquires): the
-- Release took effect after the expiry (position 1; position 2, after the competitor's Acquire, explains it too)
example : linearize exCfg ["k"] (Spec.run exCfg ASt.init [.acquire 0]) (.release 0) (some false)
    [(.ft 500, some true), (.acquire 1, some true)] "k=aa:500" = some (1, 0) := by decide

-- Randn(3) from one Int63 whose low draws are 0, 63 (rejected), 61, 26: ids fill from the back: "A9a"
example : randnFrom 3 (drawsOfInt63 (0 + 63 * 64 + 61 * 64 ^ 2 + 26 * 64 ^ 3)) = some ['A', '9', 'a'] := by decide

-- hypothesis of `belief_monitor_silent_on_model` is satisfiable: after 0's lease ran out, 1's Acquire succeeds
example : (step exCfg (run exCfg St.init [.acquire 0, .ft 500]) (.acquire 1)).2 = true := by decide

/-! ### Round 5: every outcome kind at every entry point -/

/-- **A call reports true only on the granting reply, whatever it is handed** (every `Handed` value: replies the
scripts of the tree never send, `resp == nil` without error, `red.Nil` bare or wrapped, any other error
including a typed-nil error value): Acquire reports true exactly for the string `OK`, Release exactly for the
integer 1 ("one key deleted") — and a call that returns an error reports false ("reports false otherwise").
Tie: `tie_acquireHanded`, `tie_releaseHanded` (the statements of the tree, translated). -/
theorem call_reports_true_only_on_the_granting_reply (outer : Op) (h : Handed) :
    ((handedOf outer h).1 = true ↔ grants outer h = true) ∧
    ((handedOf outer h).2 = true → (handedOf outer h).1 = false) :=
  handed_true_iff_grants outer h

example : handedOf (.acquire 0) (.reply (.bulk "ok")) = (false, false) ∧
    handedOf (.acquire 0) (.reply (.int 1)) = (false, false) ∧
    handedOf (.release 0) (.reply (.bulk "OK")) = (false, false) ∧
    handedOf (.release 0) (.reply (.int 2)) = (false, false) ∧
    handedOf (.release 0) (.reply .nil) = (false, true) ∧
    handedOf (.acquire 0) (.reply .nil) = (false, false) ∧
    handedOf (.acquire 0) .nilNoErr = (false, false) ∧ handedOf (.release 0) .err = (false, true) ∧
    handedOf (.acquire 0) (.reply (.status "OK")) = (true, false) ∧
    handedOf (.release 0) (.reply (.int 1)) = (true, false) := by decide

/-- **A caller's context is all or nothing** (`AcquireCtx(ctx)` / `ReleaseCtx(ctx)`, script cached or not, the
context dying immediately before ANY round trip `p`, `p = 0`: dead before the call): if it dies before the
call's script run (before command 1, or between the NOSCRIPT answer and the EVAL) the shared state is untouched
and the call returns an error; if it dies later the call is not affected at all — it is exactly the model's
atomic step with the model's result.  There is no third outcome (no half-executed call). -/
theorem context_cancellation_is_all_or_nothing (cfg : Nat → LockCfg) (st : St) (outer : Op)
    (ho : isCall outer = true) (cached : Bool) (p : Nat) :
    (p ≤ realTrips cached →
      (runCancel real cfg st outer cached p).result = none ∧ (runCancel real cfg st outer cached p).st = st) ∧
    (realTrips cached < p →
      (runCancel real cfg st outer cached p).result = some (step cfg st outer).2 ∧
      (runCancel real cfg st outer cached p).st = (step cfg st outer).1) := by
  have h := runCancel_real cfg st outer ho cached p
  rw [callOf_step cfg st outer ho] at h
  exact h

example : (runCancel real exCfg St.init (.acquire 0) false 2).result = none ∧
    (runCancel real exCfg St.init (.acquire 0) false 2).sent = 1 ∧
    (runCancel real exCfg St.init (.acquire 0) false 3).result = some true ∧
    (runCancel real exCfg St.init (.acquire 0) true 0).result = none ∧
    (runCancel real exCfg St.init (.acquire 0) true 2).result = some true := by decide

/-- **One public call under everything the environment can do to it** — the whole space of one call of the
public API: entry point (Acquire / AcquireCtx / Release / ReleaseCtx: `outer` and `env.deadAt`, `none` for the
wrappers' `context.Background()`), script cached or not, the context dying before any round trip, the Go code
handed Redis' reply or ANY other value.  (1) the shared state afterwards is the state before (only if the
context died before the script run) or the model's atomic step — never anything else; (2) the call reports true
only without an error, and then the reply it was handed is the granting one; handed Redis' own reply, true
means the model's step succeeded — so every clause proven about `step` (exclusive holder, lease, owner-only
release) applies to what the caller was told; (3) a call that returns an error reports false. -/
theorem public_call_all_outcomes (cfg : Nat → LockCfg) (st : St) (outer : Op) (ho : isCall outer = true) (env : Env) :
    ((publicCall cfg st outer env).1 = st ∨ (publicCall cfg st outer env).1 = (step cfg st outer).1) ∧
    ((publicCall cfg st outer env).2.1 = true →
      (publicCall cfg st outer env).2.2 = false ∧
      (publicCall cfg st outer env).1 = (step cfg st outer).1 ∧
      (∀ h, env.subst = some h → grants outer h = true) ∧
      (env.subst = none → (step cfg st outer).2 = true)) ∧
    ((publicCall cfg st outer env).2.2 = true → (publicCall cfg st outer env).2.1 = false) := by
  have key : ∀ hd : Handed, hd = env.subst.getD (.reply (scriptReply cfg st outer)) →
      (handedOf outer hd).1 = true →
      (handedOf outer hd).2 = false ∧ (∀ h, env.subst = some h → grants outer h = true) ∧
      (env.subst = none → (step cfg st outer).2 = true) := by
    intro hd hhd ht
    have g := handed_true_iff_grants outer hd
    refine ⟨?_, ?_, ?_⟩
    · cases he : (handedOf outer hd).2 with
      | false => rfl
      | true => rw [g.2 he] at ht; cases ht
    · intro h hs; rw [hs] at hhd; simp at hhd; rw [← hhd]; exact g.1.1 ht
    · intro hs; rw [hs] at hhd; simp at hhd
      rw [hhd, handed_real_reply cfg st outer ho] at ht; exact ht
  unfold publicCall
  cases hdead : env.deadAt with
  | none =>
    simp only
    refine ⟨Or.inr trivial, fun ht => ?_, fun he => (handed_true_iff_grants outer _).2 he⟩
    have k := key _ rfl ht
    exact ⟨k.1, trivial, k.2.1, k.2.2⟩
  | some p =>
    simp only
    by_cases hp : p ≤ realTrips env.cached
    · simp [hp]
    · simp only [hp, if_false]
      refine ⟨Or.inr trivial, fun ht => ?_, fun he => (handed_true_iff_grants outer _).2 he⟩
      have k := key _ rfl ht
      exact ⟨k.1, trivial, k.2.1, k.2.2⟩

example : (publicCall exCfg St.init (.acquire 0) ⟨false, some 2, none⟩).2 = (false, true) ∧
    (publicCall exCfg St.init (.acquire 0) ⟨true, none, none⟩).2 = (true, false) ∧
    (publicCall exCfg St.init (.acquire 0) ⟨true, none, some (.reply (.bulk "ok"))⟩).2 = (false, false) ∧
    (publicCall exCfg St.init (.release 0) ⟨true, some 5, some (.reply .nil)⟩).2 = (false, true) := by decide

/-- **`publicCall` is what the command-level semantics computes**: for the context dimension, the schedule
`runCancel real` (Cmds.lean round trips) gives exactly `publicCall`'s state and result when the Go code is handed
Redis' own reply. -/
theorem public_call_is_the_command_schedule (cfg : Nat → LockCfg) (st : St) (outer : Op) (ho : isCall outer = true)
    (cached : Bool) (p : Nat) :
    (runCancel real cfg st outer cached p).st = (publicCall cfg st outer ⟨cached, some p, none⟩).1 ∧
    (runCancel real cfg st outer cached p).result =
      (if (publicCall cfg st outer ⟨cached, some p, none⟩).2.2 then none
       else some (publicCall cfg st outer ⟨cached, some p, none⟩).2.1) := by
  have h := context_cancellation_is_all_or_nothing cfg st outer ho cached p
  unfold publicCall
  by_cases hp : p ≤ realTrips cached
  · simp [hp, (h.1 hp).1, (h.1 hp).2]
  · have hp' : realTrips cached < p := by omega
    simp [hp, (h.2 hp').1, (h.2 hp').2, handed_real_reply cfg st outer ho]

/-- **The lease for EVERY argument of `SetExpire`** (the whole `int` range of the public API, not only
`0 ≤ s < 2³²`): `SetExpire(s)`, any history in which nobody reconfigures the instance, a successful Acquire,
anything by the others — the instance holds exactly while less than `uint32(s)·1000 + 500 (+ grace)` ms have
elapsed.  (For `s` in the `uint32` range `uint32(s) = s`: `configured_lease_end_to_end`.) -/
theorem configured_lease_every_setExpire_argument (cfg : Nat → LockCfg) (hd : DistinctIds cfg) (st : St) (i : Nat)
    (s : Int) (mid : List Op) (hmid : ∀ op ∈ mid, keepsSeconds i op = true)
    (h : (acquire cfg (run cfg (step cfg st (.setExpire i s)).1 mid) i).2 = true)
    (ops : List Op) (hq : ∀ op ∈ ops, quietFor i op = true) :
    holds cfg (run cfg (acquire cfg (run cfg (step cfg st (.setExpire i s)).1 mid) i).1 ops) i ↔
      elapsed ops < toUint32 s * 1000 + 500 + st.store.grace := by
  have hsec : (run cfg (step cfg st (.setExpire i s)).1 mid).secs i = toUint32 s := by
    rw [run_secs_keep cfg i mid _ hmid]
    simp [step, updN]
  have hg : (run cfg (step cfg st (.setExpire i s)).1 mid).store.grace = st.store.grace := by
    rw [run_grace, step_grace]
  have e : acquire cfg (run cfg (step cfg st (.setExpire i s)).1 mid) i =
      acquireWith cfg (run cfg (step cfg st (.setExpire i s)).1 mid) i (toUint32 s) := by
    unfold acquire; rw [hsec]
  rw [e] at h ⊢
  rw [lease_is_seconds_plus_500ms cfg hd _ i (toUint32 s) h ops hq, hg]

example : toUint32 (-1) = 4294967295 ∧ toUint32 4294967297 = 1 := by decide

/-! ### Round 5c: the command trace of a call -/

/-- **COMMAND TRACE: a call puts its own script on the wire and nothing else.**  For every call (Acquire with any
loaded `seconds`, Release; any instance) and EVERY environment — per command the environment decides whether
go-zero's hooks let it pass (a context that is already done and an open breaker are answered by the breaker hook
without reaching the connection) and what comes back: NOSCRIPT or ANY `Handed` value (any reply, `resp == nil`,
`red.Nil` bare or wrapped, any other error: connection lost, context cancelled, typed-nil error) — the commands
attempted are exactly `[EVALSHA own-script]`, or `[EVALSHA own-script, EVAL own-script]` iff the EVALSHA was seen
answered NOSCRIPT; the result is the decoding of the last answer.  In particular NOTHING is sent on an error
path (seeded C19-6: a `rl.store.Del` after a failed script run).  `realG` is the interpretation of the table of
calls the extractor regenerates from redislock.go (`tie_callTable`, `tie_command_trace`). -/
theorem command_trace_is_the_own_script_only (cfg : Nat → LockCfg) (call : Call) (env : Nat → Wire → Answer) :
    (gexec env (realG cfg call) 0).1.map (·.1) =
      (if (env 0 ⟨.evalsha, scriptCmd cfg call⟩).seen = .noscript
        then [⟨.evalsha, scriptCmd cfg call⟩, ⟨.eval, scriptCmd cfg call⟩] else [⟨.evalsha, scriptCmd cfg call⟩]) ∧
    (gexec env (realG cfg call) 0).2 =
      decodeG call (if (env 0 ⟨.evalsha, scriptCmd cfg call⟩).seen = .noscript
        then (env 1 ⟨.eval, scriptCmd cfg call⟩).seen.toHanded
        else (env 0 ⟨.evalsha, scriptCmd cfg call⟩).seen.toHanded) := by
  simp only [realG, scriptRunG, gexec]
  cases h : (env 0 ⟨.evalsha, scriptCmd cfg call⟩).seen with
  | noscript => simp [gexec]
  | handed x => simp [gexec, Got.toHanded]

/-- … so every command of every call, whatever happens, is a run of the call's own script with the instance's key
and id, there are at most two of them, and no GET / DEL / SET ever appears -/
theorem every_command_is_the_own_script (cfg : Nat → LockCfg) (call : Call) (env : Nat → Wire → Answer) :
    (∀ w ∈ (gexec env (realG cfg call) 0).1.map (·.1),
      w.cmd = scriptCmd cfg call ∧ (w.verb = .evalsha ∨ w.verb = .eval)) ∧
    ((gexec env (realG cfg call) 0).1.map (·.1)).length ≤ 2 := by
  rw [(command_trace_is_the_own_script_only cfg call env).1]
  split <;> simp

/-- **every entry point**: the program of `Acquire()` / `Release()` (the wrappers, helper methods inlined) and of
`AcquireCtx` / `ReleaseCtx` read off the table of calls is the same `realG` -/
theorem every_entry_point_runs_realG (cfg : Nat → LockCfg) (call : Call) (wrapper : Bool) :
    progOfRows realRows wrapper (cfg (callInst call)) call = some (realG cfg call) := by
  cases call <;> cases wrapper <;> rfl

/-- handed Redis' reply the trace semantics returns what the round-trip semantics of Cmds.lean decodes -/
theorem realG_decodes_like_the_model (call : Call) (h : Handed) : decodeG call h = handedOf call.op h := by
  cases call <;> rfl

/-- **witness: the interpretation exhibits a command on an error path** — the table of seeded C19-6 (AcquireCtx
calls `rl.discard()` on its real-error branch, `discard` does `rl.store.Del(rl.key)`): an Acquire by instance
"a" whose context dies before its EVALSHA sends a DEL of the key afterwards, through either entry point. -/
theorem discard_on_the_error_path_sends_a_DEL :
    ((progOfRows discardRows true ⟨"k", "a"⟩ (.acq 0 0)).map fun p =>
      (gexec (harnessEnv false false (some 1) .err) p 0).1.map (·.1)) =
      some [⟨.evalsha, .evalLock "k" "a" 500⟩, ⟨.other "Del", .del "k"⟩] ∧
    ((progOfRows discardRows false ⟨"k", "a"⟩ (.acq 0 0)).map fun p =>
      (gexec (harnessEnv true true none .err) p 0).1.map (·.1.verb)) = some [.evalsha, .other "Del"] := by decide

/-- go-zero's breaker hook in front of every command: a context that is already done is answered with its error,
an open breaker with ErrServiceUnavailable, and in both cases the command does not reach the connection — the
Go code sees an error that is not NOSCRIPT, so (by `command_trace_is_the_own_script_only`) the call ends there. -/
theorem breaker_gate_stops_the_call (cfg : Nat → LockCfg) (call : Call) (env : Nat → Wire → Answer)
    (ctxDone brkOpen : Bool) (hg : (env 0 ⟨.evalsha, scriptCmd cfg call⟩).gate = breakerGate ctxDone brkOpen)
    (hb : ctxDone = true ∨ brkOpen = true) :
    (gexec env (realG cfg call) 0).1 = [(⟨.evalsha, scriptCmd cfg call⟩, breakerGate ctxDone brkOpen)] ∧
    breakerGate ctxDone brkOpen ≠ .pass ∧
    (gexec env (realG cfg call) 0).2 = (false, true) := by
  have hne : breakerGate ctxDone brkOpen ≠ .pass := by
    cases ctxDone <;> cases brkOpen <;> simp [breakerGate] at hb ⊢
  have hs : (env 0 ⟨.evalsha, scriptCmd cfg call⟩).seen = .handed .err := by
    unfold Answer.seen; rw [hg]
    cases hq : breakerGate ctxDone brkOpen <;> simp_all
  refine ⟨?_, hne, ?_⟩
  · simp only [realG, scriptRunG, gexec, hs, hg]
  · rw [(command_trace_is_the_own_script_only cfg call env).2, hs]
    cases call <;> rfl

example : modelCmds exCfg (.acq 0 0) false false (some 2) .nilNoErr = "evalsha!,eval!" ∧
    modelCmds exCfg (.acq 0 0) false true (some 0) .nilNoErr = "-" ∧
    modelCmds exCfg (.rel 0) false true none .nilNoErr = "evalsha" := by decide

/-- **No answer without asking Redis**: every call, in every environment, attempts its EVALSHA first — the trace
is never empty; so "reports false" / "reports true" is always the decoding of something that came back for the
call's own script (or of the refusal of the gate), never a client-side guess about the lease (seeded C19-7).
Tie: `tie_noEarlyReturn` (no return in front of the script run for any condition values), `tie_lockFields`. -/
theorem every_call_asks_redis (cfg : Nat → LockCfg) (call : Call) (env : Nat → Wire → Answer) :
    ((gexec env (realG cfg call) 0).1.map (·.1)).head? = some ⟨.evalsha, scriptCmd cfg call⟩ := by
  rw [(command_trace_is_the_own_script_only cfg call env).1]
  split <;> rfl

/-- … and a holder whose Release reaches Redis is told true: with the reply of its own script handed back
unchanged, Release by the current holder reports true and frees the key (the clause C19-7 broke), through the
trace semantics: the environment lets EVALSHA pass and answers with delscript's reply in state `st`. -/
theorem release_by_holder_reports_true_through_the_wire (cfg : Nat → LockCfg) (st : St) (i : Nat)
    (hh : holds cfg st i) (env : Nat → Wire → Answer)
    (h0 : (env 0 ⟨.evalsha, scriptCmd cfg (.rel i)⟩).seen =
      .handed (.reply (delScript st.store (cfg i).key (cfg i).id).2)) :
    (gexec env (realG cfg (.rel i)) 0).2 = (true, false) := by
  rw [(command_trace_is_the_own_script_only cfg (.rel i) env).2, h0]
  have hr := (release_only_by_holder cfg st i).1.2 hh
  have e := handed_real_reply cfg st (.release i) rfl
  simp only [Got.toHanded]
  have : decodeG (.rel i) (.reply (delScript st.store (cfg i).key (cfg i).id).2) =
      handedOf (.release i) (.reply (scriptReply cfg st (.release i))) := rfl
  simp [this, e, step, hr]

end GoZero.C19
