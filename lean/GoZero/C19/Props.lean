/-
C19 — property theorems (statements, short proofs from the lemmas, non-vacuity examples).
-/
import GoZero.C19.Proofs
namespace GoZero.C19

/-- Acquire succeeds iff the key is free (absent or expired) or already carries this instance's id. -/
theorem acquire_iff_free_or_own (cfg : Nat → LockCfg) (st : St) (i : Nat) :
    (acquire cfg st i).2 = true ↔
      (st.store.get (cfg i).key = none ∨ st.store.get (cfg i).key = some (cfg i).id) := by
  simp only [acquire, acquireWith, lockScript_reply]
  exact decide_eq_true_iff

end GoZero.C19
