/-
C19 — Tie: what the extractor read from redislock.go / lockscript.lua / delscript.lua *now* equals what the
model was written against.  A failing obligation here means the code moved away from the model.
-/
import Std.Data.String.ToNat
import GoZero.Extracted.C19
import GoZero.C19.Lua
import GoZero.C19.Proofs
namespace GoZero.C19.Tie
open GoZero.C19
open GoZero.C19.Lua
open GoZero.Extracted.C19

theorem extraction_clean : extractionErrors = [] := by decide

/-! ### the two Lua scripts, semantically -/

def lockProg : List Stmt :=
  [.ifte (.eq (.call [.str "GET", .keys 1]) (.argv 1))
     [.expr (.call [.str "SET", .keys 1, .argv 1, .str "PX", .argv 2]), .ret (.str "OK")]
     [.ret (.call [.str "SET", .keys 1, .argv 1, .str "NX", .str "PX", .argv 2])]]

def delProg : List Stmt :=
  [.ifte (.eq (.call [.str "GET", .keys 1]) (.argv 1))
     [.ret (.call [.str "DEL", .keys 1])]
     [.ret (.num 0)]]

theorem lockLua_parses : (lockLua.mapM Tok.ofRaw).bind parse = some lockProg := by rfl
theorem delLua_parses : (delLua.mapM Tok.ofRaw).bind parse = some delProg := by rfl

/-- **lockscript.lua as it is in the tree now means the model's `lockScript`**: for every store, key, id
and lease `px > 0` (passed as its decimal text, as `strconv.Itoa` does), running the current script
yields exactly the model's store and reply. -/
theorem tie_lockScript (s : Store) (key id : String) (px : Nat) (hpx : 0 < px) :
    runScript lockLua [key] [id, Nat.repr px] s = some (lockScript s key id px) := by
  have hne : px ≠ 0 := by omega
  unfold runScript
  rw [lockLua_parses]
  unfold lockScript
  cases hg : s.get key with
  | none =>
    simp [lockProg, execBlock, evalExpr, evalArgs, command, Val.arg, Val.luaEq, Val.truthy, toReply, hg, hne]
    cases (s.setNXPX key id px).snd <;> rfl
  | some v =>
    by_cases hv : v = id
    · subst hv
      simp [lockProg, execBlock, evalExpr, evalArgs, command, Val.arg, Val.luaEq, Val.truthy, toReply, hg, hne]
    · simp [lockProg, execBlock, evalExpr, evalArgs, command, Val.arg, Val.luaEq, Val.truthy, toReply, hg, hne, hv]
      cases (s.setNXPX key id px).snd <;> rfl

/-- **delscript.lua as it is in the tree now means the model's `delScript`**. -/
theorem tie_delScript (s : Store) (key id : String) :
    runScript delLua [key] [id] s = some (delScript s key id) := by
  unfold runScript
  rw [delLua_parses]
  unfold delScript
  cases hg : s.get key with
  | none =>
    simp [delProg, execBlock, evalExpr, evalArgs, command, Val.arg, Val.luaEq, Val.truthy, toReply, hg]
  | some v =>
    by_cases hv : v = id
    · subst hv
      simp [delProg, execBlock, evalExpr, evalArgs, command, Val.arg, Val.luaEq, Val.truthy, toReply, hg]
    · simp [delProg, execBlock, evalExpr, evalArgs, command, Val.arg, Val.luaEq, Val.truthy, toReply, hg, hv]

/-! ### the Go side -/

theorem tie_tolerance : Extracted.C19.tolerance = 500 ∧ (GoZero.C19.tolerance : Int) = Extracted.C19.tolerance := by
  decide

theorem tie_millisPerSecond :
    Extracted.C19.millisPerSecond = 1000 ∧ (GoZero.C19.millisPerSecond : Int) = Extracted.C19.millisPerSecond := by
  decide

/-- ids are 16 random characters -/
theorem tie_randomLen : Extracted.C19.randomLen = 16 := by decide

/-- the lease handed to the lock script, `int(seconds)*millisPerSecond + tolerance` translated from the
source, is the property's `seconds·1000 + 500` and the model's `leaseMs`, for every `seconds`. -/
theorem tie_leaseArg (seconds : Nat) :
    leaseArg (seconds : Int) = ((seconds * 1000 + 500 : Nat) : Int) ∧
    leaseArg (seconds : Int) = (leaseMs seconds : Int) := by
  unfold leaseArg leaseMs GoZero.C19.millisPerSecond GoZero.C19.tolerance
  omega

/-- Acquire runs the lock script (embedded from lockscript.lua) with KEYS = [key], ARGV = [id, lease]. -/
theorem tie_acquireCall : acquireCall =
    ["script lockScript", "source lockLuaScript", "embed lockscript.lua",
     "KEYS[1] rl.key", "ARGV[1] rl.id", "ARGV[2] itoa(lease)"] := by decide

/-- Release runs the delete script (embedded from delscript.lua) with KEYS = [key], ARGV = [id]. -/
theorem tie_releaseCall : releaseCall =
    ["script delScript", "source delLuaScript", "embed delscript.lua", "KEYS[1] rl.key", "ARGV[1] rl.id"] := by
  decide

/-- what `acquireReply` was written against: nil reply / error / nil → false; string "OK" → true; else false -/
theorem tie_acquireDecisions : acquireDecisions =
    ["if errors.Is(err, red.Nil) {", "return false, nil", "}", "else {",
     "if err != nil {", "return false, err", "}", "else {",
     "if resp == nil {", "return false, nil", "}", "}", "}",
     "reply, ok := resp.(string)", "if ok && reply == \"OK\" {", "return true, nil", "}",
     "return false, nil"] := by decide

/-- what `releaseReply` was written against: error → false; not an integer → false; else `reply == 1` -/
theorem tie_releaseDecisions : releaseDecisions =
    ["if err != nil {", "return false, err", "}", "reply, ok := resp.(int64)",
     "if !ok {", "return false, nil", "}", "return reply == 1, nil"] := by decide

/-- `seconds` is read once, atomically, before the script run; SetExpire stores `uint32(seconds)` atomically -/
theorem tie_acquireShape_head : acquireShape.take 2 = ["call atomic.LoadUint32", "call rl.store.ScriptRunCtx"] := by
  decide

theorem tie_releaseShape_head : releaseShape.take 1 = ["call rl.store.ScriptRunCtx"] := by decide

/-- every instance gets the caller's key and its own `stringx.Randn(randomLen)` id; `seconds` starts at 0 -/
theorem tie_newFields : newFields = ["store: store", "key: key", "id: stringx.Randn(randomLen)"] := by decide

theorem tie_setExpireShape : setExpireShape = ["call uint32", "call atomic.StoreUint32"] := by decide

/-! ### every call is ONE store round trip (what `Cmds.real` was written against)

`effectCalls` of the extractor lists every callee of a function except conversions, formatting, logging and
error inspection.  So these obligations say: AcquireCtx touches the shared `seconds` word once (atomic load)
and the store once (one `ScriptRunCtx`), ReleaseCtx touches the store once (one `ScriptRunCtx`) — no GET, DEL,
SET, pipeline or helper beside it —, the context-free wrappers only forward, and `Redis.ScriptRunCtx` is one
`script.Run` (go-redis: EVALSHA, and EVAL only after a NOSCRIPT answer). -/

theorem tie_acquireStoreCalls : acquireStoreCalls = ["atomic.LoadUint32", "rl.store.ScriptRunCtx"] := by decide

theorem tie_releaseStoreCalls : releaseStoreCalls = ["rl.store.ScriptRunCtx"] := by decide

theorem tie_wrapperCalls : acquireWrapperCalls = ["rl.AcquireCtx"] ∧ releaseWrapperCalls = ["rl.ReleaseCtx"] := by
  decide

theorem tie_setExpireCalls : setExpireCalls = ["atomic.StoreUint32"] := by decide

theorem tie_newLockCalls : newLockCalls = ["stringx.Randn"] := by decide

theorem tie_scriptRunCtx :
    scriptRunCtxCalls = ["getRedis", "script.Run(ctx, conn, keys, args...).Result", "script.Run"] := by decide

/-! ### the ids: `stringx.Randn(16)` -/

/-- the alphabet has 62 different characters; an index is 6 bits of the source and is used only if it is
`< len(letterBytes)` (rejection: every character of the alphabet is equally likely if the bits are uniform) -/
theorem tie_idAlphabet :
    Extracted.C19.letterBytes = "abcdefghijklmnopqrstuvwxyzABCDEFGHIJKLMNOPQRSTUVWXYZ0123456789" ∧
    Extracted.C19.letterBytes.length = 62 ∧ Extracted.C19.letterBytes.toList.Nodup ∧
    Extracted.C19.letterIdxBits = 6 ∧
    letterIdxDerived = ["letterIdxMask = 1<<letterIdxBits - 1", "letterIdxMax = 63 / letterIdxBits"] := by
  decide

theorem tie_randnBody : randnBody =
    ["b := make([]byte, n)",
     "for i, cache, remain := n-1, src.Int63(), letterIdxMax; i >= 0;  {",
     "if remain == 0 {", "cache, remain = src.Int63(), letterIdxMax", "}",
     "if idx := int(cache & letterIdxMask); idx < len(letterBytes) {", "b[i] = letterBytes[idx]", "i--", "}",
     "cache >>= letterIdxBits", "remain--", "}",
     "return string(b)"] := by decide

end GoZero.C19.Tie
