/-
C19 — Tie: what the extractor read from redislock.go / lockscript.lua / delscript.lua *now* equals what
the model was written against.
-/
import GoZero.Extracted.C19
import GoZero.C19.Model
namespace GoZero.C19.Tie
open GoZero.C19
open GoZero.Extracted.C19

theorem extraction_clean : extractionErrors = [] := by decide

theorem tie_tolerance : Extracted.C19.tolerance = 500 ∧ (GoZero.C19.tolerance : Int) = Extracted.C19.tolerance := by decide
theorem tie_millisPerSecond : Extracted.C19.millisPerSecond = 1000 ∧ (GoZero.C19.millisPerSecond : Int) = Extracted.C19.millisPerSecond := by decide

end GoZero.C19.Tie
