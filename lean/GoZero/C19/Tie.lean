/-
C19 — Tie: what the extractor read from redislock.go / lockscript.lua / delscript.lua *now* equals what the
model was written against.  A failing obligation here means the code moved away from the model.
-/
import Std.Data.String.ToNat
import GoZero.Extracted.C19
import GoZero.C19.Lua
import GoZero.C19.Proofs
import GoZero.C19.Ids
import GoZero.C19.Outcomes
import GoZero.C19.CmdTrace
namespace GoZero.C19.Tie
open GoZero.C19
open GoZero.C19.Lua
open GoZero.Extracted.C19

theorem extraction_clean : extractionErrors = [] := by decide

/-! ### the two Lua scripts, semantically -/

def lockProg : List Stmt :=
  [.ifte (.eq (.call [.str "GET", .keys 1]) (.argv 1))
     [.expr (.call [.str "SET", .keys 1, .argv 1, .str "PX", .argv 2]), .ret (.str "OK")]
     [.ret (.call [.str "SET", .keys 1, .argv 1, .str "NX", .str "PX", .argv 2])]]

def delProg : List Stmt :=
  [.ifte (.eq (.call [.str "GET", .keys 1]) (.argv 1))
     [.ret (.call [.str "DEL", .keys 1])]
     [.ret (.num 0)]]

theorem lockLua_parses : (lockLua.mapM Tok.ofRaw).bind parse = some lockProg := by rfl
theorem delLua_parses : (delLua.mapM Tok.ofRaw).bind parse = some delProg := by rfl

/-- **lockscript.lua as it is in the tree now means the model's `lockScript`**: for every store, key, id
and lease `px > 0` (passed as its decimal text, as `strconv.Itoa` does), running the current script
yields exactly the model's store and reply. -/
theorem tie_lockScript (s : Store) (key id : String) (px : Nat) (hpx : 0 < px) :
    runScript lockLua [key] [id, Nat.repr px] s = some (lockScript s key id px) := by
  have hne : px ≠ 0 := by omega
  unfold runScript
  rw [lockLua_parses]
  unfold lockScript
  cases hg : s.get key with
  | none =>
    simp [lockProg, execBlock, evalExpr, evalArgs, command, Val.arg, Val.luaEq, Val.truthy, toReply, hg, hne]
    cases (s.setNXPX key id px).snd <;> rfl
  | some v =>
    by_cases hv : v = id
    · subst hv
      simp [lockProg, execBlock, evalExpr, evalArgs, command, Val.arg, Val.luaEq, Val.truthy, toReply, hg, hne]
    · simp [lockProg, execBlock, evalExpr, evalArgs, command, Val.arg, Val.luaEq, Val.truthy, toReply, hg, hne, hv]
      cases (s.setNXPX key id px).snd <;> rfl

/-- **delscript.lua as it is in the tree now means the model's `delScript`**. -/
theorem tie_delScript (s : Store) (key id : String) :
    runScript delLua [key] [id] s = some (delScript s key id) := by
  unfold runScript
  rw [delLua_parses]
  unfold delScript
  cases hg : s.get key with
  | none =>
    simp [delProg, execBlock, evalExpr, evalArgs, command, Val.arg, Val.luaEq, Val.truthy, toReply, hg]
  | some v =>
    by_cases hv : v = id
    · subst hv
      simp [delProg, execBlock, evalExpr, evalArgs, command, Val.arg, Val.luaEq, Val.truthy, toReply, hg]
    · simp [delProg, execBlock, evalExpr, evalArgs, command, Val.arg, Val.luaEq, Val.truthy, toReply, hg, hv]

/-! ### the Go side -/

theorem tie_tolerance : Extracted.C19.tolerance = 500 ∧ (GoZero.C19.tolerance : Int) = Extracted.C19.tolerance := by
  decide

theorem tie_millisPerSecond :
    Extracted.C19.millisPerSecond = 1000 ∧ (GoZero.C19.millisPerSecond : Int) = Extracted.C19.millisPerSecond := by
  decide

/-- ids are 16 random characters -/
theorem tie_randomLen : Extracted.C19.randomLen = 16 := by decide

/-- the lease handed to the lock script, `int(seconds)*millisPerSecond + tolerance` translated from the
source, is the property's `seconds·1000 + 500` and the model's `leaseMs`, for every `seconds`. -/
theorem tie_leaseArg (seconds : Nat) :
    leaseArg (seconds : Int) = ((seconds * 1000 + 500 : Nat) : Int) ∧
    leaseArg (seconds : Int) = (leaseMs seconds : Int) := by
  unfold leaseArg leaseMs GoZero.C19.millisPerSecond GoZero.C19.tolerance
  omega

/-- Acquire runs the lock script (embedded from lockscript.lua) with KEYS = [key], ARGV = [id, lease]. -/
theorem tie_acquireCall : acquireCall =
    ["script lockScript", "source lockLuaScript", "embed lockscript.lua",
     "KEYS[1] rl.key", "ARGV[1] rl.id", "ARGV[2] itoa(lease)"] := by decide

/-- Release runs the delete script (embedded from delscript.lua) with KEYS = [key], ARGV = [id]. -/
theorem tie_releaseCall : releaseCall =
    ["script delScript", "source delLuaScript", "embed delscript.lua", "KEYS[1] rl.key", "ARGV[1] rl.id"] := by
  decide

/-- what `acquireReply` was written against: nil reply / error / nil → false; string "OK" → true; else false -/
theorem tie_acquireDecisions : acquireDecisions =
    ["if errors.Is(err, red.Nil) {", "return false, nil", "}", "else {",
     "if err != nil {", "return false, err", "}", "else {",
     "if resp == nil {", "return false, nil", "}", "}", "}",
     "reply, ok := resp.(string)", "if ok && reply == \"OK\" {", "return true, nil", "}",
     "return false, nil"] := by decide

/-- what `releaseReply` was written against: error → false; not an integer → false; else `reply == 1` -/
theorem tie_releaseDecisions : releaseDecisions =
    ["if err != nil {", "return false, err", "}", "reply, ok := resp.(int64)",
     "if !ok {", "return false, nil", "}", "return reply == 1, nil"] := by decide

/-- `seconds` is read once, atomically, before the script run; SetExpire stores `uint32(seconds)` atomically -/
theorem tie_acquireShape_head : acquireShape.take 2 = ["call atomic.LoadUint32", "call rl.store.ScriptRunCtx"] := by
  decide

theorem tie_releaseShape_head : releaseShape.take 1 = ["call rl.store.ScriptRunCtx"] := by decide

/-- every instance gets the caller's key and its own `stringx.Randn(randomLen)` id; `seconds` starts at 0 -/
theorem tie_newFields : newFields = ["store: store", "key: key", "id: stringx.Randn(randomLen)"] := by decide

theorem tie_setExpireShape : setExpireShape = ["call uint32", "call atomic.StoreUint32"] := by decide

/-! ### round 4: the Go side with integer WIDTHS, the reply decoding and the script arguments as FUNCTIONS

The extractor's width-aware translator (`extract/c19.go`, `c19W`) types every sub-expression (`seconds` is the
`uint32` that `atomic.LoadUint32` returned, untyped constants take the type of the other operand, arithmetic
wraps at the operand type's width, `int(x)` of an unsigned value zero-extends) and emits `BitVec` terms in
which Go's `int` is `BitVec W`.  `W = 64` on amd64 / arm64 (the platforms the correspondence run uses). -/

/-- **the lease handed to `strconv.Itoa` is `seconds·1000 + 500` for EVERY `uint32` value of `seconds`** —
no wrap anywhere (64-bit `int`): the conversion `int(seconds)` comes before the multiplication.  With the
multiplication inside the conversion (`int(seconds*millisPerSecond + tolerance)`) the emitted term is
`setWidth 64 (seconds * 1000#32 + 500#32)` and this fails for `seconds ≥ 4294967`. -/
theorem tie_leaseArgW (seconds : BitVec 32) :
    (leaseArgW 64 seconds).toInt = ((seconds.toNat * 1000 + 500 : Nat) : Int) ∧
    (leaseArgW 64 seconds).toInt = (leaseMs seconds.toNat : Int) := by
  have h := seconds.isLt
  have e : (leaseArgW 64 seconds).toInt = ((seconds.toNat * 1000 + 500 : Nat) : Int) := by
    unfold leaseArgW
    rw [BitVec.toInt_eq_toNat_cond]
    simp only [BitVec.toNat_add, BitVec.toNat_mul, BitVec.toNat_setWidth, BitVec.toNat_ofNat]
    omega
  exact ⟨e, by rw [e]; rfl⟩

/-- the types: `seconds` is loaded as `uint32`, the value printed by `strconv.Itoa` is a (signed) `int` -/
theorem tie_leaseArgType : leaseArgType = "uint32 -> int" := by decide

/-- the five boundary values of the task list, evaluated on the translated term -/
theorem tie_leaseArgW_boundaries :
    [0, 1, 4294967, 4294968, 4294967295].map (fun s => (leaseArgW 64 (BitVec.ofNat 32 s)).toInt) =
      [500, 1500, 4294967500, 4294968500, 4294967295500] := by decide

/-- `SetExpire(seconds int)` stores `uint32(seconds)`: the low 32 bits — the model's `toUint32`, for every `int` -/
theorem tie_setExpireArgW (s : Int) : (setExpireArgW 64 (BitVec.ofInt 64 s)).toNat = toUint32 s := by
  unfold setExpireArgW toUint32
  rw [BitVec.signExtend_eq_setWidth_of_le _ (by omega)]
  simp only [BitVec.toNat_setWidth, BitVec.toNat_ofInt]
  omega

/-- … so a value in the property's domain `0 ≤ s < 2³²` is stored unchanged -/
theorem tie_setExpireArgW_in_range (s : Nat) (h : s < 4294967296) :
    (setExpireArgW 64 (BitVec.ofInt 64 (s : Int))).toNat = s := by
  rw [tie_setExpireArgW]; unfold toUint32; omega

/-- SetExpire stores into the very word AcquireCtx loads from, both atomically; the field is a `uint32` -/
theorem tie_secondsWord :
    secondsWord = ["store atomic.StoreUint32 &rl.seconds", "load atomic.LoadUint32 &rl.seconds"] ∧
    secondsField = ["uint32"] := by decide

/-- **SetExpire → Acquire, Go side end to end**: the lease text the lock script receives after `SetExpire(s)`
(`0 ≤ s < 2³²`) is the decimal numeral of `s·1000 + 500`. -/
theorem tie_setExpire_then_lease (s : Nat) (h : s < 4294967296) :
    (leaseArgW 64 (setExpireArgW 64 (BitVec.ofInt 64 (s : Int)))).toInt = ((s * 1000 + 500 : Nat) : Int) := by
  have e := tie_setExpireArgW_in_range s h
  rw [(tie_leaseArgW _).1, e]

/-- what go-redis hands to the Go code (trusted reading of go-redis: a Lua `false`/nil reply is the error
`red.Nil`; status and bulk replies are Go strings; integer replies are `int64`; a failed type assertion
leaves the zero value) -/
structure GoResp where
  errIsNil : Bool
  errNonNil : Bool
  respNil : Bool
  isString : Bool
  isInt64 : Bool
  replyS : String
  replyI : Int

def goResp : Reply → GoResp
  | .nil => ⟨true, true, true, false, false, "", 0⟩
  | .status s => ⟨false, false, false, true, false, s, 0⟩
  | .bulk s => ⟨false, false, false, true, false, s, 0⟩
  | .int n => ⟨false, false, false, false, true, "", n⟩

/-- a round trip that failed (connection error, LOADING, …): `resp = nil`, `err` is not `red.Nil` -/
def goFailed : GoResp := ⟨false, true, true, false, false, "", 0⟩

def GoResp.app (g : GoResp) (f : Bool → Bool → Bool → Bool → Bool → String → Int → Bool × Bool) : Bool × Bool :=
  f g.errIsNil g.errNonNil g.respNil g.isString g.isInt64 g.replyS g.replyI

/-- **the statements of AcquireCtx after the script run, translated, ARE the model's `acquireReply`**: for
every reply the result is `acquireReply r` and no error is returned; a failed round trip gives (false, err). -/
theorem tie_acquireDecide :
    (∀ r : Reply, (goResp r).app acquireDecide = (acquireReply r, false)) ∧
    goFailed.app acquireDecide = (false, true) := by
  refine ⟨fun r => ?_, by decide⟩
  cases r <;> simp [GoResp.app, goResp, acquireDecide, acquireReply]
  all_goals (split <;> simp_all)

/-- **… of ReleaseCtx ARE the model's `releaseReply`** (`reply == 1` on an `int64`); the only reply that makes
it return an error is nil (which delscript.lua never sends, `delScript_reply`). -/
theorem tie_releaseDecide :
    (∀ r : Reply, (goResp r).app releaseDecide = (releaseReply r, decide (r = .nil))) ∧
    goFailed.app releaseDecide = (false, true) := by
  refine ⟨fun r => ?_, by decide⟩
  cases r <;> simp [GoResp.app, goResp, releaseDecide, releaseReply]
  rename_i n
  by_cases h : n = 1 <;> simp [h]

/-- the script arguments as functions: KEYS = [key], ARGV = [id, lease] resp. [id] -/
theorem tie_scriptArgs (key id lease : String) :
    acquireKeys key id lease = [key] ∧ acquireArgv key id lease = [id, lease] ∧
    releaseKeys key id lease = [key] ∧ releaseArgv key id lease = [id] := ⟨rfl, rfl, rfl, rfl⟩

/-- **Acquire end to end, from the Go arguments to the store** (call site → script arguments → current
lockscript.lua): for every store, key, id and every `uint32` value of `seconds`, running the script file of
the tree with the KEYS/ARGV that AcquireCtx builds — the lease printed from the width-aware Go expression —
is the model's `lockScript` with `leaseMs seconds`; and AcquireCtx's decoding of the reply is the model's. -/
theorem tie_acquire_end_to_end (s : Store) (key id : String) (seconds : BitVec 32) :
    let lease := Nat.repr (leaseArgW 64 seconds).toInt.toNat
    runScript lockLua (acquireKeys key id lease) (acquireArgv key id lease) s =
        some (lockScript s key id (leaseMs seconds.toNat)) ∧
    (goResp (lockScript s key id (leaseMs seconds.toNat)).2).app acquireDecide =
        ((acquireWith (fun _ => ⟨key, id⟩) ⟨s, fun _ => 0⟩ 0 seconds.toNat).2, false) := by
  intro lease
  have e : (leaseArgW 64 seconds).toInt.toNat = leaseMs seconds.toNat := by
    rw [(tie_leaseArgW seconds).2]; simp
  refine ⟨?_, ?_⟩
  · show runScript lockLua [key] [id, Nat.repr (leaseArgW 64 seconds).toInt.toNat] s = _
    rw [e]
    exact tie_lockScript s key id _ (leaseMs_pos _)
  · rw [tie_acquireDecide.1]; rfl

/-- **Release end to end** (ReleaseCtx's KEYS/ARGV → current delscript.lua → decoding) -/
theorem tie_release_end_to_end (s : Store) (key id : String) :
    runScript delLua (releaseKeys key id "") (releaseArgv key id "") s = some (delScript s key id) ∧
    ((goResp (delScript s key id).2).app releaseDecide).1 =
        (release (fun _ => ⟨key, id⟩) ⟨s, fun _ => 0⟩ 0).2 := by
  refine ⟨tie_delScript s key id, ?_⟩
  rw [tie_releaseDecide.1]; rfl

/-- non-vacuity / platform note: with a 32-bit `int` (GOARCH=386/arm) the same expression wraps from
`seconds = 2147484` on — the 64-bit width is an assumption of `tie_leaseArgW` (props/C19.json). -/
example : (leaseArgW 32 (BitVec.ofNat 32 2147483)).toInt = 2147483500 ∧
    (leaseArgW 32 (BitVec.ofNat 32 2147484)).toInt < 0 := by decide

example : (goResp (.status "OK")).app acquireDecide = (true, false) ∧ (goResp .nil).app acquireDecide = (false, false) ∧
    (goResp (.int 1)).app releaseDecide = (true, false) ∧ (goResp (.int 0)).app releaseDecide = (false, false) := by
  decide

/-! ### every call is ONE store round trip (what `Cmds.real` was written against)

`effectCalls` of the extractor lists every callee of a function except conversions, formatting, logging and
error inspection.  So these obligations say: AcquireCtx touches the shared `seconds` word once (atomic load)
and the store once (one `ScriptRunCtx`), ReleaseCtx touches the store once (one `ScriptRunCtx`) — no GET, DEL,
SET, pipeline or helper beside it —, the context-free wrappers only forward, and `Redis.ScriptRunCtx` is one
`script.Run` (go-redis: EVALSHA, and EVAL only after a NOSCRIPT answer). -/

theorem tie_acquireStoreCalls : acquireStoreCalls = ["atomic.LoadUint32", "rl.store.ScriptRunCtx"] := by decide

theorem tie_releaseStoreCalls : releaseStoreCalls = ["rl.store.ScriptRunCtx"] := by decide

theorem tie_wrapperCalls : acquireWrapperCalls = ["rl.AcquireCtx"] ∧ releaseWrapperCalls = ["rl.ReleaseCtx"] := by
  decide

theorem tie_setExpireCalls : setExpireCalls = ["atomic.StoreUint32"] := by decide

theorem tie_newLockCalls : newLockCalls = ["stringx.Randn"] := by decide

theorem tie_scriptRunCtx :
    scriptRunCtxCalls = ["getRedis", "script.Run(ctx, conn, keys, args...).Result", "script.Run"] := by decide

/-- the two package-level scripts are built by `NewScript`, which hands the text unchanged to go-redis -/
theorem tie_newScript : newScriptBody = ["return red.NewScript(script)"] := by decide

/-! ### the ids: `stringx.Randn(16)` -/

/-- the alphabet has 62 different characters; an index is 6 bits of the source and is used only if it is
`< len(letterBytes)` (rejection: every character of the alphabet is equally likely if the bits are uniform) -/
theorem tie_idAlphabet :
    Extracted.C19.letterBytes = "abcdefghijklmnopqrstuvwxyzABCDEFGHIJKLMNOPQRSTUVWXYZ0123456789" ∧
    Extracted.C19.letterBytes.length = 62 ∧ Extracted.C19.letterBytes.toList.Nodup ∧
    Extracted.C19.letterIdxBits = 6 ∧
    letterIdxDerived = ["letterIdxMask = 1<<letterIdxBits - 1", "letterIdxMax = 63 / letterIdxBits"] := by
  decide

/-- the derived constants evaluated (own evaluator with shifts, Go precedence): the mask is the `letterIdxBits`
low bits, and `letterIdxMax` indices of `letterIdxBits` bits fit into the 63 bits of `Int63` -/
theorem tie_randnConsts :
    letterIdxMask = 2 ^ 6 - 1 ∧ Extracted.C19.letterIdxBits = 6 ∧ letterIdxMax = 10 ∧ letterIdxMax * 6 ≤ 63 ∧
    randnShift = 6 := by decide

/-- **the decision-making expressions of Randn's loop, translated, are the model's** (`Ids.lean`): the `j`-th index
read from an `Int63` value is the model's draw, and an index is used iff the model's filter accepts it; the
model's alphabet is the `letterBytes` of the tree and an accepted index selects `letterBytes[idx]`. -/
theorem tie_randnLoop :
    (∀ v, drawsOfInt63 v = (List.range letterIdxMax).map fun j => randnIdx (v >>> (randnShift * j))) ∧
    (∀ idx, randnAccept idx = decide (idx < 62)) ∧
    idAlphabet = Extracted.C19.letterBytes.toList ∧
    Extracted.C19.letterBytes.length = 62 := by
  refine ⟨fun v => rfl, fun idx => rfl, by decide, by decide⟩

theorem tie_randnBody : randnBody =
    ["b := make([]byte, n)",
     "for i, cache, remain := n-1, src.Int63(), letterIdxMax; i >= 0;  {",
     "if remain == 0 {", "cache, remain = src.Int63(), letterIdxMax", "}",
     "if idx := int(cache & letterIdxMask); idx < len(letterBytes) {", "b[i] = letterBytes[idx]", "i--", "}",
     "cache >>= letterIdxBits", "remain--", "}",
     "return string(b)"] := by decide

/-! ### Round 5: every value the Go code can be handed; forwarded arguments of the delegating entry points -/

/-- `Handed` as go-redis presents it: a reply (`goResp`), `resp == nil` with `err == nil`, or an error that is not
`red.Nil` (also a typed-nil error value: the interface is non-nil) -/
def goHanded : Handed → GoResp
  | .reply r => goResp r
  | .nilNoErr => ⟨false, false, true, false, false, "", 0⟩
  | .err => goFailed

/-- **AcquireCtx's statements after the script run, translated from the tree, are the model's `acquireHanded` for
EVERY value the code can be handed** (not only the replies lockscript.lua can send) -/
theorem tie_acquireHanded (h : Handed) : (goHanded h).app acquireDecide = acquireHanded h := by
  cases h with
  | reply r => exact tie_acquireDecide.1 r
  | nilNoErr => decide
  | err => exact tie_acquireDecide.2

/-- **… ReleaseCtx's are `releaseHanded`**: true only for the `int64` 1; a nil reply comes back as the error -/
theorem tie_releaseHanded (h : Handed) : (goHanded h).app releaseDecide = releaseHanded h := by
  cases h with
  | reply r => rw [show goHanded (.reply r) = goResp r from rfl, tie_releaseDecide.1 r]; cases r <;> simp [releaseHanded, releaseReply]
  | nilNoErr => decide
  | err => exact tie_releaseDecide.2

/-- `Acquire()` / `Release()` are exactly `return rl.AcquireCtx(context.Background())` / `… ReleaseCtx …`:
same receiver, the background context, nothing else (for every receiver: parametric in the argument type) -/
theorem tie_wrapperFwd {α : Type} (rl bg : α) (lit : Nat → α) (spread : α → α) :
    acquireWrapperFwd rl bg lit spread = ("AcquireCtx", rl, [bg]) ∧
    releaseWrapperFwd rl bg lit spread = ("ReleaseCtx", rl, [bg]) := ⟨rfl, rfl⟩

/-- the script runs of AcquireCtx / ReleaseCtx: `rl.store.ScriptRunCtx(ctx, lockScript | delScript, <1st literal>,
<2nd literal>)` — the caller's context first, the right script object, KEYS before ARGV (the two literals are
the ones translated as `acquireKeys`/`acquireArgv`, `releaseKeys`/`releaseArgv`: `tie_scriptArgs`) -/
theorem tie_callSites {α : Type} (store ctx lockS delS bg : α) (lit : Nat → α) (spread : α → α) :
    acquireCallSite store ctx lockS delS bg lit spread = ("ScriptRunCtx", store, [ctx, lockS, lit 1, lit 2]) ∧
    releaseCallSite store ctx lockS delS bg lit spread = ("ScriptRunCtx", store, [ctx, delS, lit 1, lit 2]) := ⟨rfl, rfl⟩

/-- `Redis.ScriptRunCtx(ctx, script, keys, args...)` = `conn, err := getRedis(s)`; error → `nil, err`; else
`script.Run(ctx, conn, keys, args...).Result()`: every parameter forwarded to its own position -/
theorem tie_scriptRunCtxFwd {α : Type} (ctx script keys args conn bg : α) (lit : Nat → α) (spread : α → α) :
    scriptRunCtxFwd ctx script keys args conn bg lit spread = ("Run", script, [ctx, conn, keys, spread args]) ∧
    scriptRunCtxParams = ["ctx", "script", "keys", "args..."] ∧
    scriptRunCtxBody = ["assign conn, err := getRedis(s)", "if err != nil { return nil, err }",
      "return", "  <run>.Result()"] := ⟨rfl, by decide, by decide⟩

/-- Go's positional binding of a call's arguments to `ScriptRunCtx`'s parameters (the variadic one packs the rest) -/
def bindScriptRunCtx {α : Type} (pack : List α → α) : List α → Option (α × α × α × α)
  | ctx :: script :: keys :: rest => some (ctx, script, keys, pack rest)
  | _ => none

/-- **Acquire() → AcquireCtx → Redis.ScriptRunCtx → script.Run, argument by argument**: the script that runs is
`lockScript` (for Release: `delScript`), with the wrapper's background context, KEYS = the first literal of the
call site, ARGV = the second (packed into the variadic parameter and spread again) — a dropped, swapped or
reordered argument anywhere on the path breaks this. -/
theorem tie_call_forwarding {α : Type} (rl store lockS delS bg conn : α) (lit : Nat → α) (spread : α → α)
    (pack : List α → α) :
    ((acquireWrapperFwd rl bg lit spread).2.2.head?.bind fun ctx =>
      (bindScriptRunCtx pack (acquireCallSite store ctx lockS delS bg lit spread).2.2).map fun a =>
        scriptRunCtxFwd a.1 a.2.1 a.2.2.1 a.2.2.2 conn bg lit spread) =
      some ("Run", lockS, [bg, conn, lit 1, spread (pack [lit 2])]) ∧
    ((releaseWrapperFwd rl bg lit spread).2.2.head?.bind fun ctx =>
      (bindScriptRunCtx pack (releaseCallSite store ctx lockS delS bg lit spread).2.2).map fun a =>
        scriptRunCtxFwd a.1 a.2.1 a.2.2.1 a.2.2.2 conn bg lit spread) =
      some ("Run", delS, [bg, conn, lit 1, spread (pack [lit 2])]) := ⟨rfl, rfl⟩

/-- NewRedisLock: `store` and `key` are the caller's, the id is `stringx.Randn(16)`, no other field is set
(`seconds` starts at its zero value) — for every store and key -/
theorem tie_newLockFields {α : Type} (store key : α) (randn : Int → α) :
    newLockFields store key randn = [("store", store), ("key", key), ("id", randn 16)] := rfl

/-- `init()` of redislock.go is one expression statement whose value is dropped (`rand.NewSource(…)` allocates a
source and nothing keeps it): no assignment, no store to package state — nothing of the lock depends on it -/
theorem tie_initBody : initBody = ["rand.NewSource(time.Now().UnixNano())"] := by decide

example : (goHanded (.reply (.bulk "ok"))).app acquireDecide = (false, false) ∧
    (goHanded .nilNoErr).app releaseDecide = (false, false) := by decide

/-! ### Round 5c: the table of calls of redislock.go -/

def rowOf (t : String × List (Bool × String) × Nat × String × List String) : Row :=
  ⟨t.1, t.2.1, t.2.2.1, t.2.2.2.1, t.2.2.2.2⟩

/-- **every call of redislock.go that is not pure — per function and per branch — is what the model was written
against**: one unconditional `rl.store.ScriptRunCtx(ctx, lockScript | delScript, []string{rl.key}, …)` in
AcquireCtx / ReleaseCtx, the wrappers delegate, no call on `rl.store` under any condition, no helper method -/
theorem tie_callTable : callTable.map rowOf = realRows := by decide

/-- **the command-trace theorems speak about the table of the tree**: interpreted from either entry point it is `realG` -/
theorem tie_command_trace (cfg : Nat → LockCfg) (call : Call) (wrapper : Bool) :
    progOfRows (callTable.map rowOf) wrapper (cfg (callInst call)) call = some (realG cfg call) := by
  rw [tie_callTable]; cases call <;> cases wrapper <;> rfl

/-- Go's `select` with one receive case and a `default`: the receive case is taken iff it is ready -/
def gateOfSelect (sel : List (String × String)) (ctxDone brkOpen : Bool) : Option GateOut :=
  match sel with
  | [(c1, b1), (c2, b2)] =>
    if c1 = "<-ctx.Done()" ∧ b1 = "return ctx.Err()" ∧ c2 = "default" ∧
        b2 = "return cb.DoWithAcceptable(req, acceptable)" then
      some (if ctxDone then .ctxErr else if brkOpen then .unavailable else .pass)
    else none
  | _ => none

/-- **go-zero's breaker hook is the model's `breakerGate`**: every command goes through
`h.brk.DoWithAcceptableCtx(ctx, next…, acceptable)` (script commands are not in `ignoreCmds`' bypass branch's way:
the bypass only skips the breaker), whose body is the select "context done → its error, else the breaker decides" -/
theorem tie_breakerGate (ctxDone brkOpen : Bool) :
    gateOfSelect breakerSelect ctxDone brkOpen = some (breakerGate ctxDone brkOpen) ∧
    breakerProcessHook = ["if _, ok := ignoreCmds[cmd.Name()]; ok {", "return next(ctx, cmd)", "}",
      "return h.brk.DoWithAcceptableCtx(ctx, func() error { return next(ctx, cmd) }, acceptable)"] := by
  cases ctxDone <;> cases brkOpen <;> decide

/-! ### Round 5e: no answer without asking Redis; the state of an instance -/

/-- **AcquireCtx and ReleaseCtx never return before their script run**: the returns in front of the
`ScriptRunCtx` statement, translated over the values of their conditions, are `none` for ALL condition values —
no client-side fast path (seeded C19-7: a local lease deadline that made a holder's Release answer false without
asking Redis).  This is what `realG` (first thing: send EVALSHA) and `every_call_asks_redis` rest on. -/
theorem tie_noEarlyReturn (cs : List Bool) : acquireEarly cs = none ∧ releaseEarly cs = none := ⟨rfl, rfl⟩

/-- **all the state of a `RedisLock`**: the store, the `seconds` word, key and id — the model's `LockCfg` (key, id),
`St.secs` and the shared store; no client-side lease bookkeeping, no cached arguments (seeded C19-5, C19-7) -/
theorem tie_lockFields :
    lockFields = [("store", "*Redis"), ("seconds", "uint32"), ("key", "string"), ("id", "string")] := by decide

end GoZero.C19.Tie
