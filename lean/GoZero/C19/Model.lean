/-
C19 — executable model of core/stores/redis/redislock.go + lockscript.lua + delscript.lua (core Lean only).

Layers, bottom up:
  * `Store`           the Redis commands the scripts use (Store.lean)
  * `lockScript`/`delScript`   the two Lua scripts as atomic compositions of those commands, with the reply
                      Redis sends for the script's return value (Tie: equal to the interpretation of the
                      *parsed current .lua files*, for every store and every argument)
  * `acquireReply`/`releaseReply`   how `AcquireCtx` / `ReleaseCtx` turn a reply into their bool result
  * `step`            one public-API call of one of arbitrarily many `RedisLock` instances, or a clock advance
-/
import GoZero.C19.Store
namespace GoZero.C19

/-- what go-redis hands back for a script run -/
inductive Reply where
  | nil                     -- Lua `false`/nil  → go-redis `red.Nil` error
  | status (s : String)     -- Redis status reply (`redis.call("SET", …)` returns `{ok="OK"}`) → Go string
  | bulk (s : String)       -- Lua string → bulk reply → Go string
  | int (n : Int)           -- Lua number → integer reply → Go int64
  deriving Repr, DecidableEq

/-- lockscript.lua:
```
if redis.call("GET", KEYS[1]) == ARGV[1] then
    redis.call("SET", KEYS[1], ARGV[1], "PX", ARGV[2]); return "OK"
else
    return redis.call("SET", KEYS[1], ARGV[1], "NX", "PX", ARGV[2])
end
``` -/
def lockScript (s : Store) (key id : String) (px : Nat) : Store × Reply :=
  if s.get key = some id then (s.setPX key id px, .bulk "OK")
  else ((s.setNXPX key id px).1, if (s.setNXPX key id px).2 then .status "OK" else .nil)

/-- delscript.lua:
```
if redis.call("GET", KEYS[1]) == ARGV[1] then return redis.call("DEL", KEYS[1]) else return 0 end
``` -/
def delScript (s : Store) (key id : String) : Store × Reply :=
  if s.get key = some id then ((s.del key).1, .int (s.del key).2) else (s, .int 0)

/-- `AcquireCtx` after a successful round trip: `red.Nil` → false; `resp.(string) == "OK"` → true; else false. -/
def acquireReply : Reply → Bool
  | .status s => s == "OK"
  | .bulk s => s == "OK"
  | _ => false

/-- `ReleaseCtx`: `resp.(int64)`, `reply == 1`. (A nil reply would be an error in Go; the script never sends one.) -/
def releaseReply : Reply → Bool
  | .int n => n == 1
  | _ => false

def tolerance : Nat := 500
def millisPerSecond : Nat := 1000

/-- `int(seconds)*millisPerSecond + tolerance` -/
def leaseMs (seconds : Nat) : Nat := seconds * millisPerSecond + tolerance

/-- `uint32(seconds)` of a Go `int` (64 bit): wraps modulo 2^32. -/
def toUint32 (s : Int) : Nat := (s % 4294967296).toNat

/-- a `RedisLock` instance: its key and its random id (fixed at construction). -/
structure LockCfg where
  key : String
  id  : String
  deriving Repr, DecidableEq

structure St where
  store : Store
  secs  : Nat → Nat        -- field `seconds` (uint32) of instance i; 0 until `SetExpire`

/-- the empty store with boundary convention `g` -/
def St.initG (g : Nat) : St := { store := Store.emptyG g, secs := fun _ => 0 }

def St.init : St := St.initG 0

def updN (f : Nat → Nat) (i v : Nat) : Nat → Nat := fun j => if j = i then v else f j

inductive Op where
  | ft (ms : Nat)                 -- clock advance
  | acquire (i : Nat)             -- locks[i].Acquire()
  | release (i : Nat)             -- locks[i].Release()
  | setExpire (i : Nat) (s : Int) -- locks[i].SetExpire(s)  (one atomic StoreUint32)
  | acquireS (i : Nat) (seconds : Nat)
      -- the script run of an Acquire whose `atomic.LoadUint32(&rl.seconds)` returned `seconds` earlier:
      -- with it a history is an arbitrary *schedule* of the atomic steps of concurrent callers
      -- (load, script run, store), not only of whole calls.  `acquire i` = load and run back to back.
  deriving Repr, DecidableEq

/-- the script run of `Acquire` with an explicit `seconds` value (what `atomic.LoadUint32` returned). -/
def acquireWith (cfg : Nat → LockCfg) (st : St) (i : Nat) (seconds : Nat) : St × Bool :=
  ({ st with store := (lockScript st.store (cfg i).key (cfg i).id (leaseMs seconds)).1 },
   acquireReply (lockScript st.store (cfg i).key (cfg i).id (leaseMs seconds)).2)

def acquire (cfg : Nat → LockCfg) (st : St) (i : Nat) : St × Bool := acquireWith cfg st i (st.secs i)

def release (cfg : Nat → LockCfg) (st : St) (i : Nat) : St × Bool :=
  ({ st with store := (delScript st.store (cfg i).key (cfg i).id).1 },
   releaseReply (delScript st.store (cfg i).key (cfg i).id).2)

/-- one operation; the `Bool` is the call's result (`true` for the operations without one). -/
def step (cfg : Nat → LockCfg) (st : St) : Op → St × Bool
  | .ft ms => ({ st with store := st.store.advance ms }, true)
  | .acquire i => acquire cfg st i
  | .release i => release cfg st i
  | .setExpire i s => ({ st with secs := updN st.secs i (toUint32 s) }, true)
  | .acquireS i seconds => acquireWith cfg st i seconds

def run (cfg : Nat → LockCfg) (st : St) (ops : List Op) : St := ops.foldl (fun s op => (step cfg s op).1) st

/-- results of every operation of a history -/
def results (cfg : Nat → LockCfg) : St → List Op → List Bool
  | _, [] => []
  | st, op :: ops => (step cfg st op).2 :: results cfg (step cfg st op).1 ops

/-- instance `i` is the holder of its key right now: the key is visible and carries `i`'s id. -/
def holds (cfg : Nat → LockCfg) (st : St) (i : Nat) : Prop := st.store.get (cfg i).key = some (cfg i).id

instance (cfg : Nat → LockCfg) (st : St) (i : Nat) : Decidable (holds cfg st i) := by unfold holds; infer_instance

/-- what an observer reading Redis directly sees under key `k`: (value, PTTL) -/
def St.view (st : St) (k : String) : Option (String × Int) :=
  (st.store.live k).map fun e => (e.val, st.store.pttl k)

end GoZero.C19
