/-
C19 — schedules: any number of goroutines, each executing Acquire / Release / SetExpire calls on any
instances, interleaved at the granularity of their atomic steps:

  Acquire  =  load `seconds` (atomic.LoadUint32)  ;  script run (atomic in Redis)  ;  decode reply (local)
  Release  =  script run ; decode (local)
  SetExpire = atomic.StoreUint32
  clock    =  the Redis clock moves between any two steps

`CStep` is the small-step relation (thread ids are arbitrary naturals: unboundedly many goroutines);
the label of a step is the `Op` it contributes to the history of the shared state (none for the load,
which only touches the thread's own register).  `exec_is_history`: whatever the schedule, the shared state
reached is `run` of the labels — so every theorem about histories (which contain `acquireS i s` for a
script run with an earlier-loaded `s`) is a theorem about every schedule.
-/
import GoZero.C19.Invariants
namespace GoZero.C19

inductive Pc where
  | idle
  | loaded (i : Nat) (seconds : Nat)   -- inside Acquire of instance i, after the load, before the script run
  deriving Repr, DecidableEq

structure Conc where
  st : St
  pc : Nat → Pc

def updPc (f : Nat → Pc) (t : Nat) (v : Pc) : Nat → Pc := fun u => if u = t then v else f u

inductive CStep (cfg : Nat → LockCfg) : Conc → Option Op → Conc → Prop where
  | load (c : Conc) (t i : Nat) (h : c.pc t = .idle) :
      CStep cfg c none { c with pc := updPc c.pc t (.loaded i (c.st.secs i)) }
  | script (c : Conc) (t i s : Nat) (h : c.pc t = .loaded i s) :
      CStep cfg c (some (.acquireS i s)) { st := (step cfg c.st (.acquireS i s)).1, pc := updPc c.pc t .idle }
  | release (c : Conc) (t i : Nat) (h : c.pc t = .idle) :
      CStep cfg c (some (.release i)) { c with st := (step cfg c.st (.release i)).1 }
  | setExpire (c : Conc) (t i : Nat) (v : Int) (h : c.pc t = .idle) :
      CStep cfg c (some (.setExpire i v)) { c with st := (step cfg c.st (.setExpire i v)).1 }
  | clock (c : Conc) (ms : Nat) :
      CStep cfg c (some (.ft ms)) { c with st := (step cfg c.st (.ft ms)).1 }

/-- an execution with the history it leaves on the shared state -/
inductive Exec (cfg : Nat → LockCfg) : Conc → List Op → Conc → Prop where
  | nil (c : Conc) : Exec cfg c [] c
  | tau {c c' c'' : Conc} {ops : List Op} : CStep cfg c none c' → Exec cfg c' ops c'' → Exec cfg c ops c''
  | vis {c c' c'' : Conc} {op : Op} {ops : List Op} :
      CStep cfg c (some op) c' → Exec cfg c' ops c'' → Exec cfg c (op :: ops) c''

theorem cstep_st (cfg : Nat → LockCfg) {c c' : Conc} {l : Option Op} (h : CStep cfg c l c') :
    c'.st = match l with
      | none => c.st
      | some op => (step cfg c.st op).1 := by
  cases h <;> rfl

theorem exec_is_history (cfg : Nat → LockCfg) {c c' : Conc} {ops : List Op} (h : Exec cfg c ops c') :
    c'.st = run cfg c.st ops := by
  induction h with
  | nil c => rfl
  | tau hs _ ih => rw [ih, cstep_st cfg hs]
  | vis hs _ ih => rw [ih, cstep_st cfg hs]; rfl

/-- the `seconds` an Acquire's script run uses is what the instance's field held when the thread loaded it -/
theorem loaded_value (cfg : Nat → LockCfg) {c c' : Conc} (h : CStep cfg c none c') :
    ∃ t i, c'.pc t = .loaded i (c.st.secs i) := by
  cases h with
  | load t i _ => exact ⟨t, i, by simp [updPc]⟩

def Conc.initG (g : Nat) : Conc := { st := St.initG g, pc := fun _ => .idle }

def Conc.init : Conc := Conc.initG 0

end GoZero.C19
