/-
C19 — lemmas for `linearize_finds_model_placement` (round 4): the driver's linearizability monitor, fed with the
outcome the command-level model computes for an `inj` line, finds an atomic placement (no false alarm).
-/
import GoZero.C19.Refine
import GoZero.C19.Atomic
import GoZero.C19.InjModel
import GoZero.C19.Driver
namespace GoZero.C19
open Spec

theorem explain_own_result (cfg : Nat → LockCfg) (a : ASt) (op : Op) :
    Spec.explain cfg a op (Spec.step cfg a op).2 = none := by
  unfold Spec.explain; simp

/-- the observations the model produces for a sequence of operations -/
def modelObs (cfg : Nat → LockCfg) (st : St) (ops : List Op) : List (Op × Option Bool) :=
  ops.zip ((results cfg st ops).map some)

theorem results_length (cfg : Nat → LockCfg) (ops : List Op) : ∀ st, (results cfg st ops).length = ops.length := by
  induction ops with
  | nil => intro st; rfl
  | cons op ops ih => intro st; simp [results, ih]

theorem results_append (cfg : Nat → LockCfg) (a b : List Op) :
    ∀ st, results cfg st (a ++ b) = results cfg st a ++ results cfg (run cfg st a) b := by
  induction a with
  | nil => intro st; rfl
  | cons op a ih =>
    intro st
    simp only [List.cons_append, results, ih, run, List.foldl_cons]

theorem specSeq_model (cfg : Nat → LockCfg) (ops : List Op) :
    ∀ st, HasTTL st → specSeq cfg (abs st) (modelObs cfg st ops) = (none, abs (run cfg st ops)) := by
  induction ops with
  | nil => intro st _; rfl
  | cons op ops ih =>
    intro st h
    have hs := step_refines cfg st op h
    have he : Spec.explain cfg (abs st) op (step cfg st op).2 = none := by
      have := explain_own_result cfg (abs st) op
      rw [hs] at this; exact this
    simp only [modelObs, results, List.map_cons, List.zip_cons_cons, specSeq, he, hs]
    exact ih _ (hasTTL_step cfg st op h)

theorem specDump_abs (st : St) (h : HasTTL st) (keys : List String) : specDump (abs st) keys = modelDump st keys := by
  unfold specDump modelDump
  congr 1
  apply List.map_congr_left
  intro k _
  rw [abs_view st h k]

theorem specExplains_model (cfg : Nat → LockCfg) (keys : List String) (st : St) (h : HasTTL st) (ops : List Op) :
    specExplains cfg keys (abs st) (modelObs cfg st ops) (modelDump (run cfg st ops) keys) = none := by
  unfold specExplains
  rw [specSeq_model cfg ops st h]
  have hr : HasTTL (run cfg st ops) := by
    have := (run_refines cfg ops st h).2; exact this
  simp [specDump_abs _ hr]


/-- the `seconds` the call under observation loaded at entry (Acquire), 0 for Release -/
def secOf (st : St) : Op → Nat
  | .acquire i => st.secs i
  | _ => 0

theorem placeOuter_callOf (st : St) (outer : Op) (ho : isCall outer = true) :
    placeOuter outer (secOf st outer) = (callOf st outer).op := by
  cases outer <;> simp [isCall] at ho <;> rfl

theorem secOf_mem_secsCands (st : St) (outer : Op) (before : List Op) :
    secOf st outer ∈ secsCands (abs st) outer before := by
  cases outer with
  | acquire i => simp [secsCands, secOf, List.mem_eraseDups, abs]
  | release i => simp [secsCands, secOf]
  | ft ms => simp [secsCands, secOf]
  | setExpire i v => simp [secsCands, secOf]
  | acquireS i s => simp [secsCands, secOf]

theorem mem_placements (st : St) (outer : Op) (inner : List Op) (pos : Nat) (hpos : pos ≤ inner.length) :
    (pos, secOf st outer) ∈ placements (abs st) outer inner := by
  unfold placements
  rw [List.mem_flatMap]
  exact ⟨pos, List.mem_range.2 (by omega), List.mem_map.2 ⟨_, secOf_mem_secsCands st outer _, rfl⟩⟩

theorem map_fst_modelZip (inner : List Op) (res : List Bool) (h : res.length = inner.length) :
    (inner.zip (res.map some)).map (·.1) = inner := by
  have : (inner.zip (res.map some)).map (·.1) = (inner.zip (res.map some)).map Prod.fst := rfl
  rw [this, List.map_fst_zip (by simp [h])]

/-- the call placed LAST among the inner operations is the model history `inner ++ [call]` -/
theorem placed_last (cfg : Nat → LockCfg) (st : St) (outer : Op) (ho : isCall outer = true) (inner : List Op) :
    placed outer (some (step cfg (run cfg st inner) (callOf st outer).op).2)
        (inner.zip ((results cfg st inner).map some)) inner.length (secOf st outer) =
      modelObs cfg st (inner ++ [(callOf st outer).op]) := by
  have hl : (inner.zip ((results cfg st inner).map some)).length ≤ inner.length := by
    simp [List.length_zip, results_length]
  unfold placed modelObs
  rw [List.take_of_length_le hl, List.drop_of_length_le hl, placeOuter_callOf st outer ho, results_append,
    List.map_append, List.zip_append (by simp [results_length])]
  simp [results]

/-- the call placed FIRST is the model history `call :: inner` -/
theorem placed_first (cfg : Nat → LockCfg) (st : St) (outer : Op) (ho : isCall outer = true) (inner : List Op) :
    placed outer (some (step cfg st (callOf st outer).op).2)
        (inner.zip ((results cfg (step cfg st (callOf st outer).op).1 inner).map some)) 0 (secOf st outer) =
      modelObs cfg st ((callOf st outer).op :: inner) := by
  unfold placed modelObs
  rw [placeOuter_callOf st outer ho]
  simp [results]

end GoZero.C19
