/-
C19 — invariants over histories: a lease lasts exactly as long as promised whatever the other instances
do; callers' beliefs are sound and exclusive; the model refines the lease table of Spec.lean.
-/
import GoZero.C19.Proofs
namespace GoZero.C19
open Spec

/-- ids are distinct among the instances that lock the same key (the random 16-character ids). -/
def DistinctIds (cfg : Nat → LockCfg) : Prop :=
  ∀ i j, (cfg i).key = (cfg j).key → (cfg i).id = (cfg j).id → i = j

/-- total clock advance of a history -/
def elapsed : List Op → Nat
  | [] => 0
  | .ft ms :: ops => ms + elapsed ops
  | _ :: ops => elapsed ops

/-- instance `i` makes no Acquire/Release call in `op` -/
def quietFor (i : Nat) : Op → Bool
  | .acquire j => j != i
  | .release j => j != i
  | .acquireS j _ => j != i
  | _ => true

theorem step_now (cfg : Nat → LockCfg) (st : St) (op : Op) :
    (step cfg st op).1.store.now = st.store.now + elapsed [op] := by
  cases op <;> simp [step, elapsed, acquire, acquireWith_now, release_now, Store.advance]

theorem step_grace (cfg : Nat → LockCfg) (st : St) (op : Op) :
    (step cfg st op).1.store.grace = st.store.grace := by
  cases op <;> simp [step, acquire, acquireWith_grace, release_grace, Store.advance]

theorem run_grace (cfg : Nat → LockCfg) (ops : List Op) : ∀ st : St,
    (run cfg st ops).store.grace = st.store.grace := by
  induction ops with
  | nil => intro st; rfl
  | cons op ops ih =>
    intro st
    simp only [run, List.foldl_cons]
    exact (ih _).trans (step_grace cfg st op)

theorem run_now (cfg : Nat → LockCfg) (ops : List Op) : ∀ st : St,
    (run cfg st ops).store.now = st.store.now + elapsed ops := by
  induction ops with
  | nil => intro st; simp [run, elapsed]
  | cons op ops ih =>
    intro st
    have h1 := step_now cfg st op
    have h2 := ih (step cfg st op).1
    simp only [run, List.foldl_cons] at h2 ⊢
    rw [h2, h1]
    cases op <;> simp [elapsed] <;> omega

/-! ### one lease against everybody else -/

/-- the lease `(id_i, until u)` is still the entry of `i`'s key, or it has run out and whatever is there
now does not carry `i`'s id. -/
def LeaseInv (cfg : Nat → LockCfg) (i u : Nat) (st : St) : Prop :=
  st.store.ent (cfg i).key = some ⟨(cfg i).id, some u⟩ ∨
  (u ≤ st.store.now ∧ ∀ e, st.store.ent (cfg i).key = some e → e.val ≠ (cfg i).id)

theorem leaseInv_holds_iff (cfg : Nat → LockCfg) (i u : Nat) (st : St) (h : LeaseInv cfg i u st) :
    holds cfg st i ↔ st.store.now < u := by
  unfold holds
  rcases h with h | ⟨hu, h⟩
  · by_cases hl : st.store.now < u
    · simp [get_of_ent_live h hl, hl]
    · simp [get_of_ent_dead h (by omega), hl]
  · constructor
    · intro hg
      obtain ⟨e, he, hv, _⟩ := get_some_ent hg
      exact absurd hv (h e he)
    · intro; omega

theorem leaseInv_acquireWith (cfg : Nat → LockCfg) (hd : DistinctIds cfg) (i u : Nat) (st : St) (j secs : Nat)
    (hji : j ≠ i) (h : LeaseInv cfg i u st) : LeaseInv cfg i u (acquireWith cfg st j secs).1 := by
  unfold LeaseInv
  simp only [acquireWith_ent, acquireWith_now]
  by_cases hk : (cfg i).key = (cfg j).key
  · have hid : (cfg j).id ≠ (cfg i).id := fun c => hji (hd j i hk.symm c)
    by_cases hf : freeFor st.store (cfg j).key (cfg j).id
    · simp only [hf, hk, and_self, if_true]
      right
      rcases h with h | ⟨hu, _⟩
      · by_cases hl : st.store.now < u
        · have := get_of_ent_live h hl
          rw [hk] at this
          rcases hf with hf | hf <;> simp [this] at hf
          exact absurd hf.symm hid
        · refine ⟨by omega, ?_⟩
          intro e he; simp at he; rw [← he]; exact hid
      · refine ⟨hu, ?_⟩
        intro e he; simp at he; rw [← he]; exact hid
    · simpa [hf, LeaseInv] using h
  · simpa [hk, LeaseInv] using h

theorem leaseInv_step (cfg : Nat → LockCfg) (hd : DistinctIds cfg) (i u : Nat) (st : St) (op : Op)
    (hq : quietFor i op = true) (h : LeaseInv cfg i u st) : LeaseInv cfg i u (step cfg st op).1 := by
  cases op with
  | ft ms =>
    rcases h with h | ⟨hu, h⟩
    · exact Or.inl h
    · exact Or.inr ⟨by simp [step, Store.advance]; omega, h⟩
  | setExpire j s => exact h
  | acquire j =>
    exact leaseInv_acquireWith cfg hd i u st j _ (by simpa [quietFor] using hq) h
  | acquireS j secs =>
    exact leaseInv_acquireWith cfg hd i u st j secs (by simpa [quietFor] using hq) h
  | release j =>
    have hji : j ≠ i := by simpa [quietFor] using hq
    unfold LeaseInv
    simp only [step, release_ent, release_now]
    by_cases hk : (cfg i).key = (cfg j).key
    · have hid : (cfg j).id ≠ (cfg i).id := fun c => hji (hd j i hk.symm c)
      by_cases hf : holds cfg st j
      · simp only [hf, hk, and_self, if_true]
        right
        rcases h with h | ⟨hu, _⟩
        · by_cases hl : st.store.now < u
          · have := get_of_ent_live h hl
            rw [hk] at this
            unfold holds at hf
            rw [this] at hf
            simp at hf
            exact absurd hf.symm hid
          · exact ⟨by omega, by simp⟩
        · exact ⟨hu, by simp⟩
      · simpa [hf, LeaseInv] using h
    · simpa [hk, LeaseInv] using h

theorem leaseInv_run (cfg : Nat → LockCfg) (hd : DistinctIds cfg) (i u : Nat) (ops : List Op) :
    ∀ st, (∀ op ∈ ops, quietFor i op = true) → LeaseInv cfg i u st → LeaseInv cfg i u (run cfg st ops) := by
  induction ops with
  | nil => intro st _ h; exact h
  | cons op ops ih =>
    intro st hq h
    simp only [run, List.foldl_cons]
    exact ih _ (fun o ho => hq o (List.mem_cons_of_mem _ ho))
      (leaseInv_step cfg hd i u st op (hq op List.mem_cons_self) h)

/-- right after a successful Acquire the lease invariant holds with `u = now + lease`. -/
theorem leaseInv_after_acquire (cfg : Nat → LockCfg) (st : St) (i secs : Nat)
    (h : (acquireWith cfg st i secs).2 = true) :
    LeaseInv cfg i (st.store.now + leaseMs secs + st.store.grace) (acquireWith cfg st i secs).1 := by
  left
  rw [acquireWith_ent]
  simp [(acquireWith_result cfg st i secs).1 h]

/-! ### beliefs of the callers are sound and exclusive -/

/-- history with the callers' beliefs carried along (fed with the model's results) -/
def grun (cfg : Nat → LockCfg) : St → Belief → List Op → St × Belief
  | st, b, [] => (st, b)
  | st, b, op :: ops => grun cfg (step cfg st op).1 (b.step st.store.now st.secs op (step cfg st op).2) ops

/-- whoever believes (unexpired) to hold a key is what Redis has under that key, with exactly that expiry
(the key outlives the believed lease by the store's `grace`) -/
def BeliefInv (cfg : Nat → LockCfg) (st : St) (b : Belief) : Prop :=
  ∀ i u, b i = some u → st.store.now < u → st.store.ent (cfg i).key = some ⟨(cfg i).id, some (u + st.store.grace)⟩

theorem beliefInv_acquireWith (cfg : Nat → LockCfg) (hd : DistinctIds cfg) (st : St) (b : Belief) (j secs : Nat)
    (h : BeliefInv cfg st b) :
    BeliefInv cfg (acquireWith cfg st j secs).1
      (if (acquireWith cfg st j secs).2 then updB b j (some (st.store.now + (secs * 1000 + 500))) else b) := by
  by_cases hf : freeFor st.store (cfg j).key (cfg j).id
  · have hr : (acquireWith cfg st j secs).2 = true := (acquireWith_result _ _ _ _).2 hf
    intro i u hb hl
    simp only [hr, if_true, acquireWith_now, acquireWith_ent, acquireWith_grace] at hb hl ⊢
    by_cases hij : i = j
    · subst hij
      simp only [updB, if_true] at hb
      simp only [hf, and_self, if_true]
      have : leaseMs secs = secs * 1000 + 500 := rfl
      rw [this]
      have hb' : st.store.now + (secs * 1000 + 500) = u := by simpa using hb
      rw [hb']
    · simp only [updB, hij, if_false] at hb
      have he := h i u hb hl
      by_cases hk : (cfg i).key = (cfg j).key
      · have hid : (cfg i).id ≠ (cfg j).id := fun c => hij (hd i j hk c)
        have hg := get_of_ent_live he (by omega)
        rw [hk] at hg
        rcases hf with hf | hf <;> simp [hg] at hf
        exact absurd hf hid
      · simpa [hk] using he
  · have hr : (acquireWith cfg st j secs).2 = false := by
      cases hc : (acquireWith cfg st j secs).2 with
      | false => rfl
      | true => exact absurd ((acquireWith_result _ _ _ _).1 hc) hf
    simp only [hr, acquireWith_unchanged cfg st j _ hf]
    exact h

theorem beliefInv_step (cfg : Nat → LockCfg) (hd : DistinctIds cfg) (st : St) (b : Belief) (op : Op)
    (h : BeliefInv cfg st b) :
    BeliefInv cfg (step cfg st op).1 (b.step st.store.now st.secs op (step cfg st op).2) := by
  cases op with
  | ft ms =>
    intro i u hb hl
    simp only [step, Store.advance, Belief.step] at hb hl ⊢
    exact h i u hb (by omega)
  | setExpire j s => exact h
  | acquire j => exact beliefInv_acquireWith cfg hd st b j (st.secs j) h
  | acquireS j secs => exact beliefInv_acquireWith cfg hd st b j secs h
  | release j =>
    intro i u hb hl
    simp only [step, Belief.step, release_now, release_ent, release_grace] at hb hl ⊢
    by_cases hij : i = j
    · subst hij; simp [updB] at hb
    · simp only [updB, hij, if_false] at hb
      have he := h i u hb hl
      by_cases hk : (cfg i).key = (cfg j).key
      · have hid : (cfg i).id ≠ (cfg j).id := fun c => hij (hd i j hk c)
        have hg := get_of_ent_live he (by omega)
        rw [hk] at hg
        have : ¬ holds cfg st j := by
          unfold holds; rw [hg]; simpa using hid
        simpa [this] using he
      · simpa [hk] using he

theorem beliefInv_grun (cfg : Nat → LockCfg) (hd : DistinctIds cfg) (ops : List Op) :
    ∀ st b, BeliefInv cfg st b → BeliefInv cfg (grun cfg st b ops).1 (grun cfg st b ops).2 := by
  induction ops with
  | nil => intro st b h; exact h
  | cons op ops ih => intro st b h; exact ih _ _ (beliefInv_step cfg hd st b op h)

theorem believes_holds (cfg : Nat → LockCfg) (st : St) (b : Belief) (h : BeliefInv cfg st b) (i : Nat)
    (hb : believes b st.store.now i = true) : holds cfg st i := by
  unfold believes at hb
  cases hbi : b i with
  | none => simp [hbi] at hb
  | some u =>
    simp [hbi] at hb
    exact get_of_ent_live (h i u hbi hb) (by omega)

theorem grun_fst (cfg : Nat → LockCfg) (ops : List Op) : ∀ st b, (grun cfg st b ops).1 = run cfg st ops := by
  induction ops with
  | nil => intro st b; rfl
  | cons op ops ih => intro st b; simp only [grun, run, List.foldl_cons]; exact ih _ _

/-! ### concurrent Acquire attempts: scripts are atomic, so a burst is some sequence of script runs -/

/-- instances whose Acquire returned true when the script runs of a burst execute in the order `js` -/
def winners (cfg : Nat → LockCfg) : St → List Nat → List Nat
  | _, [] => []
  | st, j :: js => (if (acquire cfg st j).2 then [j] else []) ++ winners cfg (acquire cfg st j).1 js

theorem winners_subset (cfg : Nat → LockCfg) (x : Nat) (js : List Nat) :
    ∀ st : St, x ∈ winners cfg st js → x ∈ js := by
  induction js with
  | nil => intro st h; simp [winners] at h
  | cons j js ih =>
    intro st h
    simp only [winners, List.mem_append] at h
    rcases h with h | h
    · split at h <;> simp at h; simp [h]
    · exact List.mem_cons_of_mem _ (ih _ h)

theorem acquire_get_same (cfg : Nat → LockCfg) (st : St) (j : Nat) (v : String)
    (hg : st.store.get (cfg j).key = some v) :
    (acquire cfg st j).1.store.get (cfg j).key = some v ∧ ((acquire cfg st j).2 = true → (cfg j).id = v) := by
  unfold acquire
  by_cases hf : freeFor st.store (cfg j).key (cfg j).id
  · have hv : (cfg j).id = v := by
      rcases hf with hf | hf <;> simp [hg] at hf
      exact hf.symm
    refine ⟨?_, fun _ => hv⟩
    have he := acquireWith_ent cfg st j (st.secs j) (cfg j).key
    simp only [hf, and_self, if_true] at he
    rw [← hv]
    exact get_of_ent_live he (by rw [acquireWith_now]; have := leaseMs_pos (st.secs j); omega)
  · rw [acquireWith_unchanged cfg st j _ hf]
    refine ⟨hg, fun hr => absurd ((acquireWith_result _ _ _ _).1 hr) hf⟩

theorem winners_of_held (cfg : Nat → LockCfg) (k v : String) (js : List Nat) :
    ∀ st : St, (∀ j ∈ js, (cfg j).key = k) → st.store.get k = some v →
      ∀ x ∈ winners cfg st js, (cfg x).id = v := by
  induction js with
  | nil => intro st _ _ x hx; simp [winners] at hx
  | cons j js ih =>
    intro st hk hg x hx
    have hkj : (cfg j).key = k := hk j List.mem_cons_self
    have hs := acquire_get_same cfg st j v (by rw [hkj]; exact hg)
    simp only [winners, List.mem_append] at hx
    rcases hx with hx | hx
    · by_cases hr : (acquire cfg st j).2 = true
      · simp [hr] at hx; subst hx; exact hs.2 hr
      · simp [hr] at hx
    · exact ih _ (fun j' hj' => hk j' (List.mem_cons_of_mem _ hj')) (by rw [← hkj]; exact hs.1) x hx

theorem acquire_free_wins (cfg : Nat → LockCfg) (st : St) (j : Nat) (hg : st.store.get (cfg j).key = none) :
    (acquire cfg st j).2 = true ∧ (acquire cfg st j).1.store.get (cfg j).key = some (cfg j).id := by
  have hf : freeFor st.store (cfg j).key (cfg j).id := Or.inl hg
  unfold acquire
  refine ⟨(acquireWith_result _ _ _ _).2 hf, ?_⟩
  have he := acquireWith_ent cfg st j (st.secs j) (cfg j).key
  simp only [hf, and_self, if_true] at he
  exact get_of_ent_live he (by rw [acquireWith_now]; have := leaseMs_pos (st.secs j); omega)

theorem winners_same_id (cfg : Nat → LockCfg) (k : String) (js : List Nat) (st : St)
    (hk : ∀ j ∈ js, (cfg j).key = k) :
    ∀ x ∈ winners cfg st js, ∀ y ∈ winners cfg st js, (cfg x).id = (cfg y).id := by
  cases hg : st.store.get k with
  | some v =>
    intro x hx y hy
    rw [winners_of_held cfg k v js st hk hg x hx, winners_of_held cfg k v js st hk hg y hy]
  | none =>
    cases js with
    | nil => intro x hx; simp [winners] at hx
    | cons j js =>
      have hkj : (cfg j).key = k := hk j List.mem_cons_self
      have hw := acquire_free_wins cfg st j (by rw [hkj]; exact hg)
      have hrest := winners_of_held cfg k (cfg j).id js (acquire cfg st j).1
        (fun j' hj' => hk j' (List.mem_cons_of_mem _ hj')) (by rw [← hkj]; exact hw.2)
      have hall : ∀ x ∈ winners cfg st (j :: js), (cfg x).id = (cfg j).id := by
        intro x hx
        simp only [winners, hw.1, if_true, List.mem_append, List.mem_singleton] at hx
        rcases hx with hx | hx
        · rw [hx]
        · exact hrest x hx
      intro x hx y hy
      rw [hall x hx, hall y hy]

/-! ### `seconds` of an instance is changed by its own SetExpire only (round 4) -/

/-- the operation does not reconfigure instance `i` -/
def keepsSeconds (i : Nat) : Op → Bool
  | .setExpire j _ => j ≠ i
  | _ => true

theorem step_secs_keep (cfg : Nat → LockCfg) (st : St) (i : Nat) (op : Op) (h : keepsSeconds i op = true) :
    (step cfg st op).1.secs i = st.secs i := by
  cases op with
  | setExpire j v =>
    simp [keepsSeconds] at h
    simp [step, updN, Ne.symm h]
  | _ => rfl

theorem run_secs_keep (cfg : Nat → LockCfg) (i : Nat) (ops : List Op) :
    ∀ st : St, (∀ op ∈ ops, keepsSeconds i op = true) → (run cfg st ops).secs i = st.secs i := by
  induction ops with
  | nil => intro st _; rfl
  | cons op ops ih =>
    intro st h
    have h1 := ih (step cfg st op).1 (fun o ho => h o (List.mem_cons_of_mem _ ho))
    have h2 := step_secs_keep cfg st i op (h op List.mem_cons_self)
    simp only [run, List.foldl_cons] at h1 ⊢
    rw [h1, h2]

end GoZero.C19
