import GoZero.C11.ProofsWait
set_option linter.unusedSimpArgs false
set_option linter.unusedVariables false
/-
C11 — what every row of the step table does (one characterisation lemma per pc), used by the row-by-row
proof that the Wait invariant is preserved (ProofsWaitStep.lean).
-/
namespace GoZero.C11

/-! characterisation of every row of the step table (what `s'` is), proven with only the row in context -/

theorem row_idle (cfg : Cfg) (s s' : St) (t : Nat) (th : Thread) (a : Act) (hpc : th.pc = .idle)
    (h : stepTh cfg s t th a = some s') :
    (∃ x, a = .add x ∧ s' = s.upd t { th with pc := .aLock x }) ∨
    (a = .flush ∧ s' = s.upd t { th with pc := .fEnter .ext }) ∨
    (a = .wait ∧ s' = s.upd t { th with pc := .fEnter .wait, snap := s.added }) ∨
    (a = .start ∧ s.spawn ≠ 0 ∧ s' = { s with spawn := s.spawn - 1 }.upd t { th with pc := .bSelect false, last := s.now }) := by
  unfold stepTh at h
  split at h <;> simp_all
  all_goals (try (split at h <;> simp_all))

theorem row_aLock (cfg : Cfg) (s s' : St) (t : Nat) (th : Thread) (a : Act) (x : Task) (hpc : th.pc = .aLock x)
    (h : stepTh cfg s t th a = some s') :
    s' = { s with lock := true }.upd t { th with pc := .aAdd x } := by
  unfold stepTh at h
  split at h <;> simp_all
  all_goals (try (split at h <;> simp_all))

theorem row_aAdd (cfg : Cfg) (s s' : St) (t : Nat) (th : Thread) (a : Act) (x : Task) (hpc : th.pc = .aAdd x)
    (h : stepTh cfg s t th a = some s') :
    s' = ({ s with container := s.container ++ [x], added := s.added ++ [x] }.upd t
      { th with pc := if cfg.full (s.container ++ [x]) then .aInc else .aGuard false }) := by
  unfold stepTh at h
  split at h <;> simp_all

theorem row_aInc (cfg : Cfg) (s s' : St) (t : Nat) (th : Thread) (a : Act) (hpc : th.pc = .aInc)
    (h : stepTh cfg s t th a = some s') :
    s' = { s with inflight := s.inflight + 1 }.upd t { th with pc := .aRemove } := by
  unfold stepTh at h
  split at h <;> simp_all

theorem row_aRemove (cfg : Cfg) (s s' : St) (t : Nat) (th : Thread) (a : Act) (hpc : th.pc = .aRemove)
    (h : stepTh cfg s t th a = some s') :
    s' = { s with container := [] }.upd t { th with pc := .aGuard true, reg := s.container } := by
  unfold stepTh at h
  split at h <;> simp_all

theorem row_aGuard (cfg : Cfg) (s s' : St) (t : Nat) (th : Thread) (a : Act) (ok : Bool) (hpc : th.pc = .aGuard ok)
    (h : stepTh cfg s t th a = some s') :
    s' = s.upd t { th with pc := .aUnlock ok false } ∨
    s' = { s with guarded := true }.upd t { th with pc := .aUnlock ok true } := by
  unfold stepTh at h
  split at h <;> simp_all
  all_goals (try (split at h <;> simp_all))

theorem row_aUnlock (cfg : Cfg) (s s' : St) (t : Nat) (th : Thread) (a : Act) (ok sp : Bool) (hpc : th.pc = .aUnlock ok sp)
    (h : stepTh cfg s t th a = some s') :
    s' = { s with lock := false }.upd t { th with pc := if sp then .aSpawn ok else if ok then .aSend else .idle } := by
  unfold stepTh at h
  split at h <;> simp_all

theorem row_aSpawn (cfg : Cfg) (s s' : St) (t : Nat) (th : Thread) (a : Act) (ok : Bool) (hpc : th.pc = .aSpawn ok)
    (h : stepTh cfg s t th a = some s') :
    s' = { s with spawn := s.spawn + 1 }.upd t { th with pc := if ok then .aSend else .idle } := by
  unfold stepTh at h
  split at h <;> simp_all

theorem row_aSend (cfg : Cfg) (s s' : St) (t : Nat) (th : Thread) (a : Act) (hpc : th.pc = .aSend)
    (h : stepTh cfg s t th a = some s') :
    s.commander = none ∧ s' = { s with commander := some th.reg }.upd t { th with pc := .aConfirm, reg := [] } := by
  unfold stepTh at h
  split at h <;> simp_all
  all_goals (try (split at h <;> simp_all))

theorem row_aConfirm (cfg : Cfg) (s s' : St) (t : Nat) (th : Thread) (a : Act) (hpc : th.pc = .aConfirm)
    (h : stepTh cfg s t th a = some s') : False := by
  unfold stepTh at h
  split at h <;> simp_all

theorem row_fEnter (cfg : Cfg) (s s' : St) (t : Nat) (th : Thread) (a : Act) (c : Ctx) (hpc : th.pc = .fEnter c)
    (h : stepTh cfg s t th a = some s') :
    s' = { s with wg := s.wg + 1 }.upd t { th with pc := .fLock c } := by
  unfold stepTh at h
  split at h <;> simp_all
  all_goals (try (split at h <;> simp_all))

theorem row_fLock (cfg : Cfg) (s s' : St) (t : Nat) (th : Thread) (a : Act) (c : Ctx) (hpc : th.pc = .fLock c)
    (h : stepTh cfg s t th a = some s') :
    s' = { s with lock := true }.upd t { th with pc := .fRemove c } := by
  unfold stepTh at h
  split at h <;> simp_all
  all_goals (try (split at h <;> simp_all))

theorem row_fRemove (cfg : Cfg) (s s' : St) (t : Nat) (th : Thread) (a : Act) (c : Ctx) (hpc : th.pc = .fRemove c)
    (h : stepTh cfg s t th a = some s') :
    s' = { s with container := [] }.upd t { th with pc := .fUnlock c, reg := s.container } := by
  unfold stepTh at h
  split at h <;> simp_all

theorem row_fUnlock (cfg : Cfg) (s s' : St) (t : Nat) (th : Thread) (a : Act) (c : Ctx) (hpc : th.pc = .fUnlock c)
    (h : stepTh cfg s t th a = some s') :
    s' = { s with lock := false }.upd t { th with pc := .fExec c } := by
  unfold stepTh at h
  split at h <;> simp_all

theorem row_fExec (cfg : Cfg) (s s' : St) (t : Nat) (th : Thread) (a : Act) (c : Ctx) (hpc : th.pc = .fExec c)
    (h : stepTh cfg s t th a = some s') :
    s' = s.upd t { th with pc := if th.reg = [] then .fDone c false else .fCall c } := by
  unfold stepTh at h
  split at h <;> simp_all

theorem row_fCall (cfg : Cfg) (s s' : St) (t : Nat) (th : Thread) (a : Act) (c : Ctx) (hpc : th.pc = .fCall c)
    (h : stepTh cfg s t th a = some s') :
    ∃ l, s' = { s with finished := s.finished ++ th.reg, lost := l }.upd t
      { th with pc := .fDone c true, reg := [] } := by
  unfold stepTh at h
  split at h <;> simp_all
  all_goals exact ⟨_, h.symm⟩

theorem row_fDone (cfg : Cfg) (s s' : St) (t : Nat) (th : Thread) (a : Act) (c : Ctx) (ok : Bool) (hpc : th.pc = .fDone c ok)
    (h : stepTh cfg s t th a = some s') :
    s.wg ≠ 0 ∧ ∃ l, s' = { s with wg := s.wg - 1 }.upd t { th with pc := flushRet cfg c ok, last := l } := by
  unfold stepTh at h
  split at h <;> simp_all
  all_goals (try (split at h <;> simp_all))
  all_goals exact ⟨_, h.2.symm⟩

theorem row_wSpin (cfg : Cfg) (s s' : St) (t : Nat) (th : Thread) (a : Act) (hpc : th.pc = .wSpin)
    (h : stepTh cfg s t th a = some s') :
    ¬ s.inflight > 0 ∧ s' = s.upd t { th with pc := .wBarrier } := by
  unfold stepTh at h
  split at h <;> simp_all
  all_goals (try (split at h <;> simp_all))

theorem row_wBarrier (cfg : Cfg) (s s' : St) (t : Nat) (th : Thread) (a : Act) (hpc : th.pc = .wBarrier)
    (h : stepTh cfg s t th a = some s') :
    s' = { s with barrier := true }.upd t { th with pc := .wWait } := by
  unfold stepTh at h
  split at h <;> simp_all
  all_goals (try (split at h <;> simp_all))

theorem row_wWait (cfg : Cfg) (s s' : St) (t : Nat) (th : Thread) (a : Act) (hpc : th.pc = .wWait)
    (h : stepTh cfg s t th a = some s') :
    s.wg = 0 ∧ s' = s.upd t { th with pc := .wUnbarrier } := by
  unfold stepTh at h
  split at h <;> simp_all
  all_goals (try (split at h <;> simp_all))

theorem row_wUnbarrier (cfg : Cfg) (s s' : St) (t : Nat) (th : Thread) (a : Act) (hpc : th.pc = .wUnbarrier)
    (h : stepTh cfg s t th a = some s') :
    s' = { s with barrier := false }.upd t { th with pc := .idle } := by
  unfold stepTh at h
  split at h <;> simp_all

theorem row_bSelect (cfg : Cfg) (hfix : cfg.fixed = true) (s s' : St) (t : Nat) (th : Thread) (a : Act) (cm : Bool) (hpc : th.pc = .bSelect cm)
    (h : stepTh cfg s t th a = some s') :
    (∃ b, s.commander = some b ∧ s' = { s with commander := none }.upd t { th with pc := .bEnterF, reg := b }) ∨
    (s' = s.upd t { th with pc := if cm then .bSelect false else .fEnter .tick }) := by
  unfold stepTh at h
  split at h <;> simp_all
  all_goals (try (split at h <;> simp_all))

theorem row_bEnterF (cfg : Cfg) (s s' : St) (t : Nat) (th : Thread) (a : Act) (hpc : th.pc = .bEnterF)
    (h : stepTh cfg s t th a = some s') :
    s' = { s with wg := s.wg + 1 }.upd t { th with pc := .bDecF } := by
  unfold stepTh at h
  split at h <;> simp_all
  all_goals (try (split at h <;> simp_all))

theorem row_bDecF (cfg : Cfg) (s s' : St) (t : Nat) (th : Thread) (a : Act) (hpc : th.pc = .bDecF)
    (h : stepTh cfg s t th a = some s') :
    s' = { s with inflight := s.inflight - 1 }.upd t { th with pc := .bConfirm } := by
  unfold stepTh at h
  split at h <;> simp_all

theorem row_bConfirm (cfg : Cfg) (s s' : St) (t : Nat) (th : Thread) (a : Act) (hpc : th.pc = .bConfirm)
    (h : stepTh cfg s t th a = some s') :
    ∃ u tu, s.thr[u]? = some tu ∧ tu.pc = .aConfirm ∧
      s' = (s.upd t { th with pc := .bExec }).upd u { tu with pc := .idle } := by
  unfold stepTh at h
  split at h <;> simp_all
  all_goals (try (split at h <;> simp_all))
  all_goals (try (split at h <;> simp_all))
  all_goals exact ⟨_, _, ‹_›, h.1, h.2.symm⟩

theorem row_bExec (cfg : Cfg) (s s' : St) (t : Nat) (th : Thread) (a : Act) (hpc : th.pc = .bExec)
    (h : stepTh cfg s t th a = some s') :
    s' = s.upd t { th with pc := if th.reg = [] then .bDone else .bCall } := by
  unfold stepTh at h
  split at h <;> simp_all

theorem row_bCall (cfg : Cfg) (s s' : St) (t : Nat) (th : Thread) (a : Act) (hpc : th.pc = .bCall)
    (h : stepTh cfg s t th a = some s') :
    ∃ l, s' = { s with finished := s.finished ++ th.reg, lost := l }.upd t
      { th with pc := .bDone, reg := [] } := by
  unfold stepTh at h
  split at h <;> simp_all
  all_goals exact ⟨_, h.symm⟩

theorem row_bDone (cfg : Cfg) (s s' : St) (t : Nat) (th : Thread) (a : Act) (hpc : th.pc = .bDone)
    (h : stepTh cfg s t th a = some s') :
    s.wg ≠ 0 ∧ s' = { s with wg := s.wg - 1 }.upd t { th with pc := .bSelect true, last := s.now } := by
  unfold stepTh at h
  split at h <;> simp_all
  all_goals (try (split at h <;> simp_all))

theorem row_bQuit (cfg : Cfg) (s s' : St) (t : Nat) (th : Thread) (a : Act) (hpc : th.pc = .bQuit)
    (h : stepTh cfg s t th a = some s') :
    s' = s.upd t { th with pc := if s.now - th.last ≤ cfg.interval * idleRound then .bSelect false else .qLock } := by
  unfold stepTh at h
  split at h <;> simp_all

theorem row_qLock (cfg : Cfg) (s s' : St) (t : Nat) (th : Thread) (a : Act) (hpc : th.pc = .qLock)
    (h : stepTh cfg s t th a = some s') :
    s' = { s with lock := true }.upd t { th with pc := .qCheck } := by
  unfold stepTh at h
  split at h <;> simp_all
  all_goals (try (split at h <;> simp_all))

theorem row_qCheck (cfg : Cfg) (s s' : St) (t : Nat) (th : Thread) (a : Act) (hpc : th.pc = .qCheck)
    (h : stepTh cfg s t th a = some s') :
    s' = { s with guarded := false }.upd t { th with pc := .qUnlock true } ∨
    s' = s.upd t { th with pc := .qUnlock false } := by
  unfold stepTh at h
  split at h <;> simp_all
  all_goals (try (split at h <;> simp_all))

theorem row_qUnlock (cfg : Cfg) (s s' : St) (t : Nat) (th : Thread) (a : Act) (stop : Bool) (hpc : th.pc = .qUnlock stop)
    (h : stepTh cfg s t th a = some s') :
    s' = { s with lock := false }.upd t { th with pc := if stop then .fEnter .quit else .bSelect false } := by
  unfold stepTh at h
  split at h <;> simp_all

end GoZero.C11
