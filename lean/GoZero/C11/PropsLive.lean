/-
C11 — DEADLOCK FREEDOM of the producer / flusher protocol (fixed code), for every configuration, schedule and
number of goroutines: a reachable configuration in which nobody can move by itself is a REST state — every
`Add` / `Flush` / `Wait` has returned, nothing is in the commander or in anybody's hands, and whatever is still in
the container is below the threshold and has a live flusher waiting for its tick.

"Move by itself" = the internal actions of the goroutines: their next atomic action (`tau`), the start of a spawned
flusher, the confirmation rendezvous, and the END of a running callback (callbacks return: the environment
assumption of every liveness statement).  NOT internal: new API calls, ticks, the clock.

The proof is a wait-for analysis over the ownership invariant `DInv` (ProofsLive.lean), the wait-group / inflight
invariant `WInv` and the flusher-existence invariant `GInv`: pe.lock is always held by a goroutine that can move;
`waitGroup.Wait` inside pe.wgBarrier waits only for goroutines that are already past the barrier and can move;
a producer at the commander / the confirmation always has a flusher (`inflight > 0` forbids the quit).  There is no
cycle Wait → barrier → flusher → inflight → Wait — which is exactly the cycle the shape of seeded C11-7 (polling
`inflight` INSIDE the barrier) creates: `spin_inside_barrier_deadlocks`.
-/
import GoZero.C11.ProofsLive
import GoZero.C11.ProofsTerm
import GoZero.C11.ProofsWaitStep
import GoZero.C11.PropsGuard
import GoZero.C11.Props
namespace GoZero.C11

/-- nobody can move by itself -/
def Stuck (cfg : Cfg) (s : St) : Prop := ∀ (t : Nat) (a : Act), internal a = true → step cfg s t a = none

/-- what must hold for a goroutine at `pc` not to be able to move -/
def blockedCond (s : St) : Pc → Prop
  | .idle => s.spawn = 0
  | .aLock _ => s.lock = true | .fLock _ => s.lock = true | .qLock => s.lock = true
  | .aSend => s.commander.isSome = true
  | .aConfirm => True
  | .fEnter _ => s.barrier = true | .bEnter => s.barrier = true | .bEnterF => s.barrier = true
  | .wBarrier => s.barrier = true
  | .wSpin => 0 < s.inflight
  | .wWait => s.wg ≠ 0
  | .bSelect _ => s.commander = none
  | .bConfirm => ∀ (u : Nat) (tu : Thread), s.thr[u]? = some tu → tu.pc ≠ .aConfirm
  | .fDone _ _ => s.wg = 0 | .bDone => s.wg = 0
  | _ => False

theorem stuck_blocked (cfg : Cfg) (s : St) (hst : Stuck cfg s) (t : Nat) (th : Thread) (ht : s.thr[t]? = some th) :
    blockedCond s th.pc := by
  have h1 := hst t .tau rfl
  have h2 := hst t (.cbEnd false) rfl
  have h3 := hst t .start rfl
  have h4 := fun u => hst t (.confirm u) rfl
  cases hpc : th.pc <;> simp [step, ht, stepTh, hpc, blockedCond] at h1 h2 h3 h4 ⊢
  all_goals first
    | assumption
    | omega
    | (intro u tu hu hp; have := h4 u; simp [hu, hp] at this)
    | (cases hc : s.commander <;> simp_all <;> done)
    | (split at h1 <;> simp at h1 <;> done)
    | skip

theorem cnt_zero (p : Pc → Bool) (s : St) (h : ∀ (t : Nat) (th : Thread), s.thr[t]? = some th → p th.pc = false) :
    cnt p s = 0 :=
  sumBy_eq_zero _ _ (fun t th ht => by simp [h t th ht])

theorem cnt_mem_le (p : Pc → Bool) (s : St) {t : Nat} {th : Thread} (ht : s.thr[t]? = some th) (hp : p th.pc = true) :
    0 < cnt p s := by
  have := (cnt_upd p s t th th ht).2
  simp [hp] at this; exact this

theorem nEntered_eq (s : St) : nEntered s = cnt entered s := rfl
theorem nLimbo_eq (s : St) : nLimbo s = cnt limbo s := rfl

/-- the five places at which a goroutine can be when nobody can move -/
def restPc (pc : Pc) : Prop := pc = .idle ∨ pc = .aSend ∨ pc = .aConfirm ∨ pc = .wSpin ∨ ∃ c, pc = .bSelect c

/-- **DEADLOCK FREEDOM** (fixed code; every cfg, every schedule, any number of goroutines; `hslots`: the Go runtime
can start a goroutine whose `go` statement was issued — the model's goroutine slots are not exhausted):
a reachable configuration in which no goroutine can move by itself is a REST state:
every caller is back (idle) — no `Add`, `Flush` or `Wait` is parked anywhere —, the only other goroutines are
flushers in their select; the commander is empty, pe.lock and pe.wgBarrier are free, the wait group and `inflight`
are zero, no `go` is pending; and the container is empty, or below its threshold with a flusher waiting for its tick.
Contrapositive: while some `Add` / `Flush` / `Wait` has not returned, or a batch is in the commander or in
somebody's hands, SOME goroutine can move (given that callbacks return). -/
theorem stuck_is_rest (cfg : Cfg) (hfix : cfg.fixed = true) (s : St) (h : Reachable cfg s)
    (hslots : 0 < s.spawn → ∃ (t : Nat) (th : Thread), s.thr[t]? = some th ∧ th.pc = .idle)
    (hst : Stuck cfg s) :
    (∀ (t : Nat) (th : Thread), s.thr[t]? = some th → th.pc = .idle ∨ ∃ c, th.pc = .bSelect c) ∧
    s.commander = none ∧ s.lock = false ∧ s.barrier = false ∧ s.wg = 0 ∧ s.inflight = 0 ∧ s.spawn = 0 ∧
    (s.container = [] ∨ (cfg.full s.container = false ∧
      ∃ (t : Nat) (th : Thread) (c : Bool), s.thr[t]? = some th ∧ th.pc = .bSelect c)) := by
  have B := stuck_blocked cfg s hst
  have W := winv_reachable hfix h
  have D := dinv_reachable (cfg := cfg) h
  have G := ginv_reachable h
  have F1 : s.lock = false := by
    cases hl : s.lock with
    | false => rfl
    | true =>
      have : 0 < cnt lockRegion s := by rw [D.lockOwn, hl]; simp
      obtain ⟨t, th, ht, hp⟩ := exists_of_cnt_pos _ _ this
      have hb := B t th ht
      cases hpc : th.pc <;> simp [hpc, lockRegion, blockedCond] at hp hb
  have NC : ∀ (t : Nat) (th : Thread), s.thr[t]? = some th → th.pc ≠ .bConfirm := by
    intro t th ht hpc
    have hb := B t th ht
    rw [hpc] at hb
    have : 0 < cnt atConfirm s := by
      have := cnt_mem_le taken s ht (by simp [hpc, taken])
      rw [D.conf]; omega
    obtain ⟨u, tu, hu, hp⟩ := exists_of_cnt_pos _ _ this
    have hq : tu.pc = .aConfirm := by
      cases hq : tu.pc <;> first | rfl | (simp [hq, atConfirm] at hp)
    exact hb u tu hu hq
  have F2 : s.wg = 0 := by
    refine Classical.byContradiction fun hne => ?_
    have : 0 < cnt entered s := by have := W.wg; rw [nEntered_eq] at this; omega
    obtain ⟨t, th, ht, hp⟩ := exists_of_cnt_pos _ _ this
    have hb := B t th ht
    have hnc := NC t th ht
    cases hpc : th.pc <;> simp [hpc, entered, blockedCond, F1] at hp hb hnc <;> exact hne hb
  have F3 : s.barrier = false := by
    cases hl : s.barrier with
    | false => rfl
    | true =>
      have : 0 < cnt barrierHolder s := by rw [D.barOwn, hl]; simp
      obtain ⟨t, th, ht, hp⟩ := exists_of_cnt_pos _ _ this
      have hb := B t th ht
      cases hpc : th.pc <;> simp [hpc, barrierHolder, blockedCond, F2] at hp hb
  have E0 : cnt entered s = 0 := by have := W.wg; rw [nEntered_eq] at this; omega
  have K : ∀ (t : Nat) (th : Thread), s.thr[t]? = some th → restPc th.pc := by
    intro t th ht
    have hb := B t th ht
    have he : entered th.pc = false := by
      cases he : entered th.pc with
      | false => rfl
      | true => have := cnt_mem_le entered s ht he; omega
    have hnp := W.nopinned t th ht
    cases hpc : th.pc <;> simp [hpc, blockedCond, entered, restPc, F1, F2, F3] at hb he hnp ⊢
  have hs0 : s.spawn = 0 := by
    refine Classical.byContradiction fun hne => ?_
    obtain ⟨t, th, ht, hp⟩ := hslots (by omega)
    have hb := B t th ht
    rw [hp] at hb
    exact hne hb
  have Z : ∀ (p : Pc → Bool), p .idle = false → p .aSend = false → p .aConfirm = false → p .wSpin = false →
      (∀ c, p (.bSelect c) = false) → cnt p s = 0 := by
    intro p h1 h2 h3 h4 h5
    refine cnt_zero p s (fun t th ht => ?_)
    rcases K t th ht with h | h | h | h | ⟨c, h⟩ <;> simp [h, h1, h2, h3, h4, h5]
  have hpg : cnt preGuard s = 0 := Z _ rfl rfl rfl rfl (fun _ => rfl)
  have hspw : cnt spawning s = 0 := Z _ rfl rfl rfl rfl (fun _ => rfl)
  have hq : cnt quitting s = 0 := Z _ rfl rfl rfl rfl (fun _ => rfl)
  have htk : cnt taken s = 0 := Z _ rfl rfl rfl rfl (fun _ => rfl)
  have hmh : cnt midHandover s = 0 := Z _ rfl rfl rfl rfl (fun _ => rfl)
  have F4 : s.commander = none := by
    cases hc : s.commander with
    | none => rfl
    | some b =>
      exfalso
      have hfl : cnt flusherPc s = 0 := by
        refine cnt_zero _ s (fun t th ht => ?_)
        rcases K t th ht with h | h | h | h | ⟨c, h⟩ <;> simp [h, flusherPc]
        have hb := B t th ht
        rw [h] at hb
        simp [blockedCond, hc] at hb
      have hg : s.guarded = false := by
        cases hg : s.guarded with
        | false => rfl
        | true => have := G.alive hg; omega
      have hinf : 0 < s.inflight := by have := W.infl; simp [cmd01, hc] at this; omega
      have := D.infl hinf
      simp [hg, hpg] at this
  have N1 : ∀ (t : Nat) (th : Thread), s.thr[t]? = some th → th.pc ≠ .aSend := by
    intro t th ht hpc
    have hb := B t th ht
    rw [hpc] at hb
    simp [blockedCond, F4] at hb
  have N2 : ∀ (t : Nat) (th : Thread), s.thr[t]? = some th → th.pc ≠ .aConfirm := by
    intro t th ht hpc
    have := cnt_mem_le atConfirm s ht (by simp [hpc, atConfirm])
    rw [D.conf] at this
    simp [cmd01, F4, htk] at this
  have hlim : cnt limbo s = 0 := by
    refine cnt_zero _ s (fun t th ht => ?_)
    have n1 := N1 t th ht
    rcases K t th ht with h | h | h | h | ⟨c, h⟩ <;> simp [h, limbo] at n1 ⊢
  have F5 : s.inflight = 0 := by
    have := W.infl; rw [nLimbo_eq, hlim] at this; simp [cmd01, F4] at this; exact this
  have N3 : ∀ (t : Nat) (th : Thread), s.thr[t]? = some th → th.pc ≠ .wSpin := by
    intro t th ht hpc
    have hb := B t th ht
    rw [hpc] at hb
    simp [blockedCond, F5] at hb
  have R : ∀ (t : Nat) (th : Thread), s.thr[t]? = some th → th.pc = .idle ∨ ∃ c, th.pc = .bSelect c := by
    intro t th ht
    have n1 := N1 t th ht; have n2 := N2 t th ht; have n3 := N3 t th ht
    rcases K t th ht with h | h | h | h | ⟨c, h⟩
    · exact Or.inl h
    · exact absurd h n1
    · exact absurd h n2
    · exact absurd h n3
    · exact Or.inr ⟨c, h⟩
  refine ⟨R, F4, F1, F3, F2, F5, hs0, ?_⟩
  rcases D.rest hmh with hc | hf
  · exact Or.inl hc
  · by_cases hc : s.container = []
    · exact Or.inl hc
    · right
      refine ⟨hf, ?_⟩
      have hp := G.pending hc
      have hg : s.guarded = true := by
        cases hg : s.guarded with
        | true => rfl
        | false => rw [hg] at hp; simp [hpg, hq] at hp
      have ha := G.alive hg
      have : 0 < cnt flusherPc s := by omega
      obtain ⟨t, th, ht, hpf⟩ := exists_of_cnt_pos _ _ this
      rcases R t th ht with h | ⟨c, h⟩
      · rw [h] at hpf; simp [flusherPc] at hpf
      · exact ⟨t, th, c, ht, h⟩

/-- **deadlock freedom, as progress**: while some goroutine is inside `Add` / `Flush` / `Wait` or a flusher is anywhere
but in its select, some goroutine can move by itself -/
theorem deadlock_free (cfg : Cfg) (hfix : cfg.fixed = true) (s : St) (h : Reachable cfg s)
    (hslots : 0 < s.spawn → ∃ (t : Nat) (th : Thread), s.thr[t]? = some th ∧ th.pc = .idle)
    (t : Nat) (th : Thread) (ht : s.thr[t]? = some th) (hbusy : th.pc ≠ .idle ∧ ∀ c, th.pc ≠ .bSelect c) :
    ∃ (u : Nat) (a : Act) (s' : St), internal a = true ∧ step cfg s u a = some s' := by
  refine Classical.byContradiction fun hno => ?_
  have hst : Stuck cfg s := by
    intro u a ha
    cases hs : step cfg s u a with
    | none => rfl
    | some s' => exact absurd ⟨u, a, s', ha, hs⟩ hno
  rcases (stuck_is_rest cfg hfix s h hslots hst).1 t th ht with h1 | ⟨c, h1⟩
  · exact hbusy.1 h1
  · exact hbusy.2 c h1

/-- the same for what is pending outside the container: a batch in the commander keeps somebody moving -/
theorem commander_batch_keeps_moving (cfg : Cfg) (hfix : cfg.fixed = true) (s : St) (h : Reachable cfg s)
    (hslots : 0 < s.spawn → ∃ (t : Nat) (th : Thread), s.thr[t]? = some th ∧ th.pc = .idle)
    (hc : s.commander ≠ none) :
    ∃ (u : Nat) (a : Act) (s' : St), internal a = true ∧ step cfg s u a = some s' := by
  refine Classical.byContradiction fun hno => ?_
  have hst : Stuck cfg s := by
    intro u a ha
    cases hs : step cfg s u a with
    | none => rfl
    | some s' => exact absurd ⟨u, a, s', ha, hs⟩ hno
  exact hc (stuck_is_rest cfg hfix s h hslots hst).2.1

/-- **at rest the container is below its threshold** (was a run-time monitor only): in every reachable configuration
in which pe.lock is free — nobody is inside `addAndCheck` / `Flush`'s critical section — the container is empty or
its threshold predicate is false; for every cfg (any threshold predicate), schedule and number of goroutines. -/
theorem at_rest_below_threshold (cfg : Cfg) (s : St) (h : Reachable cfg s) (hl : s.lock = false) :
    s.container = [] ∨ cfg.full s.container = false := by
  have D := dinv_reachable (cfg := cfg) h
  have h0 : cnt lockRegion s = 0 := by rw [D.lockOwn, hl]; rfl
  refine D.rest (cnt_zero _ s (fun t th ht => ?_))
  have := sumBy_zero_mem _ h0 ht
  cases hpc : th.pc <;> simp [hpc, lockRegion, midHandover, b2n] at this ⊢

/-- pe.lock and pe.wgBarrier are held exactly while one goroutine is inside the critical section / inside Wait's Guard -/
theorem lock_and_barrier_owned (cfg : Cfg) (s : St) (h : Reachable cfg s) :
    cnt lockRegion s = b2n s.lock ∧ cnt barrierHolder s = b2n s.barrier :=
  ⟨(dinv_reachable (cfg := cfg) h).lockOwn, (dinv_reachable (cfg := cfg) h).barOwn⟩

/-! ### no livelock, and progress to rest -/

/-- **no livelock**: every run that consists of internal actions only (no new API call, no tick) is finite, bounded
by the work the goroutines still have in front of them — for EVERY configuration (no reachability needed), every
cfg. In particular no goroutine polls for ever while the others move: the protocol has no internal cycle. -/
theorem internal_runs_are_bounded (cfg : Cfg) (s s' : St) (sched : List (Nat × Act))
    (hall : ∀ p ∈ sched, internal p.2 = true) (h : run cfg s sched = some s') : sched.length ≤ mu s := by
  have := mu_run cfg sched s s' hall h; omega

/-- every configuration has a finite internal run to a configuration in which nobody can move by itself -/
theorem internal_run_to_stuck (cfg : Cfg) (s : St) :
    ∃ (sched : List (Nat × Act)) (s' : St), (∀ p ∈ sched, internal p.2 = true) ∧ run cfg s sched = some s' ∧ Stuck cfg s' := by
  generalize hn : mu s = n
  induction n using Nat.strongRecOn generalizing s with
  | _ n ih =>
    by_cases hst : Stuck cfg s
    · exact ⟨[], s, by simp, rfl, hst⟩
    · have : ∃ (t : Nat) (a : Act) (s1 : St), internal a = true ∧ step cfg s t a = some s1 := by
        refine Classical.byContradiction fun hno => hst ?_
        intro u a ha
        cases hs : step cfg s u a with
        | none => rfl
        | some s1 => exact absurd ⟨u, a, s1, ha, hs⟩ hno
      obtain ⟨t, a, s1, ha, hs⟩ := this
      have hlt := mu_step cfg s s1 t a ha hs
      obtain ⟨sched, s', hall, hr, hst'⟩ := ih (mu s1) (by omega) s1 rfl
      refine ⟨(t, a) :: sched, s', ?_, ?_, hst'⟩
      · intro p hp
        rcases List.mem_cons.mp hp with h | h
        · rw [h]; exact ha
        · exact hall p h
      · simp [run, hs, hr]

/-- **PROGRESS** (fixed code): from every reachable configuration — whatever is in flight: producers at the commander,
Waits polling or at the barrier, flushers anywhere, callbacks running — there is a FINITE run of internal actions
(the goroutines' own steps and the ends of the running callbacks; no new call, no tick) to a configuration in which
nobody can move, and there (given a goroutine slot for every pending `go`): every `Add`, `Flush` and `Wait` HAS
RETURNED, and every accepted task has been executed exactly once or sits in the container — below the threshold,
with a flusher waiting for the tick that will flush it. Together with `internal_runs_are_bounded` (every internal run
is finite) this is liveness under the one assumption that callbacks return. -/
theorem progress_to_rest (cfg : Cfg) (hfix : cfg.fixed = true) (s : St) (h : Reachable cfg s) :
    ∃ (sched : List (Nat × Act)) (s' : St), (∀ p ∈ sched, internal p.2 = true) ∧ run cfg s sched = some s' ∧
      Reachable cfg s' ∧ Stuck cfg s' ∧
      ((0 < s'.spawn → ∃ (t : Nat) (th : Thread), s'.thr[t]? = some th ∧ th.pc = .idle) →
        (∀ (t : Nat) (th : Thread), s'.thr[t]? = some th → th.pc = .idle ∨ ∃ c, th.pc = .bSelect c) ∧
        (∀ x, s'.added.count x = s'.container.count x + s'.finished.count x) ∧
        (s'.container = [] ∨ (cfg.full s'.container = false ∧
          ∃ (t : Nat) (th : Thread) (c : Bool), s'.thr[t]? = some th ∧ th.pc = .bSelect c))) := by
  obtain ⟨sched, s', hall, hr, hst⟩ := internal_run_to_stuck cfg s
  have hre := reachable_run h sched hr
  refine ⟨sched, s', hall, hr, hre, hst, fun hslots => ?_⟩
  have R := stuck_is_rest cfg hfix s' hre hslots hst
  refine ⟨R.1, fun x => ?_, R.2.2.2.2.2.2.2⟩
  have hc := no_loss_no_dup cfg s' hre x
  have h0 : inHands x s' = 0 := by
    unfold inHands
    have : ∀ l : List Thread, (∀ th ∈ l, th.reg = []) → (l.map fun th => th.reg.count x).sum = 0 := by
      intro l hl
      induction l with
      | nil => rfl
      | cons a l ih => simp [hl a (by simp), ih (fun th hth => hl th (by simp [hth]))]
    apply this
    intro th hth
    obtain ⟨t, ht, rfl⟩ := List.getElem_of_mem hth
    have ht' : s'.thr[t]? = some s'.thr[t] := by simp [ht]
    refine hands_empty_outside_execution cfg s' hre t _ ht' ?_
    rcases R.1 t _ ht' with hp | ⟨c, hp⟩ <;> simp [hp, holds]
  simp [inCommander, R.2.1, h0] at hc
  exact hc

/-! ### the shape of seeded C11-7 deadlocks: a decided witness -/

/-- the step table with Wait changed as in seeded C11-7: the poll of `inflight` moved INSIDE `wgBarrier.Guard`
(after Flush: take the barrier, THEN poll `inflight`, then `waitGroup.Wait`) -/
def step7 (cfg : Cfg) (s : St) (t : Nat) (a : Act) : Option St :=
  match s.thr[t]? with
  | none => step cfg s t a
  | some th =>
    match th.pc, a with
    | .fDone .wait _, .tau =>
      if s.wg = 0 then none else some ({ s with wg := s.wg - 1 }.upd t { th with pc := .wBarrier })
    | .wBarrier, .tau => if s.barrier then none else some ({ s with barrier := true }.upd t { th with pc := .wSpin })
    | .wSpin, .tau => if s.inflight > 0 then none else some (s.upd t { th with pc := .wWait })
    | _, _ => step cfg s t a

def run7 (cfg : Cfg) (s : St) : List (Nat × Act) → Option St
  | [] => some s
  | (t, a) :: rest => match step7 cfg s t a with
    | none => none
    | some s' => run7 cfg s' rest

/-- no internal action of any goroutine is enabled (decidable form: goroutine indices and confirmation partners
range over the goroutine list; outside it nothing is enabled anyway) -/
def stuck7 (cfg : Cfg) (s : St) : Bool :=
  (List.range s.thr.length).all fun t =>
    (step7 cfg s t .tau).isNone && (step7 cfg s t .start).isNone && (step7 cfg s t (.cbEnd false)).isNone &&
    (step7 cfg s t (.cbEnd true)).isNone && (List.range s.thr.length).all fun u => (step7 cfg s t (.confirm u)).isNone

/-- caller 0 adds task 1 (threshold 1): the batch goes to the commander, the producer waits for the confirmation;
caller 1 calls Wait: flushes nothing, takes the barrier and polls `inflight` = 1 inside it; the flusher starts,
receives the batch and wants to enter the wait group — behind the barrier. -/
def seeded7Schedule : List (Nat × Act) :=
  [(0, .add 1), (0, .tau), (0, .tau), (0, .tau), (0, .tau), (0, .tau), (0, .tau), (0, .tau), (0, .tau),
   (1, .wait), (1, .tau), (1, .tau), (1, .tau), (1, .tau), (1, .tau), (1, .tau), (1, .tau),
   (2, .start), (2, .tau)]

/-- **witness**: with the poll inside the barrier the protocol DEADLOCKS — `Add` is parked at the confirmation,
`Wait` polls `inflight` (= 1) for ever while holding the barrier, the flusher is parked at the barrier holding the
batch: nobody can move, task 1 is never executed, and none of them is at rest.  `stuck_is_rest` excludes exactly
this for the real step table. -/
theorem spin_inside_barrier_deadlocks :
    (run7 { full := bulkFull 1 } (init 3) seeded7Schedule).map
      (fun s => (stuck7 { full := bulkFull 1 } s, s.thr.map (·.pc), s.barrier, s.inflight, s.finished)) =
      some (true, [.aConfirm, .wSpin, .bEnterF], true, 1, []) := by
  decide

/-- the same schedule on the real step table does not get there: `Wait` polls BEFORE the barrier, the flusher
enters (the barrier is free), confirms, executes: after the schedule (minus the blocked poll step) the flusher can move -/
example : ((run { full := bulkFull 1 } (init 3) (seeded7Schedule.take 16 ++ [(2, .start), (2, .tau)])).bind
    (fun s => step { full := bulkFull 1 } s 2 .tau)).isSome = true := by decide

/-! ### the shape of seeded C11-8 breaks the premise "a callback that ends releases the wait group" -/

/-- the step table with `executeTasks` changed as in seeded C11-8: `doneExecution` is the last statement INSIDE the
RunSafe closure, so a PANICKING callback skips it (rows fCall / bCall with `cbEnd true` go on without `wg.Done`) -/
def step8 (cfg : Cfg) (s : St) (t : Nat) (a : Act) : Option St :=
  match s.thr[t]? with
  | none => step cfg s t a
  | some th =>
    match th.pc, a with
    | .fCall c, .cbEnd true =>
      some ({ s with finished := s.finished ++ th.reg, lost := s.lost ++ th.reg }.upd t
        { th with pc := flushRet cfg c true, reg := [] })
    | .bCall, .cbEnd true =>
      some ({ s with finished := s.finished ++ th.reg, lost := s.lost ++ th.reg }.upd t
        { th with pc := .bSelect true, reg := [], last := s.now })
    | _, _ => step cfg s t a

def run8 (cfg : Cfg) (s : St) : List (Nat × Act) → Option St
  | [] => some s
  | (t, a) :: rest => match step8 cfg s t a with
    | none => none
    | some s' => run8 cfg s' rest

def stuck8 (cfg : Cfg) (s : St) : Bool :=
  (List.range s.thr.length).all fun t =>
    (step8 cfg s t .tau).isNone && (step8 cfg s t .start).isNone && (step8 cfg s t (.cbEnd false)).isNone &&
    (step8 cfg s t (.cbEnd true)).isNone && (List.range s.thr.length).all fun u => (step8 cfg s t (.confirm u)).isNone

/-- caller 0 adds task 1 (threshold 3; the flusher starts and rests in its select), flushes it itself, the callback
PANICS; caller 0 then calls Wait -/
def seeded8Schedule : List (Nat × Act) :=
  [(0, .add 1), (0, .tau), (0, .tau), (0, .tau), (0, .tau), (0, .tau), (2, .start),
   (0, .flush), (0, .tau), (0, .tau), (0, .tau), (0, .tau), (0, .tau), (0, .cbEnd true),
   (0, .wait), (0, .tau), (0, .tau), (0, .tau), (0, .tau), (0, .tau), (0, .tau), (0, .tau), (0, .tau)]

/-- **witness**: with `doneExecution` inside the RunSafe closure one panicking callback wedges the executor — the wait
group keeps the count of the panicked batch, the next `Wait` is parked in `waitGroup.Wait()` holding the barrier for
ever although every callback has ended: the panic loses far more than its own batch.  On the real table `mu_step` /
`panic_loses_own_batch_only` make the panicking end the same step as the returning one. -/
theorem done_inside_runsafe_wedges_wait :
    (run8 { full := bulkFull 3 } (init 3) seeded8Schedule).map
      (fun s => (stuck8 { full := bulkFull 3 } s, s.thr.map (·.pc), s.wg, s.barrier, s.finished)) =
      some (true, [.wWait, .idle, .bSelect false], 1, true, [1]) := by
  decide

/-- non-vacuity of `stuck_is_rest`: a reachable rest state with a task pending below the threshold and a flusher in
its select (caller 0 adds task 1 with threshold 3; the flusher starts) -/
example : ∃ s, Reachable { full := bulkFull 3 } s ∧ s.container = [1] ∧ s.thr.map (·.pc) = [.idle, .idle, .bSelect false] := by
  have hr : ∃ s, run { full := bulkFull 3 } (init 3)
      [(0, .add 1), (0, .tau), (0, .tau), (0, .tau), (0, .tau), (0, .tau), (2, .start)] = some s ∧
      s.container = [1] ∧ s.thr.map (·.pc) = [.idle, .idle, .bSelect false] := by decide
  obtain ⟨s, h1, h2⟩ := hr
  exact ⟨s, reachable_run (Reachable.init 3) _ h1, h2⟩

end GoZero.C11
