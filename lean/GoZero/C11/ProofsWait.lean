import GoZero.C11.Proofs
