/-
C11 — the Wait invariant (fixed code: Wait polls `inflight` before `waitGroup.Wait`, the flusher enters
execution before decrementing `inflight`):
  wg       = number of goroutines between wg.Add(1) and wg.Done()
  inflight = number of batches between RemoveAll in addAndCheck and the flusher's decrement
  a Wait caller's snapshot of `added` is covered, phase by phase, by what it still has to wait for.
-/
import GoZero.C11.Proofs
set_option linter.unusedSimpArgs false
set_option linter.unusedVariables false
namespace GoZero.C11

/-- between `wg.Add(1)` and `wg.Done()` -/
def entered : Pc → Bool
  | .fLock _ => true | .fRemove _ => true | .fUnlock _ => true | .fExec _ => true | .fCall _ => true
  | .fDone _ _ => true | .bDecF => true | .bConfirm => true | .bExec => true | .bCall => true | .bDone => true
  | _ => false

/-- counted in `inflight` -/
def limbo : Pc → Bool
  | .aRemove => true | .aGuard ok => ok | .aUnlock ok _ => ok | .aSpawn ok => ok | .aSend => true
  | .bEnterF => true | .bDecF => true
  | _ => false

/-- phases of a Wait caller: 1 = own RemoveAll done, 2 = saw inflight = 0, 3 = saw wg = 0 -/
def phase : Pc → Nat
  | .fUnlock c => if c = .wait then 1 else 0 | .fExec c => if c = .wait then 1 else 0
  | .fCall c => if c = .wait then 1 else 0 | .fDone c _ => if c = .wait then 1 else 0 | .wSpin => 1
  | .wBarrier => 2 | .wWait => 2 | .wUnbarrier => 3
  | _ => 0

def e01 (pc : Pc) : Nat := if entered pc then 1 else 0
def l01 (pc : Pc) : Nat := if limbo pc then 1 else 0
def eterm (x : Task) (th : Thread) : Nat := if entered th.pc then th.reg.count x else 0
def nEntered (s : St) : Nat := sumBy (fun th => e01 th.pc) s.thr
def nLimbo (s : St) : Nat := sumBy (fun th => l01 th.pc) s.thr
def eHeld (x : Task) (s : St) : Nat := sumBy (eterm x) s.thr
def cmd01 (s : St) : Nat := if s.commander.isSome then 1 else 0

def phaseOk (s : St) (th : Thread) : Prop :=
  ∀ x, (phase th.pc = 1 → th.snap.count x + s.container.count x ≤ s.added.count x) ∧
       (phase th.pc = 2 → th.snap.count x ≤ s.finished.count x + eHeld x s) ∧
       (phase th.pc = 3 → th.snap.count x ≤ s.finished.count x)

structure WInv (s : St) : Prop where
  inv : Inv s
  wg : s.wg = nEntered s
  infl : s.inflight = ((nLimbo s + cmd01 s : Nat) : Int)
  nopinned : ∀ (t : Nat) (th : Thread), s.thr[t]? = some th → th.pc ≠ .bDec ∧ th.pc ≠ .bEnter
  snapLe : ∀ (t : Nat) (th : Thread), s.thr[t]? = some th → ∀ x, th.snap.count x ≤ s.added.count x
  ph : ∀ (t : Nat) (th : Thread), s.thr[t]? = some th → phaseOk s th

theorem sumBy_le_sumBy (f g : Thread → Nat) (l : List Thread)
    (h : ∀ (t : Nat) (th : Thread), l[t]? = some th → f th ≤ g th) : sumBy f l ≤ sumBy g l := by
  induction l with
  | nil => simp [sumBy]
  | cons a l ih =>
    have h0 := h 0 a (by simp)
    have := ih (fun t th ht => h (t + 1) th (by simpa using ht))
    simp [sumBy_cons]; omega

theorem sumBy_zero_mem (f : Thread → Nat) {l : List Thread} (h : sumBy f l = 0) {t : Nat} {th : Thread}
    (ht : l[t]? = some th) : f th = 0 := by
  have := sumBy_mem_le f ht; omega

theorem sumBy_eq_zero (f : Thread → Nat) (l : List Thread)
    (h : ∀ (t : Nat) (th : Thread), l[t]? = some th → f th = 0) : sumBy f l = 0 := by
  have := sumBy_le_sumBy f (fun _ => 0) l (fun t th ht => by rw [h t th ht]; exact Nat.le_refl 0)
  have h0 : sumBy (fun _ => 0) l = 0 := by
    induction l with
    | nil => rfl
    | cons a l ih => simp [sumBy_cons]; exact ih (fun t th ht => h (t + 1) th (by simpa using ht)) (sumBy_le_sumBy _ _ _ (fun t th ht => by rw [h (t+1) th (by simpa using ht)]; exact Nat.le_refl 0))
  omega


theorem phaseOk_mono (s s' : St) (th th' : Thread) (hp : phase th'.pc = phase th.pc) (hs : th'.snap = th.snap)
    (m1 : ∀ x, s'.container.count x + s.added.count x ≤ s.container.count x + s'.added.count x)
    (m2 : ∀ x, s.finished.count x + eHeld x s ≤ s'.finished.count x + eHeld x s')
    (m3 : ∀ x, s.finished.count x ≤ s'.finished.count x) (h : phaseOk s th) : phaseOk s' th' := by
  intro x
  obtain ⟨a1, a2, a3⟩ := h x
  have b1 := m1 x; have b2 := m2 x; have b3 := m3 x
  rw [hp, hs]
  refine ⟨fun h1 => ?_, fun h2 => ?_, fun h3 => ?_⟩
  · have := a1 h1; omega
  · have := a2 h2; omega
  · have := a3 h3; omega

theorem winv_upd (s s0 : St) (t : Nat) (th th' : Thread) (hw : WInv s) (hthr : s0.thr = s.thr)
    (hth : s.thr[t]? = some th)
    (hinv : Inv (s0.upd t th'))
    (m1 : ∀ x, s0.container.count x + s.added.count x ≤ s.container.count x + s0.added.count x)
    (m2 : ∀ x, s.finished.count x + eterm x th ≤ s0.finished.count x + eterm x th')
    (m3 : ∀ x, s.finished.count x ≤ s0.finished.count x)
    (hwg : s0.wg + e01 th.pc = s.wg + e01 th'.pc)
    (hinf : s0.inflight + ((l01 th.pc + cmd01 s : Nat) : Int) = s.inflight + ((l01 th'.pc + cmd01 s0 : Nat) : Int))
    (hnp : th'.pc ≠ .bDec ∧ th'.pc ≠ .bEnter)
    (hsnap : ∀ x, th'.snap.count x ≤ s0.added.count x)
    (hadd : ∀ x, s.added.count x ≤ s0.added.count x)
    (hown : (phase th'.pc = phase th.pc ∧ th'.snap = th.snap) ∨ phaseOk (s0.upd t th') th') :
    WInv (s0.upd t th') := by
  have hth0 : s0.thr[t]? = some th := by rw [hthr]; exact hth
  have hE : ∀ x, eHeld x (s0.upd t th') + eterm x th = eHeld x s + eterm x th' := by
    intro x
    have h2 := sumBy_set (eterm x) hth th'
    have h3 := sumBy_mem_le (eterm x) hth
    simp only [eHeld, St.upd, hthr]; omega
  have mono : ∀ (tu tu' : Thread), phase tu'.pc = phase tu.pc → tu'.snap = tu.snap → phaseOk s tu →
      phaseOk (s0.upd t th') tu' := by
    intro tu tu' hp hs h
    refine phaseOk_mono s _ tu tu' hp hs (fun x => ?_) (fun x => ?_) (fun x => ?_) h
    · simpa [St.upd] using m1 x
    · have := hE x; have := m2 x; simp only [St.upd] at *; omega
    · simpa [St.upd] using m3 x
  constructor
  · exact hinv
  · have h2 := sumBy_set (fun th => e01 th.pc) hth th'
    have h3 := sumBy_mem_le (fun th => e01 th.pc) hth
    have := hw.wg
    simp only [nEntered, St.upd, hthr] at *; omega
  · have h2 := sumBy_set (fun th => l01 th.pc) hth th'
    have h3 := sumBy_mem_le (fun th => l01 th.pc) hth
    have := hw.infl
    have hc : cmd01 (s0.upd t th') = cmd01 s0 := rfl
    rw [hc]
    simp only [nLimbo, St.upd, hthr] at *; omega
  · intro u tu hu
    rw [getElem?_upd, hthr] at hu
    split at hu
    · split at hu
      · simp at hu; subst hu; exact hnp
      · simp at hu
    · exact hw.nopinned u tu hu
  · intro u tu hu x
    rw [getElem?_upd, hthr] at hu
    split at hu
    · split at hu
      · simp at hu; subst hu; exact hsnap x
      · simp at hu
    · have := hw.snapLe u tu hu x; have := hadd x; simp only [St.upd]; omega
  · intro u tu hu
    rw [getElem?_upd, hthr] at hu
    split at hu
    · split at hu
      · simp at hu; subst hu
        rcases hown with ⟨hp, hs⟩ | h
        · exact mono th th' hp hs (hw.ph t th hth)
        · exact h
      · simp at hu
    · exact mono tu tu rfl rfl (hw.ph u tu hu)

theorem holds_cases (pc : Pc) (h : holds pc = true) :
    entered pc = true ∨ limbo pc = true ∨ pc = .bDec ∨ pc = .bEnter := by
  cases pc <;> simp_all [holds, entered, limbo]

theorem eHeld_upd (s : St) (t : Nat) (th th' : Thread) (hth : s.thr[t]? = some th) (x : Task) :
    eHeld x (s.upd t th') + eterm x th = eHeld x s + eterm x th' := by
  have h2 := sumBy_set (eterm x) hth th'
  have h3 := sumBy_mem_le (eterm x) hth
  simp only [eHeld, St.upd]; omega

theorem spin_pass (s : St) (hw : WInv s) (hin : ¬ s.inflight > 0) (t : Nat) (th : Thread)
    (hth : s.thr[t]? = some th) (hpc : th.pc = .wSpin) (x : Task) :
    th.snap.count x ≤ s.finished.count x + eHeld x s := by
  have h1 := ((hw.ph t th hth) x).1 (by simp [hpc, phase])
  have h2 := hw.inv.cons x
  have h3 := hw.infl
  have hl : nLimbo s = 0 := by omega
  have hc : cmd01 s = 0 := by omega
  have hcmd : cmdCount x s = 0 := by
    unfold cmd01 at hc; unfold cmdCount
    cases hcm : s.commander <;> simp_all
  have hle : held x s ≤ eHeld x s := by
    apply sumBy_le_sumBy
    intro u tu hu
    have hl0 := sumBy_zero_mem _ hl hu
    simp only [eterm]
    by_cases hh : holds tu.pc = true
    · rcases holds_cases _ hh with h | h | h | h
      · simp [h]
      · simp [l01, h] at hl0
      · exact absurd h (hw.nopinned u tu hu).1
      · exact absurd h (hw.nopinned u tu hu).2
    · have := hw.inv.empty u tu hu (by simpa using hh)
      simp [this]
  omega

theorem wg_pass (s : St) (hw : WInv s) (h0 : s.wg = 0) (x : Task) : eHeld x s = 0 := by
  have h1 := hw.wg
  apply sumBy_eq_zero
  intro u tu hu
  have := sumBy_zero_mem (fun th => e01 th.pc) (by unfold nEntered at h1; omega) hu
  simp only [e01] at this
  simp only [eterm]
  split <;> simp_all


theorem winv_init (n : Nat) : WInv (init n) := by
  refine ⟨inv_init n, ?_, ?_, ?_, ?_, ?_⟩
  · simp [init, nEntered, sumBy_replicate, e01, entered]
  · simp [init, nLimbo, sumBy_replicate, l01, limbo, cmd01]
  · intro t th h
    simp [init, List.getElem?_replicate] at h
    obtain ⟨_, rfl⟩ := h; simp
  · intro t th h x
    simp [init, List.getElem?_replicate] at h
    obtain ⟨_, rfl⟩ := h; simp
  · intro t th h x
    simp [init, List.getElem?_replicate] at h
    obtain ⟨_, rfl⟩ := h; simp [phase]

end GoZero.C11
