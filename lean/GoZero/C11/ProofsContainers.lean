/-
C11 — lemmas about Go's `append` over the slice heap and the container laws (used by PropsContainers.lean).
-/
import GoZero.C11.Containers
namespace GoZero.C11

variable {α : Type}

namespace Heap

theorem read_nil (h : Heap α) : h.read {} = [] := by simp [read]

theorem read_length (h : Heap α) (s : Slice) (hw : h.Wf s) : (h.read s).length = s.len := by
  unfold read
  rcases hw with ⟨h0, h1⟩ | ⟨hc, _, hlen, _⟩
  · simp [h0, h1]
  · simp only [hc, ↓reduceIte, List.length_take]; omega

/-- after `append` the slice shows the old elements and the new one -/
theorem append_read_self (grow : Nat → Nat) (h : Heap α) (s : Slice) (x : α) (hw : h.Wf s) :
    (h.append grow s x).1.read (h.append grow s x).2 = h.read s ++ [x] := by
  unfold append
  split
  · rename_i hlt
    rcases hw with ⟨h0, _⟩ | ⟨hc, harr, hlen, _⟩
    · omega
    · have hget : h.arrs[s.arr]? = some h.arrs[s.arr] := List.getElem?_eq_getElem harr
      simp only [hget, Option.getD_some] at hlen
      simp only [read, hc, ↓reduceIte, List.getElem?_set_self harr, Option.getD_some, hget]
      rw [List.append_assoc]
      have h1 : (List.take s.len h.arrs[s.arr] ++ [x]).length = s.len + 1 := by
        simp only [List.length_append, List.length_take, List.length_cons, List.length_nil]; omega
      rw [← List.append_assoc]
      exact List.take_left' h1
  · rename_i hge
    have hcap : s.len + 1 + grow (s.len + 1) ≠ 0 := by omega
    simp only [read, hcap, ↓reduceIte, List.getElem?_append_right (Nat.le_refl _), Nat.sub_self,
      List.getElem?_cons_zero, Option.getD_some]
    apply List.take_of_length_le
    have := read_length h s hw
    simp only [read] at this
    simp only [List.length_append, List.length_cons, List.length_nil]
    omega

theorem append_wf (grow : Nat → Nat) (h : Heap α) (s : Slice) (x : α) (hw : h.Wf s) :
    (h.append grow s x).1.Wf (h.append grow s x).2 := by
  unfold append
  split
  · rename_i hlt
    rcases hw with ⟨h0, _⟩ | ⟨hc, harr, hlen, _⟩
    · omega
    · right
      have hget : h.arrs[s.arr]? = some h.arrs[s.arr] := List.getElem?_eq_getElem harr
      simp only [hget, Option.getD_some] at hlen
      refine ⟨hc, by simpa using harr, ?_, by simp only []; omega⟩
      simp only [List.getElem?_set_self harr, Option.getD_some, hget]
      simp only [List.length_append, List.length_take, List.length_cons, List.length_nil, List.length_drop]
      omega
  · right
    have hl := read_length h s hw
    refine ⟨by simp only []; omega, by simp, ?_, by simp only []; omega⟩
    simp only [List.getElem?_append_right (Nat.le_refl _), Nat.sub_self, List.getElem?_cons_zero, Option.getD_some,
      List.length_append, List.length_cons, List.length_nil, hl]
    omega

/-- `append` to `s` leaves every slice over another array alone, and the result still cannot write into it -/
theorem append_frame (grow : Nat → Nat) (h : Heap α) (s b : Slice) (x : α) (hk : h.Known b)
    (ha : Apart s b) :
    (h.append grow s x).1.read b = h.read b ∧ (h.append grow s x).1.Known b ∧ Apart (h.append grow s x).2 b := by
  by_cases hb : b.cap = 0
  · exact ⟨by simp [read, hb], Or.inl hb, Or.inr (Or.inl hb)⟩
  · have hbl : b.arr < h.arrs.length := by
      rcases hk with h0 | h1
      · exact absurd h0 hb
      · exact h1
    unfold append
    split
    · rename_i hlt
      have hne : s.arr ≠ b.arr := by
        rcases ha with h0 | h0 | h1
        · omega
        · exact absurd h0 hb
        · exact h1
      refine ⟨?_, Or.inr (by simpa using hbl), Or.inr (Or.inr hne)⟩
      simp only [read, hb, ↓reduceIte]
      rw [List.getElem?_set_ne hne]
    · refine ⟨?_, Or.inr (by simp; omega), Or.inr (Or.inr (by simp; omega))⟩
      simp only [read, hb, ↓reduceIte]
      rw [List.getElem?_append_left hbl]

theorem append_len (grow : Nat → Nat) (h : Heap α) (s : Slice) (x : α) : (h.append grow s x).2.len = s.len + 1 := by
  unfold append; split <;> rfl

theorem wf_nil (h : Heap α) : h.Wf {} := Or.inl ⟨rfl, rfl⟩

theorem wf_known (h : Heap α) (s : Slice) (hw : h.Wf s) : h.Known s := by
  rcases hw with ⟨h0, _⟩ | ⟨_, h1, _⟩
  · exact Or.inl h0
  · exact Or.inr h1

end Heap

/-! ### the three containers obey the laws -/

theorem bulk_lawful (grow : Nat → Nat) : Lawful (bulkTC (α := α) grow) where
  add_pending := fun h c x hi => Heap.append_read_self grow h c.tasks x hi
  add_full := by
    intro h c x hi
    simp only [bulkTC, BulkC.addTask, Heap.append_len, List.length_append, List.length_cons, List.length_nil,
      Heap.read_length h c.tasks hi]
  add_inv := fun h c x hi => Heap.append_wf grow h c.tasks x hi
  add_frame := fun h c x b _ hk ha => Heap.append_frame grow h c.tasks b x hk ha
  remove_batch := fun _ => rfl
  remove_nil := fun _ => rfl
  remove_inv := fun h _ _ => Heap.wf_nil h
  remove_known := fun h c hi => Heap.wf_known h c.tasks hi
  full_add := fun _ _ _ => rfl
  full_remove := fun _ => rfl

theorem sql_lawful (grow : Nat → Nat) : Lawful (sqlTC (α := α) grow) where
  add_pending := fun h c x hi => Heap.append_read_self grow h c.values x hi
  add_full := by
    intro h c x hi
    simp only [sqlTC, SqlC.addTask, Heap.append_len, List.length_append, List.length_cons, List.length_nil,
      Heap.read_length h c.values hi]
  add_inv := fun h c x hi => Heap.append_wf grow h c.values x hi
  add_frame := fun h c x b _ hk ha => Heap.append_frame grow h c.values b x hk ha
  remove_batch := fun _ => rfl
  remove_nil := fun _ => rfl
  remove_inv := fun h _ _ => Heap.wf_nil h
  remove_known := fun h c hi => Heap.wf_known h c.values hi
  full_add := fun _ _ _ => rfl
  full_remove := fun _ => rfl

theorem chunk_lawful (grow : Nat → Nat) (size : α → Int) : Lawful (chunkTC grow size) where
  add_pending := fun h c x hi => Heap.append_read_self grow h c.tasks x hi.1
  add_full := by
    intro h c x hi
    simp only [chunkTC, ChunkC.addTask, hi.2, List.map_append, List.sum_append, List.map_cons, List.map_nil,
      List.sum_cons, List.sum_nil, Int.add_zero]
  add_inv := by
    intro h c x hi
    refine ⟨Heap.append_wf grow h c.tasks x hi.1, ?_⟩
    have := Heap.append_read_self grow h c.tasks x hi.1
    simp only [chunkTC, ChunkC.addTask, this, hi.2, List.map_append, List.sum_append, List.map_cons, List.map_nil,
      List.sum_cons, List.sum_nil, Int.add_zero]
  add_frame := fun h c x b _ hk ha => Heap.append_frame grow h c.tasks b x hk ha
  remove_batch := fun _ => rfl
  remove_nil := fun _ => rfl
  remove_inv := fun h _ _ => ⟨Heap.wf_nil h, by simp [chunkTC, ChunkC.removeAll, Heap.read]⟩
  remove_known := fun h c hi => Heap.wf_known h c.tasks hi.1
  full_add := fun _ _ _ => rfl
  full_remove := fun _ => rfl

/-! ### consequences of the laws, for every run -/

variable {σ : Type}

/-- a slice that was handed out keeps its contents through every later run of the container -/
theorem runC_stable {C : TaskContainer σ α} (law : Lawful C) :
    ∀ (ops : List (COp α)) (h : Heap α) (c : σ) (b : Slice), C.inv h c → h.Known b → Heap.Apart (C.tasks c) b →
      (runC C h c ops).1.read b = h.read b := by
  intro ops
  induction ops with
  | nil => intro h c b _ _ _; rfl
  | cons op ops ih =>
    intro h c b hi hk ha
    cases op with
    | add x =>
      have hf := law.add_frame h c x b hi hk ha
      simp only [runC]
      rw [ih _ _ b (law.add_inv h c x hi) hf.2.1 hf.2.2, hf.1]
    | removeAll =>
      simp only [runC]
      exact ih h _ b (law.remove_inv h c hi) hk (Or.inl (law.remove_nil c))

theorem runC_refines {C : TaskContainer σ α} (law : Lawful C) :
    ∀ (ops : List (COp α)) (h : Heap α) (c : σ), C.inv h c →
      (runC C h c ops).2.2.map (COut.view (runC C h c ops).1) = (runA (C.full c) (h.read (C.tasks c)) ops).2 ∧
      (runC C h c ops).1.read (C.tasks (runC C h c ops).2.1) = (runA (C.full c) (h.read (C.tasks c)) ops).1 := by
  intro ops
  induction ops with
  | nil => intro h c _; exact ⟨rfl, rfl⟩
  | cons op ops ih =>
    intro h c hi
    cases op with
    | add x =>
      have := ih _ _ (law.add_inv h c x hi)
      rw [law.full_add, law.add_pending h c x hi] at this
      simp only [runC, runA, List.map_cons, COut.view, this.1, this.2, law.add_full h c x hi, and_self]
    | removeAll =>
      have := ih h _ (law.remove_inv h c hi)
      have hnil : h.read (C.tasks (C.removeAll c).1) = [] := by simp [Heap.read, law.remove_nil c]
      rw [law.full_remove, hnil] at this
      have hst := runC_stable law ops h (C.removeAll c).1 (C.tasks c) (law.remove_inv h c hi) (law.remove_known h c hi)
        (Or.inl (law.remove_nil c))
      simp only [runC, runA, List.map_cons, COut.view, this.1, this.2, law.remove_batch c, hst, and_self]

end GoZero.C11
