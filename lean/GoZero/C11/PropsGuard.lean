/-
C11 — "on the periodic flush": while tasks are pending in the container, somebody is committed to flush them.
This was a run-time monitor only ("tasks … are pending in the container but no background flusher exists") up to
round 4; here it is an inductive invariant of the step table, for every configuration, schedule and number of
goroutines.  It is the theorem in which the flusher's DEFERRED quit-time Flush takes part: an Add can slip in
between the flusher's empty tick Flush and its quit decision — then the container is not empty, `guarded` is
reset, no flusher is alive, and only the quitting goroutine's deferred Flush stands between the task and oblivion.
-/
import GoZero.C11.ProofsGuard
namespace GoZero.C11

theorem exists_of_sumBy_pos (f : Thread → Nat) (l : List Thread) (h : 0 < sumBy f l) :
    ∃ (t : Nat) (th : Thread), l[t]? = some th ∧ 0 < f th := by
  induction l with
  | nil => simp [sumBy] at h
  | cons a l ih =>
    rw [sumBy_cons] at h
    by_cases ha : 0 < f a
    · exact ⟨0, a, by simp, ha⟩
    · obtain ⟨t, th, ht, hf⟩ := ih (by omega)
      exact ⟨t + 1, th, by simpa using ht, hf⟩

theorem exists_of_cnt_pos (p : Pc → Bool) (s : St) (h : 0 < cnt p s) :
    ∃ (t : Nat) (th : Thread), s.thr[t]? = some th ∧ p th.pc = true := by
  obtain ⟨t, th, ht, hf⟩ := exists_of_sumBy_pos _ _ h
  refine ⟨t, th, ht, ?_⟩
  cases hp : p th.pc <;> simp [hp, b2n] at hf ⊢

/-- the invariant holds in every reachable configuration -/
theorem guard_invariant_reachable (cfg : Cfg) (s : St) (h : Reachable cfg s) : GInv s := ginv_reachable h

/-- **pending tasks have a flusher** (every cfg, schedule, number of goroutines): while the container is not empty,
there is a goroutine that will flush it without any further call of the API —
a live background flusher (between its start and its quit decision: its next tick flushes), or the `go` of one is
pending (spawn token) or about to be issued by a producer that has set `guarded`, or a producer is still inside
`addAndCheck` before the deferred guard check (it will start one, or one exists), or a flusher that has decided to
quit has not yet run its deferred `Flush` (which takes the whole container: `flush_takes_all_pending`). -/
theorem pending_tasks_have_a_flusher (cfg : Cfg) (s : St) (h : Reachable cfg s) (hc : s.container ≠ []) :
    0 < s.spawn ∨ ∃ (t : Nat) (th : Thread), s.thr[t]? = some th ∧
      (flusherPc th.pc = true ∨ spawning th.pc = true ∨ preGuard th.pc = true ∨ quitting th.pc = true) := by
  have gi := ginv_reachable h
  have hp := gi.pending hc
  by_cases hg : s.guarded = true
  · have ha := gi.alive hg
    by_cases h0 : 0 < s.spawn
    · exact Or.inl h0
    · right
      by_cases h1 : 0 < cnt spawning s
      · obtain ⟨t, th, ht, hq⟩ := exists_of_cnt_pos _ _ h1
        exact ⟨t, th, ht, Or.inr (Or.inl hq)⟩
      · obtain ⟨t, th, ht, hq⟩ := exists_of_cnt_pos flusherPc s (by omega)
        exact ⟨t, th, ht, Or.inl hq⟩
  · right
    have hg' : s.guarded = false := by cases hs : s.guarded <;> simp_all
    rw [hg'] at hp
    simp only [b2n_false] at hp
    by_cases h1 : 0 < cnt preGuard s
    · obtain ⟨t, th, ht, hq⟩ := exists_of_cnt_pos _ _ h1
      exact ⟨t, th, ht, Or.inr (Or.inr (Or.inl hq))⟩
    · obtain ⟨t, th, ht, hq⟩ := exists_of_cnt_pos quitting s (by omega)
      exact ⟨t, th, ht, Or.inr (Or.inr (Or.inr hq))⟩

/-- `guarded` means what the protocol needs: while it is set, a background flusher is alive or on its way -/
theorem guarded_means_flusher_alive (cfg : Cfg) (s : St) (h : Reachable cfg s) (hg : s.guarded = true) :
    0 < s.spawn ∨ ∃ (t : Nat) (th : Thread), s.thr[t]? = some th ∧ (flusherPc th.pc = true ∨ spawning th.pc = true) := by
  have ha := (ginv_reachable h).alive hg
  by_cases h0 : 0 < s.spawn
  · exact Or.inl h0
  · right
    by_cases h1 : 0 < cnt spawning s
    · obtain ⟨t, th, ht, hq⟩ := exists_of_cnt_pos _ _ h1
      exact ⟨t, th, ht, Or.inr hq⟩
    · obtain ⟨t, th, ht, hq⟩ := exists_of_cnt_pos flusherPc s (by omega)
      exact ⟨t, th, ht, Or.inl hq⟩

/-! ### the deferred quit-time Flush is load-bearing: a witness -/

/-- caller 0 adds task 1 (threshold 3), the flusher (goroutine 2) flushes it on a tick; 11 intervals later the next
tick finds nothing, the flusher is past the idle bound and on its way to the lock of `shallQuit` when caller 0 adds
task 2 (sees `guarded`, starts nobody); the flusher then resets `guarded` and decides to quit. -/
def quitWindowSchedule : List (Nat × Act) :=
  [(0, .add 1), (0, .tau), (0, .tau), (0, .tau), (0, .tau), (0, .tau), (2, .start),
   (2, .tick), (2, .tau), (2, .tau), (2, .tau), (2, .tau), (2, .tau), (2, .cbEnd false), (2, .tau),
   (0, .advance 11),
   (2, .tick), (2, .tau), (2, .tau), (2, .tau), (2, .tau), (2, .tau), (2, .tau), (2, .tau),
   (0, .add 2), (0, .tau), (0, .tau), (0, .tau), (0, .tau),
   (2, .tau), (2, .tau), (2, .tau)]

/-- **witness**: a reachable configuration in which a task is pending, `guarded` is reset, no `go` is pending and
the ONLY goroutine that is not idle is the flusher that has decided to quit — the `quitting` disjunct of
`pending_tasks_have_a_flusher` cannot be dropped, i.e. without `defer pe.Flush()` in `backgroundFlush` task 2 would
never be executed unless somebody calls the API again.  Three more steps of that goroutine take the task. -/
theorem quit_time_flush_is_needed :
    (run { full := bulkFull 3, interval := 1 } (init 3) quitWindowSchedule).map
      (fun s => (s.container, s.guarded, s.spawn, s.thr.map (·.pc))) =
      some ([2], false, 0, [.idle, .idle, .fEnter .quit]) ∧
    ((run { full := bulkFull 3, interval := 1 } (init 3) (quitWindowSchedule ++ [(2, .tau), (2, .tau), (2, .tau)])).map
      (fun s => (s.container, s.thr[2]?.map (·.reg)))) = some ([], some [2]) := by
  decide

/-- non-vacuity of `pending_tasks_have_a_flusher`: the witness state is reachable and its container is not empty -/
example : ∃ s, Reachable { full := bulkFull 3, interval := 1 } s ∧ s.container = [2] ∧ s.guarded = false := by
  have hr : ∃ s, run { full := bulkFull 3, interval := 1 } (init 3) quitWindowSchedule = some s ∧
      s.container = [2] ∧ s.guarded = false := by decide
  obtain ⟨s, h1, h2⟩ := hr
  exact ⟨s, reachable_run (Reachable.init 3) _ h1, h2⟩

end GoZero.C11
