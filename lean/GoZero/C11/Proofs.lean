/-
C11 — helper lemmas: sums over the goroutine list, the conservation invariant and its preservation.
-/
import GoZero.C11.Model
set_option linter.unusedSimpArgs false
namespace GoZero.C11

def sumBy (f : Thread → Nat) (l : List Thread) : Nat := (l.map f).sum

theorem sumBy_nil (f : Thread → Nat) : sumBy f [] = 0 := rfl
theorem sumBy_cons (f : Thread → Nat) (a : Thread) (l : List Thread) : sumBy f (a :: l) = f a + sumBy f l := by
  simp [sumBy]

theorem sumBy_mem_le (f : Thread → Nat) {l : List Thread} {t : Nat} {th : Thread} (h : l[t]? = some th) :
    f th ≤ sumBy f l := by
  induction l generalizing t with
  | nil => simp at h
  | cons a l ih =>
    cases t with
    | zero => simp at h; subst h; simp [sumBy_cons]
    | succ t => simp at h; have := ih h; simp [sumBy_cons]; omega

theorem sumBy_set (f : Thread → Nat) {l : List Thread} {t : Nat} {th : Thread} (h : l[t]? = some th) (th' : Thread) :
    sumBy f (l.set t th') = sumBy f l + f th' - f th := by
  induction l generalizing t with
  | nil => simp at h
  | cons a l ih =>
    cases t with
    | zero => simp at h; subst h; simp [sumBy_cons]; omega
    | succ t =>
      simp at h
      have := ih h
      have hle := sumBy_mem_le f h
      simp [sumBy_cons, this]; omega

theorem sumBy_replicate (f : Thread → Nat) (n : Nat) (a : Thread) : sumBy f (List.replicate n a) = n * f a := by
  induction n with
  | zero => simp [sumBy]
  | succ n ih => simp [List.replicate_succ, sumBy_cons, ih, Nat.succ_mul]; omega

/-- pcs at which the goroutine's register holds a batch -/
def holds : Pc → Bool
  | .aGuard ok => ok | .aUnlock ok _ => ok | .aSpawn ok => ok | .aSend => true
  | .fUnlock _ => true | .fExec _ => true | .fCall _ => true
  | .bDec => true | .bEnter => true | .bEnterF => true | .bDecF => true | .bConfirm => true
  | .bExec => true | .bCall => true
  | _ => false

def held (x : Task) (s : St) : Nat := sumBy (fun th => th.reg.count x) s.thr
def cmdCount (x : Task) (s : St) : Nat := match s.commander with | some b => b.count x | none => 0

/-- conservation: every accepted task is in exactly one place -/
structure Inv (s : St) : Prop where
  cons : ∀ x, s.added.count x = s.container.count x + cmdCount x s + held x s + s.finished.count x
  empty : ∀ (t : Nat) (th : Thread), s.thr[t]? = some th → holds th.pc = false → th.reg = []

theorem inv_init (n : Nat) : Inv (init n) := by
  constructor
  · intro x; simp [init, held, cmdCount, sumBy_replicate]
  · intro t th h _
    simp [init, List.getElem?_replicate] at h
    obtain ⟨_, rfl⟩ := h; rfl

theorem getElem?_upd (s : St) (t : Nat) (th' : Thread) (u : Nat) :
    (s.upd t th').thr[u]? = if t = u then (if t < s.thr.length then some th' else none) else s.thr[u]? := by
  simp [St.upd, List.getElem?_set]

theorem inv_upd (s0 : St) (t : Nat) (th th' : Thread) (hth : s0.thr[t]? = some th)
    (hcons : ∀ x, s0.added.count x + th.reg.count x
        = s0.container.count x + cmdCount x s0 + held x s0 + s0.finished.count x + th'.reg.count x)
    (hothers : ∀ (u : Nat) (tu : Thread), s0.thr[u]? = some tu → holds tu.pc = false → tu.reg = [])
    (hnew : holds th'.pc = false → th'.reg = []) : Inv (s0.upd t th') := by
  constructor
  · intro x
    have h1 := hcons x
    have h2 := sumBy_set (fun th => th.reg.count x) hth th'
    have h3 := sumBy_mem_le (fun th => th.reg.count x) hth
    simp only [held, cmdCount, St.upd] at *
    omega
  · intro u tu hu hp
    rw [getElem?_upd] at hu
    split at hu
    · split at hu
      · simp at hu; subst hu; exact hnew hp
      · simp at hu
    · exact hothers u tu hu hp

theorem inv_step (cfg : Cfg) (s s' : St) (t : Nat) (a : Act) (hi : Inv s) (h : step cfg s t a = some s') : Inv s' := by
  unfold step at h
  split at h
  · simp at h; subst h; exact ⟨hi.cons, hi.empty⟩
  · split at h
    · simp at h
    · rename_i th hth
      have hreg := hi.empty t th hth
      unfold stepTh at h
      split at h
      all_goals (try (split at h))
      all_goals (try (simp only [reduceCtorEq] at h; done))
      all_goals (try (
        simp only [Option.some.injEq] at h
        subst h
        simp [*, holds] at hreg
        refine inv_upd _ t th _ hth ?_ hi.empty ?_
        · intro x
          have := hi.cons x
          simp [cmdCount, held, List.count_append, *] at *
          try omega
        · simp_all [holds]; done))
      all_goals (try (split at h))
      all_goals (try (
        simp only [Option.some.injEq] at h
        subst h
        simp [*, holds] at hreg
        refine inv_upd _ t th _ hth ?_ hi.empty ?_
        · intro x
          have := hi.cons x
          simp [cmdCount, held, List.count_append, *] at *
          try omega
        · simp_all [holds]; done))
      -- bConfirm: the rendezvous moves two goroutines
      · rename_i u hpc _ _ tu hu hp
        simp only [Option.some.injEq] at h; subst h
        have h1 : Inv (s.upd t { th with pc := .bExec }) :=
          inv_upd s t th _ hth (by intro x; have := hi.cons x; simp; omega) hi.empty (by simp [holds])
        have hne : t ≠ u := by
          rintro rfl; rw [hth] at hu; cases hu; rw [hpc] at hp; cases hp
        have hu' : (s.upd t { th with pc := .bExec }).thr[u]? = some tu := by
          rw [getElem?_upd]; simp [hne, hu]
        refine inv_upd _ u tu _ hu' ?_ h1.empty ?_
        · intro x; have := h1.cons x; simp; omega
        · intro _; exact hi.empty u tu hu (by simp [hp, holds])
      · simp at h


theorem inv_reachable {cfg : Cfg} {s : St} (h : Reachable cfg s) : Inv s := by
  induction h with
  | init n => exact inv_init n
  | step t a _ hs ih => exact inv_step cfg _ _ t a ih hs

theorem reachable_run {cfg : Cfg} {s : St} (h : Reachable cfg s) (sched : List (Nat × Act)) {s' : St}
    (hr : run cfg s sched = some s') : Reachable cfg s' := by
  induction sched generalizing s with
  | nil => simp [run] at hr; subst hr; exact h
  | cons p rest ih =>
    obtain ⟨t, a⟩ := p
    simp only [run] at hr
    split at hr
    · simp at hr
    · rename_i s1 hs1
      exact ih (Reachable.step t a h hs1) hr

end GoZero.C11
