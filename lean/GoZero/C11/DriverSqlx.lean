/-
C11 — driver for the sqlx BulkInserter harness (core/stores/sqlx): the inserter's container is the model's bulk
container with the threshold `maxBulkRows`; one sequential caller, so the model is a counter.

cfg:  kind=sqlx max=<maxBulkRows>
ops:  ins <n> | flush | upd | stmt | wait
obs:  ok | sizes=<sorted sizes of the batches handed to Exec since the last wait> rows=<distinct rows seen>
      dup=<rows seen twice> bad=<unparsable statements>
-/
import GoZero.Base.Trace
import GoZero.C11.Model
namespace GoZero.C11

open GoZero

structure SqlxSt where
  pending : Nat := 0          -- rows in the container
  batches : List Nat := []    -- sizes of the batches taken out since the last wait
  total   : Nat := 0          -- rows inserted so far
  dead    : Bool := false

/-- one `Insert`: AddTask appends and asks the model's threshold predicate -/
def sqlxInsert (max : Int) (s : SqlxSt) : SqlxSt :=
  let p := s.pending + 1
  if bulkFull max (List.replicate p 0) then { s with pending := 0, batches := s.batches ++ [p], total := s.total + 1 }
  else { s with pending := p, total := s.total + 1 }

def sqlxFlush (s : SqlxSt) : SqlxSt :=
  if s.pending > 0 then { s with pending := 0, batches := s.batches ++ [s.pending] } else s

def sqlxLine (max : Int) (sec : Nat) (acc : Report × SqlxSt) (l : Line) : Report × SqlxSt := Id.run do
  let (r0, s) := acc
  let mut r := { r0 with ops := r0.ops + 1 }
  let impl := joinSp l.obs
  r := r.addCover ("sqlx-op-" ++ l.op.headD "?")
  if s.dead then return (r, s)
  match l.op with
  | ["ins", n] =>
    match n.toNat? with
    | none => return (r.mismatch sec l.idx "a number of rows" impl, { s with dead := true })
    | some n =>
      let s' := (List.range n).foldl (fun st _ => sqlxInsert max st) s
      if s'.batches.length > s.batches.length then r := r.addCover "sqlx-insert-reaches-maxBulkRows"
      if (s'.pending : Int) + 1 = max then r := r.addCover "sqlx-container-at-maxBulkRows-1"
      if s'.pending = 0 ∧ n > 0 then r := r.addCover "sqlx-insert-ends-exactly-at-threshold"
      if impl ≠ "ok" then r := r.mismatch sec l.idx "ok" impl
      return (r, s')
  | ["flush"] | ["upd"] | ["stmt"] =>
    if impl ≠ "ok" then r := r.mismatch sec l.idx "ok" impl
    if s.pending > 0 then r := r.addCover "sqlx-flush-takes-partial-batch"
    return (r, sqlxFlush s)
  | ["wait"] =>
    let s' := sqlxFlush s
    -- the property on the implementation's own observation
    let rows := kvNat l.obs "rows" 0
    if kvNat l.obs "dup" 0 > 0 then r := r.violation sec l.idx s!"sqlx BulkInserter: {kvNat l.obs "dup" 0} rows were handed to Exec twice"
    if rows < s'.total then r := r.violation sec l.idx s!"sqlx BulkInserter: {s'.total - rows} rows accepted by Insert were never executed although Wait has returned"
    if rows > s'.total then r := r.violation sec l.idx s!"sqlx BulkInserter: {rows - s'.total} rows reached Exec but were never inserted"
    let want := s!"sizes={if s'.batches.isEmpty then "-" else ",".intercalate ((sortNat s'.batches).map toString)} rows={s'.total} dup=0 bad=0"
    if want ≠ impl then r := r.mismatch sec l.idx want impl
    return (r, { s' with batches := [] })
  | _ => return (r.mismatch sec l.idx "a known op" impl, { s with dead := true })

def driverSqlx (secs : List Section) : Report :=
  secs.foldl (fun r s => (s.lines.foldl (sqlxLine (kvInt s.cfg "max" 1000) s.idx) (r, {})).1) {}

end GoZero.C11
